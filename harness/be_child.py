#!/usr/bin/env python3
"""child process of pyimpl.py for `be` cases: the library under its OTHER documented configuration,
`settings.ENDIANNESS = 'big'` (set before the other modules load).  The encodings are then not SSZ (the model covers the
little-endian configuration only), so only the configuration-independent clauses are decided here, python against python:
decoding the encoding of a value yields the same content and root, re-encodes to the same bytes, reports its true byte
length, is readable, and equals a freshly constructed value of the content it shows.
One case per line `<type sexp>\t<value sexp>`, one answer line of flags."""
import sys
import os
HERE = os.path.dirname(os.path.abspath(__file__))
sys.path.insert(0, os.environ.get('RMK_REPO', '/repo'))
sys.path.insert(0, HERE)
import remerkleable.settings as settings  # noqa: E402
settings.ENDIANNESS = 'big'
import pyimpl  # noqa: E402
from sexp import parse  # noqa: E402
import io  # noqa: E402


def run(t, v):
    T = pyimpl.mk_type(t)
    x = pyimpl.mk_val(t, v)
    b = x.encode_bytes()
    y = T.decode_bytes(b)
    st = io.BytesIO(b'\x07' * 3 + b + b'\x09' * 2)
    st.seek(3)
    z = T.deserialize(st, len(b))
    content = pyimpl.to_val(t, y)
    w = pyimpl.mk_val(t, parse(content))
    flags = [y.hash_tree_root() == x.hash_tree_root(), y.encode_bytes() == b, content == pyimpl.to_val(t, x),
             y.value_byte_length() == len(b), z.hash_tree_root() == x.hash_tree_root() and st.tell() == 3 + len(b),
             w.hash_tree_root() == y.hash_tree_root() and w.encode_bytes() == b, y == x,
             T.decode_bytes(y.encode_bytes()).hash_tree_root() == y.hash_tree_root()]
    return ''.join(str(int(f)) for f in flags)


for line in sys.stdin:
    line = line.rstrip('\n')
    if not line:
        continue
    try:
        t, v = line.split('\t')
        out = run(parse(t), parse(v))
    except Exception as e:
        out = 'err:%s' % type(e).__name__
    sys.stdout.write(out + '\n')
    sys.stdout.flush()
