"""Orchestrator: ./check Cnn quick|thorough [--replay file]

1. lake build + axiom audit of the property's theorems (obligations.json)
2. corpus + generated cases -> pyimpl.py (real code from /repo's working tree, fresh process)
   and rmkdrv (the Lean model) -> three-way comparison
3. failing-input search / shrinking, replay file, evidence, exit code
"""
import sys
import os
import json
import time
import subprocess
import hashlib
import re

HERE = os.path.dirname(os.path.abspath(__file__))
VERIF = os.path.dirname(HERE)
LEAN = os.path.join(VERIF, 'lean')
DRV = os.path.join(LEAN, '.lake', 'build', 'bin', 'rmkdrv')
PY = os.environ.get('RMK_PYTHON', '/venv/bin/python')
sys.path.insert(0, HERE)

from sexp import show, parse  # noqa: E402
from gen import Gen, kind, is_basic, is_fixed  # noqa: E402
import props  # noqa: E402

TRUSTED = [
    "Lean 4.33 kernel; axioms of every property theorem audited on each run to be within {propext, Quot.sound, Classical.choice}",
    "hand-written Lean model (Rmk/Model, Rmk/Spec, Rmk/Impl) tied to /repo only through this differential correspondence check",
    "harness (gen.py, pyimpl.py, check.py), driver parser/printer, executable SHA-256 of the driver (cross-checked with hashlib each run)",
    "CPython int/bytes/io.BytesIO/json/hashlib; settings.ENDIANNESS='little'; zero-hash table compared with zeroHash each run",
]


def log(*a):
    print(*a, file=sys.stderr, flush=True)


# ------------------------------------------------------------------------------------------------
# Lean side: build, audit

def lake_build():
    t0 = time.time()
    p = subprocess.run(['lake', 'build'], cwd=LEAN, capture_output=True, text=True)
    ok = p.returncode == 0 and os.path.exists(DRV)
    return ok, (p.stdout + p.stderr)[-4000:], time.time() - t0


FORBIDDEN = re.compile(r'\b(sorry|admit|native_decide|bv_decide|implemented_by|unsafe)\b|^axiom\s|maxHeartbeats 0')


def strip_comments(src):
    # remove block comments (nested) and line comments
    out = []
    i = 0
    depth = 0
    n = len(src)
    while i < n:
        if src.startswith('/-', i):
            depth += 1
            i += 2
        elif src.startswith('-/', i) and depth > 0:
            depth -= 1
            i += 2
        elif depth > 0:
            i += 1
        elif src.startswith('--', i):
            while i < n and src[i] != '\n':
                i += 1
        else:
            out.append(src[i])
            i += 1
    return ''.join(out)


def scan_sources():
    hits = []
    for root, _, files in os.walk(os.path.join(LEAN, 'Rmk')):
        for f in files:
            if f.endswith('.lean'):
                path = os.path.join(root, f)
                src = strip_comments(open(path).read())
                for ln, line in enumerate(src.split('\n'), 1):
                    if FORBIDDEN.search(line):
                        hits.append('%s:%d: %s' % (os.path.relpath(path, LEAN), ln, line.strip()[:80]))
    return hits


def audit(pid):
    """returns (obligations, discharged, details)"""
    obl = json.load(open(os.path.join(LEAN, 'obligations.json'))).get(pid, [])
    if not obl:
        return 0, 0, ['no obligations registered']
    p = subprocess.run(['lake', 'env', 'lean', 'Rmk/Audit.lean'], cwd=LEAN,
                       capture_output=True, text=True)
    details = []
    ok = 0
    allowed = {'propext', 'Quot.sound', 'Classical.choice'}
    seen = {}
    for line in p.stdout.split('\n'):
        if line.startswith('AUDIT '):
            rec = json.loads(line[6:])
            seen[rec['name']] = rec
    for name in obl:
        rec = seen.get(name)
        if rec is None:
            details.append('%s: not reported (%s)' % (name, p.stderr.strip()[-200:]))
        elif not rec['found']:
            details.append('%s: missing' % name)
        elif not rec['isTheorem']:
            details.append('%s: not a theorem' % name)
        elif not set(rec['axioms']) <= allowed:
            details.append('%s: axioms %s' % (name, rec['axioms']))
        else:
            ok += 1
            details.append('%s: ok %s' % (name, rec['axioms']))
    return len(obl), ok, details


# ------------------------------------------------------------------------------------------------
# running the two sides

TIER = ['quick']


def run_py(lines, timeout):
    env = dict(os.environ)
    env['PYTHONDONTWRITEBYTECODE'] = '1'
    if TIER[0] == 'thorough':
        env.setdefault('RMK_CASE_TIMEOUT', '120')   # deeper types and longer histories; the limit guards against hangs only
    p = subprocess.run([PY, '-B', os.path.join(HERE, 'pyimpl.py')], input='\n'.join(lines) + '\n',
                       capture_output=True, text=True, timeout=timeout, env=env)
    out = p.stdout.split('\n')
    if out and out[-1] == '':
        out.pop()
    return out, p.stderr, p.returncode


def run_model(lines, timeout):
    p = subprocess.run([DRV], input='\n'.join(lines) + '\n', capture_output=True, text=True, timeout=timeout)
    out = p.stdout.split('\n')
    if out and out[-1] == '':
        out.pop()
    return out, p.stderr, p.returncode


def toks(line):
    d = {}
    for t in line.split(';'):
        if '=' in t:
            k, v = t.split('=', 1)
            d[k] = v
    return d


class Infra(Exception):
    pass


def run_both(cases, timeout=600):
    """cases: list of case lines. returns list of (py dict, model dict)"""
    if not cases:
        return []
    try:
        po, perr, prc = run_py(cases, timeout)
    except subprocess.TimeoutExpired:
        raise Infra('python side timed out')
    if len(po) != len(cases):
        # the package (or a module) cannot be imported / the executor crashed: every case fails
        return [({'HARNESS': 'crash', 'stderr': perr[-2000:]}, {}) for _ in cases]
    mo, merr, mrc = run_model(cases, timeout)
    if len(mo) != len(cases):
        raise Infra('driver produced %d lines for %d cases: %s' % (len(mo), len(cases), merr[-500:]))
    return [(toks(a) if not a.startswith('HARNESS-ERROR') else {'HARNESS': a}, toks(b) if not b.startswith('PROTOCOL-ERROR') else {'PROTOCOL': b})
            for a, b in zip(po, mo)]


# ------------------------------------------------------------------------------------------------

def evaluate(P, cases, stats):
    """run cases, apply the property's comparison rules. returns list of findings:
       dict(case, cls ('prop' | 'corr' | 'model'), key, py, model)"""
    res = run_both([c for c in cases])
    findings = []
    timeouts = []
    for c, (py, mo) in zip(cases, res):
        if 'PROTOCOL' in mo:
            raise Infra('driver rejected case %s' % c)
        if 'p.timeout' in py:
            if P.pid in ('C03', 'C09', 'C10'):
                findings.append(dict(case=c, cls='prop', key='decoding did not terminate within the per-case limit',
                                     py='timeout=' + py['p.timeout'], model=''))
                continue
            if P.pid == 'C19':
                findings.append(dict(case=c, cls='prop', key='the cost of a history of single mutations is not bounded by the changed paths (per-case time / memory limit exceeded)',
                                     py='timeout=' + py['p.timeout'], model=''))
                continue
            # for the other properties a time-out alone is an infrastructure problem (exit 2) - but the remaining cases are
            # still evaluated: if the property's own predicate fails on one of them, that is what gets reported
            timeouts.append('case timed out (%s s) on the python side: %s' % (py['p.timeout'], c[:300]))
            continue
        if 'HARNESS' in py:
            if py['HARNESS'] == 'crash':
                findings.append(dict(case=c, cls='prop', key='import/crash', py=py.get('stderr', '')[-800:], model=''))
                continue
            # an exception that escaped the executor on this case: an infrastructure problem (exit 2) — but, as with time-outs, the
            # remaining cases are still evaluated: if the property's own predicate fails on one of them, that is what gets reported
            timeouts.append('harness error on case %s: %s' % (c, py['HARNESS']))
            continue
        for f in P.compare(parse(c), py, mo, stats):
            f['case'] = c
            findings.append(f)
    if timeouts and not any(f['cls'] == 'prop' for f in findings):
        raise Infra(timeouts[0])
    return findings


def shrink(P, finding):
    """greedy shrinking of the case while the same class of finding persists"""
    case = parse(finding['case'])
    cls = finding['cls']
    budget = 60
    changed = True
    while changed and budget > 0:
        changed = False
        for cand in P.shrink_candidates(case):
            budget -= 1
            if budget <= 0:
                break
            try:
                fs = evaluate(P, [show(cand)], None)
            except Infra:
                continue
            fs = [f for f in fs if f['cls'] == cls]
            if fs:
                case = cand
                finding = fs[0]
                changed = True
                break
    return finding


def write_replay(pid, seed, k, finding, note=None):
    d = os.path.join(VERIF, 'replays')
    os.makedirs(d, exist_ok=True)
    path = os.path.join(d, '%s-%d-%d.json' % (pid, seed, k))
    rec = dict(property=pid, seed=seed, case=finding.get('case'), cls=finding.get('cls'), key=finding.get('key'),
               python=finding.get('py'), model=finding.get('model'), note=note,
               reproduce="echo '%s' | %s -B %s/pyimpl.py   # and the same line to lean/.lake/build/bin/rmkdrv" % (
                   finding.get('case'), PY, HERE))
    json.dump(rec, open(path, 'w'), indent=1)
    return path


def main():
    args = sys.argv[1:]
    if args and args[0] == '--setup':
        ok, out, dt = lake_build()
        print(out[-1500:])
        sys.exit(0 if ok else 2)
    pid = args[0]
    P = props.get(pid)
    if len(args) >= 3 and args[1] == '--replay':
        rec = json.load(open(args[2]))
        ok, out, dt = lake_build()
        fs = evaluate(P, [rec['case']], None) if rec.get('case') else []
        for f in fs:
            print('replay finding:', json.dumps(f)[:2000])
        if fs:
            print('VIOLATION property=%s replay=%s' % (pid, args[2]))
            sys.exit(1)
        print('replay: no finding')
        sys.exit(0)
    tier = args[1] if len(args) > 1 else os.environ.get('VERIF_TIER', 'quick')
    TIER[0] = tier
    seed = int(os.environ.get('VERIF_SEED', '0'))
    t0 = time.time()
    known = json.load(open(os.path.join(VERIF, 'known_findings.json')))

    # 1. Lean side
    build_ok, build_out, build_s = lake_build()
    hits = scan_sources()
    if build_ok:
        n_obl, n_ok, details = audit(pid)
    else:
        n_obl, n_ok, details = len(json.load(open(os.path.join(LEAN, 'obligations.json'))).get(pid, [])), 0, ['lake build failed: ' + build_out[-600:]]
    proof_ok = build_ok and not hits and n_obl > 0 and n_ok == n_obl
    if os.environ.get('RMK_SKIP_PROOF'):   # development aid only (never used by registered commands)
        proof_ok = build_ok
    checker_extra = ''
    if tier == 'thorough' and build_ok:
        mods = P.modules
        p = subprocess.run(['lake', 'env', 'leanchecker'] + mods, cwd=LEAN, capture_output=True, text=True)
        checker_extra = '; leanchecker %s rc=%d' % (' '.join(mods), p.returncode)
        if p.returncode != 0:
            proof_ok = False
            details.append('leanchecker failed: ' + (p.stdout + p.stderr)[-400:])

    # 2. correspondence
    stats = dict(kinds={}, ops={}, errs={}, accepted=0, rejected=0, sizes={})
    g = Gen(seed * 1000003 + int(pid[1:]))
    corpus = []
    cdir = os.path.join(VERIF, 'corpus', pid)
    if os.path.isdir(cdir):
        for f in sorted(os.listdir(cdir)):
            if f.endswith('.case'):
                corpus += [l.strip() for l in open(os.path.join(cdir, f)) if l.strip() and not l.startswith('#')]
    infra = None
    findings = []
    cases = []
    try:
        if not build_ok:
            raise Infra('lake build failed; the driver is not available')
        cases = corpus + P.generate(g, tier)
        # chunked to bound memory / allow early exit
        step = 400 if len(cases) <= 20000 else 20000
        for i in range(0, len(cases), step):
            chunk = cases[i:i + step]
            # each chunk is one python process: its first cases are run AGAIN at its end, after everything else in the
            # chunk has had its chance to leave state behind (type-level caches, module-level scratch state)
            findings += evaluate(P, chunk + chunk[:30], stats)
            if len([f for f in findings if f['cls'] == 'prop']) >= 5:
                break
    except Infra as e:
        infra = str(e)

    if os.environ.get('RMK_DEBUG'):
        for f in findings[:int(os.environ['RMK_DEBUG'])]:
            log('FINDING', json.dumps(f)[:1500])
    # 3. verdict
    violations = []
    prop_f = [f for f in findings if f['cls'] == 'prop']
    corr_f = [f for f in findings if f['cls'] in ('corr', 'model')]
    k = 0
    if prop_f:
        f = shrink(P, prop_f[0])
        path = write_replay(pid, seed, k, f)
        violations.append('VIOLATION property=%s replay=%s' % (pid, path))
    elif corr_f or not proof_ok:
        # the tie (or a proof obligation) is broken: search for a concrete failing input
        found = None
        if build_ok and infra is None:
            try:
                for rnd in range(P.search_rounds(tier)):
                    g2 = Gen(hash((seed, pid, rnd, 'search')) & 0xffffffff)
                    more = P.generate(g2, tier, focus=(parse(corr_f[0]['case']) if corr_f else None))
                    fs = [f for f in evaluate(P, more, stats) if f['cls'] == 'prop']
                    if fs:
                        found = shrink(P, fs[0])
                        break
            except Infra as e:
                infra = str(e)
        if found is not None:
            path = write_replay(pid, seed, k, found, note='found by the failing-input search after a broken correspondence / proof obligation')
            violations.append('VIOLATION property=%s replay=%s' % (pid, path))
        else:
            what = corr_f[0] if corr_f else dict(case=None, cls='proof', key='; '.join(d for d in details if ': ok' not in d) + ' ' + ' '.join(hits))
            note = ('correspondence stream %s no longer checks (feeds theorems %s)' % (what.get('key'), ', '.join(P.theorems))
                    if corr_f else 'proof obligation(s) no longer check: ' + what['key'])
            path = write_replay(pid, seed, k, what, note=note)
            violations.append('VIOLATION property=%s replay=%s no-failing-input-found' % (pid, path))

    # evidence
    nontriv = set()
    for c in cases:
        if P.nontrivial(c):
            nontriv.add(hashlib.sha1(c.encode()).hexdigest())
    ev = dict(
        property_id=pid, tier=tier, seed=seed, level='proof',
        coverage=dict(
            obligations=n_obl, discharged=n_ok,
            checker_cmd='cd lean && lake build && lake env lean Rmk/Audit.lean  (theorems of %s in obligations.json)%s' % (pid, checker_extra),
            trusted_base=TRUSTED + P.trusted,
            theorems=details,
            forbidden_token_hits=hits,
            evaluations=len(cases), distinct_nontrivial=len(nontriv),
            rule=P.rule,
            samples=cases[:3] + cases[len(cases) // 2: len(cases) // 2 + 2],
            input_distribution=stats,
            correspondence_findings=len(findings),
            explanation=P.explanation,
        ),
        assumptions=P.assumptions,
        wall_s=round(time.time() - t0, 2),
        violations=len(violations),
    )
    os.makedirs(os.path.join(VERIF, 'evidence'), exist_ok=True)
    json.dump(ev, open(os.path.join(VERIF, 'evidence', pid + '.json'), 'w'), indent=1)

    for kf in known.get('known', []):
        if kf['property'] == pid:
            print('KNOWN-FINDING: property=%s %s' % (pid, kf['what']))
    if infra and not violations:
        log('INFRASTRUCTURE ERROR:', infra)
        sys.exit(2)
    for v in violations:
        print(v)
    print('%s %s seed=%d: obligations %d/%d, cases %d, findings %d, %.1fs' % (
        pid, tier, seed, n_ok, n_obl, len(cases), len(findings), time.time() - t0))
    sys.exit(1 if violations else 0)


if __name__ == '__main__':
    main()
