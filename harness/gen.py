"""Case generators.  Every random choice comes from one random.Random seeded by VERIF_SEED.
Types and values are produced in the S-expression syntax of the line protocol (see sexp.py)."""
import random
from sexp import show

BOUNDS = [1, 2, 3, 4, 5, 7, 8, 9, 15, 16, 17, 31, 32, 33, 63, 64, 65, 127, 128, 129, 255, 256, 257,
          511, 512, 513, 1023, 1025]
UINT_W = {'u8': 1, 'u16': 2, 'u32': 4, 'u64': 8, 'u128': 16, 'u256': 32}
BASIC = list(UINT_W) + ['bool']


def kind(t):
    return t if isinstance(t, str) else t[0]


def is_basic(t):
    return isinstance(t, str)


def is_fixed(t):
    k = kind(t)
    if is_basic(t) or k in ('bv', 'Bv'):
        return True
    if k in ('bl', 'Bl', 'list', 'union'):
        return False
    if k == 'vec':
        return is_fixed(t[1])
    if k == 'cont':
        return all(is_fixed(f) for f in t[1:])
    raise ValueError(k)


def fixed_len(t):
    k = kind(t)
    if t == 'bool':
        return 1
    if is_basic(t):
        return UINT_W[t]
    if k == 'bv':
        return (t[1] + 7) // 8
    if k == 'Bv':
        return t[1]
    if k == 'vec':
        return t[2] * fixed_len(t[1])
    if k == 'cont':
        return sum(fixed_len(f) for f in t[1:])
    raise ValueError('not fixed')


def offset_positions(t, nbytes):
    """byte positions of the 4-byte offsets in the top-level fixed part of an encoding of type t"""
    k = kind(t)
    out = []
    if k == 'cont':
        pos = 0
        for f in t[1:]:
            if is_fixed(f):
                pos += fixed_len(f)
            else:
                out.append(pos)
                pos += 4
    elif k in ('vec', 'list') and not is_basic(t[1]) and not is_fixed(t[1]) and nbytes >= 4:
        first = int.from_bytes(b'\0', 'little')
        out = list(range(0, min(nbytes, 4 * 40), 4))
    elif k == 'union':
        pass
    return [p for p in out if p + 4 <= nbytes]


class Gen:
    def __init__(self, seed):
        self.rng = random.Random(seed)

    # ---------------------------------------------------------------- types
    def bound(self, lo=1, hi=1025):
        c = [b for b in BOUNDS if lo <= b <= hi]
        r = self.rng.random()
        if r < 0.75 and c:
            return self.rng.choice(c)
        return self.rng.randint(lo, hi)

    def basic(self):
        return self.rng.choice(BASIC)

    SPECIAL = [['cont', 'u128', 'u128'], ['cont', 'u64', 'u64', 'u64', 'u64'], ['vec', ['Bv', 16], 2],
               ['vec', ['bv', 128], 2], ['Bv', 32], ['Bv', 48], ['cont', ['Bv', 32]], ['vec', 'u64', 4],
               ['union', 'u16', 'u16', 'u8'], ['union', 'none', ['list', 'u8', 4], ['list', 'u8', 4]],
               ['cont', 'u256'], ['vec', 'u256', 1], ['list', ['cont', 'u8', 'u8'], 1], ['bv', 256], ['bl', 256]]

    def ty(self, depth, composite_only=False):
        r = self.rng
        if depth <= 2 and r.random() < 0.08:
            # coincidences: composite elements that are exactly one chunk / 32 bytes long, duplicate options, ...
            return r.choice(self.SPECIAL)
        if depth <= 0 and not composite_only:
            return self.basic()
        kinds = ['bv', 'bl', 'Bv', 'Bl', 'vecb', 'listb', 'vec', 'list', 'cont', 'union']
        weights = [1, 1.5, 1, 1, 1.5, 2, 1.5, 2.5, 2.5, 1.5]
        if not composite_only:
            kinds.append('basic')
            weights.append(1.5)
        k = r.choices(kinds, weights)[0]
        if depth <= 1 and k in ('vec', 'list'):
            k = k + 'b' if r.random() < 0.5 else k
        if k == 'basic':
            return self.basic()
        if k == 'bv':
            return ['bv', self.bound()]
        if k == 'bl':
            return ['bl', self.bound(1) if r.random() < 0.9 else r.choice([0, 2**20, 2**40])]
        if k == 'Bv':
            return ['Bv', self.bound(1, 129)]
        if k == 'Bl':
            return ['Bl', self.bound(1, 257) if r.random() < 0.9 else r.choice([0, 2**20, 2**40])]
        if k == 'vecb':
            return ['vec', self.basic(), self.bound(1, 129)]
        if k == 'listb':
            return ['list', self.basic(), self.bound(1, 257) if r.random() < 0.85 else r.choice([0, 2**20, 2**40, 2**64])]
        if k == 'vec':
            return ['vec', self.ty(depth - 1), self.bound(1, 9)]
        if k == 'list':
            return ['list', self.ty(depth - 1), self.bound(1, 33) if r.random() < 0.85 else r.choice([0, 2**10, 2**40])]
        if k == 'cont':
            n = r.choice([1, 1, 2, 2, 3, 3, 4, 5, 7, 8, 9])
            fs = [self.ty(depth - 1) for _ in range(n)]
            if n >= 2 and r.random() < 0.3:
                fs[r.randrange(n)] = fs[r.randrange(n)]      # two fields of the same type
            return ['cont'] + fs
        if k == 'union':
            n = r.choice([1, 2, 2, 3, 4])
            opts = [self.ty(depth - 1) for _ in range(n)]
            if n >= 2 and r.random() < 0.2:
                opts[r.randrange(n)] = opts[r.randrange(n)]      # the same type at two selectors
            if depth >= 2 and r.random() < 0.3:
                # a union as an option of a union
                inner = [self.ty(depth - 2) for _ in range(r.choice([1, 2]))]
                if r.random() < 0.5:
                    inner = ['none'] + inner
                opts[r.randrange(len(opts))] = ['union'] + inner
            if r.random() < 0.4:
                opts = ['none'] + opts
            return ['union'] + opts
        raise ValueError(k)

    # ---------------------------------------------------------------- values
    def length(self, lim, cap, exact=None):
        """a sequence length in [0, min(lim, cap)] biased to boundaries"""
        hi = min(lim, cap)
        r = self.rng.random()
        cands = [0, 1, hi, max(hi - 1, 0)] + [b + d for b in (8, 16, 32, 64, 128, 256, 512, 768, 1024) for d in (-1, 0, 1)]
        cands = [c for c in cands if 0 <= c <= hi]
        if r < 0.6:
            return self.rng.choice(cands)
        return self.rng.randint(0, hi)

    def num(self, bits):
        r = self.rng.random()
        m = (1 << bits) - 1
        if r < 0.15:
            return 0
        if r < 0.3:
            return m
        if r < 0.4:
            return 1
        if r < 0.5:
            return m >> 1
        if r < 0.6:
            return self.rng.randint(0, 255) & m
        if r < 0.72 and bits >= 16:
            # zero low-order bytes / zero high-order bytes (byte-order and zero-stripping mistakes)
            j = 8 * self.rng.randrange(1, bits // 8)
            return (self.rng.getrandbits(bits) >> j << j) & m if self.rng.random() < 0.6 else (1 << j) & m
        return self.rng.getrandbits(bits)

    def bits(self, n):
        r = self.rng.random()
        if r < 0.1:
            return 'b' + '0' * n
        if r < 0.2:
            return 'b' + '1' * n
        if r < 0.32 and n > 8:
            # whole chunks (or the tail / the head) of zero bits between random ones
            z = self.rng.choice([256, 256, 512, n // 2, 8])
            body = ''.join(self.rng.choice('01') for _ in range(n))
            if self.rng.random() < 0.6:
                keep = (n - 1) // z * z if n > z else 0     # zero from the last multiple of z on
                keep = min(keep, n - 1)
                return 'b' + body[:keep] + '0' * (n - keep)
            return 'b' + '0' * min(z, n) + body[min(z, n):]
        return 'b' + ''.join(self.rng.choice('01') for _ in range(n))

    def bytez(self, n):
        r = self.rng.random()
        if r < 0.1:
            return 'x' + '00' * n
        if r < 0.2:
            return 'x' + 'ff' * n
        if r < 0.3 and n > 32:
            keep = (n - 1) // 32 * 32     # the last chunk all zero
            return 'x' + bytes(self.rng.getrandbits(8) for _ in range(keep)).hex() + '00' * (n - keep)
        return 'x' + bytes(self.rng.getrandbits(8) for _ in range(n)).hex()

    def val(self, t, budget=70):
        """a valid value of type t; `budget` bounds materialised sequence lengths"""
        k = kind(t)
        if t == 'bool':
            return str(self.rng.randint(0, 1))
        if is_basic(t):
            return str(self.num(8 * UINT_W[t]))
        if k == 'bv':
            return self.bits(t[1])
        if k == 'bl':
            return self.bits(self.length(t[1], 1100))
        if k == 'Bv':
            return self.bytez(t[1])
        if k == 'Bl':
            return self.bytez(self.length(t[1], 300))
        if k == 'vec':
            sub = budget if is_basic(t[1]) else max(2, budget // max(t[2], 1))
            return ['s'] + [self.val(t[1], sub) for _ in range(t[2])]
        if k == 'list':
            cap = budget if is_basic(t[1]) else min(budget, 9)
            n = self.length(t[2], cap)
            sub = budget if is_basic(t[1]) else max(2, budget // max(n, 1))
            return ['s'] + [self.val(t[1], sub) for _ in range(n)]
        if k == 'cont':
            return ['s'] + [self.val(f, max(2, budget // 2)) for f in t[1:]]
        if k == 'union':
            opts = t[1:]
            sel = self.rng.randrange(len(opts))
            if opts[sel] == 'none':
                return ['u', sel, 'none']
            return ['u', sel, self.val(opts[sel], max(2, budget // 2))]
        raise ValueError(k)

    def max_val(self, t, cap=400):
        """the valid value with the longest encoding (all lists full, all numbers maximal), or None when
        it would be too large to materialise"""
        k = kind(t)
        if t == 'bool':
            return '1'
        if is_basic(t):
            return str((1 << (8 * UINT_W[t])) - 1)
        if k in ('bv', 'bl'):
            return 'b' + '1' * t[1] if t[1] <= 4 * cap else None
        if k in ('Bv', 'Bl'):
            return 'x' + 'ff' * t[1] if t[1] <= cap else None
        if k in ('vec', 'list'):
            if t[2] > (cap if is_basic(t[1]) else 12):
                return None
            e = self.max_val(t[1], max(cap // max(t[2], 1), 8))
            return None if e is None else ['s'] + [e] * t[2]
        if k == 'cont':
            es = [self.max_val(f, max(cap // (len(t) - 1), 8)) for f in t[1:]]
            return None if any(e is None for e in es) else ['s'] + es
        if k == 'union':
            opts = t[1:]
            best = None
            for i, o in enumerate(opts):
                if o == 'none':
                    continue
                e = self.max_val(o, cap)
                if e is None:
                    return None
                if best is None or len(show(e)) > len(show(best[2])):
                    best = ['u', i, e]
            return best
        return None

    def zero(self, t):
        k = kind(t)
        if is_basic(t):
            return '0'
        if k == 'bv':
            return 'b' + '0' * t[1]
        if k == 'bl':
            return 'b'
        if k == 'Bv':
            return 'x' + '00' * t[1]
        if k == 'Bl':
            return 'x'
        if k == 'vec':
            return ['s'] + [self.zero(t[1]) for _ in range(t[2])]
        if k == 'list':
            return ['s']
        if k == 'cont':
            return ['s'] + [self.zero(f) for f in t[1:]]
        if k == 'union':
            return ['u', 0, 'none' if t[1] == 'none' else self.zero(t[1])]
        raise ValueError(k)

    # ---------------------------------------------------------------- mutable types and histories
    def mutable_ty(self, depth):
        r = self.rng
        k = r.choices(['listb', 'list', 'bl', 'vecb', 'vec', 'bv', 'cont', 'union'],
                      [3, 3, 3, 1.5, 1.5, 1.5, 2, 1.5])[0]
        if k == 'listb':
            return ['list', self.basic(), self.bound(1, 257) if r.random() < 0.8 else r.choice([2**20, 2**40, 2**64])]
        if k == 'list':
            return ['list', self.ty(depth - 1, composite_only=r.random() < 0.7), self.bound(1, 33) if r.random() < 0.8 else 2**40]
        if k == 'bl':
            return ['bl', self.bound(1) if r.random() < 0.8 else r.choice([2**20, 2**40])]
        if k == 'vecb':
            return ['vec', self.basic(), self.bound(1, 129)]
        if k == 'vec':
            return ['vec', self.ty(depth - 1, composite_only=True), self.bound(1, 9)]
        if k == 'bv':
            return ['bv', self.bound()]
        if k == 'cont':
            fs = [self.ty(depth - 1) for _ in range(r.choice([1, 2, 3, 4, 5, 8, 9]))]
            if len(fs) >= 2 and r.random() < 0.4:
                comp = [f for f in fs if not is_basic(f)]
                fs[r.randrange(len(fs))] = r.choice(comp) if comp else fs[0]
            return ['cont'] + fs
        if k == 'union':
            opts = [self.ty(depth - 1) for _ in range(r.choice([1, 2, 3, 4]))]
            if len(opts) >= 2 and r.random() < 0.3:
                opts[r.randrange(len(opts))] = opts[r.randrange(len(opts))]
            if r.random() < 0.4:
                opts = ['none'] + opts
            return ['union'] + opts

    def cur_len(self, t, v):
        k = kind(t)
        if k in ('bl', 'bv'):
            return len(v) - 1
        return len(v) - 1

    def ops(self, t, v, n, p_invalid=0.0):
        """a history of n ops on a value v of type t (v is updated as a plain model to keep the ops
        meaningful); returns (ops, number of invalid ops)"""
        r = self.rng
        k = kind(t)
        ops = []
        ninv = 0
        # simple value model: list of elems for sequences, str for bits
        cur = v
        mode = r.choice(['mixed', 'grow', 'shrink', 'sawtooth'])
        if k in ('list', 'bl') and r.random() < 0.35 and len(cur) - 1 >= 2:
            # boundary dance: pop across the boundary the value may be sitting on, and come back
            ones = k == 'bl'
            for o in (['pop'], ['pop'], ['app', '1' if ones else self.val(t[1], 4)], ['app', '1' if ones else self.val(t[1], 4)], ['pop']):
                if len(ops) >= n:
                    break
                ops.append(o)
                cur = _apply_val(t, cur, o)
        for _ in range(n):
            if p_invalid > 0 and r.random() < p_invalid:
                op = self.invalid_op(t, cur)
                if op is not None:
                    ops.append(op)
                    ninv += 1
                    continue
            if k in ('list', 'vec') and len(cur) - 1 >= 2 and r.random() < 0.12:
                ln = len(cur) - 1
                if r.random() < 0.5 and not is_basic(t[1]):
                    i, j = r.randrange(ln), r.randrange(ln)
                    ops.append(['cpy', i, j])
                    cur = cur[:1 + i] + [cur[1 + j]] + cur[2 + i:]
                else:
                    i = r.randrange(ln)
                    kk = r.randint(1, min(3, ln - i))
                    vals = [self.val(t[1], 4) for _ in range(kk)]
                    ops.append(['sets', i, ['s'] + vals])
                    cur = cur[:1 + i] + vals + cur[1 + i + kk:]
                continue
            if k in ('list', 'vec', 'cont') and len(cur) - 1 >= 1 and r.random() < 0.07:
                # a view of another but COERCIBLE type is stored: other limit (bit lists, byte lists, lists), or the same
                # layout built from separately evaluated type expressions (containers, vectors, unions)
                i = r.randrange(len(cur) - 1)
                et = t[1] if k != 'cont' else t[1 + i]
                ke = kind(et)
                x = self.val(et, 5)
                ft = None
                if ke in ('bl', 'Bl'):
                    n_ = (len(x) - 1) // (2 if ke == 'Bl' else 1)
                    ft = [ke, max(n_, r.choice([n_, et[1] + 1, 64, 256, 257, 2048, max(et[1] // 2, 1)]), 1)]
                elif ke == 'list':
                    ft = ['list', et[1], max(len(x) - 1, r.choice([et[2] + 1, 2 * et[2] + 5, 1, 300]))]
                elif ke in ('cont', 'vec', 'union', 'bv'):
                    ft = et
                if ft is not None:
                    ops.append(['setc', i, ft, x])
                    cur = cur[:1 + i] + [x] + cur[2 + i:]
                    continue
            if k in ('list', 'vec', 'cont') and len(cur) - 1 >= 1 and r.random() < 0.05:
                # a raw little-endian byte string assigned to an integer position (exact width, or longer with a zero tail)
                i = r.randrange(len(cur) - 1)
                et = t[1] if k != 'cont' else t[1 + i]
                if is_basic(et) and et != 'bool':
                    n_ = self.num(8 * UINT_W[et])
                    raw = n_.to_bytes(UINT_W[et], 'little') + bytes(r.choice([0, 0, 2]))
                    ops.append(['setb', i, 'x' + raw.hex()])
                    cur = cur[:1 + i] + [str(n_)] + cur[2 + i:]
                    continue
            if k in ('list', 'vec', 'cont') and len(cur) - 1 >= 1 and r.random() < 0.05:
                # an already hashed CONTAINER of another class with the same layout is stored
                i = r.randrange(len(cur) - 1)
                et = t[1] if k != 'cont' else t[1 + i]
                if kind(et) == 'cont':
                    x = self.val(et, 6)
                    ops.append(['setv', i, x])
                    cur = cur[:1 + i] + [x] + cur[2 + i:]
                    continue
            if k in ('list', 'vec', 'cont') and len(cur) - 1 >= 1 and r.random() < 0.1:
                # an already hashed (tree-backed) sub-value is stored
                i = r.randrange(len(cur) - 1)
                et = t[1] if k != 'cont' else t[1 + i]
                if not is_basic(et) and kind(et) in ('vec', 'list', 'cont', 'union', 'bv', 'bl'):
                    x = self.val(et, 6)
                    ops.append(['seth', i, x])
                    cur = cur[:1 + i] + [x] + cur[2 + i:]
                    continue
            if k == 'cont' and r.random() < 0.3:
                same = [(i, j) for i in range(len(t) - 1) for j in range(len(t) - 1)
                        if i != j and show(t[1 + i]) == show(t[1 + j]) and not is_basic(t[1 + i])]
                if same:
                    i, j = r.choice(same)
                    ops.append(['cpy', i, j])
                    continue
            if k == 'list':
                ln = len(cur) - 1
                lim = t[2]
                c = self.pick_listop(mode, ln, lim)
                if c == 'none':
                    continue
                if c == 'app':
                    x = self.val(t[1], 6)
                    ops.append(['app', x])
                    cur = cur + [x]
                elif c == 'pop':
                    ops.append(['pop'])
                    cur = cur[:-1]
                else:
                    i = r.choice([0, ln - 1, r.randrange(ln)])
                    x = self.val(t[1], 6)
                    ops.append(['set', i, x])
                    cur = cur[:1 + i] + [x] + cur[2 + i:]
            elif k == 'bl':
                ln = len(cur) - 1
                c = self.pick_listop(mode, ln, t[1])
                if c == 'none':
                    continue
                if c == 'app':
                    b = r.choice('01')
                    ops.append(['app', b])
                    cur = cur + b
                elif c == 'pop':
                    ops.append(['pop'])
                    cur = cur[:-1]
                else:
                    i = r.choice([0, ln - 1, r.randrange(ln)])
                    b = r.choice('01')
                    ops.append(['set', i, b])
                    cur = cur[:1 + i] + b + cur[2 + i:]
            elif k == 'vec':
                i = r.choice([0, t[2] - 1, r.randrange(t[2])])
                x = self.val(t[1], 6)
                ops.append(['set', i, x])
            elif k == 'bv':
                i = r.choice([0, t[1] - 1, r.randrange(t[1])])
                ops.append(['set', i, r.choice('01')])
            elif k == 'cont':
                i = r.randrange(len(t) - 1)
                ops.append(['set', i, self.val(t[1 + i], 8)])
            elif k == 'union':
                opts = t[1:]
                sel = r.randrange(len(opts))
                ops.append(['chg', sel, 'none' if opts[sel] == 'none' else self.val(opts[sel], 8)])
        return ops, ninv

    def pick_listop(self, mode, ln, lim):
        r = self.rng
        if ln == 0:
            return 'app' if lim > 0 else 'none'
        if ln >= lim:
            return r.choice(['pop', 'set'])
        if mode == 'grow':
            w = [6, 1, 1]
        elif mode == 'shrink':
            w = [1, 6, 1]
        elif mode == 'sawtooth':
            w = [4, 4, 1]
        else:
            w = [3, 3, 3]
        return r.choices(['app', 'pop', 'set'], w)[0]

    def foreign_same(self, et, x):
        """(type, value): a view type other than et that is NOT assignable to et, holding the same content
        as x (so that it merkleizes like x whenever the chunk counts agree), or None"""
        r = self.rng
        if is_basic(et) and et != 'bool':
            n = int(x)
            ws = [w for w in ('u8', 'u16', 'u32', 'u64', 'u128', 'u256') if w != et and n < (1 << (8 * UINT_W[w]))]
            return (r.choice(ws), x) if ws else None
        k = kind(et)
        if k == 'Bv':
            if et[1] > 1 and x.endswith('00') and r.random() < 0.7:
                return ['Bv', et[1] - 1], x[:-2]
            return ['Bv', et[1] + 1], x + '00'
        if k == 'vec' and is_basic(et[1]):
            if et[2] > 1 and r.random() < 0.3:
                return ['vec', et[1], et[2] - 1], x[:-1]
            return ['vec', et[1], et[2] + 1], x + ['0']
        if k == 'bv':
            return ['bv', et[1] + 1], x + '0'
        return None

    def invalid_op(self, t, cur):
        """an operation that violates a constraint of type t in state cur (or None)"""
        r = self.rng
        k = kind(t)
        if k in ('list', 'vec', 'cont') and len(cur) > 1 and r.random() < 0.12:
            # a raw byte string that denotes a number too large for the integer position
            i = r.randrange(len(cur) - 1)
            et = t[1] if k != 'cont' else t[1 + i]
            if is_basic(et) and et not in ('bool', 'u256'):
                w_ = UINT_W[et]
                raw = bytes(r.getrandbits(8) for _ in range(w_)) + bytes([0] * r.choice([0, 1]) + [r.randint(1, 255)])
                return ['setb', i, 'x' + raw.hex()]
        if k in ('list', 'vec', 'cont') and len(cur) > 1 and r.random() < 0.25:
            # a view of a non-assignable other type with the same content as what is stored there now
            i = r.randrange(len(cur) - 1)
            et = t[1] if k != 'cont' else t[1 + i]
            fs = self.foreign_same(et, cur[1 + i])
            if fs is not None:
                return ['setf', i, fs[0], fs[1]]
        if k in ('list', 'vec', 'bl', 'bv') and r.random() < 0.12:
            # a negative index through the [] operator (read, then written with a valid element)
            ln = len(cur) - 1
            i = r.choice([1, 1, ln if ln else 1, ln + 1, ln + 3, 8, 256])
            return ['setneg', i, self.val(t[1], 4) if k in ('list', 'vec') else r.choice('01')]
        if k in ('list', 'vec') and kind(t[1]) == 'Bv' and len(cur) > 1 and r.random() < 0.3:
            return r.choice([['set', r.randrange(len(cur) - 1), 'x']] + ([['app', 'x']] if k == 'list' else []))
        if k == 'list':
            ln = len(cur) - 1
            c = []
            if ln >= t[2]:
                c.append(['app', self.val(t[1], 4)])
            if ln == 0:
                c.append(['pop'])
            c.append(['set', ln, self.val(t[1], 4)])
            c.append(['set', ln + r.randint(1, 5), self.val(t[1], 4)])
            if is_basic(t[1]) and t[1] != 'u256' and t[1] != 'bool':
                big = str(1 << (8 * UINT_W[t[1]]))
                c.append(['set', 0, big] if ln > 0 else ['app', big])
                if ln < t[2]:
                    c.append(['app', big])
            return r.choice(c)
        if k == 'bl':
            ln = len(cur) - 1
            c = [['set', ln, '1'], ['set', ln + 3, '0']]
            if ln >= t[1]:
                c.append(['app', '1'])
            if ln == 0:
                c.append(['pop'])
            return r.choice(c)
        if k == 'vec':
            c = [['set', t[2], self.val(t[1], 4)], ['set', t[2] + 7, self.val(t[1], 4)]]
            if is_basic(t[1]) and t[1] not in ('u256', 'bool'):
                c.append(['set', 0, str(1 << (8 * UINT_W[t[1]]))])
            return r.choice(c)
        if k == 'bv':
            return ['set', t[1] + r.choice([0, 1, 300]), '1']
        if k == 'cont':
            c = [['set', len(t) - 1 + r.choice([0, 2]), '0']]
            c.append(['setn', r.choice(['copy', 'fields', 'set', 'get', 'serialize', 'hash_tree_root', 'tree_depth', 'not_a_field', 'f99', 'F0']), '5'])
            for i, f in enumerate(t[1:]):
                if is_basic(f) and f not in ('u256', 'bool'):
                    c.append(['set', i, str(1 << (8 * UINT_W[f]))])
                if kind(f) == 'Bv':
                    c.append(['set', i, 'x' + '00' * (f[1] + 1)])
                    c.append(['set', i, 'x'])         # the empty byte string is not "no argument": wrong length
                if kind(f) in ('list',) and f[2] < 40 and is_basic(f[1]):
                    c.append(['set', i, ['s'] + ['0'] * (f[2] + 1)])
                if kind(f) == 'vec' and is_basic(f[1]):
                    c.append(['set', i, ['s'] + ['0'] * (f[2] + 1)])
            return r.choice(c)
        if k == 'union':
            opts = t[1:]
            c = [['chg', len(opts) + r.choice([0, 1, 200]), 'none']]
            # negative selectors, with a value that is valid for the option python's negative indexing would pick
            neg = -r.randint(1, len(opts))
            c.append(['chg', neg, 'none' if opts[neg] == 'none' else self.val(opts[neg], 4)])
            c.append(['chg', -len(opts) - 1, 'none'])
            for i, o in enumerate(opts):
                if o != 'none':
                    c.append(['chg', i, 'none'])       # None as the value of a TYPED option (only the constructor defaults it)
                if o == 'none':
                    c.append(['chg', i, r.choice(['5', '0', '0'])])
                elif is_basic(o) and o not in ('u256', 'bool'):
                    c.append(['chg', i, str(1 << (8 * UINT_W[o]))])
            return r.choice(c)
        return None

    def invalid_val(self, t, depth=0):
        """a value that violates a constraint of type t (or None when none is expressible)"""
        r = self.rng
        k = kind(t)
        if t == 'bool':
            return str(r.choice([2, 3, 255]))
        if is_basic(t):
            if t == 'u256' and r.random() < 0.5:
                return str((1 << 256) + r.randint(0, 5))
            return str((1 << (8 * UINT_W[t])) + r.choice([0, 1, 1000]))
        if k == 'bv':
            # (no elements at all means "default construction", which is allowed: keep the length >= 1)
            n = t[1] + r.choice([-1, 1, 2])
            return self.bits(n) if n != t[1] and n >= 1 else self.bits(t[1] + 1)
        if k == 'bl':
            return self.bits(t[1] + r.choice([1, 2, 9])) if t[1] < 3000 else None
        if k == 'Bv':
            return self.bytez(r.choice([t[1] - 1, t[1] + 1, t[1] + 32, 0, 0]))      # (also the EMPTY byte string)
        if k == 'Bl':
            return self.bytez(t[1] + r.choice([1, 2, 33])) if t[1] < 3000 else None
        if k == 'vec':
            if r.random() < 0.5 or is_basic(t[1]) and t[1] == 'x':
                n = max(t[2] + r.choice([-1, 1, 2]), 1)
                if n == t[2]:
                    n += 1
                return ['s'] + [self.val(t[1], 4) for _ in range(n)]
            bad = self.invalid_val(t[1], depth + 1)
            if bad is None:
                return None
            vs = [self.val(t[1], 4) for _ in range(t[2])]
            vs[r.randrange(t[2])] = bad
            return ['s'] + vs
        if k == 'list':
            if (r.random() < 0.5 and t[2] < 400) or t[2] == 0:
                return ['s'] + [self.val(t[1], 3) for _ in range(t[2] + r.choice([1, 2]))] if t[2] < 400 else None
            bad = self.invalid_val(t[1], depth + 1)
            if bad is None:
                return None
            n = max(1, min(t[2], r.choice([1, 2, 5])))
            vs = [self.val(t[1], 4) for _ in range(n)]
            vs[r.randrange(n)] = bad
            return ['s'] + vs
        if k == 'cont':
            i = r.randrange(len(t) - 1)
            bad = self.invalid_val(t[1 + i], depth + 1)
            if bad is None:
                return None
            vs = [self.val(f, 4) for f in t[1:]]
            vs[i] = bad
            return ['s'] + vs
        if k == 'union':
            opts = t[1:]
            c = r.random()
            if c < 0.3:
                return ['u', len(opts) + r.choice([0, 1, 100]), 'none']
            sel = r.randrange(len(opts))
            if opts[sel] == 'none':
                return ['u', sel, r.choice(['5', '0', '0', '1'])]
            bad = self.invalid_val(opts[sel], depth + 1)
            return None if bad is None else ['u', sel, bad]
        return None

    def spellings(self, t):
        k = kind(t)
        if is_basic(t) and t != 'bool':
            return ['views', 'py', 'wide']
        if is_basic(t) or k in ('cont', 'union'):
            return ['views', 'py']
        out = ['views', 'py', 'gen', 'tuple']
        if k in ('vec', 'list') and is_basic(t[1]):
            out.append('args')     # T(e0, e1, ...): unambiguous only for basic elements
        if k in ('Bv', 'Bl') or (k in ('vec', 'list') and t[1] == 'u8'):
            out += ['bytes', 'hex', 'bytes', 'hex']
        return out

    # ---------------------------------------------------------------- byte strings
    def corrupt(self, raw, t=None):
        """structure-aware corruption of a valid encoding"""
        r = self.rng
        b = bytearray(raw)
        if t is not None and r.random() < 0.12:
            # a gap between the fixed part and the first variable part: every top-level offset moved up by k, k bytes
            # inserted where the variable parts used to start (or not inserted: then the last part is cut short)
            ps = offset_positions(t, len(b))
            if ps:
                x0 = int.from_bytes(b[ps[0]:ps[0] + 4], 'little')
                k_ = r.choice([1, 1, 2, 4])
                for i in ps:
                    x = (int.from_bytes(b[i:i + 4], 'little') + k_) % (1 << 32)
                    b[i:i + 4] = x.to_bytes(4, 'little')
                if r.random() < 0.7 and x0 <= len(b):
                    b[x0:x0] = bytes(r.getrandbits(8) for _ in range(k_))
                return bytes(b)
        if t is not None and r.random() < 0.3:
            # edit one of the real offsets of the top-level fixed part
            ps = offset_positions(t, len(b))
            if ps:
                i = r.choice(ps[:1] * 3 + ps)
                x = int.from_bytes(b[i:i + 4], 'little')
                x = (x + r.choice([1, -1, 1, -1, 2, 4, -4, 8, 256, 1 << 31])) % (1 << 32)
                if len(ps) > 1 and r.random() < 0.25:
                    # a later offset set to exactly 0 (or to the first offset)
                    i = r.choice(ps[1:])
                    x = r.choice([0, 0, int.from_bytes(b[ps[0]:ps[0] + 4], 'little')])
                b[i:i + 4] = x.to_bytes(4, 'little')
                if r.random() < 0.3:
                    b += bytes(r.getrandbits(8) for _ in range(r.choice([1, 1, 2, 4])))
                return bytes(b)
        m = r.choice(['trunc', 'extend', 'flip', 'offset', 'insert', 'lastbyte', 'zero', 'byte', 'none', 'dup', 'zeroword', 'zeroword', 'zerofirst'])
        if m == 'trunc' and b:
            del b[r.randrange(len(b)):]
        elif m == 'extend':
            b += bytes(r.getrandbits(8) for _ in range(r.choice([1, 1, 2, 4, 32])))
        elif m == 'flip' and b:
            i = r.randrange(len(b))
            b[i] ^= 1 << r.randrange(8)
        elif m == 'offset' and len(b) >= 4:
            i = r.randrange(0, len(b) - 3)
            if r.random() < 0.7:
                i -= i % 4
            x = int.from_bytes(b[i:i + 4], 'little')
            x = (x + r.choice([1, -1, 4, -4, 8, -8, 2, 256])) % (1 << 32)
            b[i:i + 4] = x.to_bytes(4, 'little')
        elif m == 'insert':
            i = r.randrange(len(b) + 1)
            b[i:i] = bytes(r.getrandbits(8) for _ in range(r.choice([1, 2, 4])))
        elif m == 'lastbyte' and b:
            b[-1] = r.choice([0, 1, 2, 0x80, 0xff, b[-1] | 0x80, b[-1] >> 1])
        elif m == 'zero' and b:
            i = r.randrange(len(b))
            b[i] = 0
        elif m == 'byte' and b:
            i = r.randrange(len(b))
            b[i] = r.choice([0, 1, 2, 3, 4, 5, 8, 0xff, 0x80])
        elif m == 'zerofirst' and len(b) >= 4:
            b[0:4] = bytes(4)
        elif m == 'zeroword' and len(b) >= 4:
            i = r.randrange(0, len(b) - 3)
            i -= i % 4
            b[i:i + 4] = bytes(4)
            if r.random() < 0.4:
                del b[i + 4:]
        elif m == 'dup' and b:
            i = r.randrange(len(b))
            b[i:i] = b[i:i + 4]
        return bytes(b)

    # ---------------------------------------------------------------- trees
    def chunk(self):
        r = self.rng
        c = r.random()
        if c < 0.3:
            return bytes([r.getrandbits(8)]) + bytes(31)
        if c < 0.4:
            return bytes(32)
        return bytes(r.getrandbits(8) for _ in range(32))

    def tree(self, depth, p_leaf=0.3):
        r = self.rng
        if depth <= 0 or r.random() < p_leaf:
            c = r.random()
            if c < 0.45:
                return ['Z', r.choice([0, 0, 1, 2, 3, max(depth, 0), r.randint(0, 5)])]
            return ['L', self.chunk().hex()]
        return ['P', self.tree(depth - 1, p_leaf), self.tree(depth - 1, p_leaf)]

    def tree_write(self, tr):
        """a variant of tree tr: one random position replaced"""
        r = self.rng
        if tr[0] != 'P' or r.random() < 0.25:
            return self.tree(r.choice([0, 0, 1, 2]), 0.5)
        if r.random() < 0.5:
            return ['P', self.tree_write(tr[1]), tr[2]]
        return ['P', tr[1], self.tree_write(tr[2])]

    def tree_depth(self, tr):
        return 0 if tr[0] != 'P' else 1 + max(self.tree_depth(tr[1]), self.tree_depth(tr[2]))

    # ---------------------------------------------------------------- paths
    def keys(self, t, v=None, maxlen=4):
        """a valid key sequence through type t (and, when v is given, inside the value)"""
        r = self.rng
        out = []
        cur_t, cur_v = t, v
        for _ in range(r.randint(1, maxlen)):
            if cur_t is None or is_basic(cur_t) or cur_t == 'none':
                break
            k = kind(cur_t)
            if k in ('list', 'bl', 'Bl') and r.random() < 0.2:
                out.append('len')
                break
            if k == 'union' and r.random() < 0.25:
                out.append('sel')
                break
            if k in ('vec', 'list'):
                n = cur_t[2] if cur_v is None or k == 'vec' else len(cur_v) - 1
                if n == 0:
                    break
                i = r.choice([0, n - 1, r.randrange(n)])
                out.append(i)
                cur_t = cur_t[1]
                cur_v = None if cur_v is None else cur_v[1 + i]
            elif k == 'cont':
                i = r.randrange(len(cur_t) - 1)
                out.append(i)
                cur_t = cur_t[1 + i]
                cur_v = None if cur_v is None else cur_v[1 + i]
            elif k in ('bv', 'bl'):
                n = cur_t[1] if cur_v is None or k == 'bv' else len(cur_v) - 1
                if n == 0:
                    break
                out.append(r.choice([0, n - 1, r.randrange(n)]))
                break
            elif k in ('Bv', 'Bl'):
                n = cur_t[1] if cur_v is None or k == 'Bv' else (len(cur_v) - 1) // 2
                if n == 0:
                    break
                out.append(r.choice([0, n - 1, r.randrange(n)]))
                break
            elif k == 'union':
                if cur_v is None:
                    i = r.randrange(len(cur_t) - 1)
                    out.append(i)
                    cur_t = cur_t[1 + i]
                else:
                    i = int(cur_v[1])
                    out.append(i)
                    cur_t = cur_t[1 + i]
                    cur_v = cur_v[2]
                if cur_t == 'none':
                    break
        return out


# -------------------------------------------------------------------- store histories (C05, C06, C14)
def _apply_val(t, v, op):
    """value-level effect of a (valid) op; used only to keep generated histories meaningful"""
    k = kind(t)
    o = op[0]
    if k in ('bl', 'bv'):
        if o == 'set':
            i = op[1]
            return v[:1 + i] + op[2] + v[2 + i:]
        if o == 'app':
            return v + op[1]
        if o == 'pop':
            return v[:-1]
    if o == 'set':
        i = op[1]
        return v[:1 + i] + [op[2]] + v[2 + i:]
    if o == 'app':
        return v + [op[1]]
    if o == 'pop':
        return v[:-1]
    if o == 'chg':
        return ['u', op[1], op[2]]
    if o == 'sets':
        i = op[1]
        vals = op[2][1:]
        return v[:1 + i] + vals + v[1 + i + len(vals):]
    raise ValueError(o)


class StoreGen:
    """generates store histories: child views, mutations through any held view, copies, snapshots.
    Hook keys mostly stay valid; sometimes a list that has held element views is popped, or a union that has a held
    value view is changed: a write through a view whose position no longer exists (list index beyond the length, union
    option no longer selected) must fail and change nothing (such writes are generated as `bad` ops)."""

    def __init__(self, g, t, v):
        self.g = g
        self.views = [dict(t=t, v=v, hook=None, kids=False)]

    def child_keys(self, view):
        t, v = view['t'], view['v']
        k = kind(t)
        if is_basic(t):
            return []
        if k in ('vec', 'list'):
            if is_basic(t[1]) or kind(t[1]) in ('Bv', 'Bl'):
                return []
            return list(range(len(v) - 1))
        if k == 'cont':
            return [i for i, f in enumerate(t[1:]) if not is_basic(f) and kind(f) not in ('Bv', 'Bl')]
        if k == 'union':
            o = t[1:][int(v[1])]
            if o == 'none' or is_basic(o) or kind(o) in ('Bv', 'Bl'):
                return []
            return [0]
        return []

    def child_tv(self, view, key):
        t, v = view['t'], view['v']
        k = kind(t)
        if k in ('vec', 'list'):
            return t[1], v[1 + key]
        if k == 'cont':
            return t[1 + key], v[1 + key]
        if k == 'union':
            return t[1:][int(v[1])], v[2]

    def propagate(self, r):
        view = self.views[r]
        while view['hook'] is not None:
            p, key = view['hook']
            parent = self.views[p]
            pt = parent['t']
            if kind(pt) == 'union':
                parent['v'] = ['u', parent['v'][1], view['v']]
            else:
                parent['v'] = parent['v'][:1 + key] + [view['v']] + parent['v'][2 + key:]
            view = parent

    def stale(self, i):
        """is some hook between view i and its root view stale in the tracked state?"""
        view = self.views[i]
        while view['hook'] is not None:
            p, key = view['hook']
            parent = self.views[p]
            pk = kind(parent['t'])
            if pk == 'list' and key >= len(parent['v']) - 1:
                return True
            if pk == 'union' and view.get('sel') != int(parent['v'][1]):
                return True
            view = parent
        return False

    def mutable(self, view):
        t = view['t']
        if is_basic(t):
            return False
        return kind(t) in ('list', 'vec', 'bl', 'bv', 'cont', 'union')

    def one_op(self, view):
        g = self.g
        r = g.rng
        t, v = view['t'], view['v']
        k = kind(t)
        if k in ('list', 'vec') and len(v) - 1 >= 2 and r.random() < 0.15:
            # slice assignment (often starting in the middle of a packed chunk)
            ln = len(v) - 1
            i = r.randrange(ln)
            kk = r.randint(1, min(4, ln - i))
            return ['sets', i, ['s'] + [g.val(t[1], 4) for _ in range(kk)]]
        if k == 'list':
            ln = len(v) - 1
            choices = []
            if ln < t[2]:
                choices += ['app'] * 3
            if ln > 0:
                choices += ['set'] * 3
                if not view['kids'] or r.random() < 0.35:
                    choices += ['pop'] * 3
            if not choices:
                return None
            c = r.choice(choices)
            if c == 'app':
                return ['app', g.val(t[1], 5)]
            if c == 'pop':
                return ['pop']
            return ['set', r.choice([0, ln - 1, r.randrange(ln)]), g.val(t[1], 5)]
        if k == 'bl':
            ln = len(v) - 1
            choices = (['app'] * 3 if ln < t[1] else []) + (['set', 'pop', 'pop'] if ln > 0 else [])
            if not choices:
                return None
            c = r.choice(choices)
            if c == 'app':
                return ['app', r.choice('01')]
            if c == 'pop':
                return ['pop']
            return ['set', r.choice([0, ln - 1, r.randrange(ln)]), r.choice('01')]
        if k == 'vec':
            return ['set', r.randrange(t[2]), g.val(t[1], 5)]
        if k == 'bv':
            return ['set', r.randrange(t[1]), r.choice('01')]
        if k == 'cont':
            i = r.randrange(len(t) - 1)
            return ['set', i, g.val(t[1 + i], 6)]
        if k == 'union':
            if view['kids'] and r.random() < 0.6:
                return None
            opts = t[1:]
            sel = r.randrange(len(opts))
            return ['chg', sel, 'none' if opts[sel] == 'none' else g.val(opts[sel], 6)]
        return None

    def history(self, n, p_bad=0.0, p_badsets=0.0):
        g = self.g
        r = g.rng
        ops = []
        for _ in range(n):
            c = r.random()
            cand_child = [(i, k) for i, vw in enumerate(self.views) for k in self.child_keys(vw)]
            if c < 0.25 and cand_child and len(self.views) < 9:
                i, key = r.choice(cand_child)
                ct, cv = self.child_tv(self.views[i], key)
                self.views[i]['kids'] = True
                self.views.append(dict(t=ct, v=cv, hook=(i, key), kids=False,
                                       sel=int(self.views[i]['v'][1]) if kind(self.views[i]['t']) == 'union' else None))
                kt = kind(self.views[i]['t'])
                ops.append(r.choice(['childs', 'childi', 'childn', 'childr']) if kt in ('vec', 'list') and r.random() < 0.6 else
                           'childn' if kt == 'cont' and r.random() < 0.25 else 'child')
                ops[-1] = [ops[-1], i, key]
            elif c < 0.30 and len(self.views) >= 2:
                # assign a held child view as the value of another position (a copy of the value: the
                # view stays attached to where it was obtained from)
                ci = r.randrange(1, len(self.views))
                cv = self.views[ci]
                cands = []
                for pi, pv in enumerate(self.views):
                    if pi == ci:
                        continue
                    pt = pv['t']
                    if kind(pt) in ('vec', 'list') and not is_basic(pt[1]) and show(pt[1]) == show(cv['t']):
                        cands += [(pi, j) for j in range(len(pv['v']) - 1)]
                    elif kind(pt) == 'cont':
                        cands += [(pi, j) for j, f in enumerate(pt[1:]) if show(f) == show(cv['t'])]
                # not into an ancestor position that contains the view itself (still legal, but the
                # generator's value tracking keeps it simple)
                cands = [(pi, j) for pi, j in cands if not self.stale(pi)]
                if cands and cv['hook'] is not None:
                    pi, j = r.choice(cands)
                    pv = self.views[pi]
                    pv['v'] = pv['v'][:1 + j] + [cv['v']] + pv['v'][2 + j:]
                    self.propagate(pi)
                    ops.append(['assign', pi, j, ci, cv['v']])
            elif c < 0.33 and len(self.views) < 9:
                i = r.randrange(len(self.views))
                if r.random() < 0.5:
                    mv = [j for j, w in enumerate(self.views) if self.mutable(w)]
                    if mv:
                        i = r.choice(mv)
                vw = self.views[i]
                if not is_basic(vw['t']):
                    self.views.append(dict(t=vw['t'], v=vw['v'], hook=None, kids=False))
                    ops.append(['copy', i])
            elif 0.36 <= c < 0.39:
                # view.f_k.value().<op>: a mutation through the value view of a union child, both views being temporaries
                cu = []
                for i, vw in enumerate(self.views):
                    if self.stale(i):
                        continue
                    for key in self.child_keys(vw):
                        ct, cv = self.child_tv(vw, key)
                        if kind(ct) == 'union' and kind(vw['t']) != 'union':
                            uview = dict(t=ct, v=cv, hook=None, kids=False)
                            if self.child_keys(uview):
                                cu.append((i, key, uview))
                if cu:
                    i, key, uview = r.choice(cu)
                    vt, vv = self.child_tv(uview, 0)
                    op = self.one_op(dict(t=vt, v=vv, hook=None, kids=False))
                    if op is not None and op[0] != 'sets':
                        vv2 = _apply_val(vt, vv, op)
                        pv = self.views[i]
                        pv['v'] = pv['v'][:1 + key] + [['u', uview['v'][1], vv2]] + pv['v'][2 + key:]
                        self.propagate(i)
                        ops.append(['mutv', i, key, len(self.views), op])
            elif 0.39 <= c < 0.44:
                # view.a.b(.c).<op>: a mutation two or three levels below a held view, every view on the way a temporary;
                # half of the time the target is obtained with a Path (when no union is on the way)
                live = [i for i in range(len(self.views)) if not self.stale(i)]
                if live:
                    i = r.choice(live)
                    cur = dict(t=self.views[i]['t'], v=self.views[i]['v'], hook=None, kids=False)
                    keys, trail = [], []
                    for _ in range(r.choice([2, 2, 3])):
                        ck = self.child_keys(cur)
                        if not ck:
                            break
                        key = r.choice(ck)
                        ct, cv = self.child_tv(cur, key)
                        trail.append((cur, key))
                        keys.append(key)
                        cur = dict(t=ct, v=cv, hook=None, kids=False)
                    if len(keys) >= 2:
                        op = self.one_op(cur)
                        if op is not None and op[0] != 'sets':
                            nv_ = _apply_val(cur['t'], cur['v'], op)
                            for par, key in reversed(trail):
                                if kind(par['t']) == 'union':
                                    nv_ = ['u', par['v'][1], nv_]
                                else:
                                    nv_ = par['v'][:1 + key] + [nv_] + par['v'][2 + key:]
                            self.views[i]['v'] = nv_
                            self.propagate(i)
                            no_union = all(kind(par['t']) != 'union' for par, _ in trail)
                            ops.append(['mutt', i, len(self.views), 'path' if no_union and r.random() < 0.6 else 'attr', keys, op])
            elif c < 0.36 and cand_child:
                # a throw-away copy of a held view gets an element replaced by an equal-root SUMMARY of it
                i, key = r.choice(cand_child)
                ops.append(['tmpsum', i, key])
            elif c < 0.53:
                ops.append(['snap', r.randrange(len(self.views))])
            else:
                # prefer deeper views: that is where propagation matters
                idx = [i for i, vw in enumerate(self.views) if self.mutable(vw)]
                if not idx:
                    continue
                i = r.choice(idx + [x for x in idx if self.views[x]['hook'] is not None] * 2)
                vw = self.views[i]
                if self.stale(i):
                    # the view's position no longer exists: the write must fail, nothing changes
                    op = self.one_op(vw)
                    if op is not None and op[0] != 'sets':
                        ops.append(['bad', i, op])
                    continue
                if p_badsets > 0 and r.random() < p_badsets and kind(vw['t']) in ('list', 'vec') and len(vw['v']) - 1 >= 2:
                    # a slice assignment that fails in the middle (an invalid item, or running past the end): the items
                    # before the failing one stay written, and the view must stay attached to its parents
                    t_, v_ = vw['t'], vw['v']
                    ln = len(v_) - 1
                    if r.random() < 0.5 and is_basic(t_[1]) and t_[1] not in ('u256', 'bool'):
                        st = r.randrange(ln - 1)
                        good = [g.val(t_[1], 3) for _ in range(r.randint(1, min(2, ln - 1 - st)))]
                        items = good + [str(1 << (8 * UINT_W[t_[1]]))]
                    else:
                        st = r.randrange(max(ln - 2, 0), ln)
                        good = [g.val(t_[1], 3) for _ in range(ln - st)]
                        items = good + [g.val(t_[1], 3)]
                    vw['v'] = v_[:1 + st] + good + v_[1 + st + len(good):]
                    self.propagate(i)
                    ops.append(['bad', i, ['sets', st, ['s'] + items]])
                    continue
                if p_bad > 0 and r.random() < p_bad:
                    bad = g.invalid_op(vw['t'], vw['v'])
                    if bad is not None:
                        ops.append(['bad', i, bad])
                        continue
                op = self.one_op(vw)
                if op is None:
                    continue
                vw['v'] = _apply_val(vw['t'], vw['v'], op)
                self.propagate(i)
                ops.append(['mut', i, op])
        return ops


def nested_ty(g, depth):
    """a composite type with mutable composite children (for child-view histories)"""
    r = g.rng
    if depth <= 0:
        return g.mutable_ty(1)
    k = r.choice(['cont', 'cont', 'list', 'vec', 'union'])
    if k == 'cont':
        n = r.choice([1, 2, 3, 4, 5])
        return ['cont'] + [nested_ty(g, depth - 1) if r.random() < 0.6 else g.ty(1) for _ in range(n)]
    if k == 'list':
        return ['list', nested_ty(g, depth - 1), r.choice([1, 2, 3, 4, 5, 8, 9, 2**40])]
    if k == 'vec':
        return ['vec', nested_ty(g, depth - 1), r.choice([1, 2, 3, 4, 5])]
    opts = [nested_ty(g, depth - 1) for _ in range(r.choice([1, 2, 3]))]
    if r.random() < 0.3:
        opts = ['none'] + opts
    return ['union'] + opts


# -------------------------------------------------------------------- tree positions of a value (C17)
def _get_depth(n):
    return 0 if n <= 1 else (n - 1).bit_length()


def _chunk_len(t, n):
    et = t[1]
    if is_basic(et):
        per = 32 // (UINT_W[et] if et != 'bool' else 1)
        return (n + per - 1) // per
    return n


def positions(t, v, root=1, out=None, depth_left=3):
    """generalized indices of structurally interesting nodes of the backing of value v (generator
    guidance only: where to summarise so that reads / writes cross the boundary of an excluded subtree)"""
    if out is None:
        out = []
    k = kind(t)
    if is_basic(t) or depth_left < 0:
        return out

    def below(g, d, i):
        return (g << d) | i
    if k in ('list', 'bl', 'Bl'):
        out.append(root * 2)          # contents
        n = len(v) - 1 if k != 'Bl' else (len(v) - 1) // 2
        if k == 'list':
            d = _get_depth(_chunk_len(t, t[2]))
            cnt = _chunk_len(t, n)
        elif k == 'bl':
            d = _get_depth((t[1] + 255) // 256)
            cnt = (n + 255) // 256
        else:
            d = _get_depth((t[1] + 31) // 32)
            cnt = (n + 31) // 32
        for i in ([0, cnt - 1, cnt // 2] if cnt > 0 else []):
            leaf = below(root * 2, d, i)
            out.append(leaf)
            for up in (1, 2):
                if d >= up:
                    out.append(leaf >> up)      # parent / grandparent of a chunk
        if d >= 1:
            out.append(below(root * 2, d, min(cnt, (1 << d) - 1)) >> 1)   # the pair the next append opens
        if k == 'list' and not is_basic(t[1]):
            for i in ([0, n - 1] if n > 0 else []):
                positions(t[1], v[1 + i], below(root * 2, d, i), out, depth_left - 1)
    elif k in ('vec', 'bv', 'Bv'):
        if k == 'vec':
            d = _get_depth(_chunk_len(t, t[2]))
            cnt = _chunk_len(t, t[2])
        elif k == 'bv':
            d = _get_depth((t[1] + 255) // 256)
            cnt = (t[1] + 255) // 256
        else:
            d = _get_depth((t[1] + 31) // 32)
            cnt = (t[1] + 31) // 32
        for i in [0, cnt - 1]:
            leaf = below(root, d, i)
            out.append(leaf)
            if d >= 1:
                out.append(leaf >> 1)
        if k == 'vec' and not is_basic(t[1]):
            for i in [0, t[2] - 1]:
                positions(t[1], v[1 + i], below(root, d, i), out, depth_left - 1)
    elif k == 'cont':
        d = _get_depth(len(t) - 1)
        for i, ft in enumerate(t[1:]):
            g = below(root, d, i)
            out.append(g)
            positions(ft, v[1 + i], g, out, depth_left - 1)
    elif k == 'union':
        out.append(root * 2)
        o = t[1:][int(v[1])]
        if o != 'none':
            positions(o, v[2], root * 2, out, depth_left - 1)
    return out
