"""Per-property case generation and comparison rules.

Finding classes:
  prop  - the property's own predicate fails on the real code (python vs Spec oracle / self-consistency)
  corr  - python differs from the Impl mirror on a gated observable (the tie model<->code is broken)
  model - Impl mirror differs from Spec inside the model (a theorem's run-time re-check fails)
"""
import subprocess
import os
from sexp import show, parse
from gen import Gen, kind, is_basic, is_fixed, UINT_W, StoreGen, nested_ty, positions, _get_depth
from gen import offset_positions as gen_offset_positions

HERE = os.path.dirname(os.path.abspath(__file__))
DRV = os.path.join(os.path.dirname(HERE), 'lean', '.lake', 'build', 'bin', 'rmkdrv')


def model_query(line):
    p = subprocess.run([DRV], input=line + '\n', capture_output=True, text=True, timeout=120)
    d = {}
    for t in p.stdout.strip().split(';'):
        if '=' in t:
            k, v = t.split('=', 1)
            d[k] = v
    return d


def F(cls, key, py, model):
    return dict(cls=cls, key=key, py=py, model=model)


def bump(stats, table, key, n=1):
    if stats is None:
        return
    stats[table][key] = stats[table].get(key, 0) + n


def size_class(n):
    for b in (0, 1, 2, 8, 32, 64, 256, 1024):
        if n <= b:
            return '<=%d' % b
    return '>1024'


def val_size(v):
    if isinstance(v, str):
        return max(len(v) - 1, 0) if v[:1] in 'bx' else 0
    return len(v) - 1


class Prop:
    pid = ''
    title = ''
    theorems = []
    modules = []
    trusted = []
    assumptions = []
    rule = ''
    explanation = ''
    quick_n = 300
    thorough_n = 6000

    def n(self, tier):
        return self.quick_n if tier == 'quick' else self.thorough_n

    def depth(self, tier):
        return 3 if tier == 'quick' else 4

    def search_rounds(self, tier):
        return 4 if tier == 'quick' else 10

    def generate(self, g, tier, focus=None):
        raise NotImplementedError

    def compare(self, case, py, mo, stats):
        raise NotImplementedError

    def nontrivial(self, c):
        return len(c) > 24

    def shrink_candidates(self, case):
        k = case[0]
        if k == 'hist':
            ops = case[3:]
            for i in range(len(ops) - 1, -1, -1):
                yield case[:3] + ops[:i] + ops[i + 1:]
        if k == 'tree':
            cmds = case[2:]
            for i in range(len(cmds) - 1, -1, -1):
                if len(cmds) > 1:
                    yield case[:2] + cmds[:i] + cmds[i + 1:]
        if k in ('store', 'partial', 'virt'):
            ops = case[3:]
            for i in range(len(ops) - 1, -1, -1):
                yield case[:3] + ops[:i] + ops[i + 1:]

    # helpers -------------------------------------------------------------------------------
    def tv(self, g, tier, mutable=False):
        d = g.rng.choice([1, 2, 2, 3] if tier == 'quick' else [1, 2, 3, 3, 4])
        t = g.mutable_ty(d) if mutable else g.ty(d, composite_only=g.rng.random() < 0.85)
        v = None
        if not mutable and g.rng.random() < 0.25:
            v = g.max_val(t)          # everything full: the longest valid encoding
        if v is None:
            v = g.val(t)
        return t, v

    def note_tv(self, stats, t, v):
        bump(stats, 'kinds', kind(t))
        bump(stats, 'sizes', size_class(val_size(v)))


# --------------------------------------------------------------------------------------------------
def zero_tail_cases(g, n):
    """values of variable-length types (capacity of four and more chunks) whose LAST chunk(s) of content hold only zero
    bits / bytes / numbers while the length is not a multiple of the chunk size: the tail chunk equals the padding"""
    r = g.rng
    out = []
    for _ in range(n):
        c = r.randrange(4)
        full = r.choice([1, 2, 2, 3, 4])          # chunks with live data
        zc = r.choice([1, 1, 2])                   # trailing all-zero chunks (the last one partly used)
        cap = r.choice([4, 8, 16, 20]) if full + zc <= 4 else r.choice([8, 16, 20])
        if c == 0:
            ln = 256 * (full + zc - 1) + r.choice([1, 7, 88, 255])
            t = ['bl', 256 * cap + r.choice([0, 0, 1, -1])]
            v = 'b' + ''.join(r.choice('01') for _ in range(256 * full - 1)) + '1' + '0' * (ln - 256 * full)
        elif c == 1:
            ln = 32 * (full + zc - 1) + r.choice([1, 5, 31])
            t = ['Bl', 32 * cap + r.choice([0, 0, 1, -1])]
            v = 'x' + bytes([r.randint(1, 255) for _ in range(32 * full)] + [0] * (ln - 32 * full)).hex()
        else:
            e = r.choice(['u8', 'u16', 'u64', 'bool', 'u128'])
            per = 32 // UINT_W.get(e, 1)
            ln = per * (full + zc - 1) + r.choice([1, max(per - 1, 1)])
            t = ['list', e, per * cap + r.choice([0, 0, 1])]
            v = ['s'] + [g.max_val(e) if e != 'bool' else '1' for _ in range(per * full)] + ['0'] * (ln - per * full)
        w = r.random()
        if w < 0.2:
            t, v = ['cont', 'u8', t], ['s', '3', v]
        elif w < 0.3:
            t, v = ['union', 'none', t], ['u', 1, v]
        out.append((t, v))
    return out


def same_content_cases(g, n):
    """the SAME multi-chunk content held by several types that differ in a limit only (byte lists, bit lists, lists of
    small integers; integers above 2**64 as uint128 and uint256), one after the other in the same process, alone and as a
    container field"""
    r = g.rng
    out = []
    for it_ in range(max(n, 4)):
        c = it_ if it_ < 4 else r.randrange(4)      # (every kind at least once)
        lims = r.sample([64, 100, 128, 1000, 2048, 2**20], 3)
        if c == 0:
            nb = r.choice([33, 40, 64])
            v = 'x' + bytes(r.getrandbits(8) for _ in range(nb)).hex()
            ts = [['Bl', l] for l in lims]
        elif c == 1:
            nb = r.choice([257, 300, 512])
            v = g.bits(nb)
            ts = [['bl', l * 8] for l in lims]
        elif c == 2:
            e = r.choice(['u8', 'u16', 'bool'])
            v = ['s'] + [g.val(e, 1) for _ in range(r.choice([33, 40, 64]))]
            ts = [['list', e, l] for l in lims]
        else:
            v = str(r.randrange(1 << 64, 1 << 128))
            ts = ['u128', 'u256', 'u128']
        wrap = r.random()
        for t in ts:
            if wrap < 0.3:
                out.append(show(['val', ['cont', 'u8', t], ['s', '1', v]]))
            else:
                out.append(show(['val', t, v]))
    return out


class ValProp(Prop):
    """properties checked on (type, value) cases"""

    def generate(self, g, tier, focus=None):
        out = []
        for _ in range(self.n(tier)):
            t, v = self.tv(g, tier)
            out.append(show(['val', t, v]))
        for t, v in zero_tail_cases(g, max(16, self.n(tier) // 20)):
            out.append(show(['val', t, v]))
        out += chunk_exact_cases(g, max(24, self.n(tier) // 12))
        out += same_content_cases(g, max(6, self.n(tier) // 40))
        # one packed sequence of more than 512 (thorough: 1024) chunks
        e_ = g.rng.choice(['u256', 'u128'])
        n_ = (520 if tier == 'quick' else 1030) * (32 // UINT_W[e_]) + g.rng.choice([0, 1, 3])
        out.append(show(['val', g.rng.choice([['list', e_, n_ + 100], ['vec', e_, n_]]), ['s'] + [g.val(e_, 1) for _ in range(n_)]]))
        # 32-byte elements / fields whose VALUE is the root of an empty subtree (a zero hash of height 1, 2, ...)
        zh = [C18.sx_root(['Z', k_]).hex() for k_ in range(0, 6)]
        for _ in range(3):
            vals = ['x' + g.rng.choice(zh[1:]), 'x' + g.rng.choice(zh), 'x' + g.chunk().hex(), 'x' + zh[g.rng.choice([1, 2, 5])]]
            out.append(show(['val', g.rng.choice([['list', ['Bv', 32], 8], ['vec', ['Bv', 32], 4]]), ['s'] + vals]))
            out.append(show(['val', ['cont', ['Bv', 32], 'u8', ['Bv', 32]], ['s', vals[0], '1', vals[3]]]))
            out.append(show(['val', ['list', 'u256', 8], ['s'] + [str(int.from_bytes(bytes.fromhex(q[1:]), 'little')) for q in vals]]))
        # a union with the greatest number of options, the last one selected
        opts_ = [g.rng.choice(['u8', 'u16', ['list', 'u8', 2]]) for _ in range(128)]
        for no_ in (128, 127, 65):
            u_ = ['union'] + opts_[:no_]
            out.append(show(['val', u_, ['u', no_ - 1, g.val(u_[no_], 2)]]))
        # families of types that print alike, a (full) value of each, the tightest member first
        for fam in alike_families(g, max(3, self.n(tier) // 60)):
            key = lambda q: q[1][1] if q[1][0] != 'cont' else q[1][2][1]
            for t in sorted(fam, key=key):
                v = g.max_val(t) or g.val(t, 4)
                out.append(show(['val', t, v]))
                if g.rng.random() < 0.5:
                    out.append(show(['val', ['cont', 'u8', t], ['s', '1', v]]))
        return out


def cmp_eq(out, cls, key, py, mo, pk, mk, transform=None):
    a = py.get(pk)
    b = mo.get(mk)
    if transform:
        b = transform(b)
    if a != b:
        out.append(F(cls, '%s~%s' % (pk, mk), a, b))


def chunk_exact_cases(g, n):
    """values of variable-length types whose content fills exactly 1..4 chunks (no padding in the last
    chunk), under limits of several tree depths, alone and nested"""
    r = g.rng
    out = []
    # always: byte-sized elements filling exactly one and two chunks, as list and as vector, alone and as a field
    for cnt in (32, 64):
        vals = ['s'] + [g.val('u8', 1) for _ in range(cnt)]
        for t in (['list', 'u8', r.choice([cnt, cnt + 1, 1000])], ['vec', 'u8', cnt], ['list', 'bool', cnt], ['vec', 'bool', cnt]):
            v = vals if t[1] == 'u8' else ['s'] + [r.choice('01') for _ in range(cnt)]
            out.append(show(['val', t, v]))
            out.append(show(['val', ['cont', 'u16', t, 'u8'], ['s', '7', v, '9']]))
    # always: bit fields whose length is 1..7 bits short of a chunk boundary (the last BYTE of the chunk is partly used)
    for nb in (r.choice([249, 250, 251]), r.choice([252, 253, 254]), 255, r.choice([505, 507, 509, 510]), 511):
        bits = 'b' + ''.join(r.choice('01') for _ in range(nb - 1)) + '1'
        out.append(show(['val', ['bv', nb], bits]))
        out.append(show(['val', ['bl', nb + r.choice([0, 1, 300])], bits]))
        if r.random() < 0.5:
            out.append(show(['val', ['cont', 'u8', ['bv', nb]], ['s', '2', bits]]))
    for _ in range(n):
        nbytes = 32 * r.choice([1, 1, 2, 3, 4])
        k = r.choice(['Bl', 'Bl', 'u8', 'u16', 'u64', 'u128', 'bool', 'bl'])
        if k == 'Bl':
            lim = r.choice([nbytes, nbytes + 1, 65, 100, 256, 1024, 2**20, 2**40])
            lim = max(lim, nbytes)
            t, v = ['Bl', lim], 'x' + ''.join('%02x' % r.randrange(256) for _ in range(nbytes))
        elif k == 'bl':
            nb = nbytes * 8
            lim = max(nb, r.choice([nb, nb + 1, 513, 2048, 2**30]))
            t, v = ['bl', lim], 'b' + ''.join(r.choice('01') for _ in range(nb))
        else:
            per = 32 if k == 'bool' else 32 // UINT_W[k]
            cnt = per * (nbytes // 32)
            lim = max(cnt, r.choice([cnt, cnt + 1, 3 * cnt, 1000, 2**40]))
            t, v = ['list', k, lim], ['s'] + [g.val(k, 1) for _ in range(cnt)]
            if r.random() < 0.3:
                t = ['vec', k, cnt]
        c = r.random()
        if c < 0.2:
            t, v = ['cont', 'u8', t], ['s', '3', v]
        elif c < 0.3:
            t, v = ['list', t, 3], ['s', v]
        elif c < 0.4:
            t, v = ['union', 'none', t], ['u', 1, v]
        out.append(show(['val', t, v]))
    return out


def nested_write_ops(g, t, v, n, observe):
    """n mutations through child views of a value (t, v) (each followed, sometimes, by an observation);
    the value is tracked so that the child ops stay meaningful"""
    from gen import _apply_val
    r = g.rng
    sg = StoreGen(g, t, v)
    view = sg.views[0]
    ops = []
    for _ in range(n):
        keys = sg.child_keys(view)
        if not keys:
            break
        key = r.choice(keys)
        ct, cv = sg.child_tv(view, key)
        op = sg.one_op(dict(t=ct, v=cv, hook=None, kids=False))
        if op is None or op[0] == 'sets':
            # (a nested slice assignment may fail half-way with its first items written: not an atomic step)
            continue
        cv2 = _apply_val(ct, cv, op)
        if kind(t) == 'union':
            view['v'] = ['u', view['v'][1], cv2]
        else:
            view['v'] = view['v'][:1 + key] + [cv2] + view['v'][2 + key:]
        if r.random() < 0.5:
            ops.append(observe())
        ops.append(['sub', key, op])
    return ops


def alike_families(g, n, outer_kinds=('vec', 'list')):
    """families of sequence types that differ only in a parameter of the element type which the element class does not
    print (Bitvector[n] / Bitlist[n] / ByteVector[n] / ByteList[n], same-shaped containers): same outer shape, same
    printed name; yields lists of types to be used one after the other in the same process"""
    r = g.rng
    fams = []
    for _ in range(n):
        k = r.choice(['Bv', 'bv', 'bl', 'Bl', 'cont'])
        sizes = r.sample([1, 5, 8, 16, 20, 31, 32, 33, 48, 96, 100, 256, 257, 300, 600, 2048], 3)
        if r.random() < 0.5:
            sizes.sort(reverse=True)
        cnt = r.choice([1, 2, 3, 4, 5])
        ok = r.choice(outer_kinds)
        fam = []
        ik = r.choice(['Bv', 'Bl', 'bl', 'bv'])
        for sz in sizes:
            e = ['cont', 'u8', [ik, sz]] if k == 'cont' else [k, sz]
            fam.append([ok, e, cnt])
        fams.append(fam)
    return fams


def zero_leaves(tr, gi=1, out=None):
    """(gindex, depth) of the zero-subtree summaries (depth >= 1) of a tree S-expression"""
    if out is None:
        out = []
    if tr[0] == 'Z' and int(tr[1]) >= 1:
        out.append((gi, int(tr[1])))
    elif tr[0] == 'P':
        zero_leaves(tr[1], 2 * gi, out)
        zero_leaves(tr[2], 2 * gi + 1, out)
    return out


def slice_count_cases(g, n):
    """slice assignments whose item count differs from the slice length: the items are written one by one (a surplus
    item lands beyond the slice, possibly beyond the length: index error), then the count check fails; the value must
    be the one with exactly the written items, padding included"""
    r = g.rng
    out = []
    for _ in range(n):
        e = r.choice(['u64', 'u16', 'u8', 'u128', 'bool', ['cont', 'u8', 'u16'], ['Bv', 32]])
        per = 32 // UINT_W.get(e, 1) if is_basic(e) else 1
        ln = per * r.choice([0, 1, 2]) + r.choice([1, 2, 3, per]) 
        if r.random() < 0.5:
            t = ['list', e, ln + r.choice([0, 1, 3, 40])]
        else:
            t = ['vec', e, ln]
        v = ['s'] + [g.val(e, 2) for _ in range(ln)]
        ops = []
        for _ in range(r.choice([1, 2, 3])):
            a = r.randrange(ln)
            k_ = r.randint(0, ln - a)
            cnt = max(0, k_ + r.choice([1, 1, 2, -1, 0]))
            ops.append(['setsx', a, k_, ['s'] + [g.max_val(e) if r.random() < 0.5 else g.val(e, 2) for _ in range(cnt)]])
            if r.random() < 0.4 and t[0] == 'list':
                ops.append(r.choice([['pop'], ['app', g.val(e, 2)]]))
        out.append(show(['hist', t, v] + ops))
    return out


def boundary_hist_cases(g, n):
    """histories that start right AFTER a chunk / subtree boundary with a non-zero last element (lengths
    256k+1, 512k+1 bits; per-chunk multiples + 1; 2^k + 1 composite elements) and pop back across it"""
    r = g.rng
    out = []
    for _ in range(n):
        c = r.choice([0, 1, 2, 2])
        if c == 0:
            base = r.choice([256, 512, 512, 768, 1024, 1536])
            ln = base + r.choice([1, 1, 1, 0, 2])
            lim = max(ln, r.choice([ln, 2048, 1030, 4096, 2**20]))
            t = ['bl', lim]
            v = 'b' + ''.join(r.choice('01') for _ in range(ln - 1)) + '1'
            one = lambda: r.choice('01')
        elif c == 1:
            e = r.choice(['u8', 'u16', 'u64', 'u128', 'u256', 'bool'])
            per = 32 // UINT_W.get(e, 1)
            ln = per * r.choice([1, 2, 2, 3, 4, 8]) + r.choice([1, 1, 0])
            lim = max(ln, r.choice([ln, 4 * ln, 1000, 2**40]))
            t = ['list', e, lim]
            v = ['s'] + [g.val(e, 1) for _ in range(ln - 1)] + [g.max_val(e)]
            one = lambda: g.val(e, 1)
        else:
            e = r.choice([['cont', 'u8', 'u16'], ['Bv', 32], ['list', 'u8', 3], ['vec', 'u64', 4], ['cont', 'u64'], ['bv', 200], ['Bv', 7]])
            ln = r.choice([0, 0, 1, 2, 4, 4, 8]) + r.choice([1, 1, 0])
            lim = max(ln, r.choice([ln, 16, 9, 2**30]), 3)
            t = ['list', e, lim]
            v = ['s'] + [g.max_val(e) if r.random() < 0.5 else g.val(e, 3) for _ in range(ln)]
            # (all-zero elements included: an appended zero element must exist in the tree like any other)
            one = lambda: g.zero(e) if r.random() < 0.4 else g.val(e, 3)
        ops = [['pop']] if len(v) > 1 else []
        cur = len(v) - 1 - len(ops)
        for _ in range(r.choice([1, 3, 6])):
            o = r.choice([['pop'], ['pop'], ['app', one()], ['app', one()]])
            if o[0] == 'pop' and cur == 0 or o[0] == 'app' and cur >= lim:
                continue
            cur += 1 if o[0] == 'app' else -1
            ops.append(o)
        if ops:
            out.append(show(['hist', t, v] + ops))
    return out


class C01(ValProp):
    pid = 'C01'
    theorems = ['Rmk.C01.construct_root']
    rule = ('random (type, value) cases from the boundary-biased generator (gen.py), each built by constructor, '
            'decode and object import, plus default and mutation routes; non-trivial = composite type or non-default value; '
            'distinct = distinct case lines')

    def generate(self, g, tier, focus=None):
        out = ValProp.generate(self, g, tier)
        n = self.n(tier)
        for _ in range(n // 3):
            t = g.ty(g.rng.choice([1, 2, 3]), composite_only=g.rng.random() < 0.9)
            out.append(show(['type', t]))
        for _ in range(n // 6):
            t = g.mutable_ty(2)
            v = g.val(t, 30)
            ops, _ = g.ops(t, v, g.rng.choice([3, 8, 20]))
            out.append(show(['hist', t, v] + ops))
        for d in ([0, 1, 2, 31, 32, 33, 64, 100, 255] if tier == 'quick' else range(256)):
            out.append(show(['zh', d]))
        out += chunk_exact_cases(g, n // 6)
        out += boundary_hist_cases(g, n // 6)
        out += slice_count_cases(g, n // 8)
        r = g.rng
        for _ in range(n // 10):
            # a bit list / byte list / list view whose type has ANOTHER limit (another tree depth) is stored: it is coerced
            k_ = r.choice(['bl', 'bl', 'Bl', 'list'])
            lim, flim = r.sample([8, 64, 256, 257, 512, 2048, 4096, 100, 200], 2)
            ln = r.randint(0, min(lim, flim, 40))
            if k_ == 'list':
                et, ft = ['list', 'u64', lim], ['list', 'u64', flim]
                xv = ['s'] + [g.val('u64', 1) for _ in range(min(ln, 12))]
            else:
                et, ft = [k_, lim], [k_, flim]
                xv = g.bits(ln) if k_ == 'bl' else g.bytez(min(ln, lim, flim))
            t, v = r.choice([(['cont', 'u8', et], ['s', '1', g.zero(et)]), (['list', et, 4], ['s', g.zero(et), g.zero(et)]), (['vec', et, 2], ['s', g.zero(et), g.zero(et)])])
            i = 1 if t[0] == 'cont' else r.randrange(2)
            out.append(show(['hist', t, v, ['setc', i, ft, xv], ['setc', i, ft, g.zero(et)], ['setc', i, ft, xv]]))
        for _ in range(n // 8):
            # huge limits around powers of two (chunk counts 2**k - 1, 2**k, 2**k + 1, 2**k + small), small values
            k = r.choice([40, 49, 50, 52, 53, 56, 60, 62])
            chunks = (1 << k) + r.choice([-1, 0, 1, 1, 2, 3, 7])
            c = r.randrange(4)
            if c == 0:
                t = ['list', 'u256', chunks]
            elif c == 1:
                t = ['bl', 256 * chunks + r.choice([0, 1, -255])]
            elif c == 2:
                t = ['Bl', 32 * chunks + r.choice([0, 1, -31])]
            else:
                t = ['list', r.choice([['cont', 'u8', 'u16'], ['Bv', 48], 'u64']), chunks * (4 if False else 1)]
            v = g.val(t, 3)
            if r.random() < 0.3:
                t, v = ['cont', 'u8', t], ['s', '1', v]
            out.append(show(['val', t, v]))
            out.append(show(['type', t]))
        for _ in range(n // 10):
            # defaults of vectors (odd and even lengths) of elements whose default root is not the zero chunk
            e = r.choice([['cont', 'u8', 'u16'], ['list', 'u16', 40], ['bl', 9], ['union', 'u8', 'u16'], ['vec', ['list', 'u8', 2], 3],
                          ['Bv', 48], ['bv', 300], ['cont', ['list', 'u8', 1]], ['Bl', 4]])
            t = ['vec', e, r.choice([1, 2, 3, 3, 5, 6, 7, 9, 11, 15, 17])]
            c = r.random()
            if c < 0.3:
                t = ['cont', 'u64', t]
            elif c < 0.4:
                t = ['union', t, 'u8']
            elif c < 0.5:
                t = ['vec', t, 3]
            out.append(show(['type', t]))
        # mutations through child views (union values, fields, elements) of already hashed values
        for _ in range(n // 8):
            t = nested_ty(g, r.choice([1, 2, 2]))
            v = g.val(t, 8)
            out.append(show(['store', t, v] + StoreGen(g, t, v).history(r.choice([6, 15]))))
        out += stale_cases(g, max(8, n // 20))
        return out

    def compare(self, case, py, mo, stats):
        out = []
        k = case[0]
        if k == 'val':
            self.note_tv(stats, case[1], case[2])
            if py.get('p.ctor') != 'ok':
                out.append(F('prop', 'ctor', py.get('p.ctor'), 'valid value must be constructible'))
                return out
            sroot = mo['s.root']
            if py.get('p.root') != sroot:
                out.append(F('prop', 'root(ctor)', py.get('p.root'), sroot))
            if 'p.dec' in py and py['p.dec'].split('/')[0] != sroot:
                out.append(F('prop', 'root(decode)', py['p.dec'], sroot))
            if 'p.decs' in py and py['p.decs'].split('/')[0] != sroot:
                out.append(F('prop', 'root(stream decode)', py['p.decs'], sroot))
            o = py.get('p.obj', 'err').split('/')
            if len(o) < 3 or o[1] != sroot or o[2] != sroot:
                out.append(F('prop', 'root(from_obj)', py.get('p.obj'), sroot))
            if mo['i.root'] != sroot:
                out.append(F('model', 'i.root~s.root', mo['i.root'], sroot))
            if py.get('p.root') != mo['i.root']:
                out.append(F('corr', 'p.root~i.root', py.get('p.root'), mo['i.root']))
        elif k == 'type':
            bump(stats, 'kinds', 'type:' + kind(case[1]))
            z = mo['s.zroot']
            d = py.get('p.default', 'err').split('/')
            if d[0] != z or d[-1] != z:
                out.append(F('prop', 'root(default)', py.get('p.default'), z))
            if py.get('p.droot') != z:
                out.append(F('prop', 'root(default_node)', py.get('p.droot'), z))
            if mo['i.droot'] != z:
                out.append(F('model', 'i.droot~s.zroot', mo['i.droot'], z))
        elif k == 'hist':
            bump(stats, 'kinds', 'hist:' + kind(case[1]))
            for i in range(len(case) - 3):
                a, b = py.get('%d.proot' % i), mo.get('%d.sroot' % i)
                if a != b:
                    out.append(F('prop', 'root(after op %d)' % i, a, b))
                    break
        elif k == 'store':
            return StoreProp.compare_store(self, case, py, mo, stats, 'views')
        elif k == 'zh':
            if py.get('p.zh') != mo.get('zh'):
                out.append(F('prop', 'zero_hashes[%s]' % case[1], py.get('p.zh'), mo.get('zh')))
        return out


class C02(ValProp):
    pid = 'C02'

    def generate(self, g, tier, focus=None):
        out = ValProp.generate(self, g, tier)
        r = g.rng
        # sequences whose fixed-size composite elements are exactly 16 / 32 / 64 bytes long (chunk-size
        # coincidences), sequences of variable-size elements followed by more data in the same stream
        for _ in range(self.n(tier) // 5):
            e = r.choice([['cont', 'u128', 'u128'], ['cont', 'u64', 'u64', 'u64', 'u64'], ['vec', ['Bv', 16], 2], ['vec', ['bv', 128], 2],
                          ['cont', 'u64', 'u64'], ['cont', ['Bv', 32], ['Bv', 32]], ['vec', 'u128', 2], ['cont', 'u256'], ['Bv', 32],
                          ['cont', 'u8', ['vec', 'u8', 31]], ['vec', ['cont', 'u64', 'u64'], 2]])
            seq = r.choice([['list', e, r.choice([1, 2, 3, 5, 8])], ['vec', e, r.choice([1, 2, 3, 4])]])
            ve = r.choice([['Bl', 9], ['list', 'u16', 3], ['bl', 12], ['union', 'none', 'u32']])
            vseq = r.choice([['list', ve, 4], ['vec', ve, 2]])
            t = r.choice([seq, ['cont', 'u8', seq, 'u16'], ['cont', vseq, seq, vseq], ['list', vseq, 3], ['cont', vseq, ['Bl', 5], 'u8', vseq]])
            out.append(show(['val', t, g.val(t, 30)]))
        # long sequences of variable-size elements (more than 1024 offsets)
        for n_ in ([1025, 1100] if tier == 'quick' else [1024, 1025, 1500, 2049, 4097]):
            e = r.choice([['Bl', 2], ['bl', 5], ['list', 'u8', 2], ['union', 'none', 'u8']])
            t = r.choice([['list', e, 5000], ['vec', e, n_]])
            out.append(show(['val', t, ['s'] + [g.val(e, 2) for _ in range(n_)]]))
        # variable-size sequences nested three and more levels deep, directly and through containers / unions
        for _ in range(self.n(tier) // 6):
            leaf = r.choice([['Bl', 8], ['bl', 9], ['list', 'u16', 3], ['union', 'none', 'u32']])
            l1 = r.choice([['list', leaf, 4], ['vec', leaf, 2]])
            mid = r.choice([['cont', 'u16', l1], ['list', l1, 3], ['vec', l1, 2], ['union', 'none', l1], ['cont', l1, 'u8', l1]])
            l2 = r.choice([['list', mid, 4], ['vec', mid, 2]])
            t = r.choice([l2, ['list', l2, 2], ['cont', 'u8', l2], ['vec', ['cont', l2], 2], ['list', ['list', l2, 2], 2]])
            out.append(show(['val', t, g.val(t, 6)]))
            if r.random() < 0.3:
                out.append(show(['val', t, g.zero(t)]))
            mv = g.max_val(t)
            if mv is not None and r.random() < 0.3:
                out.append(show(['val', t, mv]))
        for _ in range(self.n(tier) // 8):
            t = nested_ty(g, r.choice([1, 2, 2]))
            v = g.val(t, 8)
            out.append(show(['store', t, v] + StoreGen(g, t, v).history(r.choice([6, 15]))))
        return out
    rule = ('random (type, value) cases; encode_bytes, bytes(), serialize(stream) after a 3-byte prefix (content, '
            'return value, tell) against Spec.serialize; non-trivial/distinct as C01')

    def compare(self, case, py, mo, stats):
        out = []
        if case[0] == 'store':
            # the encoding (and root) of every held view after every step of a history of mutations through child views
            bump(stats, 'kinds', 'store:' + kind(case[1]))
            return StoreProp.compare_store(self, case, py, mo, stats, 'views')
        self.note_tv(stats, case[1], case[2])
        if py.get('p.ctor') != 'ok':
            return [F('prop', 'ctor', py.get('p.ctor'), 'valid value must be constructible')]
        sb, sl = mo['s.bytes'], mo['s.len']
        if py.get('p.bytes') != sb:
            out.append(F('prop', 'encode_bytes', py.get('p.bytes'), sb))
        if py.get('p.bytes2') != sb:
            out.append(F('prop', 'bytes()', py.get('p.bytes2'), sb))
        if 'p.bytes3' in py and set(py['p.bytes3']) - {'1'}:
            out.append(F('prop', 'bytes(sub-value) differs from its encode_bytes() (one flag per field / first and last element / union value)', py['p.bytes3'], 'all 1'))
        if py.get('p.stream') != '%s/%s/%s' % (sb, sl, sl):
            out.append(F('prop', 'serialize(stream)', py.get('p.stream'), '%s/%s/%s' % (sb, sl, sl)))
        if mo['i.bytes'] != sb or mo['i.cnt'] != sl:
            out.append(F('model', 'i.bytes~s.bytes', mo['i.bytes'] + '/' + mo['i.cnt'], sb + '/' + sl))
        if py.get('p.bytes') != mo['i.bytes']:
            out.append(F('corr', 'p.bytes~i.bytes', py.get('p.bytes'), mo['i.bytes']))
        return out


class C03(ValProp):
    pid = 'C03'

    def generate(self, g, tier, focus=None):
        out = ValProp.generate(self, g, tier)
        r = g.rng
        # (nearly) full lists / vectors of variable-size elements nested in another composite: the enclosing
        # decoder checks every part against the element type's size bounds
        for _ in range(self.n(tier) // 5):
            ve = r.choice([['Bl', r.choice([1, 8, 33])], ['list', 'u16', r.choice([1, 3, 17])], ['bl', r.choice([1, 9, 257])],
                           ['union', 'none', ['list', 'u8', 5]], ['cont', 'u8', ['list', 'u8', 4]], ['list', ['Bl', 3], 2]])
            inner = r.choice([['list', ve, r.choice([1, 2, 4, 5])], ['vec', ve, r.choice([1, 2, 3])]])
            t = r.choice([['cont', 'u8', inner, 'u16'], ['list', inner, 3], ['vec', inner, 2], ['union', 'none', inner], ['cont', inner, inner]])
            v = g.max_val(t)
            if v is None:
                continue
            if r.random() < 0.5:
                # nearly full: drop / shorten something at random by re-sampling with the same shape bias
                w = g.val(t, 40)
                v = w if r.random() < 0.5 else v
            out.append(show(['val', t, v]))
        # nested mutations between encodings: every held view is encoded after every step (store histories)
        for _ in range(self.n(tier) // 8):
            t = nested_ty(g, r.choice([1, 2, 2]))
            v = g.val(t, 8)
            out.append(show(['store', t, v] + StoreGen(g, t, v).history(r.choice([6, 15]))))
        # fixed-length bit / byte / packed sequences of 3, 5, 6, 7 chunks whose LAST chunk(s) hold only zeros (and the
        # mirror image: zeros first), bare and nested
        for _ in range(self.n(tier) // 6):
            chunks = r.choice([3, 3, 5, 6, 7])
            zc = r.choice([1, 1, 2])
            k = r.choice(['bv', 'Bv', 'vecu', 'vecb', 'bl', 'listu'])
            if k in ('bv', 'bl'):
                n_ = 256 * (chunks - 1) + r.choice([1, 88, 255, 256])
                live = 256 * (chunks - zc)
                body = ''.join(r.choice('01') for _ in range(live)) + '0' * (n_ - live)
                if r.random() < 0.2:
                    body = body[::-1]
                t, v = ([k, n_] if k == 'bv' else ['bl', n_ + r.choice([0, 1, 300])]), 'b' + body
            elif k == 'Bv':
                n_ = 32 * (chunks - 1) + r.choice([1, 17, 32])
                live = 32 * (chunks - zc)
                t, v = ['Bv', n_], 'x' + bytes(r.getrandbits(8) | 1 for _ in range(live)).hex() + '00' * (n_ - live)
            else:
                e = r.choice(['u64', 'u16', 'u128']) if k != 'vecb' else 'bool'
                per = 32 // UINT_W.get(e, 1)
                n_ = per * (chunks - 1) + r.choice([1, per])
                live = per * (chunks - zc)
                vals = [g.max_val(e) for _ in range(live)] + ['0'] * (n_ - live)
                t, v = (['vec', e, n_] if k != 'listu' else ['list', e, n_ + r.choice([0, 5, 1000])]), ['s'] + vals
            c = r.random()
            if c < 0.25:
                t, v = ['cont', 'u8', t, 'u16'], ['s', '1', v, '2']
            elif c < 0.35:
                t, v = ['vec', t, 2], ['s', v, v]
            elif c < 0.45:
                t, v = ['union', 'none', t], ['u', 1, v]
            out.append(show(['val', t, v]))
        return out
    rule = ('random (type, value) cases; decode_bytes(encode) and deserialize(stream at offset 5, exact scope, 3 trailing '
            'bytes): content, root, ==, consumed bytes, re-encoding; non-trivial/distinct as C01')

    def compare(self, case, py, mo, stats):
        out = []
        if case[0] == 'store':
            bump(stats, 'kinds', 'store:' + kind(case[1]))
            return StoreProp.compare_store(self, case, py, mo, stats, 'views')
        self.note_tv(stats, case[1], case[2])
        if py.get('p.ctor') != 'ok':
            return [F('prop', 'ctor', py.get('p.ctor'), 'valid value must be constructible')]
        v = show(case[2])
        exp = '%s/%s/%s/1' % (mo['s.root'], v, mo['s.bytes'])
        if py.get('p.dec') != exp:
            out.append(F('prop', 'decode_bytes(encode(v))', py.get('p.dec'), exp))
        exps = '%s/%s/1' % (mo['s.root'], mo['s.len'])
        if py.get('p.decs') != exps:
            out.append(F('prop', 'deserialize(stream, scope)', py.get('p.decs'), exps))
        exp2 = '%s/%s' % (mo['s.root'], mo['s.root'])
        if py.get('p.dec2') != exp2:
            out.append(F('prop', 'decoding the same bytes again after mutating an earlier result', py.get('p.dec2'), exp2))
        if mo['i.dec'] != v + '/0':
            out.append(F('model', 'i.dec', mo['i.dec'], v + '/0'))
        return out


def boundary_value(g, t, v):
    """with probability 0.4 replace the initial value of a list / bitlist by one whose length sits just
    above a chunk / subtree boundary (so that the first pops and appends cross it), last element non-zero"""
    r = g.rng
    if r.random() > 0.4 or is_basic(t):
        return v
    if kind(t) == 'bl':
        c = [b + 1 for b in (256, 512, 768, 1024, 8, 16) if b + 1 <= t[1]]
        if not c:
            return v
        n = r.choice(c)
        return g.bits(n - 1) + '1'
    if kind(t) == 'list' and is_basic(t[1]):
        per = 32 // (UINT_W.get(t[1], 1))
        c = [per * k + d for k in (1, 2, 3, 4, 8) for d in (0, 1) if 0 < per * k + d <= min(t[2], 140)]
        if not c:
            return v
        n = r.choice(c)
        one = '1' if t[1] == 'bool' else str(r.randint(1, 255))
        return ['s'] + [g.val(t[1]) for _ in range(n - 1)] + [one]
    if kind(t) == 'list':
        c = [k + d for k in (2, 4, 8) for d in (0, 1) if k + d <= min(t[2], 9)]
        if not c:
            return v
        n = r.choice(c)
        return ['s'] + [g.val(t[1], 4) for _ in range(n)]
    return v


class HistProp(Prop):
    p_invalid = 0.0

    def generate(self, g, tier, focus=None):
        out = []
        for _ in range(self.n(tier)):
            t, v = self.tv(g, tier, mutable=True)
            v = boundary_value(g, t, v)
            nops = g.rng.choice([5, 20, 60] if tier == 'quick' else [5, 20, 60, 200])
            if not is_basic(t) and kind(t) in ('cont', 'union', 'vec') and nops > 20:
                nops = 20
            # (every op is followed by observations that walk the whole tree: long histories only on small values)
            sz = len(show(v)) + len(show(t))
            if sz > 8000:
                nops = min(nops, 5)
            elif sz > 1500:
                nops = min(nops, 20)
            ops, _ = g.ops(t, v, nops, self.p_invalid)
            out.append(show(['hist', t, v] + ops))
        return out

    def nontrivial(self, c):
        return c.count('(app') + c.count('(pop') + c.count('(set') + c.count('(chg') >= 2


class C04(HistProp):
    pid = 'C04'
    quick_n = 150
    thorough_n = 2500

    def compare(self, case, py, mo, stats):
        if case[0] == 'store':
            bump(stats, 'kinds', 'store:' + kind(case[1]))
            return StoreProp.compare_store(self, case, py, mo, stats, 'views')
        if case[0] == 'histd':
            bump(stats, 'kinds', 'default-lazy:' + kind(case[1]))
            out = []
            n = len(case) - 2
            for i in range(n):
                bump(stats, 'ops', case[2 + i][0])
                want = 'err' if mo['%d.s' % i] == 'err' else 'ok'
                if py.get('%d.p' % i) != want:
                    out.append(F('corr', 'op %d %s ok/err' % (i, show(case[2 + i])), py.get('%d.p' % i), want))
                    return out
            if n:
                last = '%d.' % (n - 1)
                for pk, mk, what in (('end.read', last + 'scur', 'content'), ('end.bytes', last + 'sbytes', 'encoding'), ('end.root', last + 'sroot', 'root')):
                    if py.get(pk) != mo.get(mk):
                        out.append(F('prop', '%s after a history on the default value (nothing hashed or read on the way)' % what, py.get(pk), mo.get(mk)))
            return out
        return self.compare_hist(case, py, mo, stats)

    def shrink_candidates(self, case):
        for c in Prop.shrink_candidates(self, case):
            yield c
        if case[0] == 'histd':
            ops = case[2:]
            for i in range(len(ops) - 1, -1, -1):
                yield case[:2] + ops[:i] + ops[i + 1:]

    def generate(self, g, tier, focus=None):
        out = HistProp.generate(self, g, tier)
        # mutations made while other views of the same value are held (child views, copies)
        for _ in range(self.n(tier) // 3):
            t = nested_ty(g, g.rng.choice([1, 2, 2]))
            v = g.val(t, 12)
            out.append(show(['store', t, v] + StoreGen(g, t, v).history(g.rng.choice([6, 15, 30]), 0.0, 0.08)))
        out += boundary_hist_cases(g, self.n(tier) // 2)
        out += slice_count_cases(g, self.n(tier) // 5)
        # histories on DEFAULT-constructed values (their backing shares one child object between the two sides of its
        # pairs), nothing hashed or read before the end
        r = g.rng
        for _ in range(self.n(tier) // 3):
            e = r.choice(['u64', 'u16', 'u8', 'bool', ['cont', 'u8', 'u16'], ['vec', 'u64', 8], ['bv', 600], ['list', 'u16', 9], ['Bv', 48],
                          ['cont', 'u64', ['vec', 'u16', 40]]])
            t = r.choice([['vec', e, r.choice([2, 4, 5, 8, 16])], ['bv', r.choice([512, 1024, 1000])], ['cont', 'u8', ['vec', e, 4], ['vec', e, 4]],
                          ['vec', ['vec', e, 4], 4], ['list', ['vec', e, 4], 8]])
            ops, _ = g.ops(t, g.zero(t), r.choice([1, 2, 4, 8]))
            out.append(show(['histd', t] + ops))
        # unions that list the same type at several selectors: changes between them, with equal and different values
        for _ in range(self.n(tier) // 8):
            a = r.choice(['u16', 'u8', ['list', 'u8', 4], ['cont', 'u8', 'u16'], ['Bv', 4], ['bl', 9]])
            b = r.choice(['u8', 'u64', ['vec', 'u16', 2]])
            opts = r.choice([[a, b, a], [a, a], [b, a, a, b], ['none', a, b, a]])
            u = ['union'] + opts
            first = opts.index(a)
            v0 = ['u', first, g.val(a, 4)]
            ops = []
            for _ in range(r.choice([2, 4, 8])):
                sel = r.randrange(len(opts))
                ops.append(['chg', sel, 'none' if opts[sel] == 'none' else (v0[2] if opts[sel] == a and r.random() < 0.4 else g.val(opts[sel], 4))])
            out.append(show(['hist', u, v0] + ops))
            if r.random() < 0.5:
                out.append(show(['hist', ['cont', 'u8', u], ['s', '1', v0], ['set', 1, ['u', len(opts) - 1, g.val(opts[-1], 4)]], ['set', 1, v0]]))
        for _ in range(self.n(tier) // 6):
            u = ['union'] + (['none'] if r.random() < 0.5 else []) + [r.choice([['list', 'u16', 5], ['cont', 'u8', ['list', 'u8', 3]], ['bl', 12]])]
            uv = ['u', len(u) - 2, g.val(u[-1], 4)]
            t, v = r.choice([(['cont', 'u8', u, 'u16'], ['s', '1', uv, '2']), (['list', u, 3], ['s', uv, uv]), (['union', 'u8', u], ['u', 1, uv])])
            out.append(show(['store', t, v] + StoreGen(g, t, v).history(r.choice([6, 12]))))
        if tier == 'thorough':
            # exhaustive: every op sequence of length <= 5 over a small alphabet, on small lists / bitlists
            import itertools
            table = [(['bl', 3], 'b', [['app', '1'], ['app', '0'], ['pop'], ['set', 0, '1']]),
                     (['bl', 257], 'b' + '1' * 255, [['app', '1'], ['pop'], ['set', 255, '0']]),
                     (['list', 'u8', 3], ['s'], [['app', '7'], ['pop'], ['set', 0, '9'], ['set', 2, '1']]),
                     (['list', 'u64', 5], ['s', '1', '2', '3'], [['app', '4'], ['pop'], ['set', 3, '8']]),
                     (['list', ['cont', 'u8', 'u8'], 3], ['s'], [['app', ['s', '1', '2']], ['pop'], ['set', 1, ['s', '3', '4']]])]
            for t, v0, alphabet in table:
                for ln in range(1, 6):
                    for seq in itertools.product(alphabet, repeat=ln):
                        out.append(show(['hist', t, v0] + list(seq)))
        return out
    rule = ('random mutation histories (5/20/60[/200] ops; append/pop runs crossing chunk and subtree boundaries in both '
            'directions) on values of mutable types; after EVERY op: ok/err, root, encoding, indexed read, read-only '
            'iteration against the Spec value; non-trivial = at least 2 ops; distinct = distinct case lines')

    def compare_hist(self, case, py, mo, stats):
        out = []
        bump(stats, 'kinds', kind(case[1]))
        if py.get('p.ctor') == 'err':
            return [F('prop', 'ctor', 'err', 'valid value must be constructible')]
        for i, op in enumerate(case[3:]):
            bump(stats, 'ops', op[0])
            p = '%d.' % i
            sv = mo[p + 's']
            if (py.get(p + 'p') == 'ok') != (sv != 'err'):
                bump(stats, 'errs', 'mismatch')
                out.append(F('prop', 'op %d %s ok/err' % (i, show(op)), py.get(p + 'p'), sv))
                break
            if sv == 'err':
                bump(stats, 'errs', 'err')
            if py.get(p + 'proot') != mo[p + 'sroot']:
                out.append(F('prop', 'root after op %d %s' % (i, show(op)), py.get(p + 'proot'), mo[p + 'sroot']))
                break
            # drift stream (never gating): exact tree shape of the backing vs the Impl mirror
            bump(stats, 'errs', 'shape-drift' if py.get(p + 'pshape') != mo.get(p + 'ishape') else 'shape-equal')
            if py.get(p + 'pbytes') != mo[p + 'sbytes']:
                out.append(F('prop', 'encoding after op %d %s' % (i, show(op)), py.get(p + 'pbytes'), mo[p + 'sbytes']))
                break
            cur = mo[p + 'scur']
            if py.get(p + 'pread') != cur:
                out.append(F('prop', 'content after op %d %s' % (i, show(op)), py.get(p + 'pread'), cur))
                break
            if py.get(p + 'piter') != py.get(p + 'pread'):
                out.append(F('prop', 'readonly_iter after op %d' % i, py.get(p + 'piter'), py.get(p + 'pread')))
                break
            if mo[p + 'iroot'] != mo[p + 'sroot'] or mo[p + 'ibytes'] != mo[p + 'sbytes']:
                out.append(F('model', 'impl~spec after op %d' % i, mo[p + 'iroot'], mo[p + 'sroot']))
                break
            if mo[p + 'iread'] != cur:
                out.append(F('model', 'iread~s after op %d' % i, mo[p + 'iread'], cur))
                break
        return out


class C14(HistProp):
    pid = 'C14'
    p_invalid = 0.35

    def generate(self, g, tier, focus=None):
        out = HistProp.generate(self, g, tier)
        r = g.rng
        # full lists / bitlists (limits on and off the chunk boundaries): over-limit appends, then room is made
        # and used up again
        for _ in range(self.n(tier) // 3):
            if r.random() < 0.6:
                lim = r.choice([1, 2, 7, 8, 10, 255, 256, 257, 300, 512, 513])
                t = ['bl', lim]
                one = lambda: r.choice('01')
            else:
                e = r.choice(['u8', 'u16', 'u64', 'u256', 'bool', ['cont', 'u8'], ['Bv', 3], ['list', 'u8', 2]])
                lim = r.choice([1, 2, 3, 4, 5, 8, 9, 31, 32, 33])
                t = ['list', e, lim]
                one = lambda: g.val(e, 3)
            v = g.max_val(t)
            if v is None:
                continue
            ops = [['app', one()], ['pop'], ['app', one()], ['app', one()], ['set', lim, one()], ['pop'], ['pop'], ['app', one()],
                   ['app', one()], ['app', one()]]
            if lim == 1:
                ops = [['app', one()], ['pop'], ['app', one()], ['app', one()], ['pop'], ['pop']]
            out.append(show(['hist', t, v] + ops))
        # unions: change to ANOTHER valid selector with an invalid value (out of range, over the limit, None for a typed
        # option), alone and as a field: the union must stay on its old selector and value
        for _ in range(max(8, self.n(tier) // 10)):
            opts = [r.choice(['u8', 'u16', ['list', 'u8', 2], ['Bv', 3], ['vec', 'u8', 2]]) for _ in range(r.choice([2, 3]))]
            u = ['union'] + (['none'] if r.random() < 0.4 else []) + opts
            cur = r.randrange(len(u) - 1)
            v0 = ['u', cur, 'none' if u[1 + cur] == 'none' else g.val(u[1 + cur], 3)]
            ops = []
            for sel in range(len(u) - 1):
                o = u[1 + sel]
                if sel == cur or o == 'none':
                    continue
                bad = g.invalid_val(o) if r.random() < 0.7 else 'none'
                if bad is None:
                    bad = 'none'
                ops.append(['chg', sel, bad])
            if not ops:
                continue
            if r.random() < 0.5:
                out.append(show(['hist', u, v0] + ops))
            else:
                out.append(show(['store', ['cont', 'u8', u], ['s', '1', v0], ['child', 0, 1]] + [['bad', 1, o] for o in ops]))
        # invalid operations through held child views: every enclosing view must stay as it was
        for _ in range(self.n(tier) // 3):
            t = nested_ty(g, r.choice([1, 2, 2, 3]))
            v = g.val(t, 12)
            sg = StoreGen(g, t, v)
            out.append(show(['store', t, v] + sg.history(r.choice([6, 15, 30]), 0.35)))
        out += stale_cases(g, max(10, self.n(tier) // 8))
        # construction: every spelling of the constructor arguments, valid and invalid values
        for _ in range(self.n(tier) * 3):
            if g.rng.random() < 0.35:
                # byte-like sequences have extra constructor spellings (bytes, hex string)
                t = g.rng.choice([['list', 'u8', g.bound(1, 129)], ['vec', 'u8', g.bound(1, 129)], ['Bv', g.bound(1, 129)], ['Bl', g.bound(1, 129)]])
            else:
                t = g.ty(g.rng.choice([1, 2, 2, 3]), composite_only=g.rng.random() < 0.8)
            v = g.invalid_val(t) if g.rng.random() < 0.6 else g.val(t, 20)
            if v is None:
                continue
            out.append(show(['ctor', t, g.rng.choice(g.spellings(t)), v]))
        # integers built from an integer view of another width: in range, at and just over the bound of the target width
        for _ in range(self.n(tier) // 4):
            t = r.choice(['u8', 'u16', 'u32', 'u64', 'u128', 'u256'])
            top = 1 << (8 * UINT_W[t])
            v = r.choice([top, top + 1, top - 1, top + r.randint(0, 1000), top << 3, r.randrange(top), 255, 256, 0, 1 << 255, (1 << 256) - 1])
            out.append(show(['ctor', t, 'wide', str(v)]))
        return out

    quick_n = 150
    thorough_n = 2500
    rule = ('random histories in which 35% of the ops violate a constraint in the state they are applied to (over-limit '
            'append, pop on empty, index out of range, out-of-range / other-width integer, wrong-length vector or bytes, '
            'invalid selector / value); each must raise and leave root, encoding and content unchanged; '
            'non-trivial = at least 2 ops')

    def compare(self, case, py, mo, stats):
        out = []
        bump(stats, 'kinds', kind(case[1]))
        if case[0] == 'store':
            return StoreProp.compare_store(self, case, py, mo, stats, 'views')
        if case[0] == 'ctor':
            bump(stats, 'ops', 'ctor:' + case[2] + (':invalid' if mo['wt'] != '1' else ''))
            if mo['wt'] != '1':
                if py.get('p.ctor') != 'err':
                    out.append(F('prop', 'constructor accepted a value that violates the type (%s spelling)' % case[2], py.get('p.read'), 'must raise'))
            else:
                if py.get('p.ctor') != 'ok':
                    out.append(F('corr', 'constructor rejected a valid value (%s spelling)' % case[2], 'err', 'ok'))
                elif py.get('p.root') != mo['s.root'] or py.get('p.bytes') != mo['s.bytes']:
                    out.append(F('prop', 'constructed value (%s spelling) differs from the spec' % case[2], py.get('p.root'), mo['s.root']))
            if (mo['i.root'] != 'err') != (mo['wt'] == '1'):
                out.append(F('model', 'construct ok/err ~ WT', mo['i.root'], mo['wt']))
            return out
        if py.get('p.ctor') == 'err':
            return [F('prop', 'ctor', 'err', 'valid value must be constructible')]
        prev_root = py.get('p.root0')
        for i, op in enumerate(case[3:]):
            p = '%d.' % i
            sv = mo[p + 's']
            bump(stats, 'ops', op[0] + (':invalid' if sv == 'err' else ''))
            if sv == 'err':
                if py.get(p + 'p') != 'err':
                    out.append(F('prop', 'invalid op %d %s did not raise' % (i, show(op)), py.get(p + 'p'), 'err'))
                    break
                if py.get(p + 'proot') != prev_root or py.get(p + 'proot') != mo[p + 'sroot'] or py.get(p + 'pbytes') != mo[p + 'sbytes']:
                    out.append(F('prop', 'value changed by failed op %d %s' % (i, show(op)), py.get(p + 'proot'), prev_root))
                    break
            else:
                if py.get(p + 'p') != 'ok':
                    out.append(F('corr', 'valid op %d %s raised' % (i, show(op)), py.get(p + 'p'), 'ok'))
                    break
            if (mo[p + 'i'] == 'ok') != (sv != 'err'):
                out.append(F('model', 'impl~spec ok/err op %d' % i, mo[p + 'i'], sv))
                break
            prev_root = py.get(p + 'proot')
        return out


class DecProp(Prop):
    quick_n = 1200
    thorough_n = 30000

    def generate(self, g, tier, focus=None):
        out = []
        r = g.rng
        n = self.n(tier)
        # encodings come from the model's Spec.serialize of generated values (one batch query)
        tvs = []
        for _ in range(n // 6 + 1):
            t = g.ty(r.choice([1, 2, 2, 3]), composite_only=r.random() < 0.85)
            v = g.val(t, 20)
            tvs.append((t, v, t))
        for _ in range(n // 30 + 1):
            # sequences of variable-size sequences holding exactly 0 / 1 / 2 elements (also empty inner ones), bare
            # and as the single element of a vector, a container field, a union option
            inner = r.choice([['list', 'u16', 4], ['list', 'u8', 3], ['vec', ['list', 'u8', 2], 2], ['list', ['cont', 'u8', ['Bl', 3]], 2],
                              ['bl', 9], ['Bl', 5]])
            t = r.choice([['list', inner, 4], ['vec', inner, 1], ['list', inner, 1]])
            cnt = t[2] if t[0] == 'vec' else r.choice([0, 1, 1, 1, 2])
            cnt = min(cnt, t[2])
            v = ['s'] + [g.val(inner, r.choice([0, 1, 3])) for _ in range(cnt)]
            c = r.random()
            if c < 0.2:
                t, v = ['cont', 'u8', t], ['s', '5', v]
            elif c < 0.35:
                t, v = ['union', 'none', t], ['u', 1, v]
            tvs.append((t, v, t))
            # more elements than the limit allows (but no more than the tree could hold), encoded with a
            # roomier type and decoded with the tight one
            e = r.choice(['u8', 'u64', 'u16', 'bool', ['Bv', 32], ['cont', 'u8', 'u16'], 'u256', ['bv', 9]])
            lim = r.choice([1, 3, 5, 6, 7, 9, 12, 33])
            k = lim + r.choice([1, 1, 2, 3])
            tvs.append((['list', e, 4 * lim + 64], ['s'] + [g.val(e, 2) for _ in range(k)], ['list', e, lim]))
            tvs.append((['bl', 4 * lim + 64], g.bits(k), ['bl', lim]))
        for t, v in zero_tail_cases(g, max(6, self.n(tier) // 40)):
            tvs.append((t, v, t))
        # families of types that print alike (same class names, same field names; they differ in a length / limit that
        # the printed name does not show): a full value of the roomiest member, decoded with every member in turn
        for fam in alike_families(g, max(4, self.n(tier) // 60)):
            big = max(fam, key=lambda q: q[1][1] if q[1][0] != 'cont' else q[1][2][1])
            vbig = g.max_val(big) or g.val(big, 4)
            for t in fam:
                tvs.append((big, vbig, t))
                tvs.append((t, g.max_val(t) or g.val(t, 4), t))
        p = subprocess.run([DRV], input='\n'.join(show(['val', t, v]) for t, v, _ in tvs) + '\n',
                           capture_output=True, text=True, timeout=300)
        encs = []
        for line in p.stdout.strip().split('\n'):
            d = dict(x.split('=', 1) for x in line.split(';') if '=' in x)
            encs.append(bytes.fromhex(d.get('s.bytes', '')))
        for (_, v, t), enc in zip(tvs, encs):
            out.append(show(['dec', t, 'x', 'x' + enc.hex(), 'x']))
            for _ in range(4):
                b = g.corrupt(enc, t)
                if r.random() < 0.3:
                    b = g.corrupt(b, t)
                if len(b) > 5000:
                    continue
                if r.random() < 0.25:
                    out.append(show(['dec', t, 'x0102', 'x' + b.hex(), 'x' + bytes(r.getrandbits(8) for _ in range(r.choice([1, 4, 9]))).hex()]))
                else:
                    out.append(show(['dec', t, 'x', 'x' + b.hex(), 'x']))
            ps_ = gen_offset_positions(t, len(enc)) if not is_basic(t) else []
            if len(ps_) >= 2:
                # a LATER top-level offset set to 0 / to the first offset / to the scope
                b2 = bytearray(enc)
                i_ = r.choice(ps_[1:])
                b2[i_:i_ + 4] = r.choice([0, 0, int.from_bytes(enc[ps_[0]:ps_[0] + 4], 'little'), len(enc)]).to_bytes(4, 'little')
                out.append(show(['dec', t, 'x', 'x' + bytes(b2).hex(), 'x']))
            if r.random() < 0.5:
                rb = bytes(r.getrandbits(8) for _ in range(r.choice([0, 1, 2, 3, 4, 5, 8, 9, 16, 33])))
                out.append(show(['dec', t, 'x', 'x' + rb.hex(), 'x']))
            if r.random() < 0.3:
                # scope 0: the empty input at top level and as the payload of a union option
                out.append(show(['dec', t, 'x', 'x', 'x']))
                out.append(show(['dec', ['union', t, 'u16'], 'x', 'x00', 'x']))
                out.append(show(['dec', ['union', 'none', t], 'x', 'x01', 'x']))
        # scope 0 for a fixed table of types: the empty input at top level and as a union payload
        for t in ['u8', 'bool', ['vec', 'u8', 1], ['vec', 'u8', 3], ['vec', 'u8', 32], ['vec', 'u8', 33], ['vec', 'u16', 2], ['vec', 'bool', 3],
                  ['Bv', 4], ['bv', 9], ['cont', 'u8'], ['vec', ['cont', 'u8'], 2], ['list', 'u8', 3], ['Bl', 3], ['bl', 3],
                  ['vec', ['list', 'u8', 2], 1], ['cont', ['list', 'u8', 2]], ['union', 'none', 'u8']]:
            out.append(show(['dec', t, 'x', 'x', 'x']))
            out.append(show(['dec', ['union', t, 'u16'], 'x', 'x00', 'x']))
            out.append(show(['dec', ['cont', 'u8', ['union', 'none', t]], 'x', 'x070500000001', 'x']))
        # containers of several byte-like variable-size fields (each accepts any byte string up to its limit): every later
        # offset replaced by 0, by the first offset and by the scope
        for _ in range(10):
            fl = [r.choice([['Bl', r.choice([32, 40, 64, 100])], ['Bl', 100], ['list', 'u8', r.choice([32, 48, 100])], ['bl', 512]]) for _ in range(r.choice([2, 2, 3]))]
            if r.random() < 0.5:
                fl.insert(r.randint(0, len(fl)), r.choice(['u8', 'u32']))
            t = ['cont'] + fl
            v = g.val(t, 2)
            q = model_query(show(['val', t, v]))
            if q.get('wt') != '1' or 's.bytes' not in q:
                continue
            enc = bytes.fromhex(q['s.bytes'])
            ps_ = gen_offset_positions(t, len(enc))
            for i_ in ps_[1:]:
                for o_ in (0, int.from_bytes(enc[ps_[0]:ps_[0] + 4], 'little'), len(enc)):
                    b2 = bytearray(enc)
                    b2[i_:i_ + 4] = o_.to_bytes(4, 'little')
                    out.append(show(['dec', t, 'x', 'x' + bytes(b2).hex(), 'x']))
        # sequences of two and more EMPTY variable-size elements (the encoding is nothing but the offset table): valid, then
        # with every later offset replaced by 0, by 4 and by an offset beyond the end
        for _ in range(5):
            e = r.choice([['Bl', 4], ['list', 'u8', 4], ['list', 'u16', 2], ['list', ['Bl', 2], 2], ['union', 'none', 'u8']])
            if kind(e) == 'union':
                continue
            cnt = r.choice([2, 2, 3, 4])
            t = r.choice([['list', e, cnt + r.choice([0, 1, 4])], ['vec', e, cnt]])
            first = 4 * cnt
            enc = first.to_bytes(4, 'little') * cnt
            wrap = r.random() < 0.3
            tt = ['cont', 'u8', t] if wrap else t
            pre_ = bytes([9, 5, 0, 0, 0]) if wrap else b''
            out.append(show(['dec', tt, 'x', 'x' + (pre_ + enc).hex(), 'x']))
            for i_ in range(1, cnt):
                for o_ in (0, 4, first + 1, first - 4, 2 ** 32 - 1):
                    b2 = bytearray(enc)
                    b2[4 * i_:4 * i_ + 4] = o_.to_bytes(4, 'little')
                    out.append(show(['dec', tt, 'x', 'x' + (pre_ + bytes(b2)).hex(), 'x']))
        # union selectors with the high bit set (128 + a valid selector): top level, as a field, as an element
        for _ in range(6):
            opts = [r.choice(['u8', 'u16', ['list', 'u8', 4], ['Bv', 2], ['cont', 'u8', 'u8']]) for _ in range(r.choice([1, 2, 3]))]
            u = ['union'] + (['none'] if r.random() < 0.5 else []) + opts
            sel = r.randrange(len(u) - 1)
            uv = ['u', sel, 'none' if u[1 + sel] == 'none' else g.val(u[1 + sel], 3)]
            for t, v, pos in ((u, uv, 0), (['cont', 'u8', u], ['s', '5', uv], 5), (['list', u, 3], ['s', uv], 4)):
                q = model_query(show(['val', t, v]))
                if q.get('wt') != '1' or 's.bytes' not in q:
                    continue
                enc = bytearray(bytes.fromhex(q['s.bytes']))
                if pos < len(enc):
                    enc[pos] |= 0x80
                    out.append(show(['dec', t, 'x', 'x' + bytes(enc).hex(), 'x']))
        # a REJECTED bit field of more than 32 bytes, then valid decodes of other bit fields (nothing may be left behind)
        for _ in range(3):
            nb = r.choice([300, 516, 600, 1020])
            ln = r.randint(34, nb // 8)                                    # within the size bounds, more than one chunk
            raw = bytes(r.getrandbits(8) | 1 for _ in range(ln - 1)) + b'\x00'   # last byte 0: no delimiting bit
            out.append(show(['dec', ['bl', nb], 'x', 'x' + raw.hex(), 'x']))
            out.append(show(['dec', ['bl', 1024], 'x', 'x0507', 'x']))
            out.append(show(['dec', ['bv', nb], 'x', 'x' + ('ff' * ((nb + 7) // 8)), 'x']))     # exact length, padding bits set
            out.append(show(['dec', ['bv', 768], 'x', 'x' + ('01' * 96), 'x']))
            out.append(show(['dec', ['bl', 9], 'x', 'x1f', 'x']))
            out.append(show(['dec', ['cont', 'u8', ['bl', 1024]], 'x', 'x07050000000507', 'x']))
        # the same raw bytes decoded first as integers / byte vectors, then (below) in boolean positions
        for t, hx in ((['list', 'u8', 8], '020380ff'), (['Bv', 1], '02'), (['Bv', 1], 'ff'), ('u8', '03'), (['vec', 'u8', 2], '8002'),
                      (['cont', 'u8', ['Bv', 1]], '0203')):
            out.append(show(['dec', t, 'x', 'x' + hx, 'x']))
        # boolean sequences with a byte that is neither 00 nor 01, at every chunk position, bare and nested
        for n_ in (1, 3, 32, 33, 40, 64, 65):
            for t in (['vec', 'bool', n_], ['list', 'bool', n_], ['cont', 'u8', ['vec', 'bool', n_]], ['vec', ['vec', 'bool', n_], 2]):
                raw = bytearray(r.choice([0, 1]) for _ in range(n_ * (2 if t[0] == 'vec' and t[1] != 'bool' else 1)))
                raw[r.choice([0, len(raw) - 1, r.randrange(len(raw))])] = r.choice([2, 3, 128, 255])
                pre = b'\x09' if t[0] == 'cont' else b''
                out.append(show(['dec', t, 'x', 'x' + (pre + bytes(raw)).hex(), 'x']))
        # bitfield edits: every padding bit of a bitvector's last byte, delimiter edits of a bitlist,
        # at top level and as a field between other fields
        for _ in range(max(4, n // 60)):
            nb = r.choice([3, 9, 12, 31, 33, 255, 257, 260, 300, 511, 513, 1001, 1023, 1025])
            bits = [r.random() < 0.5 for _ in range(nb)]
            raw = bytearray((nb + 7) // 8)
            for i, b in enumerate(bits):
                if b:
                    raw[i // 8] |= 1 << (i % 8)
            for wrap in (0, 1):
                t = ['bv', nb] if not wrap else ['cont', 'u8', ['bv', nb], 'u16']
                pre, post = (b'', b'') if not wrap else (b'\x07', b'\x01\x02')
                out.append(show(['dec', t, 'x', 'x' + (pre + bytes(raw) + post).hex(), 'x']))
                for pbit in range(nb % 8, 8) if nb % 8 else []:
                    bad = bytearray(raw)
                    bad[-1] |= 1 << pbit
                    out.append(show(['dec', t, 'x', 'x' + (pre + bytes(bad) + post).hex(), 'x']))
            lim = nb
            ln = r.choice([0, 1, lim, max(lim - 1, 0), r.randint(0, lim)])
            raw = bytearray(ln // 8 + 1)
            for i in range(ln):
                if r.random() < 0.5:
                    raw[i // 8] |= 1 << (i % 8)
            raw[ln // 8] |= 1 << (ln % 8)
            tl = ['bl', lim]
            out.append(show(['dec', tl, 'x', 'x' + bytes(raw).hex(), 'x']))
            for edit in ('nodelim', 'high', 'extra0', 'overlimit'):
                bad = bytearray(raw)
                if edit == 'nodelim':
                    bad[-1] = 0
                elif edit == 'high':
                    bad[-1] |= 0x80
                elif edit == 'extra0':
                    bad += b'\x00'
                else:
                    bad = bytearray((lim + 1) // 8 + 1)
                    bad[(lim + 1) // 8] |= 1 << ((lim + 1) % 8)
                out.append(show(['dec', tl, 'x', 'x' + bytes(bad).hex(), 'x']))
        if tier == 'thorough':
            # exhaustive: all strings of length <= 2 for a fixed table of small types
            table = ['bool', 'u8', 'u16', ['bv', 3], ['bv', 9], ['bl', 3], ['bl', 8], ['bl', 12], ['Bv', 2], ['Bl', 1],
                     ['list', 'u8', 1], ['list', 'bool', 2], ['vec', 'bool', 2], ['cont', 'bool', 'u8'],
                     ['union', 'none', 'u8'], ['union', 'bool', ['bl', 3]], ['list', ['bl', 3], 2],
                     ['cont', ['list', 'u8', 1]], ['vec', ['union', 'none', 'bool'], 1]]
            for t in table:
                for ln in range(3):
                    for x in range(256 ** ln):
                        out.append(show(['dec', t, 'x', 'x' + x.to_bytes(ln, 'little').hex(), 'x']))
        return out

    def nontrivial(self, c):
        return True

    def common(self, case, py, mo, stats):
        bump(stats, 'kinds', kind(case[1]))
        ok = py.get('p.dec') is not None and py.get('p.dec') != 'err' and 'p.consumed' in py
        if stats is not None:
            stats['accepted' if ok else 'rejected'] += 1
        bump(stats, 'sizes', size_class((len(case[3]) - 1) // 2))
        return ok

    def work(self, case, py, mo, stats):
        """the decoder's work (number of `deserialize` calls, nested ones included) against the modelled decoder's
        (`Impl.deserWork`, proved linear in the scope: C10.work_linear)"""
        out = []
        a, b, bd = py.get('p.calls'), mo.get('i.work'), mo.get('i.workbound')
        if a is None or b is None:
            return out
        bump(stats, 'ops', 'decode-calls<=%d' % (1 << max(int(a) - 1, 0).bit_length()))
        if bd is not None and int(a) > int(bd):
            out.append(F('prop', 'decoding made more nested decode calls than the linear bound W(t)*(scope+1)+A(t) proved for the modelled decoder',
                         a, 'bound %s (model work %s)' % (bd, b)))
        elif int(a) > int(b):
            # (fewer calls than the model — e.g. elements decoded in bulk — stay within the proved bound: not reported)
            out.append(F('corr', 'more deserialize calls than the modelled decoder makes on this input', a, b))
        return out


class C09(DecProp):
    pid = 'C09'
    rule = ('valid encodings, structure-aware corruptions (truncate, extend, bit flip, offset +-1/4/8, insert, delimiter '
            'edits, duplicated runs), random strings, [thorough: all strings of length <= 2 for 19 small types]; an accepted '
            'input must give a well-typed value whose content, encoding, byte length, root agree with the Spec of that '
            'content and are stable under re-decoding; distinct = distinct (type, bytes) lines, all count as non-trivial')

    def compare(self, case, py, mo, stats):
        out = []
        ok = self.common(case, py, mo, stats)
        out += self.work(case, py, mo, stats)
        if py.get('p.redec') not in (None, '1'):
            out.append(F('prop', 'the same input decoded again, after the first result was mutated, gives another value', py.get('p.redec'), py.get('p.dec')))
        if 'p.shape' in py and 'i.shape' in mo and py['p.shape'] != mo['i.shape'] and '...' not in py['p.shape'] + mo['i.shape']:
            # (a summary where a chunk belongs, or the other way round, leaves the root as it is)
            out.append(F('prop' if py['p.shape'] == 'err' else 'corr',
                         'the tree the bit-field decoder built from the input is not the constructor tree of the decoded bits (same root, other shape)',
                         py['p.shape'][:300], mo['i.shape'][:300]))
        # decode_bytes (for the bare integer types: the lenient bytes-to-integer helper): whatever it
        # returns must satisfy the invariants of the type
        d0 = py.get('p.decb0')
        if d0 is not None and not is_basic(case[1]) and mo.get('i.dec') not in (None, 'err') and d0 != mo.get('i.dec'):
            out.append(F('prop', 'decode_bytes of a valid encoding (first decode of the case) does not give the encoded value', d0, mo.get('i.dec')))
        db = py.get('p.decb')
        if db not in (None, 'err') and db != py.get('p.dec'):
            q = model_query(show(['val', case[1], parse(db)]))
            if q.get('wt') != '1':
                out.append(F('prop', 'decode_bytes returned a value that violates its type invariants', db, 'wt=' + str(q.get('wt'))))
        if not ok:
            if py.get('p.dec') == 'err' and 'p.consumed' in py:
                out.append(F('prop', 'decoded value is not readable', py.get('p.dec'), ''))
            return out
        # spec of python's own decoded content
        pv = py['p.dec']
        if pv == mo.get('i.dec'):
            spec = dict(wt=mo['wt'], bytes=mo['s.bytes'], root=mo['s.root'])
        else:
            q = model_query(show(['val', case[1], parse(pv)]))
            spec = dict(wt=q.get('wt'), bytes=q.get('s.bytes'), root=q.get('s.root'))
        if spec['wt'] != '1':
            out.append(F('prop', 'decoded value violates its type invariants', pv, 'wt=' + str(spec['wt'])))
        if py.get('p.bytes') != spec['bytes']:
            out.append(F('prop', 'encoding inconsistent with content', py.get('p.bytes'), spec['bytes']))
        if py.get('p.root') != spec['root']:
            out.append(F('prop', 'root inconsistent with content', py.get('p.root'), spec['root']))
        if py.get('p.vbl') != str(len(spec['bytes']) // 2):
            out.append(F('prop', 'value_byte_length inconsistent', py.get('p.vbl'), str(len(spec['bytes']) // 2)))
        if py.get('p.again') != '%s/%s' % (spec['root'], spec['bytes']):
            out.append(F('prop', 'not stable under re-decoding', py.get('p.again'), '%s/%s' % (spec['root'], spec['bytes'])))
        for route in ('iter', 'roiter'):
            if py.get('p.read.' + route) != pv:
                out.append(F('prop', 'element not readable via ' + route, py.get('p.read.' + route), pv))
        if mo.get('i.dec') != pv:
            out.append(F('corr', 'p.dec~i.dec', pv, mo.get('i.dec')))
        return out


class C10(DecProp):
    pid = 'C10'
    rule = C09.rule.replace('an accepted input must give a well-typed value whose content, encoding, byte length, root agree with the Spec of that content and are stable under re-decoding',
                            'an accepted input must re-encode to exactly itself and consume exactly scope; every valid encoding (model: proved exact) must be accepted')

    def compare(self, case, py, mo, stats):
        out = []
        ok = self.common(case, py, mo, stats)
        if py.get('p.redec') not in (None, '1'):
            out.append(F('prop', 'the same input decoded again, after the first result was mutated, gives a value whose encoding is not the input', py.get('p.redec'), py.get('p.dec')))
        body = case[3][1:]
        if ok:
            if py.get('p.bytes') != body:
                out.append(F('prop', 'accepted non-canonical encoding', py.get('p.bytes'), body))
            if py.get('p.consumed') != str(len(body) // 2):
                out.append(F('prop', 'consumed != scope', py.get('p.consumed'), str(len(body) // 2)))
            if mo.get('i.dec') == 'err':
                # the model (proved exact) rejects: is the input the canonical encoding of what python decoded?
                q = model_query(show(['val', case[1], parse(py['p.dec'])])) if py.get('p.dec') not in (None, 'err') else {}
                if q.get('wt') != '1':
                    out.append(F('prop', 'accepted a string and returned a value that is not a value of the type (so the string is not a valid encoding)',
                                 py.get('p.dec'), 'wt=%s' % q.get('wt')))
                elif q.get('s.bytes') != body:
                    out.append(F('prop', 'accepted a string that is not the SSZ encoding of the decoded value',
                                 py.get('p.dec'), 'canonical encoding: %s' % q.get('s.bytes')))
                else:
                    out.append(F('corr', 'python accepts, model rejects', py.get('p.dec'), 'err'))
        else:
            if mo.get('i.dec') != 'err' and mo.get('s.bytes') == body and mo.get('wt') == '1':
                out.append(F('prop', 'valid encoding rejected', 'err', mo.get('i.dec')))
            elif mo.get('i.dec') != 'err':
                out.append(F('corr', 'python rejects, model accepts', 'err', mo.get('i.dec')))
        if mo.get('i.dec') != 'err' and mo.get('s.bytes') != body:
            out.append(F('model', 'model accepts a non-canonical encoding', mo.get('s.bytes'), body))
        # the decode_bytes spelling (the property excepts only the bare integer / boolean types' lenient helper)
        d0 = py.get('p.decb0')
        if d0 is not None and not is_basic(case[1]) and mo.get('i.dec') not in (None, 'err') and d0 != mo.get('i.dec'):
            out.append(F('prop', 'decode_bytes of a valid encoding (first decode of the case) does not give the encoded value', d0, mo.get('i.dec')))
        db = py.get('p.decb')
        if db not in (None, 'err') and not is_basic(case[1]) and mo.get('i.dec') == 'err':
            q = model_query(show(['val', case[1], parse(db)])) if db != 'err' else {}
            if q.get('wt') != '1' or q.get('s.bytes') != body:
                out.append(F('prop', 'decode_bytes accepted a string that is not the SSZ encoding of a value of the type', db,
                             'canonical encoding: %s' % q.get('s.bytes')))
        return out


class C11(Prop):
    pid = 'C11'
    quick_n = 400
    thorough_n = 8000
    rule = ('random types: is_fixed_byte_length, type_byte_length (or raises), min/max_byte_length against the Spec size '
            'functions (proved exact bounds of Spec.serialize); random values: value_byte_length = len(encoding), within '
            'bounds; non-trivial = composite type')

    def generate(self, g, tier, focus=None):
        out = []
        for _ in range(self.n(tier)):
            if g.rng.random() < 0.5:
                out.append(show(['type', g.ty(g.rng.choice([1, 2, 3, 4]))]))
            else:
                t, v = self.tv(g, tier)
                out.append(show(['val', t, v]))
                out.append(show(['type', t]))
        # families of types whose element classes print alike, sized one after the other in the same process
        for fam in alike_families(g, self.n(tier) // 12):
            for t in fam:
                out.append(show(['tsize' if g.rng.random() < 0.5 else 'type', t]))
                if g.rng.random() < 0.5:
                    out.append(show(['val', t, g.val(t, 4)]))
        # size facts of types with huge lengths / limits (beyond 2**53, where floating point arithmetic rounds)
        r = g.rng
        for _ in range(self.n(tier) // 8):
            big = r.choice([2**53, 2**56, 2**60, 2**63, 2**64, 2**100]) + r.choice([0, 1, 1, 3, 7, 8, 9, 24, 255, 257, -1])
            e = r.choice(['u8', 'u16', 'u64', 'u256', 'bool', ['Bv', 3], ['cont', 'u8', 'u64']])
            t = r.choice([['bv', big], ['bl', big], ['Bv', big], ['Bl', big], ['vec', e, big], ['list', e, big]])
            c = r.random()
            if c < 0.2 and t[0] in ('list', 'bl', 'Bl'):
                # (a container class is exercised by the harness when it is built: only fields with small defaults)
                t = ['cont', 'u8', t, 'u16']
            elif c < 0.3:
                t = ['union', 'none', t]
            elif c < 0.4:
                t = ['vec', t, 3]
            out.append(show(['tsize', t]))
        # variable-size types whose bounds coincide (limit 0, a lone None option, ...) as fields / elements / options
        for _ in range(self.n(tier) // 8):
            odd = lambda: r.choice([['list', r.choice(['u8', 'u64', ['cont', 'u8']]), 0], ['bl', 0], ['Bl', 0],
                                    ['union', 'u8'], ['union', ['Bv', 3], ['vec', 'u8', 3]], ['list', ['list', 'u8', 0], 0],
                                    ['cont', ['bl', 0]], ['vec', ['Bl', 0], 2]])
            t = r.choice([['cont', 'u8', odd(), 'u16'], ['cont', odd(), odd()], ['list', odd(), 3], ['vec', odd(), 2],
                          ['union', 'none', odd()], ['cont', ['list', 'u8', 4], odd(), 'u8', odd()]])
            out.append(show(['type', t]))
            out.append(show(['val', t, g.val(t, 4)]))
        # values in their DEFAULT state (wholly, or field by field) of types whose default is not their shortest value:
        # a union whose first option is not its smallest one, as a field / element / option, at any depth
        for _ in range(self.n(tier) // 6):
            big0 = lambda: r.choice(['u64', 'u256', ['Bv', r.choice([5, 33])], ['vec', 'u16', 3], ['cont', 'u32', 'u64'], ['bv', 100]])
            small = lambda: r.choice(['u8', 'u8', ['list', 'u8', 4], ['bl', 5], 'bool'])
            u = ['union', big0(), small()] + ([small()] if r.random() < 0.3 else [])
            inner = r.choice([u, u, ['vec', u, r.choice([1, 2, 3])], ['cont', u, 'u8'], ['cont', 'u16', u], ['union', u, 'u8'], ['union', 'none', u]])
            t = r.choice([inner, ['cont', 'u8', inner], ['cont', inner, ['list', 'u8', 3], inner], ['list', inner, 3],
                          ['vec', inner, 2], ['cont', ['list', 'u16', 2], 'u8', inner, 'u64']])
            out.append(show(['type', t]))
            z = g.zero(t)
            out.append(show(['val', t, z]))
            v = g.val(t, 3)
            if isinstance(z, list) and isinstance(v, list) and len(z) == len(v) and len(v) > 2 and v[0] == 's' and z[0] == 's':
                # some positions default, the others not
                out.append(show(['val', t, [v[0]] + [zi if r.random() < 0.5 else vi for zi, vi in zip(z[1:], v[1:])]]))
        # values that fill exactly 1..4 chunks (a full Bitlist[256], ...), values with all-zero tails
        out += chunk_exact_cases(g, max(24, self.n(tier) // 12))
        for t_, v_ in zero_tail_cases(g, max(8, self.n(tier) // 40)):
            out.append(show(['val', t_, v_]))
        for nb in (256, 512, 1024):
            out.append(show(['val', ['bl', nb], 'b' + ''.join(r.choice('01') for _ in range(nb))]))
            out.append(show(['val', ['cont', 'u8', ['bl', nb]], ['s', '1', 'b' + '1' * nb]]))
        # the reported length of every held view after every step of a history of mutations through child views
        for _ in range(self.n(tier) // 10):
            t = nested_ty(g, r.choice([1, 2, 2]))
            v = g.val(t, 8)
            out.append(show(['store', t, v] + StoreGen(g, t, v).history(r.choice([6, 15]))))
        return out

    def compare(self, case, py, mo, stats):
        out = []
        if case[0] == 'store':
            bump(stats, 'kinds', 'store:' + kind(case[1]))
            for i, op in enumerate(case[3:]):
                fl = py.get('%d.vbl' % i)
                if fl is not None and set(fl) - {'1'}:
                    out.append(F('prop', 'value_byte_length() of a held view differs from the length of its encoding after op %d %s (one flag per held view)' % (i, show(op)), fl, 'all 1'))
                    break
            return out + [f for f in StoreProp.compare_store(self, case, py, mo, None, 'views') if f['cls'] != 'prop']
        if case[0] in ('type', 'tsize'):
            bump(stats, 'kinds', 'type:' + kind(case[1]))
            if py.get('p.fixed') != mo['fixed']:
                out.append(F('prop', 'is_fixed_byte_length', py.get('p.fixed'), mo['fixed']))
            exp_flen = mo['flen'] if mo['fixed'] == '1' else 'err'
            if py.get('p.flen') != exp_flen:
                out.append(F('prop', 'type_byte_length', py.get('p.flen'), exp_flen))
            if py.get('p.min') != mo['min']:
                out.append(F('prop', 'min_byte_length', py.get('p.min'), mo['min']))
            if py.get('p.max') != mo['max']:
                out.append(F('prop', 'max_byte_length', py.get('p.max'), mo['max']))
        else:
            self.note_tv(stats, case[1], case[2])
            if py.get('p.vbl') != mo['s.len']:
                out.append(F('prop', 'value_byte_length', py.get('p.vbl'), mo['s.len']))
            if mo.get('i.vbl') != mo['s.len']:
                out.append(F('model', 'i.vbl~s.len', mo.get('i.vbl'), mo['s.len']))
            if py.get('p.bytes') is not None and py.get('p.bytes') != 'err' and str(len(py['p.bytes']) // 2) != py.get('p.vbl'):
                out.append(F('prop', 'value_byte_length != len(encode_bytes())', py.get('p.vbl'), str(len(py['p.bytes']) // 2)))
        return out


class C12(Prop):
    pid = 'C12'
    quick_n = 400
    thorough_n = 8000
    rule = ('random types (emphasis on non-power-of-two chunk counts at every nesting depth): T(), T.default(None), '
            'default_node(): root, encoding, content against the Spec zero value; the default tree is read completely '
            'through a view (navigable fixed structure); omitted container fields; non-trivial = composite type')

    def generate(self, g, tier, focus=None):
        out = []
        for _ in range(self.n(tier)):
            t = g.ty(g.rng.choice([1, 2, 3, 4] if tier == 'thorough' else [1, 2, 3]), composite_only=g.rng.random() < 0.9)
            out.append(show(['type', t]))
            if g.rng.random() < 0.3:
                out.append(show(['val', t, g.zero(t)]))
        for _ in range(self.n(tier) // 12):
            nb = 16 * g.rng.randint(33, 90)
            bvt = ['bv', nb]
            wrapt = g.rng.choice([bvt, ['cont', 'u8', bvt], ['vec', bvt, 2], ['union', bvt, 'u8']])
            out.append(show(['type', wrapt]))
            out.append(show(['type', bvt]))
        # partial construction: containers with runs of same-typed fields, random values; given fields stay, omitted ones default
        for _ in range(max(10, self.n(tier) // 20)):
            ft = [g.rng.choice(['u64', 'u8', ['vec', 'u64', 5], ['cont', 'u8', 'u16'], ['list', 'u8', 4], ['Bv', 4]]) for _ in range(3)]
            fs = []
            for _k in range(g.rng.choice([2, 3, 4, 5, 6])):
                fs.append(fs[-1] if fs and g.rng.random() < 0.6 else g.rng.choice(ft))
            t = ['cont'] + fs
            out.append(show(['val', t, g.val(t, 6)]))
        # element types with EQUAL default roots but different structure (a list's empty contents are ONE summary node, a
        # container's fixed-size field is materialised chunks), used one after the other in vectors of the same length
        for d_ in (1, 2, 3):
            n_ = 4 << d_
            lst, rec = ['list', 'u64', n_], ['cont', ['vec', 'u64', n_], 'u64']
            ln = g.rng.choice([3, 5, 6, 7, 12])
            for t in (['vec', lst, ln], ['vec', rec, ln], ['vec', lst, ln + 1], ['vec', rec, ln + 1]):
                out.append(show(['type', t]))
        # default vectors of composite elements (whose default root is not the zero chunk) at every small length, in
        # particular the even lengths that are not powers of two
        for n_ in (3, 5, 6, 7, 9, 10, 11, 12, 13, 14, 15, 17, 18, 20, 24):
            e = g.rng.choice([['cont', 'u8', 'u16'], ['Bv', 48], ['list', 'u8', 4], ['vec', 'u64', 5], ['bl', 9], ['cont', ['list', 'u8', 2]], ['union', 'u8', 'u16']])
            t = ['vec', e, n_]
            out.append(show(['type', g.rng.choice([t, t, ['cont', 'u8', t], ['vec', t, 2]])]))
        # vectors far too long to be read completely (lengths around 2**53 and beyond, where floating point arithmetic
        # rounds): the default tree is navigable at the first, middle and last element
        for _ in range(max(6, self.n(tier) // 20)):
            e = g.rng.choice(['u8', 'u16', 'u64', 'u256', 'bool', ['Bv', 3], ['cont', 'u8', 'u64'], 'u128'])
            big = g.rng.choice([2**53, 2**56, 2**58, 2**60, 2**62, 2**40]) * g.rng.choice([1, 1, 32, 4]) + g.rng.choice([0, 1, 1, 3, 7, 9, 33, -1])
            out.append(show(['tnav', ['vec', e, big]]))
        # the default of T requested AFTER sequences of T holding non-default data were serialised / iterated / exported
        r = g.rng
        for _ in range(self.n(tier) // 10):
            e = g.ty(r.choice([1, 2]), composite_only=True)
            seq = r.choice([['vec', e, 3], ['list', e, 4], ['cont', ['list', e, 3], e]])
            out.append(show(['type', e]))
            out.append(show(['val', seq, g.max_val(seq) or g.val(seq, 6)]))
            out.append(show(['type', e]))
            out.append(show(['type', seq]))
        # families of types that differ only in a parameter of an inner type (same outer shape, same printed name
        # of the element class), defaulted one after the other in the same process
        r = g.rng
        for _ in range(self.n(tier) // 10):
            k = r.choice(['Bv', 'bv', 'bl', 'Bl', 'vecu', 'cont'])
            sizes = r.sample([1, 5, 31, 32, 33, 48, 96, 100, 256, 257, 300, 600], 3)
            n = r.choice([1, 2, 3, 4, 5])
            for sz in sizes:
                e = {'vecu': ['vec', 'u8', sz], 'cont': ['cont', 'u8', ['Bv', sz]]}.get(k, [k, sz])
                outer = r.choice([['vec', e, n], ['list', e, n], ['cont', 'u8', ['vec', e, n]], ['vec', ['vec', e, n], 2], ['union', 'none', ['vec', e, n]]])
                out.append(show(['type', ['vec', e, n]]))
                out.append(show(['type', outer]))
        return out

    def compare(self, case, py, mo, stats):
        out = []
        if case[0] == 'val' and py.get('p.partialctor') is not None and set(py['p.partialctor']) - {'1'}:
            out.append(F('prop', 'partial construction (even / odd / first / last fields given): a given field is not what was given or an omitted field '
                         'is not its type\'s default', py.get('p.partialctor'), 'all 1'))
        if case[0] == 'tnav':
            bump(stats, 'kinds', 'huge-vec:' + kind(case[1][1]))
            fl = py.get('p.tnav')
            if fl is None or set(fl) - {'1'}:
                out.append(F('prop', 'the default tree of a very long vector is not navigable at its first / middle / last element positions (or holds something else than the element default there)', fl, 'all 1'))
            return out
        if case[0] == 'type':
            bump(stats, 'kinds', kind(case[1]))
            exp = '%s/%s/%s/%s' % (mo['s.zroot'], mo['s.zbytes'], mo['s.zval'], mo['s.zroot'])
            if py.get('p.default') != exp:
                out.append(F('prop', 'T() / T.default(None)', py.get('p.default'), exp))
            if py.get('p.droot') != mo['s.zroot']:
                out.append(F('prop', 'default_node() root', py.get('p.droot'), mo['s.zroot']))
            if py.get('p.dread') != mo['s.zval']:
                out.append(F('prop', 'default tree not navigable / wrong content', py.get('p.dread'), mo['s.zval']))
            if mo['i.droot'] != mo['s.zroot'] or mo['i.dread'] != mo['s.zval']:
                out.append(F('model', 'i.default~s.zero', mo['i.droot'], mo['s.zroot']))
        else:
            bump(stats, 'kinds', 'zero:' + kind(case[1]))
            if py.get('p.root') != mo['s.root'] or py.get('p.bytes') != mo['s.bytes']:
                out.append(F('prop', 'explicit zero value', py.get('p.root'), mo['s.root']))
        return out


class C13(Prop):
    pid = 'C13'
    quick_n = 2500
    thorough_n = 60000
    rule = ('width x operator x operand kind (same uint type, other-width uint, plain int incl. negative / too large) x '
            'operand order x boundary-biased operand pairs [thorough: also all pairs for width 8 of add/sub/mul/xor]; '
            'value and exact result type or raises; non-trivial = all; distinct = distinct case lines')

    OPS = ['add', 'sub', 'mul', 'floordiv', 'mod', 'pow', 'lshift', 'rshift', 'and', 'or', 'xor', 'truediv']

    def operand_val(self, g, w):
        return g.num(8 * w)

    def generate(self, g, tier, focus=None):
        r = g.rng
        out = []
        W = [1, 2, 4, 8, 16, 32]
        for _ in range(self.n(tier)):
            w = r.choice(W)
            op = r.choice(self.OPS)
            a = self.operand_val(g, w)
            kindo = r.choice(['same', 'same', 'other', 'int', 'int', 'intbad'])
            if kindo == 'same':
                ow, b = w, self.operand_val(g, w)
            elif kindo == 'other':
                ow = r.choice([x for x in W if x != w])
                b = self.operand_val(g, ow)
            elif kindo == 'int':
                ow, b = '-', self.operand_val(g, w)
            else:
                ow, b = '-', r.choice([-1, -2, -(1 << (8 * w)), 1 << (8 * w), (1 << (8 * w)) + 1, -r.randint(1, 300)])
            if op in ('lshift', 'rshift'):
                # shift amounts are counts: keep them small (CPython cannot even represent x << 2**256)
                b = r.choice([0, 1, 7, 8, 8 * w - 1, 8 * w, 8 * w + 1, 300]) if kindo != 'intbad' else r.choice([-1, -2, -300])
                if ow != '-' and b >= (1 << (8 * ow)):
                    b = 8 * ow - 1
            if op == 'pow':
                a = r.choice([0, 1, 2, 3, 10, 255, a % 1000])
                b = r.choice([0, 1, 2, 3, 8 * w - 1, 8 * w, 5]) if kindo != 'intbad' else r.choice([-1, -2])
                if ow != '-' and b >= (1 << (8 * ow)):
                    b = (1 << (8 * ow)) - 1
            x, y = (w, a), (ow, b)
            if r.random() < 0.4:
                if op == 'pow' and ow == '-':
                    y = (ow, r.choice([0, 1, 2, 2, 3, -2, -1, 10]))
                    x = (w, r.choice([0, 1, 2, 3, 8, 8 * w - 1, 8 * w, min(8 * w + 1, 255), 5 * w]))
                if op in ('lshift', 'rshift'):
                    # the right operand is the (small) count also after swapping
                    x = (w, r.choice([0, 1, 7, 8, 8 * w - 1, 8 * w, 8 * w + 1, 200]))
                x, y = y, x
            out.append(show(['uop', op, x[0], x[1], y[0], y[1]]))
            if r.random() < 0.08:
                # both operands equal (the harness then passes ONE object twice: `x op x`), values with the top bit set included
                e = r.choice([a, 1 << (8 * w - 1), (1 << (8 * w)) - 1, (1 << (8 * w - 1)) + r.randint(0, 200), 3, 0])
                eop = r.choice(['add', 'add', 'mul', 'sub', 'xor', 'or', 'and', 'floordiv', 'mod']) if 'add' in self.OPS else op
                out.append(show(['uop', eop, w, e, w, e]))
            if r.random() < 0.04:
                # powers that fit exactly / miss by one: base 2^(bits/e) - 1, 2^(bits/e), exponent e (plain or uint exponent)
                e = r.choice([2, 4, 8])
                pw = r.choice(W)
                base = (1 << (8 * pw // e)) - r.choice([1, 1, 0])
                out.append(show(['uop', 'pow', pw, base, r.choice(['-', pw]), e]))
            if r.random() < 0.1:
                out.append(show(['uinv', w, a]))
            if r.random() < 0.1:
                out.append(show(['uctor', w, r.choice([-1, 0, (1 << (8 * w)) - 1, 1 << (8 * w), a])]))
            if r.random() < 0.1:
                # construction from a uint of another width: the value must still be range-checked
                sw = r.choice([x for x in W if x != w])
                sv = r.choice([0, 1, (1 << (8 * min(w, sw))) - 1, min((1 << (8 * w)), (1 << (8 * sw)) - 1), self.operand_val(g, sw)])
                out.append(show(['uctorw', w, sw, sv]))
        # results right at the edge of the width: products / sums / differences / powers / shifts whose exact
        # value is within a few units of 2**bits (or of 0), factors whose bit lengths add up to bits and bits + 1
        for _ in range(self.n(tier) // 3):
            w = r.choice(W)
            bits = 8 * w
            top = 1 << bits
            op = r.choice(['mul', 'mul', 'mul', 'add', 'sub', 'pow', 'lshift', 'rpow'])
            if op == 'rpow':
                # plain int base, uint exponent at and around the width
                n = r.choice([bits - 1, bits, bits, min(bits + 1, 255), min(2 * bits, 255)])
                out.append(show(['uop', 'pow', '-', r.choice([2, 2, 2, 3, 1, 0]), w, n]))
                continue
            if op == 'mul':
                la = r.randint(1, bits)
                a = r.randrange(1 << (la - 1), 1 << la)
                if r.random() < 0.5:
                    lb = max(1, bits + r.choice([0, 1, 1, 2]) - la)
                    b = r.randrange(1 << (lb - 1), 1 << lb)
                else:
                    b = max(0, (top + r.choice([-a, -1, 0, a - 1, a])) // a)
            elif op == 'add':
                a = r.randrange(top)
                b = max(0, top - a + r.choice([-2, -1, 0, 1]))
            elif op == 'sub':
                a = r.randrange(top)
                b = max(0, a + r.choice([-1, 0, 1, 2]))
            elif op == 'pow':
                b = r.choice([2, 3, 4, 5, 7, 8])
                root = int(round(top ** (1.0 / b))) if bits <= 64 else 1 << (bits // b)
                a = max(0, root + r.choice([-1, 0, 1]))
            else:
                b = r.randint(0, bits)
                a = max(0, (top >> b) + r.choice([-1, 0, 1]))
            if a >= top or (op not in ('lshift', 'pow') and b >= top):
                continue
            ow = r.choice([w, '-'])
            if ow != '-' and b >= top:
                continue
            x, y = (w, a), (ow, b)
            if op in ('mul', 'add') and r.random() < 0.4:
                x, y = y, x
            out.append(show(['uop', op, x[0], x[1], y[0], y[1]]))
        for _ in range(self.n(tier) // 6):
            w = r.choice(W)
            bits = 8 * w
            a = self.operand_val(g, w) if r.random() < 0.5 else r.choice([0, 1, 2, 3, 7, 200])
            e = r.choice([0, 1, 2, 3, 5, 6, 8, 17])
            m = r.choice([1, 2, 5, 7, 255, 256, 257, 1000, (1 << bits) - 1, 1 << bits, (1 << bits) + 1, 1 << (bits + 3), -1, -5, -(1 << bits), 0,
                          r.randint(1, 1 << (bits + 1))])
            out.append(show(['upow3', w, a, e, m]))
        for _ in range(self.n(tier) // 10):
            w = r.choice(W)
            out.append(show(['uun', r.choice(['neg', 'neg', 'pos', 'abs']), w, r.choice([0, 0, 1, self.operand_val(g, w)])]))
        for _ in range(self.n(tier) // 6):
            wx, wy = r.choice(W), r.choice(W)
            x = self.operand_val(g, wx)
            y = r.choice([0, 1, 4, 7, 8, 8 * wx - 1, 8 * wx, 8 * wx + 1, 255])
            if y >= (1 << (8 * wy)):
                y = (1 << (8 * wy)) - 1
            out.append(show(['urefl', r.choice(['lshift', 'rshift']), wx, x, wy, y]))
        if tier == 'thorough':
            # exhaustive for width 8: every operand pair for the coercing operators (uint8 x uint8 and
            # uint8 x plain int), every shift amount 0..9, every exponent 0..8
            for op in ('add', 'sub', 'mul', 'xor', 'and', 'or', 'floordiv', 'mod'):
                for a in range(256):
                    for b in range(256):
                        out.append(show(['uop', op, 1, a, 1 if (a + b) % 2 else '-', b]))
            for op in ('lshift', 'rshift'):
                for a in range(256):
                    for b in range(10):
                        out.append(show(['uop', op, 1, a, '-', b]))
            for a in range(256):
                for b in range(9):
                    out.append(show(['uop', 'pow', 1, a, '-', b]))
                out.append(show(['uinv', 1, a]))
        return out

    def nontrivial(self, c):
        return True

    def compare(self, case, py, mo, stats):
        bump(stats, 'ops', case[1] if case[0] in ('uop', 'urefl', 'uun') else case[0])
        bump(stats, 'errs', 'err' if mo.get('r') == 'err' else 'ok')
        if py.get('p.r') == 'badoperand':
            bump(stats, 'errs', 'skipped:operand-not-constructible')
            return []
        if py.get('p.r') != mo.get('r'):
            return [F('prop', show(case), py.get('p.r'), mo.get('r'))]
        return []


class C15(ValProp):
    pid = 'C15'
    quick_n = 300
    thorough_n = 5000
    rule = ('random (type, value) cases plus, for a table of element kinds, every length 0..70 (so the stack iterators '
            'cross every subtree boundary): indexing, slicing, len, iteration, read-only iteration, container iteration, '
            'bit iteration, object export all equal the value; pairs of values: == iff equal roots iff equal content, '
            'equal values hash equal; non-trivial/distinct as C01')

    def generate(self, g, tier, focus=None):
        out = ValProp.generate(self, g, tier)
        out += self.dec_cases(g, tier)
        table = ['u8', 'u64', 'u256', 'bool', ['cont', 'u8', 'u16'], ['Bv', 4], ['list', 'u8', 3]]
        step = 7 if tier == 'quick' else 1
        for et in table:
            for ln in range(0, 71, step):
                t = ['list', et, 70 + g.rng.choice([0, 1, 58])]
                out.append(show(['val', t, ['s'] + [g.val(et, 3) for _ in range(ln)]]))
        for ln in (list(range(0, 600, 37)) if tier == 'quick' else range(0, 1030, 3)):
            out.append(show(['val', ['bl', 1030], g.bits(ln)]))
        # mutated values: after every op the view against a fresh value with the content it shows
        for _ in range(self.n(tier) // 4):
            t, v = self.tv(g, tier, mutable=True)
            v = boundary_value(g, t, v)
            ops, _ = g.ops(t, v, g.rng.choice([4, 10, 25]))
            out.append(show(['histf', t, v] + ops))
        # unions with a None option whose selected (non-None) option holds an all-zero payload, bare and nested
        for _ in range(self.n(tier) // 10):
            r = g.rng
            x = r.choice(['u8', 'u64', 'bool', ['Bv', 32], ['Bv', 4], ['bv', 9], ['bv', 256], ['vec', 'u64', 4], ['vec', 'u16', 3], ['cont', 'u256'],
                          ['list', 'u8', 3], ['bl', 5]])
            opts = ['none'] + [r.choice(['u16', x]) for _ in range(r.randint(0, 2))] + [x]
            u = ['union'] + opts
            uv = ['u', len(opts) - 1, g.zero(x)]
            c = r.random()
            if c < 0.3:
                t, v = ['cont', 'u8', u, u], ['s', '1', uv, ['u', 0, 'none']]
            elif c < 0.6:
                t, v = ['list', u, 4], ['s', uv, ['u', 0, 'none'], uv]
            elif c < 0.7:
                t, v = ['vec', u, 2], ['s', uv, uv]
            else:
                t, v = u, uv
            out.append(show(['val', t, v]))
        # hash() of every held view after mutations through child views (against a brand-new view of the same backing)
        for _ in range(self.n(tier) // 5):
            t = nested_ty(g, g.rng.choice([1, 2, 2]))
            v = g.val(t, 8)
            out.append(show(['store', t, v] + StoreGen(g, t, v).history(g.rng.choice([6, 15]))))
        # pairs
        for _ in range(self.n(tier) // 3):
            t, v = self.tv(g, tier)
            w = g.val(t) if g.rng.random() < 0.7 else v
            out.append(show(['eq2', t, v, w]))
        # the three stack iterators directly on arbitrary trees (also malformed: non-leaf bottoms,
        # too shallow, summaries in the way) against their state-machine models
        r = g.rng
        for _ in range(self.n(tier) // 2):
            d = r.choice([0, 1, 2, 3, 4])
            tr = self.full_tree(g, d) if r.random() < 0.6 else g.tree(d + r.choice([0, 1]), 0.15)
            cmds = []
            for _ in range(r.choice([2, 4])):
                c = r.random()
                if c < 0.35:
                    cmds.append(['niter', d, r.choice([0, 1, (1 << d), (1 << d) - 1, (1 << d) + 1, r.randint(0, (1 << d) + 1)])])
                elif c < 0.7:
                    et = r.choice(['u8', 'u16', 'u32', 'u64', 'u128', 'u256', 'bool'])
                    per = 32 // {'u8': 1, 'u16': 2, 'u32': 4, 'u64': 8, 'u128': 16, 'u256': 32, 'bool': 1}[et]
                    cap = (1 << d) * per
                    cmds.append(['piter', et, d, r.choice([0, 1, per, per + 1, cap, max(cap - 1, 0), cap + 1, r.randint(0, cap + 1)])])
                else:
                    cap = (1 << d) * 256
                    cmds.append(['biter', d, r.choice([0, 1, 255, 256, 257, cap, cap - 1, cap + 1, r.randint(0, cap + 1)])])
            out.append(show(['tree', tr] + cmds))
        return out

    def full_tree(self, g, d):
        if d == 0:
            c = g.chunk()
            if g.rng.random() < 0.5:
                c = bytes(b & 1 for b in c)   # booleans decode
            return ['L', c.hex()]
        return ['P', self.full_tree(g, d - 1), self.full_tree(g, d - 1)]

    def dec_cases(self, g, tier):
        # values that come out of the decoders (valid encodings and near-valid ones that may be accepted): bit fields
        r = g.rng
        out = []
        for _ in range(max(40, self.n(tier) // 5)):
            k = r.choice(['bv', 'bl'])
            nb = r.choice([1, 3, 5, 7, 9, 12, 15, 250, 255, 257, 300])
            t = [k, nb]
            nbytes = (nb + 7) // 8 if k == 'bv' else r.randint(1, nb // 8 + 1)
            raw = bytearray(r.getrandbits(8) for _ in range(nbytes))
            if k == 'bv' and nb % 8:
                # the unused high bits of the last byte: clear them, or leave exactly the lowest of them set
                raw[-1] &= (1 << (nb % 8)) - 1
                if r.random() < 0.5:
                    raw[-1] |= 1 << (nb % 8)
            w = r.random()
            if w < 0.3:
                out.append(show(['dec', ['cont', 'u8', t] if k == 'bv' else ['cont', 'u8', t], 'x', 'x' + (bytes([7]) + (b'' if k == 'bv' else bytes([5, 0, 0, 0])) + bytes(raw)).hex(), 'x']))
            else:
                out.append(show(['dec', t, 'x', 'x' + bytes(raw).hex(), 'x']))
        return out

    def compare(self, case, py, mo, stats):
        out = []
        if case[0] == 'dec':
            bump(stats, 'kinds', 'decoded:' + kind(case[1]))
            if py.get('p.dec') not in (None, 'err') and py.get('p.eqcontent') not in (None, '111'):
                out.append(F('prop', 'a decoded value is not equal (==, root, hash) to a fresh value holding the content it shows', py.get('p.eqcontent'), '111'))
            for route in ('iter', 'roiter'):
                if py.get('p.dec') not in (None, 'err') and py.get('p.read.' + route) not in (None, py.get('p.dec')):
                    out.append(F('prop', 'read via %s of a decoded value differs from indexing' % route, py.get('p.read.' + route), py.get('p.dec')))
            return out
        if case[0] == 'tree':
            for i, c in enumerate(case[2:]):
                p = '%d.' % i
                bump(stats, 'ops', c[0])
                a, b = py.get(p + c[0]), mo.get(p + c[0])
                if a != b:
                    out.append(F('corr', 'stack iterator %s %s on a raw tree' % (c[0], show(c[1:])), a, b))
            return out
        if case[0] == 'store':
            bump(stats, 'kinds', 'store:' + kind(case[1]))
            for i, op in enumerate(case[3:]):
                h = py.get('%d.hashes' % i)
                if h is not None and set(h) - {'1'}:
                    out.append(F('prop', 'hash() of a held view differs from hash() of a new view of the same backing after op %d %s (one flag per held view)' % (i, show(op)), h, 'all 1'))
                    break
            return out + [f for f in StoreProp.compare_store(self, case, py, mo, None, 'views') if f['cls'] != 'prop']
        if case[0] == 'histf':
            bump(stats, 'kinds', 'hist:' + kind(case[1]))
            for i, op in enumerate(case[3:]):
                bump(stats, 'ops', op[0])
                a = py.get('%d.pfresh' % i)
                if a is None or set(a) - {'1'}:
                    out.append(F('prop', 'after op %d %s the view disagrees with a fresh value of the content it shows '
                                 '(==, !=, root, hash, to_obj, bytes, iter, roiter, slice, interleaved iteration)' % (i, show(op)), a, 'all 1'))
                    break
            return out
        if case[0] == 'eq2':
            bump(stats, 'kinds', 'eq2:' + kind(case[1]))
            same = show(case[2]) == show(case[3])
            exp = '%d%d%d%d' % (same, same, same, 1 if same else int(py.get('p.eq2', '0000')[3:4] or 0))
            if py.get('p.eq2', 'err')[:3] != exp[:3] or (same and py.get('p.eq2') != '1111'):
                out.append(F('prop', '== / root equality / hash', py.get('p.eq2'), exp))
            return out
        self.note_tv(stats, case[1], case[2])
        if py.get('p.ctor') != 'ok':
            return [F('prop', 'ctor', py.get('p.ctor'), 'valid value must be constructible')]
        v = show(case[2])
        for route in ('index', 'iter', 'roiter', 'slice', 'zip', 'reiter'):
            if py.get('p.read.' + route) != v:
                out.append(F('prop', 'read via ' + route, py.get('p.read.' + route), v))
        t = case[1]
        if not is_basic(t) and kind(t) in ('list', 'vec', 'bl', 'bv', 'Bl', 'Bv'):
            if py.get('p.len') != str(val_size(case[2]) // (2 if kind(t) in ('Bl', 'Bv') else 1)):
                out.append(F('prop', 'len()', py.get('p.len'), str(val_size(case[2]))))
        if py.get('p.eq') != '111':
            out.append(F('prop', '==, !=, hash of equal values', py.get('p.eq'), '111'))
        if 'p.eqfresh' in py and set(py['p.eqfresh']) - {'1'}:
            out.append(F('prop', '==, !=, hash(), set membership against an equal value whose type expression was evaluated separately', py['p.eqfresh'], '1111'))
        if py.get('p.roiter2') not in (None, '1'):
            out.append(F('prop', 'two read-only iterations alive at once (one element apart) do not each yield their own elements', py.get('p.roiter2'), '1'))
        if 'p.seqmixin' in py and set(py['p.seqmixin']) - {'1'}:
            out.append(F('prop', 'reversed() / in / index() / count() disagree with indexing', py['p.seqmixin'], 'all 1'))
        if 'p.slices' in py and set(py['p.slices']) - {'1'}:
            out.append(F('prop', 'in-range slices [0:0],[0:n],[0:1],[n:n],[n/2:n],[0:n/2],[1:n-1] disagree with indexing', py['p.slices'], 'all 1'))
        if 's.obj' in mo and py.get('p.objjson') != mo['s.obj']:
            out.append(F('prop', 'read via object export (to_obj, as compact JSON)', py.get('p.objjson'), mo['s.obj']))
        if 's.obj' in mo and 'i.objtree' in mo and mo['i.objtree'] != mo['s.obj']:
            out.append(F('model', 'i.objtree (to_obj through the iterators of the model: ObjTreeLaws.toObjTree_repr)', mo['i.objtree'], mo['s.obj']))
        if mo['i.read'] != v:
            out.append(F('model', 'i.read', mo['i.read'], v))
        if mo.get('i.iter') != v:
            out.append(F('model', 'i.iter (stack iterators of the model)', mo.get('i.iter'), v))
        return out


class C16(ValProp):
    pid = 'C16'
    rule = ('random (type, value) cases: to_obj shape (checked structurally and against the model JSON), from_obj(to_obj) '
            'and from_obj(json.loads(json.dumps(to_obj))) equal the original (==, root); non-trivial/distinct as C01')

    def generate(self, g, tier, focus=None):
        out = ValProp.generate(self, g, tier)
        # the export of values whose backing is served lazily by a root-keyed source, before and after mutations
        for _ in range(self.n(tier) // 6):
            t, v = self.tv(g, tier, mutable=True)
            if is_basic(t):
                continue
            hist, _ = g.ops(t, v, g.rng.choice([1, 3]), 0.0)
            ops = [['obj']]
            for o in hist:
                ops += [o, ['obj']]
            out.append(show(['virt', t, v] + ops))
        return out

    def compare(self, case, py, mo, stats):
        out = []
        if case[0] == 'virt':
            bump(stats, 'kinds', 'lazy:' + kind(case[1]))
            if py.get('p.skip') or py.get('p.ctor') == 'err' or py.get('p.import', 'ok') != 'ok':
                return out
            for i, op in enumerate(case[3:]):
                p = '%d.' % i
                a, c, m = py.get(p + 'p'), py.get(p + 'c'), mo.get(p + 'ic')
                if op[0] == 'obj':
                    if a != c:
                        out.append(F('prop', 'export of a value whose backing is served lazily differs from the export of the materialised value: op %d' % i, a, c))
                        break
                    if (c or '').startswith('ok') and c != m:
                        out.append(F('prop', 'exported object shape (after %d ops)' % i, c, m))
                        break
            return out
        self.note_tv(stats, case[1], case[2])
        if py.get('p.ctor') != 'ok':
            return [F('prop', 'ctor', py.get('p.ctor'), 'valid value must be constructible')]
        o = py.get('p.obj', 'err').split('/')
        if len(o) != 4:
            out.append(F('prop', 'to_obj / from_obj raised or wrong shape', py.get('p.obj'), ''))
            return out
        if o[1] != mo['s.root'] or o[2] != mo['s.root'] or o[3] != '11':
            out.append(F('prop', 'from_obj(to_obj) / via JSON', py.get('p.obj'), mo['s.root']))
        if py.get('p.obj2') != '%s/%s' % (mo['s.root'], mo['s.root']):
            out.append(F('prop', 'a second import (after the results of earlier imports were mutated) differs from the original', py.get('p.obj2'), mo['s.root']))
        if 's.obj' in mo and py.get('p.objjson') != mo['s.obj']:
            out.append(F('prop', 'exported object shape', py.get('p.objjson'), mo['s.obj']))
        if 's.obj' in mo and 'i.objtree' in mo and mo['i.objtree'] != mo['s.obj']:
            out.append(F('model', 'i.objtree (to_obj through the iterators of the model: ObjTreeLaws.toObjTree_repr)', mo['i.objtree'], mo['s.obj']))
        if py.get('p.objrev') != '%s/%s' % (mo['s.root'], mo['s.root']):
            out.append(F('prop', 'import of the exported object with every dict in the opposite key order / after a JSON dump with sorted keys', py.get('p.objrev'), mo['s.root']))
        if 'i.fromobj' in mo and mo['i.fromobj'] != show(case[2]):
            out.append(F('model', 'fromObj(toObj)', mo['i.fromobj'], show(case[2])))
        return out


class C07(Prop):
    pid = 'C07'
    quick_n = 500
    thorough_n = 8000
    rule = ('random tree shapes (pairs, leaves, zero summaries of every depth, non-zero summaries) x gindices (all up to '
            'depth+2 for small trees, random beyond, 0) x expand on/off x replacement nodes: getter result or navigation '
            'error, setter result root, the very node at the position, other positions, link re-application, original '
            'untouched, summarize_into; non-trivial = tree with at least one pair; distinct = distinct case lines')

    def generate(self, g, tier, focus=None):
        r = g.rng
        out = []
        # zero summaries of the greatest heights the zero-hash table has (255, 254, 253) and one beyond the usual ones:
        # their roots, reads below them, and writes that expand them all the way down
        for d_ in (255, 254, 253, 200, 64):
            gi_ = (1 << d_) | g.rng.getrandbits(d_ - 1)
            out.append(show(['tree', ['Z', d_], ['get', 1], ['set', gi_, 1, ['L', g.chunk().hex()], gi_, gi_ >> 1, gi_ ^ 1, 2, 3],
                             ['set', 1 << d_, 1, ['Z', 0], 1 << d_], ['set', gi_, 0, ['L', g.chunk().hex()], 1]]))
            out.append(show(['tree', ['P', ['Z', d_ - 1], ['L', g.chunk().hex()]], ['get', 2], ['set', (1 << d_) | 1, 1, ['L', g.chunk().hex()], 2, 3, (1 << d_) | 1]]))
        for _ in range(self.n(tier)):
            d = r.choice([0, 1, 2, 3, 4, 5])
            tr = g.tree(d, r.choice([0.1, 0.3, 0.5]))
            cmds = []
            maxg = 1 << (g.tree_depth(tr) + 2)
            for _ in range(r.choice([1, 3, 6])):
                gi = r.choice([0, 1, r.randint(1, maxg), r.randint(1, maxg), r.randint(1, 1 << 12)])
                c = r.random()
                if c < 0.3:
                    cmds.append(['get', gi])
                elif c < 0.85:
                    ex = r.choice([0, 1, 1])
                    if ex and r.random() < 0.4:
                        # expanding write several levels below the leaves (mixed left / right steps)
                        gi = r.randint(maxg >> 2, maxg << r.choice([1, 2, 3, 4]))
                    probes = [gi, gi ^ 1 if gi > 1 else 1, r.randint(1, maxg), max(gi >> 1, 1), gi * 2, gi * 2 + 1]
                    cmds.append(['set', gi, ex, g.tree(r.choice([0, 0, 1, 2]), 0.5)] + probes)
                else:
                    cmds.append(['summ', gi])
            if r.random() < 0.5:
                # the same operations on ONE lazily loaded tree object, in sequence (failed reads first)
                seq = []
                last = 1
                for _ in range(r.choice([2, 4, 6])):
                    gi = r.choice([1, r.randint(1, maxg), r.randint(1, maxg), last, last ^ 1 if last > 1 else 1, last * 2 + r.choice([0, 1]),
                                   (last << 2) | r.randrange(4), max(last >> 1, 1)])
                    last = gi
                    if r.random() < 0.5:
                        seq.append(['get', gi])
                    else:
                        seq.append(['set', gi, r.choice([0, 1, 1]), g.tree(r.choice([0, 0, 1]), 0.5)])
                cmds.append(['vseq'] + seq)
            if r.random() < 0.08:
                # huge gindices (beyond 2**49, where floating point arithmetic on the gindex would round): a single
                # zero summary of great height expanded along right-most / random paths, and deep right spines
                d = r.choice([48, 49, 50, 52, 53, 60, 63, 64])
                gs = [(2 << d) - 1, (2 << d) - 2, (1 << d) + 1, (3 << (d - 1)) - 1, r.randrange(1 << d, 2 << d), (1 << d) - 1, (1 << (d - 1)) - 1]
                big = []
                for gi in r.sample(gs, 3):
                    big.append(['set', gi, 1, g.tree(0, 0.0), gi, gi >> 1, gi ^ 1, 2, 3])
                    big.append(['get', gi])
                out.append(show(['tree', ['Z', d]] + big))
                spine = ['L', g.chunk().hex()]
                for _ in range(d):
                    spine = ['P', ['L', g.chunk().hex()], spine]
                gi = (2 << d) - 1
                out.append(show(['tree', spine, ['get', gi], ['get', gi - 1], ['get', gi >> 1], ['set', gi, 0, g.tree(0, 0.0), gi, gi - 1, gi >> 3],
                                 ['set', gi - 1, 0, g.tree(0, 0.0), gi, gi - 1], ['get', 2 * gi + 1], ['vget', gi], ['vget', gi - 1]]))
            zs = zero_leaves(tr)
            if zs and r.random() < 0.6:
                # a read that fails BELOW a zero-subtree summary, then an expanding write through the same summary
                z, d = r.choice(zs)
                k = r.randint(1, 3)
                j = r.randint(1, max(d, 1))
                seq = [['get', (z << k) | r.randrange(1 << k)],
                       ['set', (z << j) | r.randrange(1 << j), 1, g.tree(0, 0.0)],
                       ['get', z], ['set', (z << j) | r.randrange(1 << j), r.choice([0, 1]), g.tree(r.choice([0, 1]), 0.3)]]
                cmds.append(['vseq'] + seq)
            out.append(show(['tree', tr] + cmds))
        if tier == 'thorough':
            # small exhaustive: all gindices up to depth+2 for trees of depth <= 3
            for _ in range(300):
                tr = g.tree(r.choice([1, 2, 3]), 0.3)
                d = g.tree_depth(tr)
                cmds = []
                for gi in range(0, 1 << (d + 3)):
                    cmds.append(['get', gi])
                    cmds.append(['set', gi, gi % 2, ['L', 'ab' * 32], gi, 1, 2, 3])
                out.append(show(['tree', tr] + cmds))
        return out

    def nontrivial(self, c):
        return '(P' in c

    def compare(self, case, py, mo, stats):
        out = []
        bump(stats, 'sizes', size_class(show(case[1]).count('(')))
        if py.get('p.untouched') != '1':
            out.append(F('prop', 'original tree modified', py.get('p.untouched'), '1'))
        for i, c in enumerate(case[2:]):
            bump(stats, 'ops', c[0] + (':expand' if c[0] == 'set' and c[2] == '1' else ''))
            p = '%d.' % i
            if c[0] == 'get':
                a, b = py.get(p + 'get'), mo.get(p + 'get')
                bump(stats, 'errs', 'get:' + ('err' if b == 'err' else 'ok'))
                if b == 'err':
                    if a != 'err:nav':
                        out.append(F('prop', 'getter(%s) must raise NavigationError' % c[1], a, 'err:nav'))
                elif a != b:
                    out.append(F('prop', 'getter(%s)' % c[1], a, b))
            elif c[0] == 'set':
                a, b = py.get(p + 'set'), mo.get(p + 'set')
                bump(stats, 'errs', 'set:' + ('err' if b == 'err' else 'ok'))
                if b == 'err':
                    if a != 'err:nav':
                        out.append(F('prop', 'setter(%s, expand=%s) must raise NavigationError' % (c[1], c[2]), a, 'err:nav'))
                else:
                    if a != b:
                        out.append(F('prop', 'root of setter(%s, expand=%s)(v)' % (c[1], c[2]), a, b))
                    pa = (py.get(p + 'probes') or '').replace('err:nav', 'err')
                    if pa != mo.get(p + 'probes'):
                        out.append(F('prop', 'positions after setter(%s)' % c[1], pa, mo.get(p + 'probes')))
                    if py.get(p + 'same') != '1' or py.get(p + 'relink') != '1':
                        out.append(F('prop', 'result does not hold the very node / link not reusable', py.get(p + 'same'), '1'))
                if py.get(p + 'orig') != mo.get(p + 'orig'):
                    out.append(F('prop', 'original root changed by setter', py.get(p + 'orig'), mo.get(p + 'orig')))
            elif c[0] == 'summ':
                a, b = py.get(p + 'summ'), mo.get(p + 'summ')
                if (b == 'err') != (a is None or a.startswith('err')) or (b != 'err' and a != b):
                    out.append(F('prop', 'summarize_into(%s)' % c[1], a, b))
            elif c[0] == 'vseq':
                a, b = py.get(p + 'vseq'), mo.get(p + 'vseq')
                if a != b:
                    out.append(F('prop', 'lazily loaded tree: sequence of reads / writes on one tree object', a, b))
        return out


class C18(Prop):
    pid = 'C18'
    quick_n = 400
    thorough_n = 6000
    rule = ('random histories of trees related by random writes with repeats and reversions x target gindices: changelog '
            'against the model (= per-entry lookup with consecutive repeats dropped); pairs of trees: diff list, grafting '
            'reproduces the second root; leaf iteration; non-trivial = at least one pair node; distinct = distinct lines')

    def generate(self, g, tier, focus=None):
        r = g.rng
        out = []
        for _ in range(self.n(tier)):
            # full trees of a fixed depth so that every lookup succeeds
            d = r.choice([1, 2, 3, 4])
            base = self.full(g, d)
            hist = []
            cur = base
            pool = [base]
            for _ in range(r.choice([1, 3, 6, 10])):
                c = r.random()
                if c < 0.25:
                    nxt = cur
                elif c < 0.4:
                    nxt = r.choice(pool)
                else:
                    nxt = self.write_full(g, cur, d)
                hist.append(nxt)
                pool.append(nxt)
                cur = nxt
            cmds = []
            for _ in range(3):
                cmds.append(['hist', r.randint(1, (1 << (d + 1)) - 1)] + hist)
            b = g.tree_write(g.tree_write(base)) if r.random() < 0.7 else g.tree(d, 0.3)
            cmds.append(['diff', b])
            cmds.append(['graft', b])
            cmds.append(['diff', base])
            cmds.append(['leaves'])
            cmds.append(['vleaves'])
            out.append(show(['tree', base] + cmds))
            if r.random() < 0.4 and d >= 2:
                # a data chunk of the FIRST tree holds the root of the subtree that a LATER tree has one level up (a
                # `state_root`-style field): the entries at the two levels have equal roots without being the same subtree
                gt = r.randint(4, (1 << (d + 1)) - 1)
                later = self.write_full(g, self.write_full(g, base, d), d)
                up = self.sx_get(later, gt >> 1)
                if up is not None and up[0] == 'P':
                    first = self.sx_put(base, gt, ['L', self.sx_root(up).hex()])
                    h2 = [later] + ([self.write_full(g, later, d)] if r.random() < 0.5 else [])
                    out.append(show(['tree', first, ['hist', gt] + h2, ['hist', gt >> 1] + h2, ['hist', gt ^ 1] + h2]))
            if r.random() < 0.08:
                # right / left spines of 54+ levels: targets whose generalized index needs more than 53 bits
                dd = r.choice([54, 55, 60, 64])
                right = r.random() < 0.6

                def spine(leaf):
                    tr_ = leaf
                    for lvl in range(dd):
                        tr_ = ['P', ['Z', lvl], tr_] if right else ['P', tr_, ['Z', lvl]]
                    return tr_
                gt = (1 << (dd + 1)) - 1 if right else (1 << dd)
                t0, t1_, t2_ = spine(['L', g.chunk().hex()]), spine(['L', g.chunk().hex()]), spine(['L', g.chunk().hex()])
                out.append(show(['tree', t0, ['hist', gt, t1_, t1_, t2_, t0], ['hist', gt >> 1, t1_, t2_], ['hist', gt ^ 1, t1_]]))
                dd = r.choice([64, 66, 70])
                deep = lambda a_, b_: spine(['P', ['L', a_], ['L', b_]])
                c1_, c2_, c3_ = g.chunk().hex(), g.chunk().hex(), g.chunk().hex()
                out.append(show(['tree', deep(c1_, c2_), ['diff', deep(c3_, c2_)], ['diff', deep(c3_, c1_)], ['graft', deep(c1_, c3_)], ['diff', deep(c1_, c2_)]]))
            if r.random() < 0.5:
                # same root, different shape: zero summaries against (partially) expanded zero subtrees
                tz = g.tree(r.choice([2, 3, 4]), 0.4)
                te = self.expand_zeros(g, tz)
                out.append(show(['tree', tz, ['diff', te], ['graft', te], ['diff', self.expand_zeros(g, g.tree_write(tz))], ['leaves']]))
                out.append(show(['tree', te, ['diff', tz], ['graft', tz], ['leaves']]))
                # siblings with the same root and different shapes (a summary next to its own expansion, either side)
                d = r.choice([1, 2, 3])
                zs, ze = ['Z', d], self.expand_zeros(g, ['P', ['Z', d - 1], ['Z', d - 1]])
                sib = ['P', zs, ze] if r.random() < 0.5 else ['P', ze, zs]
                if r.random() < 0.5:
                    sib = ['P', sib, g.tree(1, 0.3)]
                out.append(show(['tree', sib, ['leaves'], ['diff', ['P', ze, ze]], ['hist', r.randint(1, 15), ['P', ze, ze], sib]]))
            if r.random() < 0.5:
                # default-style trees whose pairs share ONE child object (subtree_fill_to_depth), nested, and a second
                # tree derived from the first by writes (shares every untouched node object with it)
                d1 = r.choice([1, 2, 3, 4])
                bottom = r.choice([['L', g.chunk().hex()], ['Z', 0], ['F', r.choice([1, 2]), ['L', g.chunk().hex()]], g.tree(1, 0.3)])
                a = ['F', d1, bottom]
                if r.random() < 0.4:
                    a = ['P', a, r.choice([['F', d1, bottom], ['L', g.chunk().hex()], a])]
                depth = d1 + 3
                ws = [['w', r.randint(1, (1 << r.randint(1, depth)) - 1), r.choice([0, 0, 1]), g.tree(r.choice([0, 0, 1]), 0.3)]
                      for _ in range(r.choice([1, 1, 2, 4]))]
                out.append(show(['tree', a, ['diffw'] + ws, ['leaves']]))
                # two filled trees (every position holds the same pair of node objects), whole and in part
                fb = ['F', d1, r.choice([['L', g.chunk().hex()], ['Z', 0], bottom])]
                out.append(show(['tree', ['F', d1, bottom], ['diff', fb], ['graft', fb], ['leaves']]))
                out.append(show(['tree', ['P', ['F', d1, bottom], ['F', d1, bottom]], ['diff', ['P', fb, ['F', d1, bottom]]], ['graft', ['P', fb, fb]], ['diff', ['P', fb, fb]]]))
            if r.random() < 0.3:
                tr = g.tree(r.choice([2, 3, 5]), 0.3)
                out.append(show(['tree', tr, ['leaves'], ['diff', g.tree_write(tr)], ['graft', g.tree_write(tr)],
                                 ['hist', r.randint(1, 40), g.tree_write(tr), tr]]))
        return out

    def expand_zeros(self, g, tr):
        if tr[0] == 'Z' and int(tr[1]) >= 1 and g.rng.random() < 0.8:
            d = int(tr[1])
            return ['P', self.expand_zeros(g, ['Z', d - 1]), self.expand_zeros(g, ['Z', d - 1])]
        if tr[0] == 'P':
            return ['P', self.expand_zeros(g, tr[1]), self.expand_zeros(g, tr[2])]
        return tr

    def full(self, g, d):
        if d == 0:
            return ['L', g.chunk().hex()]
        return ['P', self.full(g, d - 1), self.full(g, d - 1)]

    @staticmethod
    def sx_get(tr, gi):
        for bit in bin(gi)[3:]:
            if tr[0] != 'P':
                return None
            tr = tr[1] if bit == '0' else tr[2]
        return tr

    @staticmethod
    def sx_put(tr, gi, new):
        bits = bin(gi)[3:]
        if not bits:
            return new
        if tr[0] != 'P':
            return tr
        if bits[0] == '0':
            return ['P', C18.sx_put(tr[1], int('1' + bits[1:], 2), new), tr[2]]
        return ['P', tr[1], C18.sx_put(tr[2], int('1' + bits[1:], 2), new)]

    @staticmethod
    def sx_root(tr):
        import hashlib
        if tr[0] == 'L':
            return bytes.fromhex(tr[1])
        if tr[0] == 'Z':
            z = b'\x00' * 32
            for _ in range(int(tr[1])):
                z = hashlib.sha256(z + z).digest()
            return z
        return hashlib.sha256(C18.sx_root(tr[1]) + C18.sx_root(tr[2])).digest()

    def write_full(self, g, tr, d):
        if d == 0:
            return ['L', g.chunk().hex()]
        if g.rng.random() < 0.5:
            return ['P', self.write_full(g, tr[1], d - 1), tr[2]]
        return ['P', tr[1], self.write_full(g, tr[2], d - 1)]

    def nontrivial(self, c):
        return '(P' in c

    def compare(self, case, py, mo, stats):
        out = []
        for i, c in enumerate(case[2:]):
            bump(stats, 'ops', c[0])
            p = '%d.' % i
            if c[0] == 'diffw':
                a, b = py.get(p + 'diffw'), mo.get(p + 'diffw')
                if a != b:
                    out.append(F('prop', 'diff against a tree derived by writes', a, b))
                ga = py.get(p + 'graft')
                if ga != py.get(p + 'target') or ga != mo.get(p + 'graft'):
                    out.append(F('prop', 'grafting the diff does not give the second root', ga, py.get(p + 'target')))
                if mo.get(p + 'graft') != mo.get(p + 'target'):
                    out.append(F('model', 'graft law', mo.get(p + 'graft'), mo.get(p + 'target')))
                continue
            if c[0] == 'vleaves':
                a, b = py.get(p + 'vleaves'), mo.get(p + 'vleaves')
                if a != 'skip' and a != b:
                    out.append(F('prop', 'leaf iteration over a lazily served tree', a, b))
                continue
            for key in ('hist', 'diff', 'graft', 'leaves'):
                if c[0] == key:
                    a, b = py.get(p + key), mo.get(p + key)
                    if a is not None and a.startswith('err'):
                        a = 'err'
                    if a != b:
                        out.append(F('prop', '%s %s' % (key, c[1] if key == 'hist' else ''), a, b))
                    if key == 'graft' and b != 'err' and mo.get(p + 'graft') != mo.get(p + 'target'):
                        out.append(F('model', 'graft law', mo.get(p + 'graft'), mo.get(p + 'target')))
                    if key == 'graft' and a != 'err' and a != py.get(p + 'target'):
                        out.append(F('prop', 'grafting the diff does not give the second root', a, py.get(p + 'target')))
        return out


class C08(Prop):
    pid = 'C08'
    quick_n = 500
    thorough_n = 8000
    rule = ('random types x valid key sequences (fields, indices, __len__, __selector__; depth <= 4) x values: static '
            'gindex against the SSZ recurrence, concatenation at every split, node at the index has the root of the '
            'addressed sub-value / is the packed chunk, dynamic index and view navigation agree; adjacent invalid keys '
            'are rejected; non-trivial = path of length >= 1 in a composite type')

    def generate(self, g, tier, focus=None):
        r = g.rng
        out = []
        for _ in range(self.n(tier)):
            t, v = self.tv(g, tier)
            if is_basic(t):
                continue
            if r.random() < 0.6:
                keys = g.keys(t, v)
                if keys:
                    out.append(show(['pathv', t, v] + keys))
            else:
                keys = g.keys(t, None)
                if keys:
                    out.append(show(['path', t] + keys))
            # invalid keys adjacent to the valid range
            bad = self.bad_key(g, t)
            if bad is not None:
                out.append(show(['path', t, bad]))
        # a list index below the limit but at / beyond the value's current length, with further steps behind it: the static
        # index is defined; the value-dependent one must be refused or agree (never a prefix's index)
        for _ in range(self.n(tier) // 10):
            e = r.choice([['cont', 'u8', 'u64'], ['vec', 'u16', 20], ['list', 'u8', 40], ['cont', ['list', 'u16', 4], 'u8']])
            lim = r.choice([4, 8, 9, 33])
            ln = r.randint(0, lim - 1)
            t = r.choice([['list', e, lim], ['cont', 'u8', ['list', e, lim]], ['vec', ['list', e, lim], 2]])
            inner_v = ['s'] + [g.val(e, 3) for _ in range(ln)]
            v = inner_v if t[0] == 'list' else (['s', '1', inner_v] if t[0] == 'cont' else ['s', inner_v, inner_v])
            pre = [] if t[0] == 'list' else [1]
            idx = r.randint(ln, lim - 1)
            tail = g.keys(e, None, maxlen=2)
            out.append(show(['pathv', t, v] + pre + [idx] + tail))
        # containers whose fields carry the names of view methods
        for _ in range(self.n(tier) // 12):
            nf = r.randint(1, 6)
            t = ['cont'] + [g.ty(1) for _ in range(nf)]
            v = g.val(t, 4)
            k0 = r.randrange(nf)
            out.append(show(['pathm', t, v, k0] + (g.keys(t[1 + k0], v[1 + k0], maxlen=2) if not is_basic(t[1 + k0]) else [])))
        # huge limits and keys beyond 2**53 (where floating point arithmetic on the key would round)
        for _ in range(self.n(tier) // 10):
            e = r.choice(['bool', 'u8', 'u16', 'u32', 'u64', 'u128', 'u256', ['cont', 'u8', 'u64'], ['Bv', 48]])
            lim = r.choice([2**54, 2**56 + 1, 2**60, 2**63 - 1, 2**64])
            t = r.choice([['list', e, lim], ['vec', e, lim], ['bl', lim], ['Bl', lim]])
            key = r.choice([lim - 1, lim - r.randrange(1, 70), 2**53 + r.randrange(1, 2**12), r.randrange(2**53, lim), lim])
            wrap = r.random() < 0.3 and t[0] != 'vec'   # (a container class with a huge vector field cannot be exercised: its default value is huge)
            tt = ['cont', 'u8', t, 'u16'] if wrap else t
            out.append(show(['path', tt] + ([1] if wrap else []) + [key] + ([1] if e[0] == 'cont' and key < lim and r.random() < 0.5 else [])))
        # list positions just BEYOND the value's length but within the limit (the slot next to the last element, the
        # rest of its packed chunk): valid in the type, absent from the value
        for _ in range(max(10, self.n(tier) // 12)):
            e = r.choice(['u8', 'u16', 'u64', 'u256', 'bool', ['cont', 'u8', 'u16'], ['Bv', 4], ['list', 'u8', 3], ['bl', 9]])
            ln = r.choice([1, 2, 3, 4, 5, 7])
            lim = ln + r.choice([1, 2, 5, 30, 1000])
            t, v = ['list', e, lim], ['s'] + [g.val(e, 3) for _ in range(ln)]
            wrap = r.random() < 0.4
            tt, vv = (['cont', 'u8', t], ['s', '3', v]) if wrap else (t, v)
            for key in sorted({ln, ln + 1, lim - 1}):
                if key < lim:
                    tail = [0] if not is_basic(e) and kind(e) != 'Bv' and r.random() < 0.5 else []
                    out.append(show(['pathv', tt, vv] + ([1] if wrap else []) + [key] + tail))
            if kind(e) in ('list', 'bl'):
                out.append(show(['pathv', tt, vv] + ([1] if wrap else []) + [0, len(v[1]) - 1 if isinstance(v[1], str) else len(v[1]) - 1]))
        # unions with up to 128 options: every selector key from 63 on
        for nopt in (65, 100, 128):
            u = ['union'] + (['none'] if r.random() < 0.5 else []) + [r.choice(['u8', 'u16', ['list', 'u8', 2]]) for _ in range(nopt - 1)]
            u = u[:nopt + 1]
            for key in sorted({1, 63, 64, 65, nopt - 2, nopt - 1, nopt}):
                out.append(show(['path', u, key]))
            out.append(show(['path', u, 'sel']))
        # the EMPTY path (the anchor itself: generalized index 1), alone and concatenated
        for _ in range(max(4, self.n(tier) // 40)):
            t = g.ty(r.choice([1, 2]), composite_only=True)
            out.append(show(['path', t]))
            out.append(show(['pathv', t, g.val(t, 4)]))
        # container types that PRINT alike (same class name, same field names, same field class names; they differ in a
        # length / limit of a field): the same path through each of them, one after the other
        for fam in alike_families(g, max(6, self.n(tier) // 25)):
            for t in fam:
                e = t[1]
                if e[0] != 'cont':
                    e = ['cont', 'u8', e]
                inner = e[2]
                top = inner[1] if kind(inner) in ('Bv', 'Bl', 'bv', 'bl') else 3
                for key in sorted({0, top - 1, top // 2}):
                    if key >= 0:
                        out.append(show(['path', e, 1, key]))
                out.append(show(['path', [t[0], e, t[2]], 0, 1, max(top - 1, 0)]))
        if tier == 'thorough':
            # exhaustive: every key (and the pseudo keys) of a table of small types, two levels deep
            table = [['list', 'u16', 17], ['vec', 'u64', 5], ['bl', 300], ['bv', 257], ['Bv', 33], ['Bl', 65],
                     ['cont', 'u8', ['list', 'u8', 3], ['vec', 'bool', 9], ['union', 'none', 'u16', ['bl', 5]]],
                     ['list', ['cont', 'u16', ['list', 'u8', 5]], 9], ['vec', ['list', 'u256', 3], 3],
                     ['union', ['cont', 'u8', 'u8', 'u8'], ['list', 'u64', 9]]]
            for t in table:
                for k1 in self.all_keys(t):
                    out.append(show(['path', t, k1]))
                    t1 = self.sub_type(t, k1)
                    if t1 is not None and not is_basic(t1) and t1 != 'none':
                        for k2 in self.all_keys(t1):
                            out.append(show(['path', t, k1, k2]))
        return out

    def all_keys(self, t):
        k = kind(t)
        if k in ('vec', 'list'):
            return list(range(t[2] + 2)) + (['len'] if k == 'list' else []) + ['sel']
        if k in ('bv', 'bl', 'Bv', 'Bl'):
            return list(range(t[1] + 2)) + ['len']
        if k in ('cont', 'union'):
            return list(range(len(t) + 1)) + ['sel', 'len']
        return [0]

    def sub_type(self, t, key):
        k = kind(t)
        if key in ('len', 'sel'):
            return None
        if k in ('vec', 'list'):
            return t[1] if key < t[2] else None
        if k in ('cont', 'union'):
            return t[1 + key] if key < len(t) - 1 else None
        return None

    def bad_key(self, g, t):
        k = kind(t)
        r = g.rng
        if r.random() < 0.25 and not is_basic(t):
            # negative keys (python's negative indexing must not leak into paths)
            n = t[2] if k in ('vec', 'list') else t[1] if k in ('bv', 'bl', 'Bv', 'Bl') else len(t) - 1
            return r.choice([-1, -2, -max(n, 1), -max(n, 1) - 1])
        if k in ('vec', 'list'):
            return t[2] + r.choice([0, 1])
        if k in ('bv', 'bl', 'Bv', 'Bl'):
            return t[1] + r.choice([0, 1])
        if k in ('cont', 'union'):
            return len(t) - 1 + r.choice([0, 1])
        return None

    def compare(self, case, py, mo, stats):
        out = []
        bump(stats, 'kinds', kind(case[1]))
        keys = case[3:] if case[0] in ('pathv', 'pathm') else case[2:]
        bump(stats, 'sizes', 'keys=%d' % len(keys))
        sg, ig = mo['s.g'], mo['i.g']
        if sg == 'err':
            bump(stats, 'errs', 'rejected')
            if py.get('p.path') != 'err':
                out.append(F('prop', 'invalid key accepted when the path is built', py.get('p.path'), 'err'))
            return out
        if py.get('p.path') != 'ok':
            out.append(F('prop', 'valid path rejected', py.get('p.path'), 'ok'))
            return out
        if py.get('p.g') != sg:
            out.append(F('prop', 'static gindex', py.get('p.g'), sg))
        if case[0] != 'pathm' and py.get('p.pre') != mo.get('i.pre'):
            out.append(F('prop', 'gindices of the kept prefix paths after they were extended again', py.get('p.pre'), mo.get('i.pre')))
        if 'p.concat' in py and set(py['p.concat']) - {'1'}:
            out.append(F('prop', 'path concatenation', py['p.concat'], 'all 1'))
        if ig != sg:
            out.append(F('model', 'i.g~s.g', ig, sg))
        if case[0] in ('pathv', 'pathm'):
            if case[0] == 'pathm' and (py.get('p.navv') or '').startswith('notaview'):
                out.append(F('prop', 'view navigation returned something else than the addressed sub-value', py.get('p.navv'), mo.get('i.node')))
            if py.get('p.node') != mo.get('i.node'):
                out.append(F('prop' if mo.get('i.node') != 'err' else 'corr', 'node at the gindex', py.get('p.node'), mo.get('i.node')))
            if py.get('p.dyn') not in ('err', sg):
                out.append(F('prop', 'dynamic gindex differs from static', py.get('p.dyn'), sg))
            nr = mo.get('i.navroot')
            if case[0] == 'pathv' and nr is not None:
                # value-dependent results against the value's CONTENT (model: `navVal`, the sub-value the keys address in the value)
                if nr == 'err':
                    if py.get('p.navv') not in (None, 'err'):
                        out.append(F('prop', 'a view navigation was returned for a position the value does not have', py.get('p.navv'), 'err'))
                    if py.get('p.dyn') not in (None, 'err'):
                        out.append(F('prop', 'a value-dependent index was returned for a position the value does not have', py.get('p.dyn'), 'err'))
                elif py.get('p.navv') not in (None, 'err', 'none') and py.get('p.navv') != nr:
                    out.append(F('prop', 'the navigated view does not have the root of the addressed sub-value', py.get('p.navv'), nr))
                elif py.get('p.navv') == 'err':
                    out.append(F('corr', 'view navigation refused although the position exists in the value', 'err', nr))
        return out


def stale_cases(g, n):
    """store histories in which a held view's position stops existing (the last element of a list is popped, the union
    is changed to another option) and the view is written afterwards: the write must raise and change nothing — neither
    the enclosing views nor the view itself; then the position comes back (append / change back) and the view works again"""
    r = g.rng
    out = []
    for _ in range(n):
        inner = r.choice([['cont', 'u8', 'u16'], ['list', 'u16', 5], ['vec', 'u8', 3], ['bl', 10], ['cont', ['list', 'u8', 4], 'u8']])
        if r.random() < 0.5:
            ln = r.choice([1, 2, 3, 4, 5, 6])
            t = ['list', inner, r.choice([ln, ln + 1, 8, 9])]
            v = ['s'] + [g.val(inner, 3) for _ in range(ln)]
            write = StoreGen(g, inner, v[-1]).one_op(dict(t=inner, v=v[-1], hook=None, kids=False))
            if write is None or write[0] == 'sets':
                continue
            ops = [['child', 0, ln - 1], ['mut', 0, ['pop']], ['bad', 1, write], ['snap', 0], ['bad', 1, write],
                   ['mut', 0, ['app', g.val(inner, 3)]], ['mut', 1, write]]
        else:
            other = r.choice(['u8', ['list', 'u8', 3], ['cont', 'u16'], inner])
            t = ['union', inner, other] if r.random() < 0.5 else ['union', 'none', inner, other]
            sel = len(t) - 3
            v = ['u', sel, g.val(inner, 3)]
            write = StoreGen(g, inner, v[2]).one_op(dict(t=inner, v=v[2], hook=None, kids=False))
            if write is None or write[0] == 'sets':
                continue
            ops = [['child', 0, 0], ['mut', 0, ['chg', sel + 1, g.val(other, 3)]], ['bad', 1, write], ['snap', 0], ['bad', 1, write],
                   ['mut', 0, ['chg', sel, g.val(inner, 3)]], ['mut', 1, write]]
        w = r.random()
        if w < 0.4:
            # one level further down: the list / union is a field of a container that is the held root view
            t0, v0 = ['cont', 'u8', t], ['s', '7', v]
            ops = [['child', 0, 1]] + [[o[0], o[1] + 1] + o[2:] if o[0] != 'child' else ['child', o[1] + 1, o[2]] for o in ops]
            t, v = t0, v0
        out.append(show(['store', t, v] + ops))
    return out


class StoreProp(Prop):
    quick_n = 150
    thorough_n = 2500
    p_bad = 0.0

    def generate(self, g, tier, focus=None):
        out = []
        r = g.rng
        for k in range(self.n(tier)):
            if k % 10 == 9:
                # bitlists sitting on a 256-bit chunk boundary, alone and nested (appends / pops / sets through
                # views move them across it), next to other fields
                lim = r.choice([256, 300, 512, 513, 1000])
                ln = min(lim, r.choice([254, 255, 256, 257, 511, 512]))
                bl = ['bl', lim]
                bv = 'b' + ''.join(r.choice('01') for _ in range(ln))
                t, v = r.choice([(bl, bv), (['cont', 'u8', bl, 'u16'], ['s', '1', bv, '2']),
                                 (['list', bl, 3], ['s', bv, 'b1']), (['vec', ['cont', bl], 2], ['s', ['s', bv], ['s', 'b']])])
            elif k % 10 in (5, 6, 7):
                if k % 10 in (5, 6):
                    # packed lists with zero elements at the end (pops that change nothing in the chunk), snapshots in between
                    e = r.choice(['u64', 'u16', 'u8', 'bool', 'u128'])
                    per = 32 // UINT_W.get(e, 1)
                    ln = per * r.choice([0, 1, 2]) + r.choice([2, 3, per - 1, per])
                    vals = [g.val(e, 1) for _ in range(ln)]
                    for j in range(r.randint(1, min(ln, 4))):
                        vals[-1 - j] = '0'
                    inner, iv = ['list', e, max(ln + 3, r.choice([per * 4, 1000]))], ['s'] + vals
                else:
                    # bit vectors (fixed-size, but mutable views), alone and as fields: copies must be independent
                    nb = r.choice([3, 8, 200, 256, 300, 513])
                    inner, iv = ['bv', nb], g.bits(nb)
                t, v = r.choice([(inner, iv), (['cont', 'u8', inner, 'u16'], ['s', '1', iv, '2']), (['vec', ['cont', inner], 2], ['s', ['s', iv], ['s', iv]])])
            elif k % 10 == 8:
                # unions whose selected option is a mutable composite, nested in containers / lists / unions: the value
                # view of the union is one more link in the chain
                u = ['union'] + (['none'] if r.random() < 0.5 else []) + [r.choice([['list', 'u16', 5], ['cont', 'u8', ['list', 'u8', 3]], ['bl', 12], ['vec', ['cont', 'u8'], 2]])
                                                                         for _ in range(r.randint(1, 2))]
                if r.random() < 0.5:
                    u = u + [u[-1]]       # the same composite type at two selectors; the later one is selected
                sel = len(u) - 2
                uv = ['u', sel, g.val(u[1 + sel], 4)]
                t, v = r.choice([(['cont', 'u8', u, 'u16'], ['s', '1', uv, '2']), (['list', u, 3], ['s', uv, uv]),
                                 (['union', 'u8', u], ['u', 1, uv]), (['vec', ['cont', u], 2], ['s', ['s', uv], ['s', uv]])])
            else:
                t = nested_ty(g, r.choice([1, 2, 2, 3]))
                v = g.val(t, 12)
            sg = StoreGen(g, t, v)
            hl = g.rng.choice([6, 15, 40] if tier == 'quick' else [6, 15, 40, 100])
            if len(show(v)) > 40000:
                # every held view is read completely after every step: long histories only for values of moderate size (a
                # 380 kB case of the thorough tier needed more than the per-case limit: exit 2, an infrastructure error)
                hl = min(hl, 6)
            ops = sg.history(hl, self.p_bad, 0.06)
            # one in four histories runs LAZILY: nothing is hashed or read before the end
            out.append(show(['storel' if k % 3 == 2 or k % 10 in (5, 6) else 'store', t, v] + ops))
        out += stale_cases(g, max(10, self.n(tier) // 10))
        # union value views of one-chunk options written so that the value's chunk EQUALS the selector's chunk (and back)
        for _ in range(max(4, self.n(tier) // 30)):
            u = ['union', ['bv', 16], ['vec', 'u8', 4], ['vec', 'u16', 3]]
            sel = r.choice([0, 1, 2])
            if sel == 0:
                v0 = ['u', 0, 'b1' + '0' * 15]
                ops = [['child', 0, 0], ['mut', 1, ['set', 0, '0']], ['mut', 1, ['set', 3, '1']], ['mut', 1, ['set', 3, '0']]]
            else:
                v0 = ['u', sel, ['s', '7'] + ['0'] * (3 if sel == 1 else 2)]
                ops = [['child', 0, 0], ['mut', 1, ['set', 0, str(sel)]], ['mut', 1, ['set', 1, '9']], ['mut', 1, ['set', 1, '0']]]
            t, v = r.choice([(u, v0, ), (['cont', 'u8', u], ['s', '1', v0])])
            if t is not u:
                ops = [['child', 0, 1]] + [[o[0], o[1] + 1] + o[2:] for o in ops]
            out.append(show(['store', t, v] + ops))
        # a store history whose root view's backing is served lazily by a root-keyed source (snapshots and copies included)
        for _ in range(max(8, self.n(tier) // 12)):
            t = nested_ty(g, r.choice([1, 2]))
            v = g.val(t, 8)
            out.append(show([r.choice(['storev', 'storevl', 'storevl']), t, v] + StoreGen(g, t, v).history(r.choice([6, 12]))))
        # lazily served root views that are written BEFORE anything was read through them (snapshots taken in between;
        # nothing is observed before the end)
        for _ in range(max(8, self.n(tier) // 12)):
            from gen import _apply_val
            t = nested_ty(g, r.choice([1, 2]))
            v = g.val(t, 8)
            sg = StoreGen(g, t, v)
            ops = [['snap', 0]]
            for _k in range(r.choice([2, 4, 6])):
                op = sg.one_op(sg.views[0])
                if op is None or op[0] == 'sets':
                    continue
                sg.views[0]['v'] = _apply_val(t, sg.views[0]['v'], op)
                ops.append(['mut', 0, op])
                if r.random() < 0.6:
                    ops.append(['snap', 0])
            if len(ops) > 1:
                out.append(show(['storevl', t, v] + ops))
        # packed sequences (also bit fields) as ROOT views: read, copy, then element writes on either side (observed after every step)
        for _ in range(max(8, self.n(tier) // 12)):
            e = r.choice(['u8', 'u16', 'u64', 'bool', 'u128'])
            per = 32 // UINT_W.get(e, 1)
            ln = per * r.choice([1, 2]) + r.choice([0, 1, per - 1])
            if r.random() < 0.25:
                t, v = r.choice([['bv', 300], ['bl', 600]]), g.bits(300)
            elif r.random() < 0.5:
                t, v = ['vec', e, ln], ['s'] + [g.val(e, 1) for _ in range(ln)]
            else:
                t, v = ['list', e, ln + r.choice([0, 3, 100])], ['s'] + [g.val(e, 1) for _ in range(ln)]
            sg = StoreGen(g, t, v)
            sg.views.append(dict(t=t, v=v, hook=None, kids=False))
            ops = [['copy', 0]]
            for _k in range(r.choice([4, 8])):
                i = r.randrange(len(sg.views))
                vw = sg.views[i]
                n_ = len(vw['v']) - 1
                op = ['set', r.randrange(n_), (g.val(e, 1) if kind(t) in ('vec', 'list') else r.choice('01'))]
                from gen import _apply_val
                vw['v'] = _apply_val(vw['t'], vw['v'], op)
                ops.append(['mut', i, op])
                if r.random() < 0.3 and len(sg.views) < 5:
                    j = r.randrange(len(sg.views))
                    sg.views.append(dict(t=t, v=sg.views[j]['v'], hook=None, kids=False))
                    ops.append(['copy', j])
            out.append(show(['store', t, v] + ops))
        # ROOT unions (no enclosing view) whose selected option is a composite: snapshot and copy first, then writes through
        # freshly obtained value views of the original and of the copy
        for _ in range(max(8, self.n(tier) // 12)):
            opt = r.choice([['cont', 'u8', 'u16'], ['list', 'u16', 5], ['cont', ['list', 'u8', 4], 'u8'], ['vec', ['cont', 'u8'], 2], ['bl', 12]])
            t = ['union'] + (['none'] if r.random() < 0.5 else []) + ([r.choice(['u8', ['list', 'u8', 2]])] if r.random() < 0.5 else []) + [opt]
            v = ['u', len(t) - 2, g.val(opt, 4)]
            sg = StoreGen(g, t, v)
            sg.views.append(dict(t=t, v=v, hook=None, kids=False))
            ops = [['snap', 0], ['copy', 0]] + sg.history(r.choice([6, 12]))
            out.append(show(['store', t, v] + ops))
        return out

    def shrink_candidates(self, case):
        for c in Prop.shrink_candidates(self, case):
            yield c
        if case[0] in ('storel', 'storevl'):
            ops = case[3:]
            for i in range(len(ops) - 1, -1, -1):
                yield case[:3] + ops[:i] + ops[i + 1:]

    def nontrivial(self, c):
        return c.count('(mut') >= 1 and (c.count('(child') + c.count('(copy') + c.count('(snap')) >= 1

    def compare_store(self, case, py, mo, stats, what):
        """what: 'views' (C05/C14) or 'snaps' (C06)"""
        out = []
        if py.get('p.skip'):
            return out          # (a root that is both a leaf and a pair cannot be served by a root-keyed source)
        if 'p.import' in py and py['p.import'] != 'ok':
            return [F('prop', 'a virtual tree cannot be created', py['p.import'], 'ok')]
        if py.get('p.ctor') == 'err' or mo.get('i.ctor') == 'err':
            return [F('prop', 'ctor', py.get('p.ctor'), mo.get('i.ctor'))]
        if stats is not None:
            bump(stats, 'sizes', 'lazy' if case[0] == 'storel' else ('lazily-served' if case[0] == 'storev' else 'observed-every-step'))
        for i, op in enumerate(case[3:]):
            bump(stats, 'ops', op[0] + (':' + op[2][0] if op[0] in ('mut', 'bad') else ''))
            p = '%d.' % i
            if py.get(p + 'p') != mo.get(p + 'i'):
                cls = 'prop' if op[0] == 'bad' else 'corr'
                out.append(F(cls, 'op %d %s ok/err' % (i, show(op)), py.get(p + 'p'), mo.get(p + 'i')))
                break
            if case[0] in ('storel', 'storevl'):
                continue
            a, b = py.get(p + what), mo.get(p + what)
            if a != b:
                av, bv = (a or '').split(','), (b or '').split(',')
                idx = [j for j in range(max(len(av), len(bv))) if (av[j] if j < len(av) else None) != (bv[j] if j < len(bv) else None)]
                out.append(F('prop', '%s %s differ after op %d %s' % (what, idx, i, show(op)), a, b))
                break
        if case[0] in ('storel', 'storevl') and not out:
            a, b = py.get('end.' + what), mo.get('end.' + what)
            if a != b:
                av, bv = (a or '').split(','), (b or '').split(',')
                idx = [j for j in range(max(len(av), len(bv))) if (av[j] if j < len(av) else None) != (bv[j] if j < len(bv) else None)]
                out.append(F('prop', '%s %s differ at the end of a history in which nothing was hashed or read on the way' % (what, idx), a, b))
        return out


class C05(StoreProp):
    pid = 'C05'
    rule = ('random nested composite types and values; histories (6/15/40[/100] steps) that obtain child views (container '
            'fields, list / vector elements, union values; up to 9 simultaneously held views, trees and chains), mutate '
            'through any of them in any order, copy and snapshot; after EVERY step root and encoding of EVERY held view '
            'against the store model (hook-chain semantics); non-trivial = at least one mutation and one child/copy/snapshot')

    def compare(self, case, py, mo, stats):
        bump(stats, 'kinds', kind(case[1]))
        return self.compare_store(case, py, mo, stats, 'views')


class C06(StoreProp):
    pid = 'C06'
    rule = C05.rule.replace('after EVERY step root and encoding of EVERY held view against the store model (hook-chain semantics)',
                            'after EVERY step every snapshot taken so far (get_backing) and every copy is re-read: root recomputed '
                            'from the leaves ignoring cached roots, cached root, and encoding must still be those at the time it was taken')

    def compare(self, case, py, mo, stats):
        bump(stats, 'kinds', kind(case[1]))
        out = self.compare_store(case, py, mo, stats, 'snaps')
        if not out and case[0] == 'store':
            for i, op in enumerate(case[3:]):
                fl = py.get('%d.reads' % i)
                if fl is not None and set(fl) - {'1'}:
                    out.append(F('prop', 'indexing / iteration of a held view (a copy, the original) disagree with the content of its own encoding after op %d %s '
                                 '(one flag per held view)' % (i, show(op)), fl, 'all 1'))
                    break
        if not out:
            out = [f for f in self.compare_store(case, py, mo, None, 'views')]
            for f in out:
                f['key'] = 'copies/' + f['key']
        return out


class C19(HistProp):
    pid = 'C19'
    quick_n = 150
    thorough_n = 2500
    rule = ('random mutation histories on fully hashed values; per mutation: every fresh pair node of the new backing lies on '
            'the path to the written bottom node or below it (all other subtrees are the very same objects), merkle_hash '
            'calls during the op plus the next hash_tree_root() <= path length + pairs of the inserted sub-value (bound '
            'from the model), zero calls for a second hash_tree_root(), for copy() and for a view re-created from the hashed '
            'backing; non-trivial = at least 2 ops')

    def generate(self, g, tier, focus=None):
        out = HistProp.generate(self, g, tier)
        for _ in range(self.n(tier) // 3):
            t, v = self.tv(g, tier)
            out.append(show(['val', t, v]))
        # unions with the None option selected (alone, as a field, as an element): second root / copy / re-created view cost nothing
        for _ in range(max(6, self.n(tier) // 25)):
            u = ['union', 'none', g.rng.choice(['u8', ['list', 'u16', 5], ['cont', 'u8', 'u16']])]
            uv = ['u', 0, 'none']
            t, v = g.rng.choice([(u, uv), (['cont', 'u8', u], ['s', '1', uv]), (['list', u, 3], ['s', uv, uv]), (['vec', u, 2], ['s', uv, uv])])
            out.append(show(['val', u, uv]))
            out.append(show(['val', t, v]))
        # mutations through held child views: the cost is the path from the root view down
        for _ in range(self.n(tier) // 2):
            t = nested_ty(g, g.rng.choice([1, 2, 2, 3]))
            v = g.val(t, 12)
            sg = StoreGen(g, t, v)
            out.append(show(['store', t, v] + sg.history(g.rng.choice([6, 15, 30]))))
        # an already hashed container of another class (same layout, big field sub-trees) is stored: only the path and the
        # container's own pairs are hashed, its field sub-trees are taken over as they are
        for _ in range(self.n(tier) // 4):
            e = ['cont', ['list', 'u64', 64], 'u8', ['vec', 'u16', 64], ['bl', 600]][:g.rng.choice([2, 3, 4])]
            t = g.rng.choice([['list', e, 8], ['vec', e, 3], ['cont', 'u8', e, e]])
            v = g.val(t, 20)
            i = 1 if t[0] == 'cont' else 0
            if t[0] == 'list' and len(v) < 2:
                v = ['s', g.val(e, 20)]
            out.append(show(['hist', t, v, ['setv', i, g.max_val(e) or g.val(e, 60)], ['setv', i, g.val(e, 60)]]))
        # a union value view taken, the union then changed to the SAME selector and the SAME value through the parent, then one
        # basic value written through the old value view: only the path is rebuilt, the selector node stays the very object
        for _ in range(max(6, self.n(tier) // 12)):
            opt = g.rng.choice([['cont', 'u8', 'u16', 'u64'], ['vec', 'u64', 8], ['list', 'u16', 40], ['bv', 300], ['cont', 'u8', ['vec', 'u8', 3]]])
            u = ['union'] + (['none'] if g.rng.random() < 0.5 else []) + ([g.rng.choice(['u8', ['list', 'u8', 2]])] if g.rng.random() < 0.5 else []) + [opt]
            sel = len(u) - 2
            uv = g.val(opt, 6)
            if kind(opt) == 'list' and len(uv) < 2:
                uv = ['s', '5', '6']
            w = StoreGen(g, opt, uv)
            write = None
            for _t in range(8):
                cand = w.one_op(dict(t=opt, v=uv, hook=None, kids=False))
                if cand is not None and cand[0] == 'set' and (kind(opt) != 'cont' or isinstance(opt[1 + int(cand[1])], str)):
                    write = cand
                    break
            if write is None:
                continue
            t, v, base = (u, ['u', sel, uv], 0)
            ops = [['child', 0, 0], ['mut', 0, ['chg', sel, uv]], ['mut', 1, write], ['mut', 0, ['chg', sel, uv]], ['mut', 1, write]]
            out.append(show(['store', t, v] + ops))
        # the sequence type spelled a second time with a separately evaluated element class (same name, same fields): an
        # already hashed view of THAT class is stored — only the path is hashed (`histf`: the second spelling is used)
        for _ in range(self.n(tier) // 5):
            e = ['cont', ['list', 'u64', 64], 'u8', ['vec', 'u16', 64], ['bl', 600]][:g.rng.choice([2, 3, 4])]
            t = g.rng.choice([['list', e, 8], ['vec', e, 3], ['list', e, 1000]])
            v = ['s'] + [g.val(e, 20) for _ in range(3 if t[0] == 'vec' else g.rng.choice([1, 2, 5]))]
            i = g.rng.randrange(len(v) - 1)
            out.append(show(['histf', t, v, ['seth', i, g.max_val(e) or g.val(e, 60)], ['seth', i, g.val(e, 60)], ['seth', 0, g.val(e, 60)]]))
        # mutations of views over lazily loaded backings: the untouched lazily loaded siblings stay the same objects
        r = g.rng
        for _ in range(self.n(tier) // 3):
            t, v = self.tv(g, tier, mutable=True)
            hist, _ = g.ops(t, v, r.choice([2, 5, 10]))
            out.append(show(['virt', t, v] + [o for o in hist if o[0] in ('set', 'app', 'pop', 'chg')] + [['root']]))
        # tree level against the heap model: exact hash-call counts and number of fresh pair nodes
        for _ in range(self.n(tier)):
            tr = g.tree(r.choice([1, 2, 3, 4, 5]), r.choice([0.1, 0.3]))
            maxg = 1 << (g.tree_depth(tr) + 2)
            cmds = [['hcost', r.choice([1, r.randint(1, maxg), r.randint(1, maxg)]), r.choice([0, 1]), g.tree(r.choice([0, 1, 2]), 0.4)]
                    for _ in range(r.choice([1, 3]))]
            out.append(show(['tree', tr] + cmds))
        return out

    def compare(self, case, py, mo, stats):
        out = []
        bump(stats, 'kinds', kind(case[1]))
        if case[0] == 'tree':
            for i, c in enumerate(case[2:]):
                p = '%d.' % i
                bump(stats, 'ops', 'hcost')
                a, b = py.get(p + 'hcost'), mo.get(p + 'hcost')
                if py.get(p + 'hshare') not in ('0', '-'):
                    out.append(F('prop', 'setter(%s, expand=%s): siblings along the path that are not the same node object as before' % (c[1], c[2]),
                                 py.get(p + 'hshare'), '0'))
                if a != b:
                    pa, pb = (a or '').split('/'), (b or '').split('/')
                    worse = len(pa) >= 3 and len(pb) >= 3 and pa[2].isdigit() and pb[2].isdigit() and int(pa[2]) > int(pb[2])
                    out.append(F('prop' if worse or (len(pa) == 5 and len(pb) == 5 and (pa[1] != '0' or int(pa[4]) > int(pb[4]))) else 'corr',
                                 'hash calls first root / second root / after write / fresh pairs: setter(%s, expand=%s)' % (c[1], c[2]), a, b))
            return out
        if case[0] == 'virt':
            if py.get('p.skip') or py.get('p.ctor') == 'err':
                return out
            if py.get('p.vcost') not in (None, 'ok:0/1'):
                out.append(F('prop', 'a view re-created over an already known lazily loaded backing: hash operations / same backing object', py.get('p.vcost'), 'ok:0/1'))
            for i, op in enumerate(case[3:]):
                bump(stats, 'ops', 'virt:' + op[0])
                vs = py.get('%d.vshare' % i)
                if vs is not None and vs not in ('ok:0', 'err:nav', 'err:index', 'err'):
                    out.append(F('prop', 'after op %d %s on a view over a lazily loaded backing, untouched lazily loaded nodes are not the same objects as before' % (i, show(op)), vs, 'ok:0'))
                    break
            return out
        if case[0] == 'store':
            for i, op in enumerate(case[3:]):
                p = '%d.' % i
                if py.get(p + 'refreshed') not in (None, '0'):
                    out.append(F('prop', 'after op %d %s an enclosing view\'s new backing holds, next to the path to the position its child wrote back to (or, in the '
                                 'mutated view, off the path of the one chunk written), nodes that are not the very objects of its previous backing' % (i, show(op)), py.get(p + 'refreshed'), '0'))
                    break
                if op[0] != 'mut' or (p + 'cost') not in py or mo.get(p + 'bound') in (None, '-'):
                    continue
                bump(stats, 'ops', 'child-mut:' + op[2][0])
                if int(py[p + 'cost']) > int(mo[p + 'bound']):
                    out.append(F('prop', 'hash operations after mutation through a child view exceed the path bound: op %d %s' % (i, show(op)),
                                 py[p + 'cost'], mo[p + 'bound']))
                    break
            return out
        if case[0] == 'val':
            if py.get('p.cache') != '0/0/0':
                out.append(F('prop', 'hashing repeated for second root / copy / view from hashed backing', py.get('p.cache'), '0/0/0'))
            return out
        if py.get('p.ctor') == 'err':
            return [F('prop', 'ctor', 'err', 'valid value must be constructible')]
        for i, op in enumerate(case[3:]):
            p = '%d.' % i
            bump(stats, 'ops', op[0])
            if mo[p + 's'] == 'err' or py.get(p + 'p') != 'ok':
                continue
            bound = int(mo[p + 'bound'])
            cost = int(py.get(p + 'pcost', '0'))
            bump(stats, 'sizes', 'cost<=%d' % (8 * ((cost + 7) // 8)))
            if cost > bound:
                out.append(F('prop', 'hash operations after op %d %s exceed path bound' % (i, show(op)), str(cost), str(bound)))
                break
            if py.get(p + 'pagain') != '0':
                out.append(F('prop', 'second hash_tree_root() re-hashed after op %d' % i, py.get(p + 'pagain'), '0'))
                break
            tgt = mo.get(p + 'tgt')
            fresh = [int(x) for x in (py.get(p + 'pshare') or '').split(',') if x.strip().isdigit()]
            if tgt not in (None, 'err', '-'):
                tb = bin(int(tgt))[2:]
                bad = [gi for gi in fresh if not (tb.startswith(bin(gi)[2:]) or bin(gi)[2:].startswith(tb))]
                if bad:
                    out.append(F('prop', 'op %d %s rebuilt nodes off the changed path (gindices)' % (i, show(op)), str(bad[:10]), 'only ancestors/descendants of %s' % tgt))
                    break
                # leaves: a new leaf object may only appear on the changed path (or be the length / selector mix-in)
                mix = [3] if kind(case[1]) in ('list', 'bl', 'Bl', 'union') else []
                lv = [int(x) for x in (py.get(p + 'pleaves') or '').split(',') if x.strip().isdigit()]
                badl = [gi for gi in lv if gi not in mix and not (tb.startswith(bin(gi)[2:]) or bin(gi)[2:].startswith(tb))]
                if badl:
                    out.append(F('prop', 'op %d %s replaced leaves off the changed path (gindices)' % (i, show(op)), str(badl[:10]), 'only on the path to %s' % tgt))
                    break
                on_path = [gi for gi in fresh if tb.startswith(bin(gi)[2:])]
                if len(on_path) > len(tb):
                    out.append(F('prop', 'more fresh nodes than path positions', str(len(on_path)), str(len(tb))))
                    break
        return out


class C17(Prop):
    pid = 'C17'
    quick_n = 250
    thorough_n = 4000
    rule = ('random values; random sets of tree positions replaced by bare summaries (summarize_into); then reads (whole '
            'value, element, len, encoding, root) and mutation histories on the partial view and on the complete view: '
            'root unchanged by summarising; every access equals the complete tree\'s result (roots after writes included) '
            'or raises NavigationError / IndexError; python against the model on both trees; non-trivial = at least one '
            'position summarised')

    def generate(self, g, tier, focus=None):
        r = g.rng
        out = []
        for _ in range(self.n(tier)):
            t, v = self.tv(g, tier, mutable=True)
            if r.random() < 0.3:
                # byte lists / nested composites inside a container: reads must fail, never misread
                t = ['cont', g.ty(1), ['Bl', r.choice([33, 64, 65, 100])], t, ['list', ['cont', 'u8', 'u16'], r.choice([4, 8, 9])]]
                v = g.val(t, 12)
            v = boundary_value(g, t, v)
            npos = r.choice([1, 1, 2, 3])
            cand = [x for x in positions(t, v) if x > 1]
            pos = ['pos']
            for _ in range(npos):
                if cand and r.random() < 0.7:
                    pos.append(r.choice(cand))
                else:
                    pos.append(r.choice([2, 3, r.randint(2, 15), r.randint(2, 63), r.randint(2, 1 << r.choice([3, 5, 8, 12]))]))
            ops = []
            hist, _ = g.ops(t, v, r.choice([2, 5, 10]))
            if kind(t) in ('list', 'bl') and r.random() < 0.5:
                hist = [['app', g.val(t[1], 4) if kind(t) == 'list' else '1']] + hist
            for o in hist:
                if r.random() < 0.4:
                    ops.append(r.choice([['read'], ['len'], ['bytes'], ['root'], ['elem', r.randint(0, 6)], ['elem', r.randint(0, 40)], ['vbl'], ['eqself'], ['eqother']]))
                if r.random() < 0.25 and kind(t) in ('list', 'vec', 'bl', 'bv'):
                    ops.append(['slice', r.randint(0, 40), r.randint(0, 40)])
                if r.random() < 0.15 and kind(t) in ('list', 'vec', 'bl', 'bv'):
                    ops.append([r.choice(['iterk', 'roiterk']) if kind(t) in ('list', 'vec') else 'iterk', r.choice([0, 1, 1, 2, 3, 9, 40])])
                if r.random() < 0.15 and kind(t) in ('list', 'vec', 'cont'):
                    ck = [i for i in range(len(v) - 1) if kind(t[1 + i] if kind(t) == 'cont' else t[1]) in ('list', 'vec', 'cont', 'bl', 'bv', 'union')]
                    if ck:
                        ops.append(['childroot', r.choice(ck)])
                ops.append(o)
            ops.append(r.choice([['read'], ['bytes'], ['root']]))
            out.append(show(['partial', t, v, pos] + ops))
            # filling excluded data back in: the summarised child is assigned its own complete value
            k = kind(t)
            if k in ('cont', 'vec', 'list') and len(v) > 1:
                idx = [i for i in range(len(v) - 1) if not is_basic(t[1 + i] if k == 'cont' else t[1])]
                if idx:
                    i = r.choice(idx)
                    if k == 'cont':
                        gi = (1 << _get_depth(len(t) - 1)) | i
                    elif k == 'vec':
                        gi = (1 << _get_depth(t[2])) | i
                    else:
                        gi = (2 << _get_depth(t[2])) | i
                    ops2 = [['elem', i], ['set', i, v[1 + i]], ['elem', i], ['read'], ['bytes'], ['root']]
                    out.append(show(['partial', t, v, ['pos', gi]] + ops2))
        # packed / bit sequences of four and more chunks with whole chunk subtrees summarised: element and
        # slice reads before, inside and after the excluded range
        for _ in range(self.n(tier) // 4):
            c = r.randrange(6)
            if c == 0:
                t = ['bl', r.choice([1024, 1025, 2048, 5000])]
                v = g.bits(r.choice([513, 600, 768, 769, 1000, 1024]))
            elif c == 1:
                t = ['bv', r.choice([1024, 1000, 769])]
                v = g.bits(t[1])
            elif c == 2:
                e = r.choice(['u64', 'u16', 'u128', 'u8', 'bool', 'u256'])
                per = 32 // UINT_W.get(e, 1)
                t = ['list', e, per * r.choice([8, 16, 17])]
                v = ['s'] + [g.val(e, 1) for _ in range(per * r.choice([3, 4, 5, 7]) + r.choice([0, 0, 1, per - 1]))]
            elif c == 3:
                e = r.choice(['u64', 'u16', 'u8', 'bool'])
                per = 32 // UINT_W.get(e, 1)
                n = per * r.choice([4, 5, 8]) + r.choice([0, 1])
                t = ['vec', e, n]
                v = ['s'] + [g.val(e, 1) for _ in range(n)]
            elif c == 4:
                t = ['list', ['cont', 'u8', 'u16'], 16]
                v = ['s'] + [g.val(t[1], 2) for _ in range(r.choice([5, 8, 9, 16]))]
            else:
                inner = ['bl', 1024]
                t = ['cont', 'u8', inner, ['list', 'u64', 32]]
                v = ['s', '7', g.bits(r.choice([600, 1000])), ['s'] + [g.val('u64', 1) for _ in range(r.choice([9, 16, 20]))]]
            cand = [x for x in positions(t, v) if x > 1]
            pos = ['pos'] + [r.choice(cand) if cand and r.random() < 0.8 else r.randint(2, 31) for _ in range(r.choice([1, 1, 2]))]
            n = len(v) - 1
            ops = []
            for _ in range(r.choice([3, 6])):
                ops.append(r.choice([['slice', r.randint(0, n), r.randint(0, n)], ['slice', r.randint(0, n), r.randint(0, n)],
                                     ['elem', r.randint(0, n)], ['len'],
                                     ['iterk', r.choice([1, 2, r.randint(0, n), r.randint(0, n)])] if kind(t) in ('list', 'vec', 'bl', 'bv') else ['len'],
                                     ['roiterk', (32 // UINT_W.get(t[1], 1) if isinstance(t[1], str) else 1) * r.choice([1, 2, 3])] if kind(t) in ('list', 'vec') else ['len']]))
            out.append(show(['partial', t, v, pos] + ops))
        # composite fields / elements summarised AT THEIR OWN ROOT: obtaining the child view and asking for its root needs
        # nothing below it; reading into it must fail
        for _ in range(self.n(tier) // 6):
            comp = lambda: r.choice([['list', 'u16', 9], ['list', ['cont', 'u8'], 4], ['bl', 300], ['bv', 300], ['cont', 'u8', ['list', 'u8', 4]],
                                     ['vec', 'u64', 8], ['union', 'none', ['list', 'u8', 4]], ['list', ['list', 'u8', 3], 3]])
            if r.random() < 0.5:
                fs = [r.choice(['u8', 'u64']), comp(), comp()] + ([comp()] if r.random() < 0.5 else [])
                r.shuffle(fs)
                t = ['cont'] + fs
                nk = len(fs)
                base = 1 << _get_depth(nk)
            else:
                e = comp()
                nk = r.choice([2, 3, 4])
                if r.random() < 0.5:
                    t = ['vec', e, nk]
                    base = 1 << _get_depth(nk)
                else:
                    lim = r.choice([4, 5, 8])
                    t = ['list', e, lim]
                    base = 2 << _get_depth(lim)
            v = g.val(t, 4)
            if kind(t) == 'list':
                v = ['s'] + [g.val(t[1], 3) for _ in range(nk)]
            ck = [i for i in range(nk) if kind(t[1 + i] if kind(t) == 'cont' else t[1]) in ('list', 'vec', 'cont', 'bl', 'bv', 'union')]
            if not ck:
                continue
            i = r.choice(ck)
            ops = [['childroot', i], ['elem', i], ['childroot', r.choice(ck)], ['root'], ['sub', i, ['pop']] if False else ['len'], ['childroot', i]]
            out.append(show(['partial', t, v, ['pos', base | i]] + ops))
        # the read-only iterator of a packed sequence stopped exactly at the boundary of the chunk BEFORE a summarised one
        for _ in range(max(10, self.n(tier) // 10)):
            e = r.choice(['u64', 'u16', 'u8', 'u128', 'bool', 'u256'])
            per = 32 // UINT_W.get(e, 1)
            chunks = r.choice([3, 4, 5, 8])
            n_ = per * chunks - r.choice([0, 0, 1])
            kind_ = r.choice(['vec', 'list'])
            t = ['vec', e, n_] if kind_ == 'vec' else ['list', e, per * r.choice([8, 16])]
            v = ['s'] + [g.val(e, 1) for _ in range(n_)]
            cc = chunks if kind_ == 'vec' else (t[2] + per - 1) // per
            d = _get_depth(cc)
            # (a chunk is a leaf already: the PAIR above chunks k, k+1 is summarised, k even)
            k_ = r.choice([q for q in range(2, chunks, 2)] or [2])
            pos = ['pos', (((1 << d) | k_) if kind_ == 'vec' else ((2 << d) | k_)) >> 1]
            ops = [['roiterk', per * k_], ['iterk', per * k_], ['roiterk', per * k_ + 1], ['roiterk', max(per * k_ - 1, 0)], ['len']]
            out.append(show(['partial', t, v, pos] + ops))
        # pop / overwrite of an element whose own subtree is summarised (byte arrays are read as a whole when read, but a pop
        # or an overwrite does not need the old content)
        for _ in range(self.n(tier) // 8):
            e = r.choice([['Bv', 48], ['Bv', 96], ['Bl', 70], ['Bv', 33], ['cont', 'u64', 'u64', 'u64']])
            ln = r.choice([1, 2, 3, 4, 5])
            lim = r.choice([ln, 8, 9, 16])
            t = ['list', e, lim]
            v = ['s'] + [g.val(e, 3) for _ in range(ln)]
            d = _get_depth(lim)
            elem_g = (2 << d) | (ln - 1)
            pos = ['pos', r.choice([elem_g, elem_g * 2, elem_g * 2 + 1])]
            ops = [['root'], ['pop'], ['root'], ['len'], ['app', g.val(e, 3)], ['set', ln - 1, g.val(e, 3)], ['read']]
            if r.random() < 0.5:
                ops = [['set', ln - 1, g.val(e, 3)], ['elem', ln - 1], ['root']]
            out.append(show(['partial', t, v, pos] + ops))
        # size queries: containers with dynamic fields next to multi-chunk fixed-size fields, one field summarised
        for _ in range(self.n(tier) // 6):
            fx = lambda: r.choice([['Bv', 48], ['Bv', 96], ['vec', 'u64', 8], ['cont', 'u64', 'u64', 'u8'], 'u16', ['bv', 300], ['Bv', 32]])
            dy = lambda: r.choice([['list', 'u16', 9], ['Bl', 70], ['bl', 300], ['union', 'none', 'u32'], ['list', ['Bl', 3], 3]])
            fs = [fx(), dy(), fx(), fx()] + ([dy()] if r.random() < 0.5 else []) + ([fx()] if r.random() < 0.5 else [])
            r.shuffle(fs)
            t = ['cont'] + fs
            if r.random() < 0.4:
                t = r.choice([['list', t, 4], ['vec', t, 2], ['union', 'none', t], ['cont', 'u8', t]])
            v = g.val(t, 5)
            cand = [x for x in positions(t, v) if x > 1]
            d = _get_depth(len(fs))
            if t[0] == 'cont' and len(t) - 1 == len(fs):
                cand += [(1 << d) | i for i in range(len(fs))] + [2, 3, 4, 5, 6, 7]
            pos = ['pos'] + [r.choice(cand) if cand else r.randint(2, 15) for _ in range(r.choice([1, 1, 2]))]
            out.append(show(['partial', t, v, pos, ['vbl'], ['eqself'], ['eqother'], ['bytes'], ['root'], ['vbl']]))
        # mutations through child views of a partial tree
        for _ in range(self.n(tier) // 5):
            t = nested_ty(g, r.choice([1, 2, 2]))
            v = g.val(t, 8)
            cand = [x for x in positions(t, v) if x > 1]
            pos = ['pos'] + [r.choice(cand) if cand and r.random() < 0.8 else r.randint(2, 31) for _ in range(r.choice([1, 1, 2]))]
            observe = lambda: r.choice([['bytes'], ['read'], ['root'], ['elem', r.randint(0, 4)]])
            ops = nested_write_ops(g, t, v, r.choice([2, 4, 8]), observe)
            if ops:
                out.append(show(['partial', t, v, pos] + ops + [['read'], ['root']]))
        # mutations through the value view of a union whose value has a summary elsewhere
        for _ in range(self.n(tier) // 4):
            opt = r.choice([['list', 'u64', 64], ['cont', 'u64', ['list', 'u8', 40], 'u16', ['Bv', 48]], ['bl', 1024], ['vec', 'u16', 64]])
            u = ['union'] + (['none'] if r.random() < 0.5 else []) + [opt]
            uv = ['u', len(u) - 2, g.val(opt, 40) if r.random() < 0.5 else (g.max_val(opt) or g.val(opt, 40))]
            t, v = r.choice([(u, uv), (['cont', 'u8', u], ['s', '1', uv]), (['list', u, 3], ['s', uv, uv])])
            cand = [x for x in positions(t, v) if x > 1]
            base = 2 if t[0] == 'union' else None
            if base:
                cand += [base * 2, base * 2 + 1, base * 4 + r.randrange(4), base * 8 + r.randrange(8)]
            pos = ['pos'] + [r.choice(cand) if cand else r.randint(2, 31) for _ in range(r.choice([1, 1, 2]))]
            observe = lambda: r.choice([['root'], ['read'], ['bytes']])
            ops = nested_write_ops(g, t, v, r.choice([2, 4]), observe)
            if ops:
                out.append(show(['partial', t, v, pos] + ops + [['root']]))
        # appends into a slot whose parent (grandparent) subtree is summarised while it still holds live data
        for _ in range(self.n(tier) // 5):
            if r.random() < 0.5:
                e = r.choice(['u64', 'u8', 'u16', 'u128', 'u256', 'bool'])
                per = 32 // UINT_W.get(e, 1)
                chunks = r.choice([1, 1, 2, 3, 5])
                ln = per * chunks
                lim = per * r.choice([8, 16, 64])
                t = ['list', e, lim]
                v = ['s'] + [g.max_val(e) for _ in range(ln)]
                d = _get_depth(lim // per)
                slot = chunks
                one = lambda: g.val(e, 1)
            elif r.random() < 0.5:
                e = r.choice([['cont', 'u8', 'u16'], ['Bv', 32], ['vec', 'u64', 4]])
                ln = r.choice([1, 1, 2, 3, 5])
                lim = r.choice([8, 16, 9])
                t = ['list', e, lim]
                v = ['s'] + [g.max_val(e) for _ in range(ln)]
                d = _get_depth(lim)
                slot = ln
                one = lambda: g.val(e, 3)
            else:
                chunks = r.choice([1, 1, 2, 3])
                lim = 256 * r.choice([8, 16])
                t = ['bl', lim]
                v = 'b' + '1' * (256 * chunks)
                d = _get_depth(lim // 256)
                slot = chunks
                one = lambda: r.choice('01')
            leaf = (2 << d) | slot
            pos = ['pos', leaf >> r.choice([1, 1, 1, 2])]
            ops = [['app', one()], ['read'], ['root'], ['app', one()], ['bytes']]
            out.append(show(['partial', t, v, pos] + ops))
        return out

    def nontrivial(self, c):
        return '(pos' in c

    def compare(self, case, py, mo, stats):
        out = []
        bump(stats, 'kinds', kind(case[1]))
        if py.get('p.ctor') == 'err' or mo.get('i.ctor') == 'err':
            return [F('prop', 'ctor', py.get('p.ctor'), mo.get('i.ctor'))]
        bump(stats, 'sizes', 'summarised=%d' % (py.get('p.summ') or '').count('1'))
        if py.get('p.root') != py.get('p.croot'):
            out.append(F('prop', 'summarising changed the root', py.get('p.root'), py.get('p.croot')))
        if py.get('p.summ') != mo.get('i.summ') or py.get('p.root') != mo.get('i.root'):
            out.append(F('corr', 'summarize_into', py.get('p.summ'), mo.get('i.summ')))
            return out
        diverged = False
        for i, op in enumerate(case[4:]):
            p = '%d.' % i
            a, c = py.get(p + 'p'), py.get(p + 'c')
            ma, mc = mo.get(p + 'i'), mo.get(p + 'ic')
            bump(stats, 'ops', op[0])
            bump(stats, 'errs', (a or 'none').split(':')[0] + ('' if (a or '').startswith('ok') else ':' + (a or '').split(':')[-1]))
            if a is None:
                break
            if a.startswith('ok'):
                if not diverged and a != c:
                    out.append(F('prop', 'partial tree returned a different result than the complete tree: op %d %s' % (i, show(op)), a, c))
                    break
            elif a not in ('err:nav', 'err:index') and not diverged:
                if c != 'skip' and not (c or '').startswith('err'):
                    out.append(F('prop', 'access to a partial tree failed with another error: op %d %s' % (i, show(op)), a, 'err:nav|err:index'))
                    break
            # (the two trees run in lockstep: a failing mutation is not applied to the complete tree either; only a
            # slice assignment that fails in the middle makes them diverge)
            if not a.startswith('ok') and op[0] == 'sets':
                # (also when the slice assignment fails on the complete tree too: it may have failed LATER there,
                # with more of its items written)
                diverged = True   # later results are compared with the model only
            # correspondence with the model (which is proved to fail only where an excluded subtree is needed)
            am = a if a.startswith('ok') else 'err'
            if am != ma:
                cls = 'prop' if (ma or '').startswith('ok') and not a.startswith('ok') and not diverged else 'corr'
                key = ('access that does not need an excluded subtree failed: op %d %s' if cls == 'prop' else 'partial result differs from the model: op %d %s') % (i, show(op))
                out.append(F(cls, key, a, ma))
                break
            cm = c if (c or '').startswith('ok') or c == 'skip' else 'err'
            if cm != mc and not diverged:
                out.append(F('corr', 'complete-tree result differs from the model: op %d %s' % (i, show(op)), c, mc))
                break
        return out


class C20(Prop):
    pid = 'C20'
    quick_n = 200
    thorough_n = 3000
    rule = ('random values served by a root-keyed dict store (cases whose tree has a root that is both a leaf and a pair are '
            'skipped and counted); reads and mutation histories on the view over the virtual backing and on the view over '
            'the materialised backing: same results, same navigation errors, same roots after writes; per node each child / '
            'leaf query reaches the store at most once; non-trivial = at least one op')

    def generate(self, g, tier, focus=None):
        r = g.rng
        out = []
        for _ in range(self.n(tier)):
            t, v = self.tv(g, tier, mutable=r.random() < 0.8)
            if is_basic(t):
                continue
            ops = [['read'], ['root']]
            if kind(t) in ('list', 'vec', 'bl', 'bv', 'cont', 'union'):
                hist, _ = g.ops(t, v, r.choice([2, 5, 12]), 0.1)
                for o in hist:
                    if r.random() < 0.4:
                        ops.append(r.choice([['read'], ['len'], ['bytes'], ['root'], ['elem', r.randint(0, 6)], ['elem', r.randint(0, 300)],
                                             ['iter'], ['slice', r.randint(0, 9), r.randint(0, 9)], ['nav', r.randint(1, 1 << r.choice([2, 4, 7]))], ['nav', 0], ['obj']]))
                    ops.append(o)
                ops.append(['read'])
            ops.append(['bytes'])
            out.append(show(['virt', t, v] + ops))
        # values whose whole backing is ONE leaf (observed first, written afterwards), and lists whose
        # unused capacity is a collapsed zero subtree (a failed navigation into it, then growth into it)
        for _ in range(self.n(tier) // 3):
            c = r.randrange(5)
            if c == 0:
                e = r.choice(['u64', 'u16', 'u128', 'u32', 'bool', 'u8', 'u256'])
                t = ['vec', e, r.randint(1, 32 // UINT_W.get(e, 1))]
            elif c == 1:
                t = ['bv', r.choice([1, 8, 10, 255, 256])]
            elif c == 2:
                t = ['cont', 'u8', ['vec', 'u64', r.randint(1, 4)], ['bv', r.choice([3, 200])], 'u16']
            elif c == 3:
                t = ['list', r.choice(['u64', 'u8', ['cont', 'u8', 'u8'], ['vec', 'u64', 2]]), r.choice([32, 64, 1000, 2**20])]
            else:
                t = ['bl', r.choice([2048, 5000, 2**16])]
            v = g.val(t, 6)
            observe = lambda: r.choice([['bytes'], ['iter'], ['read'], ['root'], ['slice', 0, 40], ['len'], ['fork'], ['fread', r.randrange(3)]])
            ops = [['fork']] if r.random() < 0.5 else []
            if kind(t) in ('list', 'bl'):
                d = _get_depth(t[2] if kind(t) == 'list' else (t[1] + 255) // 256)
                ops.append(['nav', (2 << min(d, 12)) | r.randint(1, 20)])
                ops.append(['nav', r.randint(4, 1 << min(d + 1, 12))])
            ops.append(observe())
            hist, _ = g.ops(t, v, r.choice([2, 4, 8]))
            for o in hist:
                ops.append(o)
                if r.random() < 0.5:
                    ops.append(observe())
            out.append(show(['virt', t, v] + ops + [['read']]))
        for _ in range(self.n(tier) // 4):
            t = r.choice([['cont', 'u8', ['vec', 'u64', r.randint(1, 4)], ['bv', r.choice([3, 200, 256])], 'u16', ['list', 'u16', 40]],
                          ['list', ['cont', 'u8', ['vec', 'u64', 4]], 4], ['vec', ['bv', 10], 3], ['list', ['vec', 'u16', 16], 5],
                          ['union', 'none', ['vec', 'u32', 8], ['bl', 300]], nested_ty(g, 2)])
            v = g.val(t, 6)
            observe = lambda: r.choice([['bytes'], ['bytes'], ['iter'], ['read'], ['root'], ['len'], ['fork'], ['fread', r.randrange(4)], ['fread', 0]])
            ops = [r.choice([['fork'], observe()])] + nested_write_ops(g, t, v, r.choice([2, 4, 8]), observe)
            out.append(show(['virt', t, v] + ops + [['read'], ['bytes']]))
        # PARTIAL trees served lazily: the histories of the partial-tree property (failing accesses included), on the
        # lazily served partial tree next to the materialised partial tree
        c17 = C17()
        c17.quick_n, c17.thorough_n = self.quick_n // 4, self.thorough_n // 4
        for line in c17.generate(g, tier):
            if line.startswith('(partial '):
                out.append('(virtp ' + line[len('(partial '):])
        # tree level: the same tree served lazily, against the virtual-tree model
        for _ in range(self.n(tier)):
            tr = g.tree(r.choice([1, 2, 3, 4, 5]), r.choice([0.1, 0.3, 0.5]))
            maxg = 1 << (g.tree_depth(tr) + 2)
            cmds = []
            for _ in range(r.choice([2, 4, 8])):
                gi = r.choice([0, 1, r.randint(1, maxg), r.randint(1, maxg), r.randint(1, 1 << 10)])
                if r.random() < 0.15:
                    cmds.append(['vsumm', max(gi, 1), max(gi, 1), max(gi, 1) * 2, max(gi, 1) * 2 + 1, max(gi >> 1, 1), 2, 3])
                elif r.random() < 0.5:
                    cmds.append(['vget', gi])
                else:
                    cmds.append(['vset', gi, r.choice([0, 1]), g.tree(r.choice([0, 0, 1, 2]), 0.5), gi, max(gi >> 1, 1), gi * 2, r.randint(1, maxg)])
            seq = []
            for _ in range(r.choice([2, 4, 6])):
                gi = r.choice([1, r.randint(1, maxg), r.randint(1, maxg)])
                seq.append(['get', gi] if r.random() < 0.5 else ['set', gi, r.choice([0, 1, 1]), g.tree(r.choice([0, 0, 1]), 0.5)])
            cmds.append(['vseq'] + seq)
            out.append(show(['tree', tr] + cmds))
        return out

    def nontrivial(self, c):
        return True

    def compare(self, case, py, mo, stats):
        out = []
        if case[0] == 'tree':
            for i, c in enumerate(case[2:]):
                p = '%d.' % i
                bump(stats, 'ops', c[0])
                for key in ('vget', 'vset', 'vprobes', 'vseq', 'vsumm', 'vsprobes'):
                    a, b = py.get(p + key), mo.get(p + key)
                    if a is None and b is None:
                        continue
                    if key == 'vprobes' and mo.get(p + 'vset') == 'err':
                        continue
                    if a == 'skip' or (key == 'vsprobes' and py.get(p + 'vsumm') == 'skip'):
                        continue     # a root that is both a leaf and a pair cannot be served by a root-keyed source
                    a = (a or '').replace('err:nav', 'err')
                    if a.startswith('import-err'):
                        out.append(F('prop', 'a virtual tree cannot be created', a, ''))
                    elif a != b:
                        out.append(F('prop', 'lazily served tree differs from the materialised semantics: %s %s' % (c[0], c[1]), a, b))
            return out
        bump(stats, 'kinds', kind(case[1]))
        if 'p.import' in py and py['p.import'] != 'ok':
            return [F('prop', 'a virtual tree cannot be created', py['p.import'], 'ok')]
        if case[0] == 'virtp':
            if py.get('p.skip'):
                bump(stats, 'errs', 'skipped:ambiguous-root')
                return out
            if py.get('p.ctor') == 'err' or mo.get('i.ctor') == 'err':
                return [F('prop', 'ctor', py.get('p.ctor'), mo.get('i.ctor'))]
            if py.get('p.summ') != mo.get('i.summ'):
                return [F('corr', 'summarize_into', py.get('p.summ'), mo.get('i.summ'))]
            for i, op in enumerate(case[4:]):
                p = '%d.' % i
                a, c = py.get(p + 'v'), py.get(p + 'c')
                bump(stats, 'ops', 'partial:' + op[0])
                bump(stats, 'errs', (a or 'none').split(':')[0] + ('' if (a or '').startswith('ok') else ':' + (a or '').split(':')[-1]))
                if a != c:
                    out.append(F('prop', 'lazily served and materialised PARTIAL tree differ: op %d %s' % (i, show(op)), a, c))
                    break
                cm = c if (c or '').startswith('ok') else 'err'
                if cm != mo.get(p + 'i'):
                    # (the partial-tree semantics itself is C17's: here only a drift of the model is reported)
                    if op[0] != 'sets':
                        out.append(F('corr', 'materialised partial result differs from the model: op %d %s' % (i, show(op)), c, mo.get(p + 'i')))
                    break
            return out
        if py.get('p.skip'):
            bump(stats, 'errs', 'skipped:ambiguous-root')
            return out
        if py.get('p.ctor') == 'err':
            return [F('prop', 'ctor', 'err', '')]
        r = (py.get('p.root') or '').split('/')
        if len(r) != 2 or r[0] != 'ok:' + r[1]:
            out.append(F('prop', 'root of the virtual backing', py.get('p.root'), ''))
        for i, op in enumerate(case[3:]):
            p = '%d.' % i
            a, c = py.get(p + 'p'), py.get(p + 'c')
            bump(stats, 'ops', op[0])
            if a != c:
                out.append(F('prop', 'virtual and materialised tree differ: op %d %s' % (i, show(op)), a, c))
                break
            cm = c if (c or '').startswith('ok') else 'err'
            if cm != mo.get(p + 'ic'):
                out.append(F('corr', 'materialised result differs from the model: op %d %s' % (i, show(op)), c, mo.get(p + 'ic')))
                break
        if int(py.get('p.maxask', '0')) > 1:
            out.append(F('prop', 'a node asked the source for the same child more than once', py.get('p.maxask'), '<=1'))
        if mo.get('iv.ok') == '0':
            out.append(F('model', 'view reads mirrored over a wholly virtual backing differ from the reads on the materialised tree (VirtualViewLaws.virtual_view_reads)', mo.get('iv.ok'), '1'))
        bump(stats, 'ops', 'virtual-view-mirror:' + str(mo.get('iv.ok')))
        return out


# --- container class hierarchies (Rmk/Impl/Fields.lean, ClassTree.lean; driver / pyimpl case `inh`) -----------------------

def _inh_flat(c):
    """generator-side copy of `fields()` (only used to drop hierarchies without any public field)"""
    d = {}
    for b in c[1][1:]:
        d.update(_inh_flat(b))
    for a in c[2:]:
        if a[0][0] != '_':
            d[a[0]] = a[1]
    return d


def inh_cases(g, n):
    r = g.rng
    out = []
    pool = ['u8', 'u16', 'u64', 'bool', 'u256', ['list', 'u8', 3], ['list', 'u16', 40], ['Bv', 3], ['Bv', 32], ['Bv', 33], ['bl', 9], ['bv', 12],
            ['vec', 'u16', 2], ['vec', 'u16', 17], ['cont', 'u8', 'u32'], ['union', 'none', 'u16'], ['Bl', 5], ['list', ['Bl', 4], 3],
            ['cont', 'u8', ['list', 'u8', 4]], ['vec', ['bl', 5], 2]]
    names = ['a', 'b', 'c', 'd', 'e', '_p', '_q', 'x_']
    while len(out) < n:
        tys = []
        for t in r.sample(pool, r.choice([2, 3, 4])):
            tys.append(t)
        vals = [g.val(t, 4) for t in tys]

        def cls(depth):
            nb = 0 if depth == 0 else r.choice([0, 1, 1, 1, 2, 2, 3])
            ann = [[nm, r.randrange(len(tys))] for nm in r.sample(names, r.choice([0, 1, 2, 2, 3]))]
            return ['cls', ['bases'] + [cls(depth - 1) for _ in range(nb)]] + ann
        c = cls(r.choice([1, 2, 2, 3]))
        def buildable(c):
            return all(buildable(b) for b in c[1][1:]) and bool(_inh_flat(c))
        if not buildable(c) and r.random() < 0.9:
            continue    # (a class without any field is refused by the class statement: kept only now and then)
        out.append(show(['inh', ['types'] + tys, ['vals'] + vals, c]))
    return out


_INH_CHECKS = {
    'C01': ('droot', 'dflt_root', 'root', 'reads'),
    'C02': ('bytes', 'dflt_bytes', 'stream'),
    'C03': ('decode',),
    'C11': ('sizes', 'vbl'),
    'C12': ('droot', 'dflt_root', 'dflt_bytes'),
    'C15': ('reads',),
    'C16': ('obj',),
}


def compare_inh(pid, case, py, mo):
    import json as _json
    out = []
    if py.get('p.fields') == 'err' and mo.get('i.fields') == 'err':
        return []
    if py.get('p.fields') != mo.get('i.fields'):
        # the facts below are stated for the fields the library derives; when those differ from `Cls.fields` the tie is broken
        return [F('corr', 'fields() of a container class hierarchy ~ Cls.fields (Rmk/Impl/ClassTree.lean)', py.get('p.fields'), mo.get('i.fields'))]
    want = _INH_CHECKS.get(pid, ())
    names = [kv.split(':')[0] for kv in mo['i.fields'].split(',')]
    dflt = (py.get('p.dflt') or 'err').split('/')
    val = (py.get('p.value') or 'err').split('/')
    if len(dflt) != 3 or len(val) != 5:
        return [F('prop', 'a container built by inheritance cannot be default-constructed / built / encoded / decoded / exported', '%s | %s' % (py.get('p.dflt'), py.get('p.value')), '')]
    flags = val[4]
    if 'sizes' in want:
        if py.get('p.fixed') != mo['fixed']:
            out.append(F('prop', 'is_fixed_byte_length (class hierarchy)', py.get('p.fixed'), mo['fixed']))
        exp_flen = mo['flen'] if mo['fixed'] == '1' else 'err'
        if py.get('p.flen') != exp_flen:
            out.append(F('prop', 'type_byte_length (class hierarchy)', py.get('p.flen'), exp_flen))
        if py.get('p.min') != mo['min']:
            out.append(F('prop', 'min_byte_length (class hierarchy)', py.get('p.min'), mo['min']))
        if py.get('p.max') != mo['max']:
            out.append(F('prop', 'max_byte_length (class hierarchy)', py.get('p.max'), mo['max']))
    if 'vbl' in want:
        if val[2] != mo['s.len'] or dflt[2] != str(len(mo['s.zbytes']) // 2):
            out.append(F('prop', 'value_byte_length (class hierarchy)', val[2] + '/' + dflt[2], mo['s.len']))
    if 'droot' in want and py.get('p.droot') != mo['s.zroot']:
        out.append(F('prop', 'default_node root (class hierarchy)', py.get('p.droot'), mo['s.zroot']))
    if 'dflt_root' in want and dflt[0] != mo['s.zroot']:
        out.append(F('prop', 'root of the default value (class hierarchy)', dflt[0], mo['s.zroot']))
    if 'dflt_bytes' in want and dflt[1] != mo['s.zbytes']:
        out.append(F('prop', 'encoding of the default value (class hierarchy)', dflt[1], mo['s.zbytes']))
    if 'root' in want and val[0] != mo['s.root']:
        out.append(F('prop', 'hash_tree_root (class hierarchy)', val[0], mo['s.root']))
    if 'bytes' in want and val[1] != mo['s.bytes']:
        out.append(F('prop', 'encode_bytes (class hierarchy)', val[1], mo['s.bytes']))
    if 'stream' in want and flags[3] != '1':
        out.append(F('prop', 'serialize(stream) differs from encode_bytes (class hierarchy)', flags, '1'))
    if 'decode' in want and flags[1] != '1':
        out.append(F('prop', 'decode_bytes(encode_bytes(x)) differs from x (class hierarchy)', flags, '1'))
    if 'reads' in want and flags[4:7] != '111':
        out.append(F('prop', 'field reads by attribute / iteration / generalized index disagree with the values stored (class hierarchy)', flags, '111'))
    if 'obj' in want:
        try:
            exp = _json.loads(mo['s.obj'])
            exp = [(names[i], exp['f%d' % i]) for i in range(len(names))]
            got = list(_json.loads(val[3]).items())
        except Exception:
            exp, got = 0, 1
        if exp != got or flags[0] != '1' or flags[2] != '1':
            out.append(F('prop', 'to_obj / from_obj (class hierarchy)', val[3] + ' ' + flags, mo['s.obj']))
    return out


def _with_inh(cls):
    g0, c0 = cls.generate, cls.compare

    def generate(self, g, tier, focus=None):
        out = g0(self, g, tier, focus)
        return out + inh_cases(g, max(10, self.n(tier) // 25))

    def compare(self, case, py, mo, stats):
        if case[0] == 'inh':
            bump(stats, 'kinds', 'inh')
            return compare_inh(self.pid, case, py, mo)
        return c0(self, case, py, mo, stats)
    cls.generate, cls.compare = generate, compare


for _c in (C01, C02, C03, C11, C12, C15, C16):
    _with_inh(_c)


# --- constructor-argument spellings of VALID values (bytes / hex string / generator / tuple / plain python values) for the
# value properties: whichever way a valid value is spelled, its root and encoding are the spec's

def ctor_valid_cases(g, n):
    r = g.rng
    out = []
    for _ in range(n):
        if r.random() < 0.5:
            t = r.choice([['list', 'u8', g.bound(1, 129)], ['vec', 'u8', g.bound(1, 129)], ['Bv', g.bound(1, 129)], ['Bl', g.bound(1, 129)]])
            v = g.val(t, 20)
            c = r.random()
            if c < 0.5 and isinstance(v, str) and v[:1] == 'x' and len(v) >= 3:
                # leading / trailing zero bytes, bytes that print as '0' or 'x' characters
                body = v[1:]
                kb = min(r.choice([1, 1, 2]), len(body) // 2)
                v = 'x' + ('00' * kb + body[2 * kb:] if r.random() < 0.7 else body[:len(body) - 2 * kb] + '00' * kb)
            elif c < 0.5 and isinstance(v, list) and len(v) >= 2:
                v = [v[0]] + ['0' if i < r.choice([1, 2]) else x for i, x in enumerate(v[1:])]
        else:
            t = g.ty(r.choice([1, 2, 2, 3]), composite_only=r.random() < 0.8)
            v = g.val(t, 12)
        out.append(show(['ctor', t, r.choice(g.spellings(t)), v]))
    return out


def _with_ctor(cls, what):
    g0, c0 = cls.generate, cls.compare

    def generate(self, g, tier, focus=None):
        out = g0(self, g, tier, focus)
        return out + ctor_valid_cases(g, max(20, self.n(tier) // 8))

    def compare(self, case, py, mo, stats):
        if case[0] == 'ctor':
            bump(stats, 'kinds', 'ctor:' + case[2])
            if mo.get('wt') != '1':
                return []
            if py.get('p.ctor') != 'ok':
                return [F('corr', 'constructor rejected a valid value (%s spelling)' % case[2], 'err', 'ok')]
            out = []
            if 'root' in what and py.get('p.root') != mo['s.root']:
                out.append(F('prop', 'hash_tree_root of a value constructed from the %s spelling' % case[2], py.get('p.root'), mo['s.root']))
            if 'bytes' in what and py.get('p.bytes') != mo['s.bytes']:
                out.append(F('prop', 'encoding of a value constructed from the %s spelling' % case[2], py.get('p.bytes'), mo['s.bytes']))
            return out
        return c0(self, case, py, mo, stats)
    cls.generate, cls.compare = generate, compare


_with_ctor(C01, ('root',))
_with_ctor(C02, ('bytes',))


# --- the library's other documented configuration, settings.ENDIANNESS = 'big' (harness/be_child.py): the configuration-
# independent clauses (decode inverts encode; a decoded value is well-formed), python against python

BE_FLAGS = ('root of the decoded value', 're-encoding', 'content', 'value_byte_length', 'stream decode (root, exact consumption)',
            'fresh value of the decoded content', '==', 'second cycle')


def be_cases(g, n):
    r = g.rng
    out = []
    for _ in range(n):
        c = r.random()
        if c < 0.35:
            o = lambda: r.choice(['u8', 'u16', 'u32', 'u64', ['list', 'u8', 4], ['Bv', 3], ['cont', 'u16', ['bl', 5]], ['vec', 'u16', 2], ['bl', 9]])
            t = ['union'] + (['none'] if r.random() < 0.5 else []) + [o() for _ in range(r.choice([1, 2, 3]))]
            if r.random() < 0.5:
                t = r.choice([['cont', 'u8', t], ['list', t, 3], ['vec', t, 2], ['cont', t, ['list', 'u16', 3]]])
        else:
            t = g.ty(r.choice([1, 2, 2, 3]), composite_only=r.random() < 0.8)
        out.append(show(['be', t, g.val(t, 6)]))
    return out


def _with_be(cls):
    g0, c0 = cls.generate, cls.compare

    def generate(self, g, tier, focus=None):
        out = g0(self, g, tier, focus)
        return out + be_cases(g, max(30, self.n(tier) // 10))

    def compare(self, case, py, mo, stats):
        if case[0] == 'be':
            bump(stats, 'kinds', 'big-endian:' + kind(case[1]))
            if mo.get('wt') != '1':
                return []
            fl = py.get('p.be', '')
            if fl != '1' * len(BE_FLAGS):
                bad = [BE_FLAGS[i] for i, ch in enumerate(fl) if ch != '1'] if len(fl) == len(BE_FLAGS) and set(fl) <= {'0', '1'} else [fl]
                return [F('prop', 'configuration ENDIANNESS=big: decoding the encoding of a valid value fails or yields an ill-formed / different value (%s)' % ', '.join(bad), fl, '1' * len(BE_FLAGS))]
            return []
        return c0(self, case, py, mo, stats)
    cls.generate, cls.compare = generate, compare


_with_be(C03)
_with_be(C09)


REG = {}
for cls in (C01, C02, C03, C04, C05, C06, C07, C08, C09, C10, C11, C12, C13, C14, C15, C16, C17, C18, C19, C20):
    REG[cls.pid] = cls


def get(pid):
    import props_meta
    p = REG[pid]()
    props_meta.fill(p)
    return p
