"""Static metadata of the properties: theorems (obligations), Lean modules, assumptions."""
import json
import os

LEAN = os.path.join(os.path.dirname(os.path.dirname(os.path.abspath(__file__))), 'lean')

META = json.load(open(os.path.join(os.path.dirname(os.path.abspath(__file__)), 'props_meta.json')))


def fill(p):
    obl = json.load(open(os.path.join(LEAN, 'obligations.json')))
    m = META.get(p.pid, {})
    p.theorems = obl.get(p.pid, [])
    p.modules = m.get('modules', ['Rmk.Properties.' + p.pid])
    p.trusted = m.get('trusted', [])
    p.assumptions = m.get('assumptions', [])
    p.explanation = m.get('explanation', '')
