"""Python side of the correspondence check: executes case lines against the REAL remerkleable
package imported from /repo's working tree and prints one observation line per case
(`key=value` tokens separated by ';', keys prefixed `p.`).

Run as:  /venv/bin/python -B harness/pyimpl.py < cases > observations
"""
import sys
import os
import io
import json

REPO = os.environ.get('RMK_REPO', '/repo')
sys.path.insert(0, REPO)
sys.path.insert(0, os.path.dirname(os.path.abspath(__file__)))
sys.setrecursionlimit(10000)

from sexp import parse, show  # noqa: E402

import remerkleable.tree as rtree  # noqa: E402
from remerkleable.tree import PairNode, RootNode, zero_node, NavigationError, get_diff, leaf_iter  # noqa: E402
from remerkleable.core import View, BasicView  # noqa: E402
from remerkleable.basic import boolean, uint8, uint16, uint32, uint64, uint128, uint256, uint  # noqa: E402
from remerkleable.complex import List, Vector, Container  # noqa: E402
from remerkleable.bitfields import Bitlist, Bitvector  # noqa: E402
from remerkleable.byte_arrays import ByteVector, ByteList  # noqa: E402
from remerkleable.union import Union  # noqa: E402
from remerkleable.readonly_iters import NodeIter  # noqa: E402

UINTS = {'u8': uint8, 'u16': uint16, 'u32': uint32, 'u64': uint64, 'u128': uint128, 'u256': uint256}
UINT_BY_W = {1: uint8, 2: uint16, 4: uint32, 8: uint64, 16: uint128, 32: uint256}

_type_cache = {}
_cont_counter = [0]


def mk_type(t, fresh=False):
    """the library type for a type S-expression.  fresh=True: every class object (this one and the nested ones) is
    created anew by evaluating the type expression again, as separately spelled annotations do"""
    key = show(t)
    if fresh and not isinstance(t, str):
        k = t[0]
        if k in ('bv', 'bl', 'Bv', 'Bl'):
            return {'bv': Bitvector, 'bl': Bitlist, 'Bv': ByteVector, 'Bl': ByteList}[k][int(t[1])]
        if k in ('vec', 'list'):
            return (Vector if k == 'vec' else List)[mk_type(t[1], True), int(t[2])]
        if k == 'union':
            return Union[tuple(None if o == 'none' else mk_type(o, True) for o in t[1:])]
        if k == 'cont':
            _cont_counter[0] += 1
            import hashlib as _h

            def shape(q):
                return q if isinstance(q, str) else '(' + q[0] + ''.join(' ' + shape(z) for z in q[1:] if not isinstance(z, int)) + ')'
            return type('Rec%d' % (int(_h.sha1(shape(t).encode()).hexdigest(), 16) % 4), (Container,),
                        {'__annotations__': {'f%d' % i: mk_type(ft, True) for i, ft in enumerate(t[1:])}})
    if key in _type_cache:
        return _type_cache[key]
    if isinstance(t, str):
        out = boolean if t == 'bool' else UINTS[t]
    else:
        k = t[0]

        def P(n):
            # spec-style constants: about every sixth length / limit is given as a `uint64` (as `MAX_X = uint64(..)` constants are)
            n = int(n)
            if os.environ.get('VERIF_NO_UINT_PARAMS') or n >= 2 ** 32:
                return n
            import hashlib as _h
            return uint64(n) if int(_h.sha1(('P' + key).encode()).hexdigest(), 16) % 6 == 0 else n
        if k == 'bv':
            out = Bitvector[P(t[1])]
        elif k == 'bl':
            out = Bitlist[P(t[1])]
        elif k == 'Bv':
            out = ByteVector[P(t[1])]
        elif k == 'Bl':
            out = ByteList[P(t[1])]
        elif k == 'vec':
            out = Vector[mk_type(t[1]), P(t[2])]
        elif k == 'list':
            out = List[mk_type(t[1]), P(t[2])]
        elif k == 'cont':
            out = mk_container(t, key)
        elif k == 'union':
            opts = [None if o == 'none' else mk_type(o) for o in t[1:]]
            out = Union[tuple(opts)]
        else:
            raise ValueError(key)
    _type_cache[key] = out
    return out


def mk_container(t, key):
    """A container class with fields f0..fn.  For about half of the multi-field types the class is
    built by INHERITANCE (a base container with the first fields, possibly declaring one field with
    another type that the derived class re-declares), and the base class is exercised first
    (sizes, default value, encoding, iteration, export), as client code with a class hierarchy would."""
    import hashlib as _h
    _cont_counter[0] += 1
    n = len(t) - 1

    def shape(q):
        return q if isinstance(q, str) else '(' + q[0] + ''.join(' ' + shape(z) for z in q[1:] if not isinstance(z, int)) + ')'
    shape_name = 'Rec%d' % (int(_h.sha1(shape(t).encode()).hexdigest(), 16) % 4)
    names = ['f%d' % i for i in range(n)]
    types = [mk_type(ft) for ft in t[1:]]
    hv = int(_h.sha1(key.encode()).hexdigest(), 16)
    if n >= 2 and hv % 2 == 0:
        cut = 1 + (hv >> 3) % (n - 1)
        base_ann = {names[i]: types[i] for i in range(cut)}
        derived_ann = {names[i]: types[i] for i in range(cut, n)}
        if (hv >> 9) % 3 == 0:
            # the base declares f0 with another type; the derived class re-declares it (same position); every third time the
            # other type differs in being fixed-size / variable-size
            if (hv >> 13) % 3 == 0:
                base_ann[names[0]] = List[uint8, 4] if types[0].is_fixed_byte_length() else uint8
            else:
                base_ann[names[0]] = uint8 if types[0] is not uint8 else uint16
            derived_ann = dict([(names[0], types[0])] + list(derived_ann.items()))
        Base = type('Base%d' % (_cont_counter[0] % 2), (Container,), {'__annotations__': base_ann})
        for f in (lambda: Base.is_fixed_byte_length(), lambda: Base.min_byte_length(), lambda: Base.max_byte_length(),
                  lambda: Base.type_byte_length(), lambda: Base().encode_bytes(), lambda: Base().value_byte_length(),
                  lambda: list(Base()), lambda: Base().to_obj(), lambda: Base.from_obj(Base().to_obj()),
                  lambda: Base.decode_bytes(Base().encode_bytes()), lambda: Base().hash_tree_root(),
                  lambda: Base.default_node().merkle_root(), lambda: Base.default(None).hash_tree_root(),
                  lambda: Base.key_to_static_gindex('f0'), lambda: Base.navigate_type('f0')):
            try:
                f()
            except Exception:
                pass
        return type(shape_name, (Base,), {'__annotations__': derived_ann})
    # (only a handful of distinct class NAMES are used, as code bases with several forks / modules do: a cache keyed by the
    # printed type name must not confuse them)
    return type(shape_name, (Container,), {'__annotations__': dict(zip(names, types))})


def kind(t):
    return t if isinstance(t, str) else t[0]


def elem_t(t):
    return t[1]


def union_opt(t, sel):
    return t[1:][sel]


def mk_val(t, v):
    """build a view of sexp type t from sexp value v through the constructors"""
    T = mk_type(t)
    k = kind(t)
    if isinstance(t, str):
        return T(int(v))
    if k in ('bv', 'bl'):
        bits = [c == '1' for c in v[1:]]
        return T(*bits) if bits else T()
    if k in ('Bv', 'Bl'):
        return T(bytes.fromhex(v[1:]))
    if k in ('vec', 'list'):
        elems = [mk_val(t[1], x) for x in v[1:]]
        return T(*elems)
    if k == 'cont':
        return T(**{'f%d' % i: mk_val(ft, x) for i, (ft, x) in enumerate(zip(t[1:], v[1:]))}) \
            if len(v[1:]) == len(t[1:]) else _raise(ValueError("field count"))
    if k == 'union':
        sel = int(v[1])
        opts = t[1:]
        if sel >= len(opts):
            return T(selector=sel, value=None)
        if opts[sel] == 'none':
            if v[2] != 'none':
                return T(selector=sel, value=mk_val_any(v[2]))
            return T(selector=sel, value=None)
        return T(selector=sel, value=mk_val(opts[sel], v[2]))
    raise ValueError(k)


def plain(t, v):
    """plain python spelling of a value: ints, lists, bytes; containers / unions stay views built from plain parts"""
    k = kind(t)
    if isinstance(t, str):
        return int(v)
    if k in ('bv', 'bl'):
        return [c == '1' for c in v[1:]]
    if k in ('Bv', 'Bl'):
        return bytes.fromhex(v[1:])
    if k in ('vec', 'list'):
        # plain python values only for basic elements: `cls(*v)` makes nested plain lists ambiguous
        # (a one-element list of lists is taken as the element list itself) - composite elements are views
        if isinstance(t[1], str):
            return [plain(t[1], x) for x in v[1:]]
        return [mk_val(t[1], x) for x in v[1:]]
    if k == 'cont':
        T = mk_type(t)
        if len(v) - 1 != len(t) - 1:
            raise ValueError("field count")

        def field(ft, x):
            if isinstance(ft, str) or kind(ft) in ('Bv', 'Bl', 'bv', 'bl') or (kind(ft) in ('vec', 'list') and isinstance(ft[1], str)):
                return plain(ft, x)
            return mk_val(ft, x)
        return T(**{'f%d' % i: field(ft, x) for i, (ft, x) in enumerate(zip(t[1:], v[1:]))})
    if k == 'union':
        return mk_val(t, v)
    raise ValueError(k)


def mk_val_spelled(t, v, spell):
    T = mk_type(t)
    k = kind(t)
    if spell == 'views':
        return mk_val(t, v)
    if spell == 'wide':
        # an integer view of ANOTHER width holding the number (when one can hold it) as the constructor argument
        iv = int(v)
        own = T.type_byte_length()
        for w in (1, 2, 4, 8, 16, 32):
            if w != own and 0 <= iv < (1 << (8 * w)) and (w > own or iv >= (1 << (8 * own)) or iv % 2):
                return T(UINT_BY_W[w](iv))
        return T(iv)
    if isinstance(t, str) or k in ('cont', 'union'):
        p = plain(t, v)
        return p if k in ('cont', 'union') else T(p)
    p = plain(t, v)
    if spell == 'py':
        return T(p)
    if spell == 'args':
        return T(*p) if not isinstance(p, bytes) else T(*list(p))
    if spell == 'gen':
        return T(x for x in p)
    if spell == 'tuple':
        return T(tuple(p))
    if spell in ('bytes', 'hex'):
        raw = p if isinstance(p, bytes) else bytes(p)
        return T(raw) if spell == 'bytes' else T('0x' + raw.hex())
    raise ValueError(spell)


def run_ctor(t, spell, v):
    try:
        x = mk_val_spelled(t, v, spell)
    except Exception:
        return 'p.ctor=err'
    return 'p.ctor=ok;p.root=%s;p.bytes=%s;p.read=%s' % (E(lambda: x.hash_tree_root().hex()), E(lambda: x.encode_bytes().hex()), E(lambda: to_val(t, x)))


def mk_val_any(v):
    return uint8(int(v)) if isinstance(v, str) and v.isdigit() else uint8(0)


def _raise(e):
    raise e


def bits_str(bits):
    return 'b' + ''.join('1' if b else '0' for b in bits)


def _interleaved(mk_iter, n, conv):
    """two iterations over the same value alive at the same time: the second one starts after the first
    has advanced past the middle, then they alternate.  Returns (first, second, 0): both are complete"""
    it1 = mk_iter()
    a, b = [], []
    for _ in range(n // 2 + 1 if n else 0):
        try:
            a.append(conv(next(it1)))
        except StopIteration:
            break
    it2 = mk_iter()
    done1 = done2 = False
    while not (done1 and done2):
        if not done2:
            try:
                b.append(conv(next(it2)))
            except StopIteration:
                done2 = True
        if not done1:
            try:
                a.append(conv(next(it1)))
            except StopIteration:
                done1 = True
    return a, b, 0


def to_val(t, view, route='index'):
    """read the content of a view back as value text, through the read route given"""
    k = kind(t)
    if isinstance(t, str):
        return str(int(view))
    if k in ('bv', 'bl'):
        if route == 'index':
            return bits_str([bool(view[i]) for i in range(len(view))])
        if route == 'zip':
            a, b, off = _interleaved(lambda: iter(view), len(view), bool)
            return bits_str(a) if a[off:] == b else 'INTERLEAVED-ITERATIONS-DIFFER'
        return bits_str([bool(b) for b in view])
    if k in ('Bv', 'Bl'):
        return 'x' + bytes(view).hex()
    if k in ('vec', 'list'):
        if route == 'index':
            items = [view[i] for i in range(len(view))]
            return '(s' + ''.join(' ' + to_val(t[1], x, route) for x in items) + ')'
        if route == 'iter':
            return '(s' + ''.join(' ' + to_val(t[1], x, route) for x in view) + ')'
        if route == 'roiter':
            # the read-only iterator re-uses one view object: convert each element as it is yielded
            out = []
            for x in view.readonly_iter():
                out.append(to_val(t[1], x, route))
            return '(s' + ''.join(' ' + x for x in out) + ')'
        if route == 'reiter':
            # the SAME read-only iterator object iterated again after a pass that stopped early
            it = view.readonly_iter()
            stop_after = max(1, len(view) // 3)
            for n_, _x in enumerate(it):
                if n_ + 1 >= stop_after:
                    break
            return '(s' + ''.join(' ' + to_val(t[1], x, 'roiter') for x in it) + ')'
        if route == 'zip':
            a, b, off = _interleaved(lambda: view.readonly_iter(), len(view), lambda x: to_val(t[1], x, route))
            return '(s' + ''.join(' ' + x for x in a) + ')' if a[off:] == b else 'INTERLEAVED-ITERATIONS-DIFFER'
        if route == 'slice':
            items = view[0:len(view)]
            return '(s' + ''.join(' ' + to_val(t[1], x, route) for x in items) + ')'
    if k == 'cont':
        if route in ('index', 'slice', 'zip', 'reiter'):
            items = [getattr(view, 'f%d' % i) for i in range(len(t) - 1)]
        else:
            items = list(view)
        return '(s' + ''.join(' ' + to_val(ft, x, route) for ft, x in zip(t[1:], items)) + ')'
    if k == 'union':
        sel = view.selector()
        val = view.value()
        if val is None:
            return '(u %d none)' % sel
        return '(u %d %s)' % (sel, to_val(t[1:][sel], val, route))
    raise ValueError(k)


def obj_to_val(t, obj):
    """value text from an exported object (to_obj), checking the documented plain shape"""
    k = kind(t)
    if isinstance(t, str):
        if t == 'bool':
            assert obj is True or obj is False, "bool shape"
            return '1' if obj else '0'
        if t in ('u128', 'u256'):
            assert isinstance(obj, str) and obj.startswith('0x'), "hex uint shape"
            return str(int.from_bytes(bytes.fromhex(obj[2:]), 'little'))
        assert type(obj) is int, "int shape"
        return str(obj)
    if k in ('bv', 'bl', 'Bv', 'Bl'):
        assert isinstance(obj, str) and obj.startswith('0x'), "hex shape"
        return 'X' + obj[2:]
    if k == 'vec':
        assert isinstance(obj, (tuple, list)), "vector shape"
        return '(s' + ''.join(' ' + obj_to_val(t[1], x) for x in obj) + ')'
    if k == 'list':
        assert isinstance(obj, list), "list shape"
        return '(s' + ''.join(' ' + obj_to_val(t[1], x) for x in obj) + ')'
    if k == 'cont':
        assert isinstance(obj, dict) and list(obj.keys()) == ['f%d' % i for i in range(len(t) - 1)], "dict shape"
        return '(s' + ''.join(' ' + obj_to_val(ft, obj['f%d' % i]) for i, ft in enumerate(t[1:])) + ')'
    if k == 'union':
        assert isinstance(obj, dict) and set(obj.keys()) == {'selector', 'value'}, "union shape"
        sel = obj['selector']
        if t[1:][sel] == 'none':
            assert obj['value'] is None
            return '(u %d none)' % sel
        return '(u %d %s)' % (sel, obj_to_val(t[1:][sel], obj['value']))
    raise ValueError(k)


def hexr(node):
    return node.merkle_root().hex()


def E(f):
    """run f, map any ordinary exception to 'err'"""
    try:
        return f()
    except RecursionError:
        return 'err'
    except Exception:
        return 'err'


def EC(f):
    """like E but keeps the class for navigation / index errors"""
    try:
        return f()
    except NavigationError:
        return 'err:nav'
    except IndexError:
        return 'err:index'
    except Exception:
        return 'err'


# --------------------------------------------------------------------------------------------------
# hash counting (C19): rebinding the module global that PairNode.merkle_root looks up at call time
_hash_calls = [0]
_orig_merkle_hash = rtree.merkle_hash


def _counting_hash(a, b):
    _hash_calls[0] += 1
    return _orig_merkle_hash(a, b)


rtree.merkle_hash = _counting_hash

# ... and every hash made through `settings.merkle_hash` by any OTHER module that imported the function by name
# (the function looks `sha256` up in the globals of remerkleable.settings at call time); calls that come through the
# counting wrapper above are not counted twice
import remerkleable.settings as _rsettings  # noqa: E402
if hasattr(_rsettings, 'sha256'):
    _orig_sha256 = _rsettings.sha256

    def _counting_sha256(*a, **kw):
        import sys as _sys
        caller = _sys._getframe(1)
        # (this module may be loaded twice, as the script and as `pyimpl`: wrappers are recognised by name)
        if caller.f_code.co_name == 'merkle_hash' and caller.f_back is not None and caller.f_back.f_code.co_name != '_counting_hash':
            _hash_calls[0] += 1
        return _orig_sha256(*a, **kw)
    _rsettings.sha256 = _counting_sha256


def hashes_during(f):
    before = _hash_calls[0]
    r = f()
    return r, _hash_calls[0] - before


# --------------------------------------------------------------------------------------------------

def mutate_somehow(t, y):
    """change a decoded view through whatever mutator its type has (to expose results shared between calls)"""
    k = kind(t)
    for f in ((lambda: y.pop()) if k in ('list', 'bl') else None,
              (lambda: y.append(y[0])) if k in ('list', 'bl') else None,
              (lambda: y.append(mk_type(t[1]).default(None))) if k == 'list' else None,
              (lambda: y.append(True)) if k == 'bl' else None,
              (lambda: y.__setitem__(0, type(y[0]).default(None) if hasattr(type(y[0]), 'default') else y[0])) if k in ('vec', 'list') else None,
              (lambda: y.__setitem__(0, not y[0])) if k in ('bv', 'bl') else None,
              (lambda: setattr(y, 'f0', mk_type(t[1]).default(None))) if k == 'cont' else None,
              (lambda: y.change(selector=0, value=None if t[1] == 'none' else mk_type(t[1]).default(None))) if k == 'union' else None):
        if f is None:
            continue
        try:
            f()
        except Exception:
            pass


def sub_values(t, x, budget):
    """(type, view) of the value itself and of some of its composite sub-values (first / last elements, fields)"""
    out = [(t, x)]
    k = kind(t)
    if budget <= 0 or isinstance(t, str):
        return out
    if k in ('vec', 'list') and not isinstance(t[1], str) and len(x) > 0:
        for i in sorted({0, len(x) - 1}):
            out += sub_values(t[1], x[i], budget - 1)
    elif k == 'cont':
        for i, ft in enumerate(t[1:]):
            if not isinstance(ft, str):
                out += sub_values(ft, getattr(x, 'f%d' % i), budget - 1)
    elif k == 'union':
        val = x.value()
        if val is not None and not isinstance(t[1:][x.selector()], str):
            out += sub_values(t[1:][x.selector()], val, budget - 1)
    return out


def run_val(t, v):
    T = mk_type(t)
    out = []

    def put(k, val):
        out.append('%s=%s' % (k, val))
    try:
        x = mk_val(t, v)
    except Exception:
        return 'p.ctor=err'
    put('p.ctor', 'ok')
    put('p.root', E(lambda: x.hash_tree_root().hex()))
    enc = E(lambda: x.encode_bytes().hex())
    put('p.bytes', enc)
    put('p.bytes2', E(lambda: bytes(x).hex()))

    if not isinstance(t, str):
        put('p.eqfresh', E(lambda: fresh_class_agreement(t, x)))

    def partial_ctor():
        # partial construction: the given fields are what was given, every omitted field is its type's default
        if kind(t) != 'cont':
            return '1'
        n = len(t) - 1
        flags = []
        for pattern in (lambda i: i % 2 == 0, lambda i: i % 2 == 1, lambda i: i == 0, lambda i: i == n - 1):
            kw = {'f%d' % i: getattr(x, 'f%d' % i) for i in range(n) if pattern(i)}
            y = T(**kw)
            ok = True
            for i in range(n):
                got = getattr(y, 'f%d' % i)
                want = getattr(x, 'f%d' % i) if pattern(i) else mk_type(t[1 + i]).default(None)
                ok = ok and got.hash_tree_root() == want.hash_tree_root() and to_val(t[1 + i], got) == to_val(t[1 + i], want)
            flags.append('1' if ok else '0')
        return ''.join(flags)
    if not isinstance(t, str) and kind(t) == 'cont':
        put('p.partialctor', E(partial_ctor))

    def roiter2():
        if kind(t) not in ('vec', 'list') or not hasattr(x, 'readonly_iter'):
            return '1'
        it1, it2 = x.readonly_iter(), x.readonly_iter()
        next(it2, None)
        got, want = [], []
        for i in range(len(x)):
            e1 = next(it1)
            e2 = next(it2, None)
            got.append((to_val(t[1], e1), None if e2 is None else to_val(t[1], e2)))
            want.append((to_val(t[1], x[i]), None if i + 1 >= len(x) else to_val(t[1], x[i + 1])))
        return '1' if got == want else '0'
    if not isinstance(t, str):
        put('p.roiter2', E(roiter2))

    def seqmixin():
        # the Sequence mix-in read paths: reversed(), `in`, index(), count() against indexing
        n = len(x)
        items = [x[i] for i in range(n)]
        flags = [[to_val(t[1], e) if kind(t) in ('vec', 'list') else str(int(bool(e))) for e in reversed(x)]
                 == [to_val(t[1], e) if kind(t) in ('vec', 'list') else str(int(bool(e))) for e in reversed(items)]]
        for j in sorted({0, n // 2, n - 1}) if n else []:
            e = items[j]
            first = next(i for i in range(n) if items[i] == e)
            flags += [e in x, x.index(e) == first, x.count(e) == sum(1 for q in items if q == e)]
        if kind(t) in ('vec', 'list') and isinstance(t[1], str) and t[1] != 'bool' and n:
            # numbers that are not elements but whose bytes occur in the packed data at other alignments
            w_ = mk_type(t[1]).type_byte_length()
            raw = x.encode_bytes() + b'\x00' * w_
            have = {int(e) for e in items}
            for off in (1, w_ - 1, w_ + 1, 2 * w_ + 1):
                if 0 < off and off + w_ <= len(raw):
                    probe = int.from_bytes(raw[off:off + w_], 'little')
                    if probe not in have:
                        flags += [probe not in x, x.count(probe) == 0]
        if kind(t) in ('vec', 'list'):
            # concatenation `v + v`: bytes for byte elements, otherwise the list of the elements of both
            cat = x + x
            if t[1] == 'u8':
                flags.append(cat == bytes(int(e) for e in items) * 2)
            else:
                flags.append([to_val(t[1], e) for e in cat] == [to_val(t[1], e) for e in items] * 2)
        return ''.join('1' if f else '0' for f in flags)
    if not isinstance(t, str) and kind(t) in ('vec', 'list', 'bv', 'bl'):
        put('p.seqmixin', E(seqmixin))

    def bytes3():
        # bytes(sub-value) for the direct sub-values (fields, first / last elements, union value), basic ones included
        subs = []
        k = kind(t)
        if k == 'cont':
            subs = [getattr(x, 'f%d' % i) for i in range(len(t) - 1)]
        elif k in ('vec', 'list') and len(x) > 0:
            subs = [x[0], x[len(x) - 1]]
        elif k == 'union' and x.value() is not None:
            subs = [x.value()]
        return ''.join('1' if bytes(sv) == sv.encode_bytes() else '0' for sv in subs)
    if not isinstance(t, str) and kind(t) in ('cont', 'vec', 'list', 'union'):
        put('p.bytes3', E(bytes3))

    def stream_write():
        s = io.BytesIO()
        s.write(b'\xaa\xbb\xcc')
        n = x.serialize(s)
        return '%s/%d/%d' % (s.getvalue()[3:].hex(), n, s.tell() - 3)
    put('p.stream', E(stream_write))
    put('p.vbl', E(lambda: str(x.value_byte_length())))
    for route in ('index', 'iter', 'roiter', 'slice', 'zip', 'reiter'):
        put('p.read.' + route, E(lambda: to_val(t, x, route)))
    if not isinstance(t, str) and kind(t) in ('vec', 'list', 'bv', 'bl'):
        n_el = len(v) - 1
        pairs = [(0, 0), (0, n_el), (0, min(1, n_el)), (n_el, n_el), (n_el // 2, n_el), (0, n_el // 2), (min(1, n_el), max(n_el - 1, min(1, n_el)))]

        def slices():
            outp = []
            for (a, b) in pairs:
                part = x[a:b]
                if kind(t) in ('bv', 'bl'):
                    got = 'b' + ''.join('1' if q else '0' for q in part)
                    exp = 'b' + v[1 + a:1 + b]
                else:
                    got = show(['s'] + [parse(to_val(t[1], q)) for q in part])
                    exp = show(['s'] + list(v[1 + a:1 + b]))
                outp.append('1' if got == exp else '0')
            return ''.join(outp)
        put('p.slices', E(slices))
    put('p.len', E(lambda: str(len(x)) if hasattr(x, '__len__') and not isinstance(t, str) and kind(t) not in ('cont', 'union') else '-'))
    # decode route
    if enc != 'err':
        def dec():
            y = T.decode_bytes(bytes.fromhex(enc))
            return '%s/%s/%s/%d' % (y.hash_tree_root().hex(), to_val(t, y), y.encode_bytes().hex(), int(y == x))
        put('p.dec', E(dec))

        def decs():
            pre, post = b'\x01\x02\x03\x04\x05', b'\xff\xfe\xfd'
            raw = bytes.fromhex(enc)
            s = io.BytesIO(pre + raw + post)
            s.seek(len(pre))
            y = T.deserialize(s, len(raw))
            return '%s/%d/%d' % (y.hash_tree_root().hex(), s.tell() - len(pre), int(y == x))
        put('p.decs', E(decs))

        def dec2():
            raw = bytes.fromhex(enc)
            y1 = T.decode_bytes(raw)
            mutate_somehow(t, y1)
            s2 = io.BytesIO(raw)
            y1b = T.deserialize(s2, len(raw))
            mutate_somehow(t, y1b)
            y2 = T.decode_bytes(raw)
            s3 = io.BytesIO(raw)
            y3 = T.deserialize(s3, len(raw))
            return '%s/%s' % (y2.hash_tree_root().hex(), y3.hash_tree_root().hex())
        put('p.dec2', E(dec2))
    # object route

    def obj():
        o = x.to_obj()
        txt = obj_to_val(t, o)
        y = T.from_obj(o)
        o2 = json.loads(json.dumps(o))
        z = T.from_obj(o2)
        # (equal roots are not enough: the imported value must be readable and show the same content)
        same = to_val(t, y) == to_val(t, x) and to_val(t, z, 'iter') == to_val(t, x) and y.encode_bytes() == x.encode_bytes() \
            and json.loads(json.dumps(z.to_obj())) == o2
        return '%s/%s/%s/%d%d' % (txt, y.hash_tree_root().hex(), z.hash_tree_root().hex(), int(y == x and same), int(z == x))
    put('p.obj', E(obj))

    def obj2():
        # every imported result is the caller's to mutate: import the value and some of its sub-values on their own,
        # mutate those results, then import the (untouched) exported object again
        o = x.to_obj()
        for st, sx in sub_values(t, x, 2)[:8]:
            w = mk_type(st).from_obj(sx.to_obj())
            mutate_somehow(st, w)
        y = T.from_obj(o)
        z = T.from_obj(json.loads(json.dumps(o)))
        # copies of sub-values are the caller's to mutate as well: the untouched value still exports the same object
        for st, sx in sub_values(t, x, 2)[:8]:
            if isinstance(sx, View) and not isinstance(sx, (BasicView, bytes)):
                mutate_somehow(st, sx.copy())
        if json.dumps(x.to_obj()) != json.dumps(o):
            return 'EXPORT-CHANGED-BY-MUTATING-A-COPY'
        return '%s/%s' % (y.hash_tree_root().hex(), z.hash_tree_root().hex())
    put('p.obj2', E(obj2))
    put('p.objjson', E(lambda: json.dumps(x.to_obj(), separators=(',', ':'))))

    def objrev():
        # the same mapping with every dict's keys in the opposite order (a JSON object is unordered)
        def rev(o):
            if isinstance(o, dict):
                return {kk: rev(o[kk]) for kk in reversed(list(o.keys()))}
            if isinstance(o, (list, tuple)):
                return [rev(q) for q in o]
            return o
        y = T.from_obj(rev(x.to_obj()))
        z = T.from_obj(json.loads(json.dumps(x.to_obj(), sort_keys=True)))
        return '%s/%s' % (y.hash_tree_root().hex(), z.hash_tree_root().hex())
    put('p.objrev', E(objrev))
    # equality / hash
    def eqs():
        y = mk_val(t, v)
        return '%d%d%d' % (int(x == y), int(not (x != y)), int(hash(x) == hash(y)))
    put('p.eq', E(eqs))
    # caching: second root costs nothing; copy; view from hashed backing
    def cache():
        if isinstance(x, (BasicView, bytes)):
            return '0/0/0'
        x.hash_tree_root()
        _, c1 = hashes_during(lambda: x.hash_tree_root())
        y = x.copy()
        _, c2 = hashes_during(lambda: y.hash_tree_root())
        z = T.view_from_backing(x.get_backing())
        _, c3 = hashes_during(lambda: z.hash_tree_root())
        return '%d/%d/%d' % (c1, c2, c3)
    put('p.cache', E(cache))
    return ';'.join(out)


def run_type(t):
    T = mk_type(t)
    out = []

    def put(k, val):
        out.append('%s=%s' % (k, val))
    put('p.fixed', E(lambda: str(int(T.is_fixed_byte_length()))))
    put('p.flen', E(lambda: str(T.type_byte_length())))
    put('p.min', E(lambda: str(T.min_byte_length())))
    put('p.max', E(lambda: str(T.max_byte_length())))
    put('p.droot', E(lambda: hexr(T.default_node())))

    def dflt():
        x = T.default(None) if isinstance(t, str) else T()
        y = T.default(None)
        return '%s/%s/%s/%s' % (x.hash_tree_root().hex(), x.encode_bytes().hex(), to_val(t, x), y.hash_tree_root().hex())
    put('p.default', E(dflt))

    def dview():
        x = T.view_from_backing(T.default_node())
        return to_val(t, x)
    put('p.dread', E(dview))
    return ';'.join(out)


def run_inh(types, vals, cls):
    """a container class hierarchy (several bases allowed) built from annotations; the flattened fields the library derives
    (`cls.fields()`), then type-level and value-level facts of the derived class.  Every class of the hierarchy is exercised
    (sizes, default, encoding) BEFORE its subclasses are created, as client code with a class hierarchy does."""
    tys = [mk_type(t) for t in types[1:]]
    vs = vals[1:]
    out = []

    def put(k, val):
        out.append('%s=%s' % (k, val))

    def build(c):
        bases = tuple(build(b) for b in c[1][1:])
        ann = {a[0]: tys[int(a[1])] for a in c[2:]}
        _cont_counter[0] += 1
        K = type('Inh%d' % (_cont_counter[0] % 3), bases or (Container,), {'__annotations__': ann})
        for f in (lambda: K.fields(), lambda: K.is_fixed_byte_length(), lambda: K.min_byte_length(), lambda: K.max_byte_length(),
                  lambda: K.type_byte_length(), lambda: K().encode_bytes(), lambda: K().value_byte_length(), lambda: list(K()),
                  lambda: K().to_obj(), lambda: K.decode_bytes(K().encode_bytes()), lambda: K().hash_tree_root(),
                  lambda: K.default_node().merkle_root(), lambda: [K.key_to_static_gindex(k) for k in K.fields()]):
            try:
                f()
            except Exception:
                pass
        return K
    try:
        D = build(cls)
    except Exception:
        return 'p.fields=err'

    def idx(T):
        for i, x in enumerate(tys):
            if x is T:
                return i
        return -1
    put('p.fields', E(lambda: ','.join('%s:%d' % (k, idx(T)) for k, T in D.fields().items())))
    put('p.fixed', E(lambda: str(int(D.is_fixed_byte_length()))))
    put('p.flen', E(lambda: str(D.type_byte_length())))
    put('p.min', E(lambda: str(D.min_byte_length())))
    put('p.max', E(lambda: str(D.max_byte_length())))
    put('p.droot', E(lambda: hexr(D.default_node())))
    put('p.dflt', E(lambda: '%s/%s/%d' % (D().hash_tree_root().hex(), D().encode_bytes().hex(), D().value_byte_length())))

    def value():
        names = list(D.fields().keys())
        kw = {k: mk_val(types[1:][idx(T)], vs[idx(T)]) for k, T in D.fields().items()}
        x = D(**kw)
        b = x.encode_bytes()
        y = D.decode_bytes(b)
        st = io.BytesIO()
        cnt = x.serialize(st)
        o = x.to_obj()
        z = D.from_obj(o)
        flags = [list(o.keys()) == names, y.hash_tree_root() == x.hash_tree_root(), z.hash_tree_root() == x.hash_tree_root(),
                 st.getvalue() == b and cnt == len(b),
                 all(getattr(x, k).hash_tree_root() == kw[k].hash_tree_root() for k in names),
                 [e.hash_tree_root() for e in x] == [kw[k].hash_tree_root() for k in names],
                 all(x.get_backing().getter(D.key_to_static_gindex(k)).merkle_root() == kw[k].hash_tree_root() for k in names)]
        return '%s/%s/%d/%s/%s' % (x.hash_tree_root().hex(), b.hex(), x.value_byte_length(),
                                   json.dumps(o, separators=(',', ':')), ''.join(str(int(f)) for f in flags))
    put('p.value', E(value))
    return ';'.join(out)


def run_tsize(t):
    """type-level size facts only (also for types whose values are astronomically large)"""
    T = mk_type(t)
    out = []
    out.append('p.fixed=%s' % E(lambda: str(int(T.is_fixed_byte_length()))))
    out.append('p.flen=%s' % E(lambda: str(T.type_byte_length())))
    out.append('p.min=%s' % E(lambda: str(T.min_byte_length())))
    out.append('p.max=%s' % E(lambda: str(T.max_byte_length())))
    return ';'.join(out)


def run_tnav(t):
    """the default tree of a (possibly astronomically long) vector type is navigable at its first, middle and last
    element positions, and the nodes found there are the element type's default / the zero chunk"""
    T = mk_type(t)
    n = int(t[2])
    E_ = mk_type(t[1])
    flags = []
    for i in sorted({0, 1 if n > 1 else 0, n // 2, n - 2 if n > 1 else 0, n - 1}):
        def probe():
            node = T.default_node().getter(T.key_to_static_gindex(i))
            want = E_.default_node().merkle_root() if not isinstance(t[1], str) else b'\x00' * 32
            return str(int(node.merkle_root() == want))
        flags.append(E(probe))
    return 'p.tnav=%s;p.droot=%s' % (''.join(flags), E(lambda: T.default_node().merkle_root().hex()))


def foreign_type(t, v):
    """a type of the same kind in which the (invalid for t) value v is valid: wider uint, other limit / length"""
    k = kind(t)
    if isinstance(t, str):
        n = int(v)
        for name, w in (('u8', 1), ('u16', 2), ('u32', 4), ('u64', 8), ('u128', 16), ('u256', 32)):
            if n < (1 << (8 * w)) and name != t:
                return name
        return None
    if k in ('bv', 'bl'):
        return [k, max(len(v) - 1, 1)]
    if k in ('Bv', 'Bl'):
        return [k, max((len(v) - 1) // 2, 1)]
    if k in ('vec', 'list'):
        return [k, t[1], max(len(v) - 1, 1)]
    return None


def elem_arg(t, v):
    """the argument handed to a mutator for element type t: a view of t when v is valid for t; otherwise a
    view of a neighbouring type holding the same content (an integer of another width, a list with
    another limit, a vector / byte string of another length), or the plain python value"""
    try:
        return mk_val(t, v)
    except Exception as e0:
        try:
            ft = foreign_type(t, v)
            if ft is not None:
                return mk_val(ft, v)
        except Exception:
            pass
        try:
            return plain(t, v)
        except Exception:
            raise e0


_PREPARED = {}
_ALIASES = {}


def mk_val_with(T, t, v):
    """a value of the class T (built for type S-expression t, possibly with fresh class objects) holding v"""
    return T.view_from_backing(mk_val(t, v).get_backing())


def prepare_setv(t, op):
    """the value of a `setv` op: a container of ANOTHER class with the same layout (a freshly evaluated type), hashed"""
    i = int(op[1])
    et = t[1] if kind(t) in ('vec', 'list') else t[1:][i]
    val = mk_val_with(mk_type(et, True), et, op[2])
    val.hash_tree_root()
    return val


def prepare_seth(t, op):
    """the value of a `seth` op: a view of the element type (every second time: of an alias SUBCLASS of it,
    `class Alias(ElemType): pass`) whose root has been computed already"""
    i = int(op[1])
    et = t[1] if kind(t) in ('vec', 'list') else t[1:][i]
    val = mk_val(et, op[2])
    if len(show(op[2])) % 2 == 0:
        T = mk_type(et)
        key = show(et)
        if key not in _ALIASES:
            _ALIASES[key] = type('Alias', (T,), {})
        val = _ALIASES[key].view_from_backing(val.get_backing())
    val.hash_tree_root()
    return val


def bit_arg(b, i):
    """the argument of a bit write: bits are truth values — a boolean view, a plain bool, or any other truthy / falsy object"""
    if b:
        return [boolean(1), True, 1, 2, 255, uint8(4), 'x', -1][i % 8]
    return [boolean(0), False, 0, None, uint8(0), '', 0, False][i % 8]


def apply_op(t, x, op):
    k = op[0]
    tk = kind(t)
    if k == 'set':
        i = int(op[1])
        if tk in ('vec', 'list'):
            x[i] = elem_arg(t[1], op[2])
        elif tk == 'cont':
            setattr(x, 'f%d' % i, elem_arg(t[1:][i], op[2]) if i < len(t) - 1 else 0)
        elif tk in ('bv', 'bl'):
            x[i] = bit_arg(int(op[2]), i)
        else:
            raise ValueError("unsupported")
    elif k == 'app':
        if tk == 'list':
            x.append(elem_arg(t[1], op[1]))
        elif tk == 'bl':
            x.append(bit_arg(int(op[1]), len(x)))
        else:
            raise ValueError("unsupported")
    elif k == 'pop':
        x.pop()
    elif k == 'setsx':
        i, kk = int(op[1]), int(op[2])
        vals = [elem_arg(t[1], q) for q in op[3][1:]]
        x[i:i + kk] = vals
    elif k == 'setc':
        # a view of another but coercible type: other limit, or freshly evaluated (distinct) class objects of the same layout
        i = int(op[1])
        ft = op[2]
        val = mk_val_with(mk_type(ft, True), ft, op[3])
        if tk == 'cont':
            setattr(x, 'f%d' % i, val)
        else:
            x[i] = val
    elif k == 'setv':
        i = int(op[1])
        val = _PREPARED.pop(id(op), None)
        if val is None:
            val = prepare_setv(t, op)
        if tk == 'cont':
            setattr(x, 'f%d' % i, val)
        else:
            x[i] = val
    elif k == 'setn':
        setattr(x, op[1], 5)
    elif k == 'setneg':
        # a NEGATIVE index, through the [] operator: read first (a read that succeeds is reported as a success of the
        # whole op, which the model refuses), then written with a valid element
        i = int(op[1])
        try:
            x[-i]
            return
        except Exception:
            pass
        x[-i] = boolean(int(op[2])) if tk in ('bv', 'bl') else elem_arg(t[1], op[2])
    elif k == 'setb':
        i = int(op[1])
        raw = bytes.fromhex(op[2][1:])
        if tk == 'cont':
            setattr(x, 'f%d' % i, raw)
        else:
            x[i] = raw
    elif k == 'seth':
        i = int(op[1])
        val = _PREPARED.pop(id(op), None)
        if val is None:
            val = prepare_seth(t, op)
        if tk == 'cont':
            setattr(x, 'f%d' % i, val)
        else:
            x[i] = val
    elif k == 'setf':
        i = int(op[1])
        val = mk_val(op[2], op[3])
        if tk == 'cont':
            setattr(x, 'f%d' % i, val)
        else:
            x[i] = val
    elif k == 'cpy':
        # assign an existing (live, already hashed) sub-view of the same parent to another position
        i, j = int(op[1]), int(op[2])
        if tk == 'cont':
            setattr(x, 'f%d' % i, getattr(x, 'f%d' % j))
        else:
            x[i] = x[j]
    elif k == 'sets':
        i = int(op[1])
        vals = [elem_arg(t[1], q) for q in op[2][1:]]
        x[i:i + len(vals)] = vals
    elif k == 'chg':
        sel = int(op[1])
        opts = t[1:]
        if sel < 0:
            # a negative selector is not a selector: whatever value comes with it (here: a valid value of the option
            # that python's negative indexing would pick)
            o = opts[sel] if -len(opts) <= sel else None
            x.change(selector=sel, value=(None if o in (None, 'none') else elem_arg(o, op[2])))
        elif sel < len(opts) and opts[sel] != 'none':
            # (`none` as the value of a typed option: None itself is passed — only the constructor may default it)
            x.change(selector=sel, value=None if op[2] == 'none' else elem_arg(opts[sel], op[2]))
        elif sel < len(opts) and op[2] != 'none':
            x.change(selector=sel, value=mk_val_any(op[2]))
        else:
            x.change(selector=sel, value=None)
    else:
        raise ValueError(k)


def run_hist(t, v, ops, fresh=False):
    T = mk_type(t)
    out = []

    def put(k, val):
        out.append('%s=%s' % (k, val))
    try:
        x = mk_val(t, v)
    except Exception:
        return 'p.ctor=err'
    put('p.root0', E(lambda: x.hash_tree_root().hex()))
    elem2 = None
    if fresh and kind(t) in ('list', 'vec') and not isinstance(t[1], str) and kind(t[1]) == 'cont':
        # the sequence type is spelled again with a SECOND, separately evaluated element class of the same name and layout
        # (the cached type above exists already); hashed views of that second class are what `seth` stores
        try:
            elem2 = mk_type(t[1], True)
            x = (List if kind(t) == 'list' else Vector)[elem2, int(t[2])].view_from_backing(x.get_backing())
        except Exception:
            elem2 = None
    for k, op in enumerate(ops):
        old_backing = x.get_backing()
        if op[0] in ('seth', 'setv'):
            try:
                if op[0] == 'seth' and elem2 is not None:
                    pv_ = elem2.view_from_backing(mk_val(t[1], op[2]).get_backing())
                    pv_.hash_tree_root()
                    _PREPARED[id(op)] = pv_
                else:
                    _PREPARED[id(op)] = (prepare_seth if op[0] == 'seth' else prepare_setv)(t, op)   # built and hashed outside the measured section
            except Exception:
                pass
        try:
            (_, cost_op) = hashes_during(lambda: apply_op(t, x, op))
            put('%d.p' % k, 'ok')
        except Exception:
            cost_op = 0
            put('%d.p' % k, 'err')
        (r, cost_root) = hashes_during(lambda: E(lambda: x.hash_tree_root().hex()))
        put('%d.proot' % k, r)
        put('%d.pbytes' % k, E(lambda: x.encode_bytes().hex()))
        put('%d.pread' % k, E(lambda: to_val(t, x)))
        put('%d.piter' % k, E(lambda: to_val(t, x, 'roiter')))
        put('%d.pcost' % k, str(cost_op + cost_root))
        (_, again) = hashes_during(lambda: E(lambda: x.hash_tree_root().hex()))
        put('%d.pagain' % k, str(again))
        put('%d.pshare' % k, E(lambda: share_info(old_backing, x.get_backing())))
        put('%d.pleaves' % k, E(lambda: share_leaves(old_backing, x.get_backing())))
        put('%d.pshape' % k, E(lambda: shape_digest(x.get_backing())[:8].hex()))
        if fresh:
            put('%d.pfresh' % k, E(lambda: fresh_agreement(t, x)))
    return ';'.join(out)


def run_histd(t, ops):
    """a history on the DEFAULT-constructed value (whose backing shares one child object between the two sides of
    its pairs), with NOTHING hashed or read before the end"""
    T = mk_type(t)
    out = []
    x = T()
    for k, op in enumerate(ops):
        try:
            apply_op(t, x, op)
            out.append('%d.p=ok' % k)
        except Exception:
            out.append('%d.p=err' % k)
    out.append('end.read=%s' % E(lambda: to_val(t, x)))
    out.append('end.bytes=%s' % E(lambda: x.encode_bytes().hex()))
    out.append('end.root=%s' % E(lambda: x.hash_tree_root().hex()))
    return ';'.join(out)


def fresh_class_agreement(t, x):
    """x against an equal value whose type was built by evaluating the type expression again (distinct class objects):
    ==, !=, hash()"""
    y = mk_val_with(mk_type(t, True), t, parse(to_val(t, x)))
    return ''.join('1' if f else '0' for f in (x == y, not (x != y), hash(x) == hash(y), y in {x} if True else True))


def fresh_agreement(t, x):
    """the mutated view against a fresh value built from the content it shows by indexing: ==, roots,
    hash(), every other read route, object export (one flag each)"""
    content = to_val(t, x)
    y = mk_val(t, parse(content))
    flags = [x == y, not (x != y), x.hash_tree_root() == y.hash_tree_root(), hash(x) == hash(y),
             x.to_obj() == y.to_obj(), x.encode_bytes() == y.encode_bytes()]
    for route in ('iter', 'roiter', 'slice', 'zip'):
        flags.append(to_val(t, x, route) == content)
    return ''.join('1' if f else '0' for f in flags)


def shape_digest(n):
    """structural digest of a backing tree (shape and leaves); drift stream only"""
    import hashlib
    if n.is_leaf():
        return hashlib.sha256(b'L' + bytes(n.merkle_root())).digest()
    return hashlib.sha256(b'P' + shape_digest(n.get_left()) + shape_digest(n.get_right())).digest()


def share_info(a, b):
    """generalized indices of the FRESH pair nodes of the new tree b: positions where b has a pair node
    that is not the very same object as the node of the old tree a at that position"""
    fresh = []
    stack = [(a, b, 1)]
    while stack and len(fresh) < 400:
        x, y, g = stack.pop()
        if x is y or y.is_leaf():
            continue
        fresh.append(g)
        if x is not None and not x.is_leaf():
            stack.append((x.get_left(), y.get_left(), 2 * g))
            stack.append((x.get_right(), y.get_right(), 2 * g + 1))
        else:
            stack.append((None, y.get_left(), 2 * g))
            stack.append((None, y.get_right(), 2 * g + 1))
    return ','.join(str(g) for g in sorted(fresh))


def share_leaves(a, b):
    """generalized indices where the new tree b has a LEAF that is not the very same object as the node
    of the old tree a at that position (positions the old tree does not have are skipped)"""
    fresh = []
    stack = [(a, b, 1)]
    while stack and len(fresh) < 400:
        x, y, g = stack.pop()
        if x is y:
            continue
        if y.is_leaf():
            fresh.append(g)
            continue
        if not x.is_leaf():
            stack.append((x.get_left(), y.get_left(), 2 * g))
            stack.append((x.get_right(), y.get_right(), 2 * g + 1))
    return ','.join(str(g) for g in sorted(fresh))


def offpath_unshared(a, b, g):
    """number of siblings along the path to gindex g at which the new tree b does not hold the very same
    node object as the old tree a (as far as the old tree reaches)"""
    bad = 0
    for bit in bin(g)[3:]:
        if a.is_leaf() or b.is_leaf():
            break
        if bit == '0':
            bad += a.get_right() is not b.get_right()
            a, b = a.get_left(), b.get_left()
        else:
            bad += a.get_left() is not b.get_left()
            a, b = a.get_right(), b.get_right()
    return bad


def run_dec(t, pre, body, post):
    T = mk_type(t)
    out = []

    def put(k, val):
        out.append('%s=%s' % (k, val))
    pre, body, post = bytes.fromhex(pre[1:]), bytes.fromhex(body[1:]), bytes.fromhex(post[1:])
    s = io.BytesIO(pre + body + post)
    s.seek(len(pre))
    decb = ''
    if not post and not pre:
        # (decode_bytes runs FIRST, on whatever state the previous cases left behind)
        decb0 = E(lambda: to_val(t, T.decode_bytes(body)))
        decb = ';p.decb=%s' % decb0
    # the WORK of the decoder: the number of `deserialize` calls it makes (nested ones included; the 4-byte offset
    # reads, which go through uint32.deserialize, are not counted), whether it succeeds or not
    calls = [0]

    def prof(frame, event, arg):
        if event == 'call' and frame.f_code.co_name == 'deserialize':
            b_ = frame.f_back
            if b_ is None or b_.f_code.co_name != 'decode_offset':
                calls[0] += 1
    try:
        sys.setprofile(prof)
        try:
            y = T.deserialize(s, len(body))
        finally:
            sys.setprofile(None)
    except RecursionError:
        return 'p.dec=err;p.calls=%d' % calls[0] + decb
    except Exception:
        return 'p.dec=err;p.calls=%d' % calls[0] + decb
    put('p.calls', str(calls[0]))
    consumed = s.tell() - len(pre)
    put('p.dec', E(lambda: to_val(t, y)))
    put('p.consumed', str(consumed))
    put('p.bytes', E(lambda: y.encode_bytes().hex()))
    put('p.root', E(lambda: y.hash_tree_root().hex()))
    put('p.vbl', E(lambda: str(y.value_byte_length())))
    for route in ('iter', 'roiter'):
        put('p.read.' + route, E(lambda: to_val(t, y, route)))

    def again():
        z = T.decode_bytes(y.encode_bytes())
        return '%s/%s' % (z.hash_tree_root().hex(), z.encode_bytes().hex())
    put('p.again', E(again))
    if not post and not pre:
        put('p.decb', E(lambda: to_val(t, T.decode_bytes(body))))
        put('p.decb0', decb0)

    if not isinstance(t, str) and kind(t) in ('bl', 'bv'):
        # the SHAPE of the backing the bit-field decoder built directly from the chunks of the input (not only its root)
        def shape():
            def sh(n, budget):
                if budget[0] <= 0:
                    return '...'
                budget[0] -= 1
                if n.is_leaf():
                    return 'L' + bytes(n.merkle_root()).hex()
                return '(' + sh(n.get_left(), budget) + sh(n.get_right(), budget) + ')'
            return sh(y.get_backing(), [400])
        put('p.shape', E(shape))

    def eqcontent():
        z = mk_val(t, parse(to_val(t, y)))
        return '%d%d%d' % (int(y == z), int(y.hash_tree_root() == z.hash_tree_root()), int(hash(y) == hash(z)))
    put('p.eqcontent', E(eqcontent))

    def redec():
        # every decoded result is the caller's to mutate: mutate it (and some of its sub-values), decode the input again
        first = to_val(t, y)
        for st, sx in sub_values(t, y, 2)[:6]:
            if isinstance(sx, View) and not isinstance(sx, (BasicView, bytes)):
                mutate_somehow(st, sx)
        s2 = io.BytesIO(pre + body + post)
        s2.seek(len(pre))
        y2 = T.deserialize(s2, len(body))
        return '1' if to_val(t, y2) == first and y2.encode_bytes() == body else '0:%s' % to_val(t, y2)
    put('p.redec', E(redec))
    return ';'.join(out)


_zero_toggle = [0]


def mk_tree(s):
    if s[0] == 'L':
        return RootNode(bytes.fromhex(s[1]))
    if s[0] == 'Z':
        # every second zero summary carries an EQUAL BUT DISTINCT bytes object as its root (as a node loaded from a
        # store or produced by hashing would), the others the library's own zero-hash objects
        _zero_toggle[0] ^= 1
        if _zero_toggle[0]:
            return RootNode(bytes(bytearray(zero_node(int(s[1])).merkle_root())))
        return zero_node(int(s[1]))
    if s[0] == 'P':
        return PairNode(mk_tree(s[1]), mk_tree(s[2]))
    if s[0] == 'F':
        # the library's own filled subtree: both children of every pair are the SAME node object
        from remerkleable.tree import subtree_fill_to_depth
        return subtree_fill_to_depth(mk_tree(s[2]), int(s[1]))
    raise ValueError(s[0])


def node_str(n):
    return n.merkle_root().hex() + (':L' if n.is_leaf() else ':P')


def snapshot(n):
    """structural snapshot of a tree (to check that an operation left the original untouched)"""
    if n.is_leaf():
        return ('L', n.merkle_root())
    return ('P', snapshot(n.get_left()), snapshot(n.get_right()))


def run_tree(tr, cmds):
    n = mk_tree(tr)
    out = ['p.root=%s' % hexr(n)]
    snap = snapshot(n)
    for k, c in enumerate(cmds):
        op = c[0]
        if op == 'get':
            out.append('%d.get=%s' % (k, EC(lambda: node_str(n.getter(int(c[1]))))))
        elif op == 'set':
            g, e, v = int(c[1]), int(c[2]) != 0, mk_tree(c[3])
            probes = [int(q) for q in c[4:]]
            try:
                link = n.setter(g, expand=e) if e else n.setter(g)
                r = link(v)
                out.append('%d.set=%s' % (k, hexr(r)))
                out.append('%d.probes=%s' % (k, ','.join(EC(lambda: node_str(r.getter(q))) for q in probes)))
                # the very node at the position; a second application of the same link
                out.append('%d.same=%d' % (k, int(r.getter(g) is v)))
                v2 = RootNode(b'\x42' * 32)
                r2 = link(v2)
                out.append('%d.relink=%d' % (k, int(r2.getter(g) is v2 and r.getter(g) is v)))
            except NavigationError:
                out.append('%d.set=err:nav' % k)
            except Exception:
                out.append('%d.set=err' % k)
            out.append('%d.orig=%s' % (k, hexr(n)))
        elif op == 'summ':
            out.append('%d.summ=%s' % (k, EC(lambda: node_str(n.summarize_into(int(c[1]))()))))
        elif op in ('vleaves', 'vsumm'):
            import pyimpl_partial
            try:
                store = pyimpl_partial.Store(n)
                vroot = store.node(bytes(n.merkle_root()))
            except Exception as e:
                out.append('%d.%s=import-err:%s' % (k, op, type(e).__name__))
                continue
            if store.ambiguous:
                out.append('%d.%s=skip' % (k, op))
                continue
            if op == 'vleaves':
                out.append('%d.vleaves=%s' % (k, E(lambda: ','.join(hexr(x) for x in leaf_iter(vroot)))))
            else:
                res = [None]

                def vs():
                    res[0] = vroot.summarize_into(int(c[1]))()
                    return node_str(res[0])
                out.append('%d.vsumm=%s' % (k, EC(vs)))
                out.append('%d.vsprobes=%s' % (k, ','.join(EC(lambda q=q: node_str(res[0].getter(int(q)))) if res[0] is not None else 'err' for q in c[2:])))
        elif op == 'hcost':
            g, e, v = int(c[1]), int(c[2]) != 0, mk_tree(c[3])

            def hcost():
                base = mk_tree(tr)   # a fresh, unhashed copy of the tree
                _, c1 = hashes_during(lambda: base.merkle_root())
                _, c2 = hashes_during(lambda: base.merkle_root())
                try:
                    r = (base.setter(g, expand=True) if e else base.setter(g))(v)
                except NavigationError:
                    return '%d/%d/err' % (c1, c2)
                root, c3 = hashes_during(lambda: r.merkle_root())
                fresh = [x for x in share_info(base, r).split(',') if x]
                # fresh pairs of the result that do not belong to the inserted node
                vb = bin(g)[2:]
                own = [x for x in fresh if not (bin(int(x))[2:].startswith(vb))]
                hshare[0] = str(offpath_unshared(base, r, g))
                return '%d/%d/%d/%s/%d' % (c1, c2, c3, root.hex(), len(own))
            hshare = ['-']
            out.append('%d.hcost=%s' % (k, E(hcost)))
            out.append('%d.hshare=%s' % (k, hshare[0]))
        elif op == 'vseq':
            import pyimpl_partial
            try:
                store = pyimpl_partial.Store(n)
                vroot = store.node(bytes(n.merkle_root()))
            except Exception as e:
                out.append('%d.vseq=import-err:%s' % (k, type(e).__name__))
                continue
            res = []
            for q in c[1:]:
                if q[0] == 'get':
                    res.append(E(lambda: hexr(vroot.getter(int(q[1])))))
                else:
                    g, e, v = int(q[1]), int(q[2]) != 0, mk_tree(q[3])
                    res.append(E(lambda: hexr((vroot.setter(g, expand=True) if e else vroot.setter(g))(v))))
            out.append('%d.vseq=%s' % (k, ','.join(res)))
        elif op in ('vget', 'vset'):
            import pyimpl_partial
            try:
                store = pyimpl_partial.Store(n)
                vroot = store.node(bytes(n.merkle_root()))
            except Exception as e:
                out.append('%d.%s=import-err:%s' % (k, op, type(e).__name__))
                continue
            if op == 'vget':
                out.append('%d.vget=%s' % (k, EC(lambda: node_str(vroot.getter(int(c[1]))))))
            else:
                g, e, v = int(c[1]), int(c[2]) != 0, mk_tree(c[3])
                probes = [int(q) for q in c[4:]]
                try:
                    link = vroot.setter(g, expand=e) if e else vroot.setter(g)
                    r = link(v)
                    out.append('%d.vset=%s' % (k, hexr(r)))
                    out.append('%d.vprobes=%s' % (k, ','.join(EC(lambda: hexr(r.getter(q))) for q in probes)))
                except NavigationError:
                    out.append('%d.vset=err:nav' % k)
                except Exception:
                    out.append('%d.vset=err' % k)
        elif op == 'diff':
            b = mk_tree(c[1])
            out.append('%d.diff=%s' % (k, E(lambda: ','.join(node_str(x) + '/' + node_str(y) for x, y in get_diff(n, b)))))
        elif op in ('graft', 'diffw'):
            if op == 'graft':
                b = mk_tree(c[1])
            else:
                # the second tree is derived from the first by writes (so it shares every untouched node object)
                b = n
                for w in c[1:]:
                    try:
                        b = b.setter(int(w[1]), expand=bool(int(w[2])))(mk_tree(w[3]))
                    except Exception:
                        pass
                out.append('%d.diffw=%s' % (k, E(lambda: ','.join(node_str(x) + '/' + node_str(y) for x, y in get_diff(n, b)))))

            def graft():
                # graft the second members into the first tree at the positions where they were found
                def go(a, bb):
                    if a.merkle_root() != bb.merkle_root():
                        if a.is_leaf() or bb.is_leaf():
                            return [(1, bb)]
                        l = [(g, x) for g, x in go(a.get_left(), bb.get_left())]
                        r = [(g, x) for g, x in go(a.get_right(), bb.get_right())]
                        return [(('L', g), x) for g, x in l] + [(('R', g), x) for g, x in r]
                    return []
                # positions from our own walk, members from the library's get_diff (same order)
                members = [y for _, y in get_diff(n, b)]
                pos = go(n, b)
                assert len(members) == len(pos)
                cur = n
                for (p, _), m in zip(pos, members):
                    gi = 1
                    while p != 1:
                        gi = gi * 2 + (1 if p[0] == 'R' else 0)
                        p = p[1]
                    cur = cur.setter(gi)(m)
                return hexr(cur)
            out.append('%d.graft=%s' % (k, E(graft)))
            out.append('%d.target=%s' % (k, hexr(b)))
        elif op == 'leaves':
            def leaves():
                # an abandoned iteration and two interleaved ones first: each iteration must list the leaves of ITS tree
                it0 = leaf_iter(n)
                next(it0, None)
                a, b = [], []
                for x, y in zip(leaf_iter(n), leaf_iter(n)):
                    a.append(hexr(x))
                    b.append(hexr(y))
                full = [hexr(x) for x in leaf_iter(n)]
                if a != full or b != full:
                    return 'INTERLEAVED-ITERATIONS-DIFFER'
                return ','.join(full)
            out.append('%d.leaves=%s' % (k, E(leaves)))
        elif op == 'hist':
            from remerkleable.history import get_target_history
            g = int(c[1])
            trees = [n] + [mk_tree(x) for x in c[2:]]
            # (the keys are labels, not positions: here they DESCEND along the series; the output maps them back)
            labels = [1000 - 3 * i_ for i_ in range(len(trees))]
            back = {lab: i_ for i_, lab in enumerate(labels)}
            hist = list(zip(labels, trees))

            def hq(h, gi):
                return EC(lambda: ','.join('%d:%s' % (back[key], hexr(x)) for key, x in get_target_history(h, gi)))
            r1 = hq(list(hist), g)
            # the SAME history list queried for other positions first, then for g again: the answer does not depend on
            # earlier queries
            for g2 in (g ^ 1, g * 2, g >> 1, 3, g):
                if g2 >= 1:
                    hq(hist, g2)
            r2 = hq(hist, g)
            out.append('%d.hist=%s' % (k, r1 if r1 == r2 else 'DEPENDS-ON-EARLIER-QUERIES(%s|%s)' % (r1, r2)))
        elif op == 'piter':
            from remerkleable.readonly_iters import PackedIter
            T, depth, ln = mk_type(c[1]), int(c[2]), int(c[3])
            out.append('%d.piter=%s' % (k, E(lambda: ','.join(str(int(x)) for x in PackedIter(n, depth, ln, T)))))
        elif op == 'biter':
            from remerkleable.readonly_iters import BitfieldIter
            depth, ln = int(c[1]), int(c[2])
            out.append('%d.biter=%s' % (k, E(lambda: ''.join('1' if x else '0' for x in BitfieldIter(n, depth, ln)))))
        elif op == 'niter':
            depth, ln = int(c[1]), int(c[2])
            out.append('%d.niter=%s' % (k, E(lambda: ','.join(hexr(x) for x in NodeIter(n, depth, ln)))))
        else:
            raise ValueError(op)
    out.append('p.untouched=%d' % int(snapshot(n) == snap))
    return ';'.join(out)


def mk_key(t, k):
    # (the pseudo keys are built at run time: equal to the literals, but not the same string objects)
    if k == 'len':
        return ''.join(['__', 'len', '__'])
    if k == 'sel':
        return ''.join(['__', 'selector', '__'])
    if not isinstance(t, str) and t is not None and kind(t) == 'cont':
        return 'f%s' % k
    return int(k)


def nav_sexp_type(t, k):
    """sexp type reached from t by key k (mirror of the harness's own knowledge of the type tree)"""
    if t is None or isinstance(t, str):
        return None
    kd = kind(t)
    if k in ('len', 'sel'):
        return 'u256'
    i = int(k)
    if kd in ('vec', 'list'):
        return t[1]
    if kd == 'cont':
        return t[1:][i] if i < len(t) - 1 else None
    if kd in ('bv', 'bl'):
        return 'bool'
    if kd in ('Bv', 'Bl'):
        return 'u8'
    if kd == 'union':
        o = t[1:][i] if i < len(t) - 1 else None
        return None if o == 'none' else o
    return None


def run_path_m(t, v, keys):
    T, x, names = mk_method_named(t, v)
    out = []

    def build():
        p = T / names[int(keys[0])]
        tt = t[1:][int(keys[0])]
        for k in keys[1:]:
            p = p / mk_key(tt, k)
            tt = nav_sexp_type(tt, k)
        return p
    try:
        p = build()
    except Exception:
        return 'p.path=err'
    out.append('p.path=ok')
    g = E(lambda: str(int(p.gindex())))
    out.append('p.g=%s' % g)
    if g != 'err':
        out.append('p.node=%s' % E(lambda: hexr(x.get_backing().getter(int(g)))))
    out.append('p.dyn=%s' % E(lambda: str(int(p.gindex(x)))))

    def navv():
        y = p.navigate_view(x)
        if isinstance(y, View):
            return y.hash_tree_root().hex()
        return 'notaview:' + type(y).__name__
    out.append('p.navv=%s' % E(navv))
    return ';'.join(out)


METHOD_NAMES = ['copy', 'get', 'set', 'default', 'serialize', 'length', 'hash_tree_root', 'navigate_view']


def mk_method_named(t, v):
    """a container class whose fields carry the names of view methods (top level only), and the value v in it"""
    _cont_counter[0] += 1
    names = METHOD_NAMES[:len(t) - 1]
    T = type('M%d' % _cont_counter[0], (Container,), {'__annotations__': {nm: mk_type(ft) for nm, ft in zip(names, t[1:])}})
    x = T.view_from_backing(mk_val(t, v).get_backing())
    return T, x, names


def run_path(t, v, keys, method_names=False):
    if method_names:
        return run_path_m(t, v, keys)
    T = mk_type(t)
    out = []

    prefixes = []

    def build():
        p = None
        tt = t
        for k in keys:
            key = mk_key(tt, k)
            p = (T / key) if p is None else (p / key)
            prefixes.append((p, tt, k))
            tt = nav_sexp_type(tt, k)
        if p is None:
            from remerkleable.core import Path
            p = Path(T)       # the empty path: the anchor itself
        return p
    try:
        p = build()
    except Exception:
        return 'p.path=err'
    out.append('p.path=ok')
    g = E(lambda: str(int(p.gindex())))
    out.append('p.g=%s' % g)

    # the prefix path objects are kept: each is extended a second time with the same key and with the
    # first key of its target type, and must afterwards still address what it addressed
    def reuse():
        for i in range(len(prefixes) - 1):
            pa, _, _ = prefixes[i]
            _, tt, k = prefixes[i + 1]
            again = pa / mk_key(tt, k)
            if int(again.gindex()) != int(prefixes[i + 1][0].gindex()):
                return 'again%d' % i
            try:
                pa / mk_key(tt, 0)
            except Exception:
                pass
        return ','.join(str(int(q.gindex())) for q, _, _ in prefixes)
    out.append('p.pre=%s' % E(reuse))
    # concatenation: split the path in two and divide
    def concat():
        res = []
        for cut in range(1, len(keys)):
            tt = t
            pa = None
            for k in keys[:cut]:
                key = mk_key(tt, k)
                pa = (T / key) if pa is None else (pa / key)
                tt = nav_sexp_type(tt, k)
            TT = pa.navigate_type()
            pb = None
            for k in keys[cut:]:
                key = mk_key(tt, k)
                pb = (TT / key) if pb is None else (pb / key)
                tt = nav_sexp_type(tt, k)
            whole = (pa / pb).gindex()
            sep = rtree.concat_gindices([pa.gindex(), pb.gindex()])
            res.append(int(whole == sep == int(g)))
        return ''.join(map(str, res))
    if g != 'err' and len(keys) > 1:
        out.append('p.concat=%s' % E(concat))
    if v is not None:
        x = mk_val(t, v)
        if g != 'err':
            out.append('p.node=%s' % E(lambda: hexr(x.get_backing().getter(int(g)))))
        # value-dependent index and view navigation: whenever returned they must agree
        def dyn():
            return str(int(p.gindex(x)))
        out.append('p.dyn=%s' % E(dyn))

        def navv():
            y = p.navigate_view(x)
            if isinstance(y, View):
                return y.hash_tree_root().hex()
            return 'none'
        out.append('p.navv=%s' % E(navv))
    return ';'.join(out)


def mk_operand(w, v):
    v = int(v)
    if w == '-':
        return v
    return UINT_BY_W[int(w)](v)


PYOPS = {
    'add': lambda a, b: a + b, 'sub': lambda a, b: a - b, 'mul': lambda a, b: a * b,
    'floordiv': lambda a, b: a // b, 'mod': lambda a, b: a % b, 'pow': lambda a, b: a ** b,
    'lshift': lambda a, b: a << b, 'rshift': lambda a, b: a >> b, 'and': lambda a, b: a & b,
    'or': lambda a, b: a | b, 'xor': lambda a, b: a ^ b, 'truediv': lambda a, b: a / b,
}


def res_str(r):
    if isinstance(r, uint):
        return '%d:%d' % (int(r), r.type_byte_length())
    return 'plain'   # silently widened to a plain number: never acceptable


_SUBCLS = {}


def subclass_of(w):
    if w not in _SUBCLS:
        from remerkleable.basic import byte
        _SUBCLS[w] = byte if w == 1 else type('Slot%d' % w, (UINT_BY_W[w],), {})
    return _SUBCLS[w]


def run_uop(op, xw, xv, yw, yv):
    try:
        x = mk_operand(xw, xv)
        y = mk_operand(yw, yv)
        # client code subclasses the integer types (`class Slot(uint64)`, the library's own `byte`): same width, same
        # arithmetic, whichever side the subclass instance is on
        if xw != '-' and (int(xv) + int(yv)) % 3 == 0:
            x = subclass_of(int(xw))(int(xv))
        elif yw != '-' and (int(xv) + int(yv)) % 3 == 1 and (int(xv) * 7 + int(yv)) % 2 == 0:
            y = subclass_of(int(yw))(int(yv))
        # `x op x`: both operands are ONE object (`acc += acc`, `x * x`)
        if xw != '-' and xw == yw and int(xv) == int(yv) and type(x) is type(y):
            y = x
    except Exception:
        return 'p.r=badoperand'
    # "a value of the uint operand's own type": the class of the (left-most) uint operand, a subclass included
    own = type(x) if isinstance(x, uint) else (type(y) if isinstance(y, uint) else None)

    def run():
        r = PYOPS[op](x, y)
        if isinstance(r, uint) and own is not None and type(r) is not own:
            return 'wrongclass:%s' % type(r).__name__
        return res_str(r)
    return 'p.r=%s' % E(run)


def own_type_res(a, f):
    """result text of the unary operation f on the uint a; the result must be of a's own class"""
    r = f(a)
    if isinstance(r, uint) and type(r) is not type(a):
        return 'wrongclass:%s' % type(r).__name__
    return res_str(r)


def mk_uint_maybe_sub(w, v):
    """every third time an instance of a subclass (`byte`, `class Slot(uintN)`) — created after the parent class was used"""
    w, v = int(w), int(v)
    return subclass_of(w)(v) if v % 3 == 0 else UINT_BY_W[w](v)


_BE = [None]


def be_query(t, v):
    """ask the big-endian child process (harness/be_child.py; started on first use)"""
    import subprocess
    if _BE[0] is None:
        _BE[0] = subprocess.Popen([sys.executable, '-B', os.path.join(os.path.dirname(os.path.abspath(__file__)), 'be_child.py')],
                                  stdin=subprocess.PIPE, stdout=subprocess.PIPE, text=True)
    ch = _BE[0]
    try:
        ch.stdin.write(show(t) + '\t' + show(v) + '\n')
        ch.stdin.flush()
        ans = ch.stdout.readline().strip()
    except Exception:
        ans = ''
    return ans or 'childcrash'


def run_case(line):
    c = parse(line)
    k = c[0]
    if k == 'val':
        return run_val(c[1], c[2])
    if k == 'type':
        return run_type(c[1])
    if k == 'tsize':
        return run_tsize(c[1])
    if k == 'inh':
        return run_inh(c[1], c[2], c[3])
    if k == 'be':
        return 'p.be=%s' % be_query(c[1], c[2])
    if k == 'tnav':
        return run_tnav(c[1])
    if k == 'hist':
        return run_hist(c[1], c[2], c[3:])
    if k == 'histf':
        return run_hist(c[1], c[2], c[3:], fresh=True)
    if k == 'histd':
        return run_histd(c[1], c[2:])
    if k == 'dec':
        return run_dec(c[1], c[2], c[3], c[4])
    if k == 'tree':
        return run_tree(c[1], c[2:])
    if k == 'path':
        return run_path(c[1], None, c[2:])
    if k == 'pathv':
        return run_path(c[1], c[2], c[3:])
    if k == 'pathm':
        return run_path(c[1], c[2], c[3:], method_names=True)
    if k == 'uop':
        return run_uop(*c[1:])
    if k == 'uun':
        def un():
            a = mk_uint_maybe_sub(c[2], c[3])
            return own_type_res(a, {'neg': lambda v: -v, 'pos': lambda v: +v, 'abs': abs}[c[1]])
        return 'p.r=%s' % E(un)
    if k == 'upow3':
        # three-argument power; the modulus is a plain int or (every second time, when it fits) a uint of another width
        def pow3():
            a = UINT_BY_W[int(c[1])](int(c[2]))
            m = int(c[4])
            if 0 < m < 256 and int(c[3]) % 2:
                m = UINT_BY_W[2 if int(c[1]) != 2 else 4](m)
            r = pow(a, int(c[3]), m)
            if not isinstance(r, uint) or r.type_byte_length() != int(c[1]):
                return 'plain'
            return str(int(r))
        return 'p.r=%s' % E(pow3)
    if k == 'urefl':
        def refl():
            x = UINT_BY_W[int(c[2])](int(c[3]))
            y = UINT_BY_W[int(c[4])](int(c[5]))
            return res_str(getattr(y, '__r%s__' % c[1])(x))
        try:
            UINT_BY_W[int(c[2])](int(c[3])), UINT_BY_W[int(c[4])](int(c[5]))
        except Exception:
            return 'p.r=badoperand'
        return 'p.r=%s' % E(refl)
    if k == 'uinv':
        return 'p.r=%s' % E(lambda: own_type_res(mk_uint_maybe_sub(c[1], c[2]), lambda v: ~v))
    if k == 'uctorw':
        return 'p.r=%s' % E(lambda: str(int(UINT_BY_W[int(c[1])](UINT_BY_W[int(c[2])](int(c[3]))))))
    if k == 'uctor':
        return 'p.r=%s' % E(lambda: str(int(UINT_BY_W[int(c[1])](int(c[2])))))
    if k == 'ctor':
        return run_ctor(c[1], c[2], c[3])
    if k == 'eq2':
        def eq2():
            x, y = mk_val(c[1], c[2]), mk_val(c[1], c[3])
            return '%d%d%d%d' % (int(x == y), int(not (x != y)), int(hash(x) == hash(y)),
                                 int(x.hash_tree_root() == y.hash_tree_root()))
        return 'p.eq2=%s' % E(eq2)
    if k == 'zh':
        from remerkleable.settings import zero_hashes
        return 'p.zh=%s' % zero_hashes[int(c[1])].hex()
    import pyimpl_store
    return pyimpl_store.run_case(c)


class CaseTimeout(BaseException):
    pass


def _on_alarm(signum, frame):
    raise CaseTimeout()


def main():
    import signal
    signal.signal(signal.SIGALRM, _on_alarm)
    limit = int(os.environ.get('RMK_CASE_TIMEOUT', '30'))
    for line in sys.stdin:
        line = line.strip()
        if not line:
            print('')
            continue
        try:
            signal.alarm(limit)
            try:
                out = run_case(line)
            finally:
                signal.alarm(0)
            print(out)
        except CaseTimeout:
            print('p.timeout=%d' % limit)
        except MemoryError:
            print('p.timeout=memory')
        except Exception as e:  # harness failure, not an observation
            print('HARNESS-ERROR %s: %s' % (type(e).__name__, str(e).replace('\n', ' ')[:200]))
        sys.stdout.flush()


if __name__ == '__main__':
    main()
