"""Python-side executors for partial trees (C17) and virtual trees (C20)."""
import pyimpl as P
from pyimpl import mk_type, mk_val, to_val, kind, apply_op, hexr
from remerkleable.tree import PairNode, RootNode, NavigationError
from sexp import show


def status(f):
    """run f; 'ok:<result>' or the error class relevant to C17 / C20"""
    try:
        return 'ok:' + str(f())
    except NavigationError:
        return 'err:nav'
    except IndexError:
        return 'err:index'
    except RecursionError:
        return 'err'
    except Exception as e:
        return 'err:' + type(e).__name__


def read_elem(t, view, i):
    k = kind(t)
    if k in ('vec', 'list'):
        return to_val(t[1], view[i])
    if k == 'cont':
        return to_val(t[1:][i], getattr(view, 'f%d' % i))
    if k in ('bv', 'bl'):
        return '1' if view[i] else '0'
    raise ValueError("no elements")


def one_op(t, view, k, op, out, prefix, forks=None):
    """run one op; returns the status string that was appended"""
    if True:
        o = op[0]
        if o == 'read':
            out.append('%d.%s=%s' % (k, prefix, status(lambda: to_val(t, view))))
        elif o == 'elem':
            out.append('%d.%s=%s' % (k, prefix, status(lambda: read_elem(t, view, int(op[1])))))
        elif o == 'slice':
            def sl():
                # an in-range slice: both bounds are reduced modulo the current length
                ln = len(view)
                a = int(op[1]) % (ln + 1)
                b = a + int(op[2]) % (ln - a + 1)
                items = view[a:b]
                if kind(t) in ('bv', 'bl'):
                    return '%d:%d:' % (a, b) + ','.join('1' if x else '0' for x in items)
                return '%d:%d:' % (a, b) + ','.join(to_val(t[1], x) for x in items)
            out.append('%d.%s=%s' % (k, prefix, status(sl)))
        elif o == 'obj':
            import json
            out.append('%d.%s=%s' % (k, prefix, status(lambda: json.dumps(view.to_obj(), separators=(',', ':')))))
        elif o == 'childroot':
            def childroot():
                # the child VIEW is obtained and asked for its root: nothing below the child's root is needed
                from pyimpl_store import child_of
                ct, c = child_of(t, view, int(op[1]))
                return c.hash_tree_root().hex()
            out.append('%d.%s=%s' % (k, prefix, status(childroot)))
        elif o in ('iterk', 'roiterk'):
            def iterk():
                # a consumer that stops early: only the first items of a plain (or read-only) iteration are asked for
                # (each item is converted as it arrives: the read-only iterator may hand out one re-used view)
                import itertools
                it = iter(view) if o == 'iterk' else view.readonly_iter()
                if kind(t) in ('bv', 'bl'):
                    return ','.join('1' if x else '0' for x in itertools.islice(it, int(op[1])))
                return ','.join(to_val(t[1], x) for x in itertools.islice(it, int(op[1])))
            out.append('%d.%s=%s' % (k, prefix, status(iterk)))
        elif o == 'sub':
            def sub():
                from pyimpl_store import child_of
                ct, c = child_of(t, view, int(op[1]))
                if isinstance(ct, str) or kind(ct) in ('Bv', 'Bl') or c is None:
                    raise ValueError("not a mutable child view")
                apply_op(ct, c, op[2])
                return view.hash_tree_root().hex()
            out.append('%d.%s=%s' % (k, prefix, status(sub)))
        elif o == 'iter':
            out.append('%d.%s=%s' % (k, prefix, status(lambda: to_val(t, view, 'roiter'))))
        elif o == 'nav':
            out.append('%d.%s=%s' % (k, prefix, status(lambda: hexr(view.get_backing().getter(int(op[1]))))))
        elif o == 'fork':
            forks.append(type(view).view_from_backing(view.get_backing()))
            out.append('%d.%s=ok:%d' % (k, prefix, len(forks) - 1))
        elif o == 'fread':
            if forks:
                f = forks[int(op[1]) % len(forks)]
                out.append('%d.%s=%s' % (k, prefix, status(lambda: to_val(t, f))))
            else:
                out.append('%d.%s=err' % (k, prefix))
        elif o == 'eqother':
            def eqother():
                # a value of the same type spelled separately (other class objects) that holds nothing but the root, compared
                # with this view: equality is a comparison of roots
                T2 = mk_type(t, fresh=True)
                other = T2.view_from_backing(RootNode(bytes(view.hash_tree_root())))
                return (other == view) and (view == other)
            out.append('%d.%s=%s' % (k, prefix, status(eqother)))
        elif o == 'eqself':
            out.append('%d.%s=%s' % (k, prefix, status(lambda: view == view.copy())))
        elif o == 'vbl':
            out.append('%d.%s=%s' % (k, prefix, status(lambda: view.value_byte_length())))
        elif o == 'len':
            out.append('%d.%s=%s' % (k, prefix, status(lambda: len(view))))
        elif o == 'bytes':
            out.append('%d.%s=%s' % (k, prefix, status(lambda: view.encode_bytes().hex())))
        elif o == 'root':
            out.append('%d.%s=%s' % (k, prefix, status(lambda: view.hash_tree_root().hex())))
        else:
            old = view.get_backing()

            def mut():
                apply_op(t, view, op)
                return view.hash_tree_root().hex()
            out.append('%d.%s=%s' % (k, prefix, status(mut)))
            if prefix == 'p' and o in ('set', 'app', 'pop', 'chg'):
                res = out[-1].split('=', 1)[1]
                out.insert(len(out) - 1, '%d.vshare=%s' % (k, status(lambda: refetched(old, view.get_backing()))))
                return res


    return out[-1].split('=', 1)[1]


def run_ops(t, view, ops, out, prefix):
    forks = []
    for k, op in enumerate(ops):
        one_op(t, view, k, op, out, prefix, forks)


def is_atomic_mut(op):
    return op[0] in ('set', 'app', 'pop', 'chg', 'cpy', 'setf', 'seth', 'setb', 'setc', 'setv', 'setn', 'sub')


def refetched(old, new):
    """positions at which the new backing holds a lazily loaded node that is not the very object the old backing
    holds there although it has the same root (a sibling that was fetched again instead of being shared)"""
    try:
        from remerkleable.virtual import VirtualNode
    except Exception:
        return 0
    bad = 0
    stack = [(old, new)]
    while stack:
        x, y = stack.pop()
        if x is y:
            continue
        if isinstance(x, VirtualNode) and isinstance(y, VirtualNode) and x.merkle_root() == y.merkle_root():
            bad += 1
            continue
        if x.is_leaf() or y.is_leaf():
            continue
        stack.append((x.get_left(), y.get_left()))
        stack.append((x.get_right(), y.get_right()))
    return bad


def run_partial(t, v, positions, ops, virtual=False):
    T = mk_type(t)
    try:
        x = mk_val(t, v)
    except Exception:
        return 'p.ctor=err'
    b = x.get_backing()
    done = []
    for g in positions[1:] if positions and positions[0] == 'pos' else positions:
        try:
            b = b.summarize_into(int(g))()
            done.append('1')
        except Exception:
            done.append('0')
    out = ['p.summ=%s' % ''.join(done), 'p.root=%s' % hexr(b), 'p.croot=%s' % hexr(x.get_backing())]
    if virtual:
        # the PARTIAL tree served lazily by a root-keyed source (`p`) next to the materialised partial tree (`c`)
        try:
            import remerkleable.virtual  # noqa: F401
        except Exception as e:
            return 'p.import=err:%s' % type(e).__name__
        store = Store(b)
        if store.ambiguous:
            return 'p.skip=ambiguous'
        y = T.view_from_backing(store.node(bytes(b.merkle_root())))
        z = T.view_from_backing(b)
        fy, fz = [], []
        for k, op in enumerate(ops):
            one_op(t, y, k, op, out, 'v', fy)
            one_op(t, z, k, op, out, 'c', fz)
        return ';'.join(out)
    y = T.view_from_backing(b)
    # the same ops on the complete tree, in lockstep: a mutation (other than a slice assignment) that fails on
    # the partial tree is not applied to the complete one either
    z = T.view_from_backing(x.get_backing())
    fy, fz = [], []
    for k, op in enumerate(ops):
        r = one_op(t, y, k, op, out, 'p', fy)
        if is_atomic_mut(op) and not r.startswith('ok'):
            out.append('%d.c=skip' % k)
        else:
            one_op(t, z, k, op, out, 'c', fz)
    return ';'.join(out)


# ------------------------------------------------------------------------------------------------
class _Proxy:
    """per-node view of the root-keyed store: logs which child a node asked for"""
    __slots__ = ('store', 'nid')

    def __init__(self, store, nid):
        self.store = store
        self.nid = nid

    def get_left(self, key):
        r = self.store.child(key, 0)      # raises for a leaf key: an unanswered query is not memoised
        self.store.log.append((self.nid, 'L'))
        return r

    def get_right(self, key):
        r = self.store.child(key, 1)
        self.store.log.append((self.nid, 'R'))
        return r

    def is_leaf(self, key):
        self.store.log.append((self.nid, 'leaf?'))
        return key not in self.store.pairs


class Store:
    def __init__(self, node):
        self.pairs = {}
        self.leaves = set()
        self.log = []
        self.next_id = 0
        st = [node]
        seen = set()
        while st:
            n = st.pop()
            if id(n) in seen:
                continue
            seen.add(id(n))
            # (the store holds its own copies of the roots: equal to, but not the same objects as, the library's)
            cp = lambda b: bytes(bytearray(b))
            if n.is_leaf():
                self.leaves.add(cp(n.merkle_root()))
            else:
                self.pairs[cp(n.merkle_root())] = (cp(n.get_left().merkle_root()), cp(n.get_right().merkle_root()))
                st.append(n.get_left())
                st.append(n.get_right())
        self.ambiguous = bool(self.leaves & set(self.pairs))

    def node(self, root):
        from remerkleable.virtual import VirtualNode
        self.next_id += 1
        return VirtualNode(root, _Proxy(self, self.next_id))

    def child(self, key, which):
        if key not in self.pairs:
            raise NavigationError("store: no children for a leaf key")
        return self.node(self.pairs[key][which])


def run_virt(t, v, ops):
    T = mk_type(t)
    try:
        x = mk_val(t, v)
    except Exception:
        return 'p.ctor=err'
    try:
        import remerkleable.virtual  # noqa: F401
    except Exception as e:
        return 'p.import=err:%s' % type(e).__name__
    b = x.get_backing()
    store = Store(b)
    if store.ambiguous:
        return 'p.skip=ambiguous'
    out = ['p.import=ok']
    vroot = store.node(bytes(b.merkle_root()))
    y = T.view_from_backing(vroot)
    z = T.view_from_backing(b)
    out.append('p.root=%s/%s' % (status(lambda: y.hash_tree_root().hex()), hexr(b)))

    def vcost():
        # a view re-created over the same lazily loaded backing: its root is known, nothing is hashed
        y2 = T.view_from_backing(vroot)
        _, c1 = P.hashes_during(lambda: y2.hash_tree_root())
        return '%d/%d' % (c1, int(y2.get_backing() is vroot))
    out.append('p.vcost=%s' % status(vcost))
    run_ops(t, y, ops, out, 'p')
    run_ops(t, z, ops, out, 'c')
    # each node asked the source for a given thing at most once
    counts = {}
    for e in store.log:
        counts[e] = counts.get(e, 0) + 1
    out.append('p.maxask=%d' % (max(counts.values()) if counts else 0))
    out.append('p.asks=%d' % len(store.log))
    return ';'.join(out)
