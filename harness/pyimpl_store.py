"""Python-side executors for the store (held child views, copies, snapshots), partial-tree and
virtual-tree scenarios."""
import hashlib
import pyimpl as P
from pyimpl import mk_type, mk_val, to_val, kind, E, EC, apply_op, hexr
from remerkleable.tree import PairNode, RootNode, NavigationError
from sexp import show


def fresh_root(node, memo=None):
    """root recomputed from the leaves with our own hashing (ignores every cached root), so that an
    in-place change of a node or of a leaf's bytes shows up"""
    if memo is None:
        memo = {}
    k = id(node)
    if k in memo:
        return memo[k]
    if node.is_leaf():
        r = bytes(node.merkle_root())
    else:
        r = hashlib.sha256(fresh_root(node.get_left(), memo) + fresh_root(node.get_right(), memo)).digest()
    memo[k] = r
    return r


def child_of(t, view, key, via_slice=False, via_iter=False, via_nav=False, via_rev=False):
    k = kind(t)
    if via_rev and k in ('vec', 'list'):
        # the child is one of the views handed out by reversed(parent)
        items = list(reversed(view))
        return t[1], items[len(items) - 1 - key]
    if via_nav and k in ('vec', 'list', 'cont'):
        # the child is obtained through the path-navigation API
        sub = t[1] if k != 'cont' else t[1:][key]
        return sub, view.navigate_view(key if k != 'cont' else 'f%d' % key)
    if k in ('vec', 'list'):
        if via_iter:
            # the child is one of the views handed out by iterating the parent to the end
            return t[1], list(view)[key]
        if via_slice:
            # the child is taken out of a slice of (up to) two elements
            return t[1], view[key:min(key + 2, len(view))][0]
        return t[1], view[key]
    if k == 'cont':
        return t[1:][key], getattr(view, 'f%d' % key)
    if k == 'union':
        sel = view.selector()
        return t[1:][sel], view.value()
    raise ValueError("no child views")


def view_str(t, v):
    return '%s:%s' % (E(lambda: v.hash_tree_root().hex()), E(lambda: v.encode_bytes().hex()))


def snap_str(t, node):
    T = mk_type(t)

    def f():
        r = fresh_root(node).hex()
        cached = node.merkle_root().hex()
        if r != cached:
            return 'STALE(%s!=%s)' % (cached[:8], r[:8])
        return '%s:%s' % (r, T.view_from_backing(node).encode_bytes().hex())
    return E(f)


def run_store(t, v, ops, lazy=False, virtual=False):
    try:
        x = mk_val(t, v)
    except Exception:
        return 'p.ctor=err'
    if virtual:
        # the root view's backing is served lazily by a root-keyed source
        import pyimpl_partial
        try:
            import remerkleable.virtual  # noqa: F401
        except Exception as e:
            return 'p.import=err:%s' % type(e).__name__
        st_ = pyimpl_partial.Store(x.get_backing())
        if st_.ambiguous:
            return 'p.skip=ambiguous'
        x = type(x).view_from_backing(st_.node(bytes(x.get_backing().merkle_root())))
    views = [(t, x)]
    parent = {0: None}
    hook_key = {}
    snaps = []
    out = []
    for k, op in enumerate(ops):
        status = 'ok'
        cost = None
        refreshed_ = None
        # everything is hashed before the op (so that the op's own hashing cost is visible); in the lazy
        # variant nothing is hashed or read until the very end
        if not lazy:
            for vt, vv in views:
                E(lambda: vv.hash_tree_root())
        try:
            o = op[0]
            if o in ('child', 'childs', 'childi', 'childn', 'childr'):
                pt, pv = views[int(op[1])]
                ct, cv = child_of(pt, pv, int(op[2]), via_slice=(o == 'childs'), via_iter=(o == 'childi'), via_nav=(o == 'childn'), via_rev=(o == 'childr'))
                if isinstance(ct, str) or kind(ct) in ('Bv', 'Bl') or cv is None:
                    raise ValueError("not a mutable child view")
                parent[len(views)] = int(op[1])
                hook_key[len(views)] = int(op[2])
                views.append((ct, cv))
            elif o in ('mut', 'bad'):
                vt, vv = views[int(op[1])]
                top = int(op[1])
                while parent.get(top) is not None:
                    top = parent[top]

                old_top = views[top][1].get_backing()
                old_self = vv.get_backing()
                # every enclosing view on the way up, its backing before the op, and the generalized index (in ITS tree) of the
                # position its child writes back to
                links = []
                try:
                    q = int(op[1])
                    while parent.get(q) is not None:
                        pq = parent[q]
                        pt_, pv_ = views[pq]
                        kq = hook_key[q]
                        gk = 2 if kind(pt_) == 'union' else int(type(pv_).key_to_static_gindex('f%d' % kq if kind(pt_) == 'cont' else kq))
                        links.append((pq, pv_.get_backing(), gk))
                        q = pq
                except Exception:
                    links = None
                def run():
                    apply_op(vt, vv, op[2])
                    if not lazy:
                        views[top][1].hash_tree_root()
                _, cost = P.hashes_during(run)
                if not lazy and o == 'mut' and links is not None:
                    # (1) in every enclosing view: the siblings along the path to the position its child wrote back to are the
                    #     very objects they were in that view's previous backing; (2) in the mutated view itself, for a write
                    #     of one basic value: everything off the changed chunk's path
                    refreshed_ = sum(P.offpath_unshared(ob, views[pq][1].get_backing(), gk) for pq, ob, gk in links)
                    if writes_one_chunk(vt, op[2]):
                        refreshed_ += refreshed(old_self, vv.get_backing())
            elif o == 'assign':
                pt, pv = views[int(op[1])]
                ct, cv = views[int(op[3])]
                if kind(pt) == 'cont':
                    setattr(pv, 'f%d' % int(op[2]), cv)
                else:
                    pv[int(op[2])] = cv
            elif o == 'mutv':
                # view.f_k.value().<op>: the union view and its value view are temporaries (nothing else refers to them)
                import gc
                pt, pv = views[int(op[1])]
                ut, uv = child_of(pt, pv, int(op[2]))
                if kind(ut) != 'union':
                    raise ValueError("not a union")
                vt, vv = child_of(ut, uv, 0)
                if isinstance(vt, str) or kind(vt) in ('Bv', 'Bl') or vv is None:
                    raise ValueError("not a mutable value view")
                del uv
                gc.collect()
                apply_op(vt, vv, op[4])
            elif o == 'mutt':
                # view.a.b.c.<op> — every view on the way is a temporary; route `path`: the target is obtained with a Path
                import gc
                pt, pv = views[int(op[1])]
                keys = [int(q) for q in op[4]]
                if op[3] == 'path':
                    from remerkleable.core import Path
                    pth = Path(type(pv))
                    tt = pt
                    for q in keys:
                        pth = pth / P.mk_key(tt, q)
                        tt = P.nav_sexp_type(tt, q)
                    tv = pth.navigate_view(pv)
                else:
                    tt, tv = pt, pv
                    for q in keys:
                        tt, tv = child_of(tt, tv, q)
                if isinstance(tt, str) or kind(tt) in ('Bv', 'Bl') or tv is None:
                    raise ValueError("not a mutable view")
                gc.collect()
                apply_op(tt, tv, op[5])
            elif o == 'tmpsum':
                # a throw-away copy of the view gets one element replaced by a SUMMARY-backed view of the same element
                # (same root, no content below it): nothing that is held may change
                try:
                    pt, pv = views[int(op[1])]
                    tmp = pv.copy()
                    ct, cv = child_of(pt, tmp, int(op[2]))
                    sv = type(cv).view_from_backing(RootNode(bytes(cv.get_backing().merkle_root())))
                    if kind(pt) == 'cont':
                        setattr(tmp, 'f%d' % int(op[2]), sv)
                    elif kind(pt) == 'union':
                        tmp.change(selector=tmp.selector(), value=sv)
                    else:
                        tmp[int(op[2])] = sv
                    tmp.hash_tree_root()
                except Exception:
                    pass
                # ... and the view's own backing is summarised at a few positions through the public API, the result
                # being discarded (a partial tree is a NEW tree)
                for g_ in (2, 3, 4, 5, 6, 7, 2 * (2 + int(op[2])), 4 + int(op[2])):
                    try:
                        views[int(op[1])][1].get_backing().summarize_into(g_)().merkle_root()
                    except Exception:
                        pass
            elif o == 'copy':
                vt, vv = views[int(op[1])]
                parent[len(views)] = None
                views.append((vt, vv.copy()))
            elif o == 'snap':
                vt, vv = views[int(op[1])]
                snaps.append((vt, vv.get_backing()))
            else:
                raise ValueError(o)
        except Exception:
            status = 'err'
        out.append('%d.p=%s' % (k, status))
        if lazy:
            continue
        if cost is not None and status == 'ok':
            out.append('%d.cost=%d' % (k, cost))
        if refreshed_ is not None and status == 'ok':
            out.append('%d.refreshed=%d' % (k, refreshed_))
        out.append('%d.views=%s' % (k, ','.join(view_str(vt, vv) for vt, vv in views)))
        out.append('%d.snaps=%s' % (k, ','.join(snap_str(st, sn) for st, sn in snaps)))
        out.append('%d.hashes=%s' % (k, ''.join(hash_ok(vv) for vt, vv in views)))
        out.append('%d.reads=%s' % (k, ''.join(reads_ok(vt, vv) for vt, vv in views)))
        out.append('%d.vbl=%s' % (k, ''.join(E(lambda: str(int(vv.value_byte_length() == len(vv.encode_bytes())))) for vt, vv in views)))
    if lazy:
        # snapshots first (their roots have never been computed), then the views
        out.append('end.snaps=%s' % ','.join(snap_str(st, sn) for st, sn in snaps))
        out.append('end.views=%s' % ','.join(view_str(vt, vv) for vt, vv in views))
    return ';'.join(out)


def writes_one_chunk(vt, op):
    """a write of ONE basic value / bit (nothing below the written chunk is new)"""
    if op[0] != 'set':
        return False
    k = kind(vt)
    if k in ('bv', 'bl'):
        return True
    if k in ('vec', 'list'):
        return isinstance(vt[1], str)
    if k == 'cont':
        i = int(op[1])
        return i < len(vt) - 1 and isinstance(vt[1 + i], str)
    return False


def refreshed(old, new):
    """positions off the changed path at which the new backing holds a node with the same root as, but not the very object
    of, the old backing (descending only where the roots differ: along the changed path)"""
    bad = 0
    stack = [(old, new)]
    while stack:
        a, b = stack.pop()
        if a is b:
            continue
        if bytes(a.merkle_root()) == bytes(b.merkle_root()):
            if a is not old:
                bad += 1        # (at the top: a write of the value that was there already)
            continue
        if a.is_leaf() or b.is_leaf():
            continue
        stack.append((a.get_left(), b.get_left()))
        stack.append((a.get_right(), b.get_right()))
    return bad


def reads_ok(t, view):
    """indexing and iteration of a held view against the content of its own encoding"""
    try:
        want = to_val(t, type(view).decode_bytes(view.encode_bytes()))
        return '1' if to_val(t, view, 'index') == want and to_val(t, view, 'iter') == want else '0'
    except Exception:
        return 'E'


def hash_ok(view):
    """hash() of a held view against hash() of a brand-new view object over the same backing"""
    try:
        return '1' if hash(view) == hash(type(view).view_from_backing(view.get_backing())) else '0'
    except Exception:
        return 'E'


def run_case(c):
    k = c[0]
    if k == 'store':
        return run_store(c[1], c[2], c[3:])
    if k == 'storel':
        return run_store(c[1], c[2], c[3:], lazy=True)
    if k == 'storev':
        return run_store(c[1], c[2], c[3:], virtual=True)
    if k == 'storevl':
        return run_store(c[1], c[2], c[3:], lazy=True, virtual=True)
    if k == 'partial':
        import pyimpl_partial
        return pyimpl_partial.run_partial(c[1], c[2], c[3], c[4:])
    if k == 'virt':
        import pyimpl_partial
        return pyimpl_partial.run_virt(c[1], c[2], c[3:])
    if k == 'virtp':
        import pyimpl_partial
        return pyimpl_partial.run_partial(c[1], c[2], c[3], c[4:], virtual=True)
    raise ValueError('unknown case kind ' + k)
