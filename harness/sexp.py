"""S-expression helpers shared by the generator, the Python-side executor and the checker."""


def parse(s):
    toks = s.replace('(', ' ( ').replace(')', ' ) ').split()
    pos = 0

    def rd():
        nonlocal pos
        t = toks[pos]
        pos += 1
        if t == '(':
            out = []
            while toks[pos] != ')':
                out.append(rd())
            pos += 1
            return out
        return t
    out = rd()
    if pos != len(toks):
        raise ValueError("trailing tokens")
    return out


def show(x):
    if isinstance(x, (list, tuple)):
        return '(' + ' '.join(show(y) for y in x) + ')'
    return str(x)
