import Rmk.Proofs.VirtualLaws
namespace Rmk.VirtualLaws
open Rmk Rmk.Virtual

theorem nav_known_L (src : Src) (bs : List Bool) (c : Chunk) (il : Option Bool) (r : Memo)
    (c' : Chunk) (il' : Option Bool) (l' r' : Memo) :
    navMemo src (false :: bs) (.cell c il (.cell c' il' l' r') r) =
      ((navMemo src bs (.cell c' il' l' r')).1,
       .cell c il (navMemo src bs (.cell c' il' l' r')).2.1 r,
       (navMemo src bs (.cell c' il' l' r')).2.2.map (Query.under false)) := by
  simp [navMemo, cellFetch, Step.bind, Step.focus]

theorem nav_known_R (src : Src) (bs : List Bool) (c : Chunk) (il : Option Bool) (l : Memo)
    (c' : Chunk) (il' : Option Bool) (l' r' : Memo) :
    navMemo src (true :: bs) (.cell c il l (.cell c' il' l' r')) =
      ((navMemo src bs (.cell c' il' l' r')).1,
       .cell c il l (navMemo src bs (.cell c' il' l' r')).2.1,
       (navMemo src bs (.cell c' il' l' r')).2.2.map (Query.under true)) := by
  simp [navMemo, cellFetch, Step.bind, Step.focus]

theorem nav_unk_L (src : Src) (bs : List Bool) (c : Chunk) (il : Option Bool) (r : Memo)
    (a : Chunk × Chunk) (h1 : ¬ il = some true) (hsrc : src c = some a) :
    navMemo src (false :: bs) (.cell c il .unk r) =
      ((navMemo src bs (.fresh a.1)).1,
       .cell c il (navMemo src bs (.fresh a.1)).2.1 r,
       ⟨[], .left, true⟩ :: (navMemo src bs (.fresh a.1)).2.2.map (Query.under false)) := by
  simp [navMemo, cellFetch, Step.bind, Step.focus, h1, hsrc, Memo.fresh, Kind.ofDir]

theorem nav_unk_R (src : Src) (bs : List Bool) (c : Chunk) (il : Option Bool) (l : Memo)
    (a : Chunk × Chunk) (h1 : ¬ il = some true) (hsrc : src c = some a) :
    navMemo src (true :: bs) (.cell c il l .unk) =
      ((navMemo src bs (.fresh a.2)).1,
       .cell c il l (navMemo src bs (.fresh a.2)).2.1,
       ⟨[], .right, true⟩ :: (navMemo src bs (.fresh a.2)).2.2.map (Query.under true)) := by
  simp [navMemo, cellFetch, Step.bind, Step.focus, h1, hsrc, Memo.fresh, Kind.ofDir]
theorem cell_of_rootOf {m : Memo} {c : Chunk} (h : m.rootOf = some c) :
    ∃ il l r, m = .cell c il l r := by
  cases m with
  | unk => simp [Memo.rootOf] at h
  | cell c0 il l r => simp [Memo.rootOf] at h; subst h; exact ⟨il, l, r, rfl⟩

/-- a successful navigation, repeated on the same node object, asks the source nothing, changes
    nothing and returns the same node -/
theorem navMemo_again (src : Src) (p : List Bool) :
    ∀ (m : Memo) (x : Chunk), (navMemo src p m).1 = some x →
      navMemo src p (navMemo src p m).2.1 = (some x, (navMemo src p m).2.1, []) := by
  induction p with
  | nil => intro m x h; simp [navMemo] at h ⊢; exact h
  | cons b bs ih =>
    intro m x h
    cases m with
    | unk => simp [navMemo, cellFetch, Step.bind, Step.pure] at h
    | cell c il l r =>
      cases b
      · cases l with
        | cell c' il' l' r' =>
          rw [nav_known_L] at h ⊢
          simp only at h ⊢
          have hroot := (good_navMemo src bs).root (.cell c' il' l' r')
          obtain ⟨il2, l2, r2, h2⟩ := cell_of_rootOf hroot
          have := ih _ x h
          rw [h2] at this ⊢
          rw [nav_known_L, this]; rfl
        | unk =>
          by_cases h1 : il = some true
          · simp [navMemo, cellFetch, Step.bind, Step.pure, h1] at h
          · cases hsrc : src c with
            | none => simp [navMemo, cellFetch, Step.bind, Step.pure, h1, hsrc] at h
            | some a =>
              rw [nav_unk_L src bs c il r a h1 hsrc] at h ⊢
              simp only at h ⊢
              have hroot := (good_navMemo src bs).root (.fresh a.1)
              obtain ⟨il2, l2, r2, h2⟩ := cell_of_rootOf hroot
              have := ih _ x h
              rw [h2] at this ⊢
              rw [nav_known_L, this]; rfl
      · cases r with
        | cell c' il' l' r' =>
          rw [nav_known_R] at h ⊢
          simp only at h ⊢
          have hroot := (good_navMemo src bs).root (.cell c' il' l' r')
          obtain ⟨il2, l2, r2, h2⟩ := cell_of_rootOf hroot
          have := ih _ x h
          rw [h2] at this ⊢
          rw [nav_known_R, this]; rfl
        | unk =>
          by_cases h1 : il = some true
          · simp [navMemo, cellFetch, Step.bind, Step.pure, h1] at h
          · cases hsrc : src c with
            | none => simp [navMemo, cellFetch, Step.bind, Step.pure, h1, hsrc] at h
            | some a =>
              rw [nav_unk_R src bs c il l a h1 hsrc] at h ⊢
              simp only at h ⊢
              have hroot := (good_navMemo src bs).root (.fresh a.2)
              obtain ⟨il2, l2, r2, h2⟩ := cell_of_rootOf hroot
              have := ih _ x h
              rw [h2] at this ⊢
              rw [nav_known_R, this]; rfl

end Rmk.VirtualLaws
