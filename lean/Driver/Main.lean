/-
rmkdrv: reads one case per line on stdin, answers with one line of `key=value` tokens separated by ';'.
Runs the model's executable definitions: the Spec layer (`s.` keys) and the Impl mirror (`i.` keys).
-/
import Rmk.Model.Sha256
import Rmk.Spec.Ssz
import Rmk.Spec.Apply
import Rmk.Impl.Codec
import Rmk.Impl.Misc
import Rmk.Impl.Store
import Rmk.Impl.StoreGuard
import Rmk.Spec.Obj
import Rmk.Impl.Virtual
import Rmk.Impl.Heap
import Rmk.Impl.ByteLength
import Rmk.Impl.Iters
import Rmk.Impl.Elem
import Rmk.Impl.ObjTree
import Rmk.Impl.ClassTree
import Rmk.Impl.VirtualView
import Rmk.Impl.VirtualIter
import Rmk.Impl.VirtualApply
import Rmk.Impl.UintExtra
import Rmk.Impl.DeserWork
import Rmk.Impl.DeserTree
import Rmk.Proofs.DeserWorkBound
import Rmk.Proofs.NavVal
import Driver.Sexp
namespace Driver
open Rmk

def H : Hash := Sha256.pairHash

def kv (k v : String) : String := k ++ "=" ++ v
def join (xs : List String) : String := String.intercalate ";" xs
def hexO (o : Option (List UInt8)) : String := optStr hexOf o
def rootO (o : Option Node) : String := optStr (fun n => hexOf (n.root H)) o
def b01 (b : Bool) : String := if b then "1" else "0"

/-- structural digest of a tree (shape AND leaves): drift stream only, never gating -/
def shapeDigest : Node → List UInt8
  | .leaf c => (Sha256.sha256 (ByteArray.mk ((76 :: c).toArray))).toList
  | .pair l r => (Sha256.sha256 (ByteArray.mk ((80 :: (shapeDigest l ++ shapeDigest r)).toArray))).toList

/-- number of pair nodes of a tree -/
def pairCount : Node → Nat
  | .leaf _ => 0
  | .pair l r => 1 + pairCount l + pairCount r

/-- the type of the element an op writes, and its value -/
def opPayload (t : Ty) (op : Impl.Op) : Option (Ty × Val) :=
  match t, op with
  | .vector et _, .set _ v => if et.isBasic then none else some (et, v)
  | .list et _, .set _ v => if et.isBasic then none else some (et, v)
  | .list et _, .append v => if et.isBasic then none else some (et, v)
  | .container fs, .set i v => (fs[i]?).map fun ft => (ft, v)
  | .union hasNone opts, .change sel v => (Spec.optType hasNone opts sel).map fun ot => (ot, v)
  | _, _ => none

/-- upper bound on the pair-hash invocations of one mutation followed by `hash_tree_root()` on a
    fully hashed value: the length of the changed path plus the pairs of the inserted sub-value
    (+1 for pop: the length node is rebound after the summarisation). See Rmk/Proofs/HeapLaws. -/
def costBound (t : Ty) (op : Impl.Op) : Nat :=
  let payload := match opPayload t op with
    | some (et, v) => (match Impl.construct H et v with | some n => pairCount n | none => 0)
    | none => 0
  Impl.treeDepth t + payload + (match op with | .pop => 1 | _ => 0)

/-- gindex of the bottom node an op writes (sharing check: every fresh node is on the path to it or below it) -/
def targetGindex (t : Ty) (n : Node) (op : Impl.Op) : Option Nat :=
  let d := Impl.treeDepth t
  let per (et : Ty) := if et.isBasic then 32 / et.basicSize else 1
  match t, op with
  | .vector et _, .set i _ => toGindex (i / per et) d
  | .list et _, .set i _ => toGindex (i / per et) d
  | .list et _, .append _ => (Impl.listLength H n).bind fun len => toGindex (len / per et) d
  | .list et _, .pop => (Impl.listLength H n).bind fun len => toGindex ((len - 1) / per et) d
  | .container _, .set i _ => toGindex i d
  | .bitvector _, .set i _ => toGindex (i / 256) d
  | .bitlist _, .set i _ => toGindex (i / 256) d
  | .bitlist _, .append _ => (Impl.listLength H n).bind fun len => toGindex (len / 256) d
  | .bitlist _, .pop => (Impl.listLength H n).bind fun len => toGindex ((len - 1) / 256) d
  | .union _ _, .change _ _ => some 1
  | _, _ => none

/-- the content of a view read through the ITERATORS at the top level (`readonly_iter()` / `__iter__`:
    PackedIter, BitfieldIter, NodeIter + element views), nested values through the view API -/
def iterRead (t : Ty) (n : Node) : Option Val :=
  match t with
  | .vector et len =>
    if et.isBasic then (Impl.packedIter H et n (Impl.treeDepth t) len).map .seq
    else (Impl.nodeIter n (Impl.treeDepth t) len).bind fun ns => (ns.mapM (Impl.readVal H et)).map .seq
  | .list et _ =>
    (Impl.listLength H n).bind fun len =>
      if et.isBasic then (Impl.packedIter H et n (Impl.treeDepth t) len).map .seq
      else (Impl.nodeIter n (Impl.treeDepth t) len).bind fun ns => (ns.mapM (Impl.readVal H et)).map .seq
  | .bitvector len => (Impl.bitfieldIter H n (Impl.treeDepth t) len).map .bits
  | .bitlist _ =>
    (Impl.listLength H n).bind fun len =>
      (getLeft n).bind fun c => (Impl.bitfieldIter H c (Impl.contentsDepth t) len).map .bits
  | .container fs =>
    (Impl.nodeIter n (Impl.treeDepth t) fs.length).bind fun ns =>
      ((ns.zip fs).mapM fun (p : Node × Ty) => Impl.readVal H p.2 p.1).map .seq
  | _ => Impl.readVal H t n

def runVal (t : Ty) (v : Val) : String :=
  let wt := t.wf && WT t v
  let n := Impl.construct H t v
  let ser := n.bind (Impl.serTree H t)
  let sbytes := Spec.serialize t v
  let dec := Impl.deser t sbytes sbytes.length
  join [
    kv "wt" (b01 wt),
    kv "s.root" (hexOf (Spec.htr H t v)),
    kv "s.bytes" (hexOf sbytes),
    kv "s.len" (toString sbytes.length),
    kv "i.root" (rootO n),
    kv "i.bytes" (hexO (ser.map (·.1))),
    kv "i.cnt" (optStr toString (ser.map (·.2))),
    kv "i.read" (optStr valStr (n.bind (Impl.readVal H t))),
    kv "i.vbl" (optStr toString (n.bind (Impl.valueByteLength H t))),
    kv "i.iter" (optStr valStr (n.bind (iterRead t))),
    kv "i.dec" (optStr (fun (p : Val × List UInt8) => valStr p.1 ++ "/" ++ toString p.2.length) dec),
    kv "s.obj" (if wt then Obj.toJson (Obj.toObj t v) else "-"),
    kv "i.objtree" (if wt then optStr Obj.toJson (n.bind (Impl.toObjTree H t)) else "-"),
    kv "i.fromobj" (if wt then optStr valStr (Obj.fromObj t (Obj.jsonNorm (Obj.toObj t v))) else "-")]

def runType (t : Ty) : String :=
  let z := Spec.zeroVal t
  let d := Impl.defaultNode H t
  join [
    kv "wf" (b01 t.wf),
    kv "fixed" (b01 (Spec.isFixed t)),
    kv "flen" (toString (Spec.fixedLen t)),
    kv "min" (toString (Spec.minLen t)),
    kv "max" (toString (Spec.maxLen t)),
    kv "depth" (toString (Impl.treeDepth t)),
    kv "s.zval" (valStr z),
    kv "s.zroot" (hexOf (Spec.htr H t z)),
    kv "s.zbytes" (hexOf (Spec.serialize t z)),
    kv "i.droot" (rootO d),
    kv "i.dread" (optStr valStr (d.bind (Impl.readVal H t)))]

/-- history operations of the protocol: the model's ops plus two compositions used by the harness -/
inductive HOp where
  | op (o : Impl.Op)
  | cpy (i j : Nat)                 -- x[i] = x[j] / x.f_i = x.f_j  (an existing sub-view is assigned)
  | sets (i : Nat) (vs : List Val)  -- x[i:i+k] = vs
  | setf (i : Nat) (ft : Ty) (v : Val)  -- x[i] = <a view of type ft holding v>
  | setsx (i k : Nat) (vs : List Val)   -- x[i:i+k] = vs with |vs| ≠ k allowed (the items are written in order, then the count is checked)
  | setc (i : Nat) (v : Val)            -- x[i] = <a view of another, COERCIBLE type (other limit / other class, same layout) holding v>
  | setv (i : Nat) (v : Val)            -- x[i] = <an already hashed container of another class with the same layout holding v>
  | seth (i : Nat) (v : Val)             -- x[i] = <an already HASHED view holding v (possibly of an alias subclass)>
  | refused                            -- an argument outside the model's domain that the API must refuse
                                       -- (a NEGATIVE union selector: `change(selector=-1, …)`)

def toHOp : Sexp → Option HOp
  | .list [.atom "cpy", i, j] => do pure (.cpy (← atomNat i) (← atomNat j))
  | .list [.atom "sets", i, .list (.atom "s" :: vs)] => do pure (.sets (← atomNat i) (← toVals vs))
  | .list [.atom "setf", i, ft, v] => do pure (.setf (← atomNat i) (← toTy ft) (← toVal v))
  | .list [.atom "seth", i, v] => do pure (.seth (← atomNat i) (← toVal v))
  | .list [.atom "setsx", i, k, .list (.atom "s" :: vs)] => do pure (.setsx (← atomNat i) (← atomNat k) (← toVals vs))
  | .list [.atom "setc", i, _, v] => do pure (.setc (← atomNat i) (← toVal v))
  | .list [.atom "setv", i, v] => do pure (.setv (← atomNat i) (← toVal v))
  | .list [.atom "setn", _, _] => some .refused
  | .list [.atom "setneg", _, _] => some .refused   -- a NEGATIVE index (read, then written): never a position of the value
  | .list [.atom "setb", i, .atom hx] => do
    -- a raw byte string assigned to an integer position: the little-endian number it denotes
    let bs ← unhexAux (hx.toList.drop 1)
    pure (.op (.set (← atomNat i) (.num (fromLE bs))))
  | .list [.atom "chg", .atom sel, v] =>
    if sel.startsWith "-" then some .refused else (toOp (.list [.atom "chg", .atom sel, v])).map .op
  | s => (toOp s).map .op

/-- the elements / fields of a sequence or container value -/
def seqElems : Val → List Val
  | .seq vs => vs
  | _ => []

/-- element / field type at position `i` of a composite type -/
def elemTyAt (t : Ty) (i : Nat) : Option Ty :=
  match t with
  | .vector et _ => some et
  | .list et _ => some et
  | .container fs => fs[i]?
  | _ => none

/-- a typed argument (a view of type `ft`) is assignable to position `i` only when `ft` is the element type:
    an integer view of another width, a vector / byte vector view of another length is rejected whatever it holds -/
def typedArgOk (t : Ty) (i : Nat) (ft : Ty) : Bool :=
  match elemTyAt t i with
  | some et => reprStr et == reprStr ft
  | none => false

/-- expansion into model ops in the current state, and the hashing bound of the whole step -/
def expandHOp (t : Ty) (v : Val) : HOp → Option (List Impl.Op × Nat)
  | .op o => some ([o], costBound t o)
  | .cpy i j =>
    match (seqElems v)[j]? with
    | some x =>
      -- a tree-backed sub-view is shared and already hashed; byte-array views are values: their
      -- backing is rebuilt by `get_backing()` and has to be hashed again
      let elemTy : Option Ty := match t with
        | .vector et _ => some et
        | .list et _ => some et
        | .container fs => fs[j]?
        | _ => none
      let extra := match elemTy with
        | some (.bytevector k) => (match Impl.construct H (.bytevector k) x with | some nd => pairCount nd | none => 0)
        | some (.bytelist k) => (match Impl.construct H (.bytelist k) x with | some nd => pairCount nd | none => 0)
        | _ => 0
      some ([.set i x], Impl.treeDepth t + extra)
    | none => none
  | .sets i vs =>
    let ops := vs.zipIdx.map fun (x, k) => Impl.Op.set (i + k) x
    some (ops, (ops.map (costBound t)).sum)
  | .refused => none
  | .setsx i _ vs =>
    let ops := vs.zipIdx.map fun (x, k) => Impl.Op.set (i + k) x
    some (ops, (ops.map (costBound t)).sum)
  | .setc i x => some ([.set i x], costBound t (.set i x))
  | .setv i x =>
    -- only the path and the new container's own pair nodes are hashed: its field sub-trees are taken over — except
    -- byte-array fields, which are plain values: their backing is rebuilt and hashed again
    let (skeleton, bytesExtra) := match elemTyAt t i with
      | some (.container fs) =>
        (Spec.pow2ceil fs.length - 1,
         ((fs.zip (seqElems x)).map fun (ft, fv) => match ft with
            | .bytevector _ | .bytelist _ => (match Impl.construct H ft fv with | some nd => pairCount nd | none => 0)
            | _ => 0).sum)
      | _ => (0, 0)
    some ([.set i x], Impl.treeDepth t + skeleton + bytesExtra)
  | .seth i x =>
    -- the inserted sub-value is hashed already: only the path to it is re-hashed
    some ([.set i x], Impl.treeDepth t)
  | .setf i ft x =>
    -- a typed argument: an integer view of another width, a vector / byte vector view of another length
    -- is rejected whatever it holds (its repr differs from the element type's); of the same type it is
    -- the plain assignment
    if typedArgOk t i ft then some ([.set i x], costBound t (.set i x)) else none

/-- a mutation history: the spec value and the impl tree side by side; a failed op leaves both unchanged -/
def runHist (t : Ty) (v0 : Val) (ops : List HOp) : String :=
  let n0 := Impl.construct H t v0
  let rec go (k : Nat) (v : Val) (n : Option Node) (ops : List HOp) (acc : List String) : List String :=
    match ops with
    | [] => acc.reverse
    | hop :: rest =>
      let expanded := expandHOp t v hop
      -- apply the sub-operations in order; all must succeed for the step to succeed
      -- slice assignments write item by item: a failing item keeps the earlier ones; a surplus / shortage of items
      -- is detected only afterwards ("failed to do full slice-set")
      let isSlice := match hop with | .sets _ _ => true | .setsx _ _ _ => true | _ => false
      let countOk := match hop with | .setsx _ k vs => vs.length == k | _ => true
      let (sv, inn, v', n') : Option Val × Option Node × Val × Option Node :=
        match expanded with
        | none => (none, none, v, n)
        | some (subops, _) =>
          if isSlice then
            let (cv, cn, ok) := subops.foldl (fun (acc : Val × Option Node × Bool) o =>
              if !acc.2.2 then acc else
              match Spec.applyOp t acc.1 o, acc.2.1.bind fun nn => Impl.apply H t nn o with
              | some vv, some nn => (vv, some nn, true)
              | _, _ => (acc.1, acc.2.1, false)) (v, n, true)
            if ok && countOk then (some cv, cn, cv, cn) else (none, none, cv, cn)
          else
            let r := subops.foldl (fun (acc : Option Val × Option Node) o =>
              (acc.1.bind fun vv => Spec.applyOp t vv o, acc.2.bind fun nn => Impl.apply H t nn o)) (some v, n)
            (r.1, r.2, r.1.getD v, match r.2 with | some x => some x | none => n)
      let p := toString k
      let firstOp : Option Impl.Op := match expanded with | some (o :: _, _) => some o | _ => none
      let out := [
        kv (p ++ ".s") (optStr valStr sv),
        kv (p ++ ".scur") (valStr v'),
        kv (p ++ ".sroot") (hexOf (Spec.htr H t v')),
        kv (p ++ ".sbytes") (hexOf (Spec.serialize t v')),
        kv (p ++ ".i") (match inn with | some _ => "ok" | none => "err"),
        kv (p ++ ".iroot") (rootO n'),
        kv (p ++ ".iread") (optStr valStr (n'.bind (Impl.readVal H t))),
        kv (p ++ ".ibytes") (hexO ((n'.bind (Impl.serTree H t)).map (·.1))),
        kv (p ++ ".ishape") (optStr (fun x => hexOf ((shapeDigest x).take 8)) n'),
        kv (p ++ ".bound") (match expanded with | some (_, b) => toString b | none => "0"),
        kv (p ++ ".tgt") (match hop with
          | .op o => optStr toString (n.bind fun nn => targetGindex t nn o)
          | _ => "-")]
      let _ := firstOp
      go (k + 1) v' n' rest (out.reverse ++ acc)
  join (kv "i.root0" (rootO n0) :: go 0 v0 n0 ops [])

def runDec (t : Ty) (pre body post : List UInt8) : String :=
  let stream := body ++ post
  let _ := pre
  -- the work of the decoder (number of `deserialize` calls) and the linear bound proved for it
  let work := kv "i.work" (toString (Impl.deserWork t stream body.length))
  let bound := kv "i.workbound" (toString (DeserWorkBound.W t * (body.length + 1) + DeserWorkBound.A t))
  -- the SHAPE of the tree the bit-field decoders build directly from the chunks of the input
  let rec shapeStr (fuel : Nat) (n : Node) : String :=
    match fuel, n with
    | 0, _ => "..."
    | _, .leaf c => "L" ++ hexOf c
    | f+1, .pair l r => "(" ++ shapeStr f l ++ shapeStr f r ++ ")"
  let shape : List String := match t with
    | .bitlist lim => (match Impl.deserBitlistTree H lim (stream.take body.length) with
        | some n => [kv "i.shape" (shapeStr 64 n)] | none => [])
    | .bitvector len => (match Impl.deserBitvectorTree H len (stream.take body.length) with
        | some n => [kv "i.shape" (shapeStr 64 n)] | none => [])
    | _ => []
  match Impl.deser t stream body.length with
  | none => join [kv "i.dec" "err", work, bound]
  | some (v, rest) =>
    let n := Impl.construct H t v
    join (shape ++ [
      work, bound,
      kv "i.dec" (valStr v),
      kv "i.consumed" (toString (stream.length - rest.length)),
      kv "wt" (b01 (WT t v)),
      kv "s.bytes" (hexOf (Spec.serialize t v)),
      kv "s.root" (hexOf (Spec.htr H t v)),
      kv "i.root" (rootO n)])

def nodeStr (n : Node) : String := hexOf (n.root H) ++ (if n.isLeaf then ":L" else ":P")

def runTreeCmd (n : Node) (k : Nat) (cmd : Sexp) : Option String :=
  let p := toString k
  match cmd with
  | .list [.atom "get", g] => do
    let g ← atomNat g
    pure (kv (p ++ ".get") (optStr nodeStr (getter n g)))
  | .list (.atom "set" :: g :: e :: v :: probes) => do
    let g ← atomNat g
    let e ← atomNat e
    let v ← toTree H v
    let probes ← probes.mapM atomNat
    let r := setter H n g (e != 0) v
    let ps := probes.map fun q => optStr nodeStr (r.bind fun r => getter r q)
    pure (join [kv (p ++ ".set") (rootO r), kv (p ++ ".probes") (String.intercalate "," ps),
      kv (p ++ ".orig") (hexOf (n.root H))])
  | .list [.atom "vget", g] => do
    -- the same tree served lazily by a root-keyed store
    let g ← atomNat g
    let src := Virtual.srcOfDict (Virtual.dictOf H n)
    let r := Virtual.getterM src (.virt (n.root H)) g
    pure (kv (p ++ ".vget") (optStr (fun m => hexOf (m.root H) ++ (if Virtual.isLeafM src m then ":L" else ":P")) r))
  | .list (.atom "vset" :: g :: e :: v :: probes) => do
    let g ← atomNat g
    let e ← atomNat e
    let v ← toTree H v
    let probes ← probes.mapM atomNat
    let src := Virtual.srcOfDict (Virtual.dictOf H n)
    let r := Virtual.setterM H src (.virt (n.root H)) g (e != 0) (Virtual.MNode.ofNode v)
    let ps := probes.map fun q => optStr (fun m => hexOf (Virtual.MNode.root H m)) (r.bind fun r => Virtual.getterM src r q)
    pure (join [kv (p ++ ".vset") (optStr (fun m => hexOf (Virtual.MNode.root H m)) r),
      kv (p ++ ".vprobes") (String.intercalate "," ps)])
  | .list [.atom "hcost", g, e, v] => do
    -- the heap model: hash calls for the first root, a second root, and the root after a write
    let g ← atomNat g
    let e ← atomNat e
    let v ← toTree H v
    if g = 0 then pure (kv (p ++ ".hcost") "err") else
    let (h1, a) := Heap.ofNode Heap.empty n
    let (h2, _) := Heap.merkleRoot H h1 a
    let c1 := h2.hashCalls
    let (h3, _) := Heap.merkleRoot H h2 a
    let c2 := h3.hashCalls - c1
    let (h4, va) := Heap.ofNode h3 v
    match Heap.setPathH H (e != 0) h4 a (gbits g) va with
    | none => pure (kv (p ++ ".hcost") (toString c1 ++ "/" ++ toString c2 ++ "/err"))
    | some (h5, a') =>
      let (h6, r) := Heap.merkleRoot H h5 a'
      let newPairs := ((h5.cells.toList.drop h4.cells.size).filter fun c => match c with | .pair _ _ _ => true | _ => false).length
      pure (kv (p ++ ".hcost") (toString c1 ++ "/" ++ toString c2 ++ "/" ++ toString (h6.hashCalls - h3.hashCalls)
        ++ "/" ++ hexOf r ++ "/" ++ toString newPairs))
  | .list (.atom "vseq" :: cmds) => do
    let src := Virtual.srcOfDict (Virtual.dictOf H n)
    let outs ← cmds.mapM fun c =>
      match c with
      | .list [.atom "get", g] => do
        let g ← atomNat g
        pure (optStr (fun m => hexOf (Virtual.MNode.root H m)) (Virtual.getterM src (.virt (n.root H)) g))
      | .list [.atom "set", g, e, v] => do
        let g ← atomNat g
        let e ← atomNat e
        let v ← toTree H v
        pure (optStr (fun m => hexOf (Virtual.MNode.root H m))
          (Virtual.setterM H src (.virt (n.root H)) g (e != 0) (Virtual.MNode.ofNode v)))
      | _ => none
    pure (kv (p ++ ".vseq") (String.intercalate "," outs))
  | .list [.atom "vleaves"] =>
    -- leaf iteration over the lazily served tree lists the same leaves
    pure (kv (p ++ ".vleaves") (String.intercalate "," ((leafIter n).map fun l => hexOf (l.root H))))
  | .list (.atom "vsumm" :: g :: probes) => do
    -- summarize_into on the lazily served tree, then reads: as on the materialised tree
    let g ← atomNat g
    let probes ← probes.mapM atomNat
    let r := summarizeInto H n g
    let ps := probes.map fun q => optStr nodeStr (r.bind fun r => getter r q)
    pure (join [kv (p ++ ".vsumm") (optStr nodeStr r), kv (p ++ ".vsprobes") (String.intercalate "," ps)])
  | .list [.atom "summ", g] => do
    let g ← atomNat g
    let r := summarizeInto H n g
    pure (kv (p ++ ".summ") (optStr nodeStr r))
  | .list [.atom "diff", b] => do
    let b ← toTree H b
    let d := getDiff H n b
    pure (kv (p ++ ".diff") (String.intercalate "," (d.map fun (x, y) => nodeStr x ++ "/" ++ nodeStr y)))
  | .list [.atom "graft", b] => do
    let b ← toTree H b
    let d := getDiffPos H n b
    let g := d.foldl (fun (acc : Option Node) (q : List Bool × Node × Node) =>
      acc.bind fun a => setPath H false a q.1 q.2.2) (some n)
    pure (join [kv (p ++ ".graft") (rootO g), kv (p ++ ".target") (hexOf (b.root H))])
  | .list (.atom "diffw" :: ws) => do
    -- the second tree is derived from the first by writes (failed writes are skipped)
    let ws ← ws.mapM fun w => match w with
      | .list [.atom "w", g, e, v] => do pure (← atomNat g, (← atomNat e) != 0, ← toTree H v)
      | _ => none
    let b := ws.foldl (fun (acc : Node) (w : Nat × Bool × Node) => (setter H acc w.1 w.2.1 w.2.2).getD acc) n
    let d := getDiff H n b
    let dp := getDiffPos H n b
    let g := dp.foldl (fun (acc : Option Node) (q : List Bool × Node × Node) =>
      acc.bind fun a => setPath H false a q.1 q.2.2) (some n)
    pure (join [kv (p ++ ".diffw") (String.intercalate "," (d.map fun (x, y) => nodeStr x ++ "/" ++ nodeStr y)),
      kv (p ++ ".graft") (rootO g), kv (p ++ ".target") (hexOf (b.root H))])
  | .list [.atom "leaves"] =>
    pure (kv (p ++ ".leaves") (String.intercalate "," ((leafIter n).map fun l => hexOf (l.root H))))
  | .list (.atom "hist" :: g :: trees) => do
    let g ← atomNat g
    let ts ← trees.mapM (toTree H)
    let hist := (n :: ts).zipIdx.map fun (t, i) => (i, t)
    let r := targetHistory H hist g
    pure (kv (p ++ ".hist") (optStr (fun l => String.intercalate ","
      (l.map fun (q : Nat × Node) => toString q.1 ++ ":" ++ hexOf (q.2.root H))) r))
  | .list [.atom "piter", et, depth, len] => do
    let et ← toTy et
    let depth ← atomNat depth
    let len ← atomNat len
    let r := Impl.packedIter H et n depth len
    pure (kv (p ++ ".piter") (optStr (fun l => String.intercalate "," (l.map valStr)) r))
  | .list [.atom "biter", depth, len] => do
    let depth ← atomNat depth
    let len ← atomNat len
    let r := Impl.bitfieldIter H n depth len
    pure (kv (p ++ ".biter") (optStr bitsStr r))
  | .list [.atom "niter", depth, len] => do
    let depth ← atomNat depth
    let len ← atomNat len
    let r := Impl.nodeIter n depth len
    pure (kv (p ++ ".niter") (optStr (fun l => String.intercalate "," (l.map fun x => hexOf (x.root H))) r))
  | _ => none

def runTree (n : Node) (cmds : List Sexp) : Option String := do
  let outs ← cmds.zipIdx.mapM fun (c, k) => runTreeCmd n k c
  pure (join (kv "root" (hexOf (n.root H)) :: outs))

/-- value-dependent navigation: `NavVal.navVal` (Rmk/Proofs/NavVal.lean) — `PathAddress.subVal`, the value-side
    navigation of the C08 theorems, restricted to element / field index steps; `NavVal.navVal_addresses`: the view found
    there has the root of the node at the static index -/
def navVal : Ty → Val → List Key → Option (Ty × Val) := NavVal.navVal

def runPath (t : Ty) (v : Option Val) (keys : List Key) : String :=
  let ig := Impl.pathGindex t keys
  let sg := Spec.gindex 1 (some t) keys
  -- generalized index of every proper prefix of the path (a prefix path object that is kept and extended
  -- again must still address what it addressed)
  let pre := (List.range keys.length).map fun i => optStr toString (Impl.pathGindex t (keys.take (i + 1)))
  let base := [kv "i.g" (optStr toString ig), kv "s.g" (optStr toString sg), kv "i.pre" (String.intercalate "," pre)]
  match v with
  | none => join base
  | some v =>
    let n := Impl.construct H t v
    let at_ := match n, ig with
      | some n, some g => getter n g
      | _, _ => none
    -- value-dependent navigation: defined exactly when the addressed position exists in the value; then the view found
    -- there has the root of the addressed sub-value
    let nv := navVal t v keys
    join (base ++ [kv "i.node" (rootO at_), kv "i.navroot" (match nv with
      | some (st, sv) => hexOf (Spec.htr H st sv)
      | none => "err")])

/-- a negative key is not a key of any type: the path is refused when it is built -/
def isNegAtom : Sexp → Bool
  | .atom a => a.startsWith "-"
  | _ => false

def runPathInvalid (n : Nat) : String :=
  join [kv "i.g" "err", kv "s.g" "err", kv "i.pre" (String.intercalate "," (List.replicate n "err"))]

/-- type-level size facts only (also for types whose values are astronomically large) -/
def runTSize (t : Ty) : String :=
  join [
    kv "wf" (b01 t.wf),
    kv "fixed" (b01 (Spec.isFixed t)),
    kv "flen" (toString (Spec.fixedLen t)),
    kv "min" (toString (Spec.minLen t)),
    kv "max" (toString (Spec.maxLen t)),
    kv "depth" (toString (Impl.treeDepth t))]

/-- store commands of the protocol -/
inductive SCmd where
  | steps (l : List Impl.SOp) (keepPrefix : Bool)  -- model steps in order; `keepPrefix`: a failure keeps the earlier ones
  | snap (r : Nat)
  | typed (r i : Nat) (ft : Ty) (v : Val)          -- assignment of a typed argument
  | refused (r : Nat)                              -- an argument the API must refuse (negative selector)
  | temp (l : List Impl.SOp)                       -- steps through TEMPORARY views: the views they create are dropped again

def toSOp : Sexp → Option SCmd
  | .list [.atom "child", r, k] => do pure (.steps [.child (← atomNat r) (← atomNat k)] false)
  | .list [.atom "childs", r, k] => do pure (.steps [.child (← atomNat r) (← atomNat k)] false)
  | .list [.atom "childi", r, k] => do pure (.steps [.child (← atomNat r) (← atomNat k)] false)
  | .list [.atom "childn", r, k] => do pure (.steps [.child (← atomNat r) (← atomNat k)] false)
  | .list [.atom "childr", r, k] => do pure (.steps [.child (← atomNat r) (← atomNat k)] false)
  | .list [.atom tag, r, .list [.atom "sets", i, .list (.atom "s" :: vs)]] => do
    -- slice assignment = the element assignments in order; a failing one keeps the earlier writes
    if tag != "mut" && tag != "bad" then none
    let r ← atomNat r
    let i ← atomNat i
    let vs ← vs.mapM toVal
    pure (.steps ((List.range vs.length).zip vs |>.map fun (j, v) => .mutate r (.set (i + j) v)) true)
  | .list [.atom "mut", r, op] => do pure (.steps [.mutate (← atomNat r) (← toOp op)] false)
  | .list [.atom "bad", r, .list [.atom "setf", i, ft, v]] => do
    pure (.typed (← atomNat r) (← atomNat i) (← toTy ft) (← toVal v))
  | .list [.atom "bad", r, op] => do
    match ← toHOp op with
    | .refused => pure (.refused (← atomNat r))
    | .op o => pure (.steps [.mutate (← atomNat r) o] false)
    | _ => none
  | .list [.atom "assign", r, i, _, v] => do
    -- a held view used as the value of an assignment: the value is copied, the view stays where it was
    pure (.steps [.mutate (← atomNat r) (.set (← atomNat i) (← toVal v))] false)
  | .list [.atom "copy", r] => do pure (.steps [.copy (← atomNat r)] false)
  | .list [.atom "snap", r] => do pure (.snap (← atomNat r))
  -- `view_r.f_k.value().<op>`: a mutation through the value view of the union at key k of view r; the union view and
  -- its value view are temporaries (`nv` = number of views held before the step)
  | .list [.atom "mutv", r, k, nv, op] => do
    let nv ← atomNat nv
    pure (.temp [.child (← atomNat r) (← atomNat k), .child nv 0, .mutate (nv + 1) (← toOp op)])
  -- a mutation through a CHAIN of temporary child views below view r (`view_r.a.b.c.<op>`, or the same target obtained
  -- with a `Path`): the views on the way are dropped again
  | .list [.atom "mutt", r, nv, _, .list keys, op] => do
    let nv ← atomNat nv
    let ks ← keys.mapM atomNat
    let r ← atomNat r
    let rec chain (parent : Nat) (next : Nat) : List Nat → List Impl.SOp
      | [] => []
      | k :: rest => .child parent k :: chain next (next + 1) rest
    pure (.temp (chain r nv ks ++ [.mutate (nv + ks.length - 1) (← toOp op)]))
  -- a write into a throw-away COPY of view r (the harness assigns a summary-backed equal-root element there):
  -- nothing held changes
  | .list [.atom "tmpsum", _, _] => pure (.steps [] false)
  | _ => none

/-- store histories: after every op the root and encoding of every held view and of every snapshot -/
def runStore (t : Ty) (v : Val) (ops : List SCmd) (lazy : Bool := false) : String :=
  match Impl.construct H t v with
  | none => "i.ctor=err"
  | some n0 =>
    let viewStr (o : Impl.VObj) : String :=
      hexOf (o.backing.root H) ++ ":" ++ hexO ((Impl.serTree H o.ty o.backing).map (·.1))
    let rec go (k : Nat) (g : Impl.GStore) (snaps : List (Ty × Node)) (ops : List SCmd)
        (acc : List String) : List String :=
      -- (the guarded store: a write through a union value view of an option that is no longer selected is refused)
      let s : Impl.Store := g.views
      match ops with
      | [] =>
        if lazy then
          -- nothing was observed (nor hashed) on the way: everything is observed once, at the end
          (acc.reverse ++ [
            kv "end.views" (String.intercalate "," (s.map viewStr)),
            kv "end.snaps" (String.intercalate "," (snaps.map fun (q : Ty × Node) =>
              hexOf (q.2.root H) ++ ":" ++ hexO ((Impl.serTree H q.1 q.2).map (·.1))))])
        else acc.reverse
      | op :: rest =>
        let bound : String := match op with
          | .steps [.mutate r o] _ =>
            -- path from the chain root down to the written node: the tree depth of every enclosing view
            let rec up (fuel : Nat) (q : Nat) (acc : Nat) : Nat :=
              match fuel with
              | 0 => acc
              | f + 1 =>
                match s[q]? with
                | some vo => (match vo.hook with
                  | some (par, _) => (match s[par]? with
                    | some po => up f par (acc + Impl.treeDepth po.ty)
                    | none => acc)
                  | none => acc)
                | none => acc
            (match s[r]? with
              | some vo => toString (up (r + 1) r (costBound vo.ty o))
              | none => "-")
          | _ => "-"
        let (g', snaps', status) : Impl.GStore × List (Ty × Node) × String :=
          match op with
          | .snap r =>
            match s[r]? with
            | some o => (g, snaps ++ [(o.ty, o.backing)], "ok")
            | none => (g, snaps, "err")
          | .refused _ => (g, snaps, "err")
          | .temp sops =>
            match sops.foldlM (fun st sop => Impl.stepG H st sop) g with
            | some g2 => ({ views := g2.views.take g.views.length, sels := g2.sels.take g.sels.length }, snaps, "ok")
            | none => (g, snaps, "err")
          | .typed r i ft x =>
            -- assignment of a typed argument
            match s[r]? with
            | some o =>
              if typedArgOk o.ty i ft then
                match Impl.stepG H g (.mutate r (.set i x)) with
                | some s2 => (s2, snaps, "ok")
                | none => (g, snaps, "err")
              else (g, snaps, "err")
            | none => (g, snaps, "err")
          | .steps sops keepPrefix =>
            if keepPrefix then
              let (s2, ok) := sops.foldl (fun (acc : Impl.GStore × Bool) sop =>
                if !acc.2 then acc else
                match Impl.stepG H acc.1 sop with
                | some s3 => (s3, true)
                | none => (acc.1, false)) (g, true)
              (s2, snaps, if ok then "ok" else "err")
            else
            match sops.foldlM (fun st sop => Impl.stepG H st sop) g with
            | some s2 => (s2, snaps, "ok")
            | none => (g, snaps, "err")
        let p := toString k
        let out := if lazy then [kv (p ++ ".i") status] else [
          kv (p ++ ".i") status,
          kv (p ++ ".bound") bound,
          kv (p ++ ".views") (String.intercalate "," (g'.views.map viewStr)),
          kv (p ++ ".snaps") (String.intercalate "," (snaps'.map fun (q : Ty × Node) =>
            hexOf (q.2.root H) ++ ":" ++ hexO ((Impl.serTree H q.1 q.2).map (·.1))))]
        go (k + 1) g' snaps' rest (out.reverse ++ acc)
    join (go 0 { views := [{ ty := t, backing := n0, hook := none }], sels := [none] } [] ops [])

def readElem (t : Ty) (n : Node) (i : Nat) : Option Val := Impl.readElem H t n i
def viewLen (t : Ty) (n : Node) : Option Nat := Impl.viewLen H t n

inductive POp where
  | read | elem (i : Nat) | len | bytes | root | mut (op : HOp) | slice (a b : Nat) | nav (g : Nat)
  | sub (i : Nat) (op : HOp)   -- a mutation through the child view at key i (propagates into this view)
  | vbl                        -- value_byte_length()
  | eqself                     -- view == view.copy()  (a comparison of roots)
  | fork                       -- keep another view of the current backing
  | fread (k : Nat)            -- read the whole value through the k-th kept view
  | iterk (k : Nat)            -- the first k items of a plain iteration (a consumer that stops early)
  | childroot (i : Nat)        -- the child VIEW at key i is obtained and asked for its root (nothing below it is read)
  | obj                        -- to_obj(), as compact JSON

def toPOp : Sexp → Option POp
  | .list [.atom "read"] => some .read
  | .list [.atom "elem", i] => (atomNat i).map .elem
  | .list [.atom "len"] => some .len
  | .list [.atom "iter"] => some .read
  | .list [.atom "nav", g] => (atomNat g).map .nav
  | .list [.atom "vbl"] => some .vbl
  | .list [.atom "eqself"] => some .eqself
  | .list [.atom "eqother"] => some .eqself
  | .list [.atom "fork"] => some .fork
  | .list [.atom "fread", k] => (atomNat k).map .fread
  | .list [.atom "sub", i, op] => do pure (.sub (← atomNat i) (← toHOp op))
  | .list [.atom "slice", a, b] => do pure (.slice (← atomNat a) (← atomNat b))
  | .list [.atom "iterk", k] => do pure (.iterk (← atomNat k))
  | .list [.atom "roiterk", k] => do pure (.iterk (← atomNat k))   -- the same prefix through the read-only iterator
  | .list [.atom "childroot", i] => do pure (.childroot (← atomNat i))
  | .list [.atom "obj"] => some .obj
  | .list [.atom "bytes"] => some .bytes
  | .list [.atom "root"] => some .root
  | s => (toHOp s).map .mut

def okStr (o : Option String) : String := match o with | some s => "ok:" ++ s | none => "err"

/-- one read / mutation op on a backing tree; a failed op leaves the tree unchanged (except a slice
    assignment, which keeps the writes made before the failing one) -/
def stepPOp (t : Ty) (n : Node) (op : POp) (forks : List Node := []) : Node × String :=
  match op with
  | .fork => (n, "ok:" ++ toString forks.length)
  | .fread k =>
    (n, match forks[k % (max forks.length 1)]? with
      | some f => okStr ((Impl.readVal H t f).map valStr)
      | none => "err")
  | .read => (n, okStr ((Impl.readVal H t n).map valStr))
  | .elem i => (n, okStr ((readElem t n i).map valStr))
  | .len => (n, okStr ((viewLen t n).map toString))
  | .nav g => (n, okStr ((getter n g).map fun m => hexOf (m.root H)))
  | .vbl => (n, okStr ((Impl.valueByteLength H t n).map toString))
  | .eqself => (n, "ok:True")
  | .sub i ho =>
    let r : Option Node := do
      let (ct, cn) ← Impl.childOf H t n i
      if ct.isBasic then none
      let (ops, _) ← expandHOp ct .none ho
      let cn' ← ops.foldlM (fun acc o => Impl.apply H ct acc o) cn
      Impl.setChildNode H t n i cn'
    match r with
    | some m => (m, "ok:" ++ hexOf (m.root H))
    | none => (n, "err")
  | .slice a b =>
    -- an in-range slice (both bounds reduced modulo the current length) = the element reads in order
    (n, okStr ((viewLen t n).bind fun ln =>
      let a' := a % (ln + 1)
      let b' := a' + b % (ln - a' + 1)
      (Impl.sliceRead H t n a' b').map fun xs =>
        toString a' ++ ":" ++ toString b' ++ ":" ++ String.intercalate "," (xs.map valStr)))
  | .iterk k =>
    -- the iterator is created (the length is read), then the first k items are read in order
    (n, okStr ((viewLen t n).bind fun ln =>
      (Impl.sliceRead H t n 0 (min k ln)).map fun xs => String.intercalate "," (xs.map valStr)))
  -- `to_obj()` as the library computes it: from the tree, through the iterators and the tree-reading serialiser
  | .obj => (n, okStr ((Impl.toObjTree H t n).map Obj.toJson))
  | .childroot i => (n, okStr ((Impl.childOf H t n i).map fun (c : Ty × Node) => hexOf (c.2.root H)))
  | .bytes => (n, okStr ((Impl.serTree H t n).map fun p => hexOf p.1))
  | .root => (n, "ok:" ++ hexOf (n.root H))
  | .mut ho =>
    -- compositions (cpy / sets) are expanded with the content read from the current tree
    let res : Option Node :=
      match ho with
      | .cpy i j =>
        -- `x[i] = x[j]`: the sub-view's backing node is written at position i (no content is read) —
        -- except for byte arrays, which are plain values: the view is built by reading the whole content
        -- and its backing is rebuilt from it
        (Impl.childOf H t n j).bind fun (c : Ty × Node) =>
          match c.1 with
          | .bytevector _ | .bytelist _ =>
            (Impl.readVal H c.1 c.2).bind fun bv => (Impl.construct H c.1 bv).bind fun nd => Impl.setChildNode H t n i nd
          | _ => Impl.setChildNode H t n i c.2
      | _ =>
        none
    -- slice assignment writes element by element: a failure in the middle keeps the earlier writes
    let (fin, okAll) : Node × Bool :=
      match ho with
      | .cpy _ _ => (res.getD n, res.isSome)
      | _ =>
        match expandHOp t .none ho with
        | none => (n, false)
        | some (ops, _) =>
          ops.foldl (fun (acc : Node × Bool) o =>
            if !acc.2 then acc else
            match Impl.apply H t acc.1 o with
            | some m => (m, true)
            | none => (acc.1, false)) (n, true)
    if okAll then (fin, "ok:" ++ hexOf (fin.root H)) else (fin, "err")

def runPOps (t : Ty) (n0 : Node) (ops : List POp) (key : String) : List String :=
  let rec go (k : Nat) (n : Node) (forks : List Node) (ops : List POp) (acc : List String) : List String :=
    match ops with
    | [] => acc.reverse
    | op :: rest =>
      let (n', res) := stepPOp t n op forks
      let forks' := match op with | .fork => forks ++ [n] | _ => forks
      go (k + 1) n' forks' rest (kv (toString k ++ "." ++ key) res :: acc)
  go 0 n0 [] ops []

/-- is this op a mutation other than a slice assignment -/
def POp.isAtomicMut : POp → Bool
  | .mut (.sets _ _) => false
  | .mut _ => true
  | .sub _ _ => true
  | _ => false

/-- the partial and the complete tree in LOCKSTEP: a mutation (other than a slice assignment) that fails on the
    partial tree is not applied to the complete tree either (answer `skip`), so that the two keep denoting the
    same value and every later result stays comparable -/
def runPOpsLock (t : Ty) (p0 n0 : Node) (ops : List POp) : List String :=
  let rec go (k : Nat) (p n : Node) (fp fn : List Node) (ops : List POp) (acc : List String) : List String :=
    match ops with
    | [] => acc.reverse
    | op :: rest =>
      let (p', rp) := stepPOp t p op fp
      let (n', rn) := if op.isAtomicMut && rp == "err" then (n, "skip") else stepPOp t n op fn
      let (fp', fn') := match op with | .fork => (fp ++ [p], fn ++ [n]) | _ => (fp, fn)
      go (k + 1) p' n' fp' fn' rest (kv (toString k ++ ".ic") rn :: kv (toString k ++ ".i") rp :: acc)
  go 0 p0 n0 [] [] ops []

def runPartial (t : Ty) (v : Val) (positions : List Nat) (ops : List POp) : String :=
  match Impl.construct H t v with
  | none => "i.ctor=err"
  | some n =>
    let (pn, done) := positions.foldl (fun (acc : Node × String) g =>
      match summarizeInto H acc.1 g with
      | some m => (m, acc.2 ++ "1")
      | none => (acc.1, acc.2 ++ "0")) (n, "")
    join ([kv "i.summ" done, kv "i.root" (hexOf (pn.root H)), kv "i.croot" (hexOf (n.root H))]
      ++ runPOpsLock t pn n ops)

def runVirt (t : Ty) (v : Val) (ops : List POp) : String :=
  match Impl.construct H t v with
  | none => "i.ctor=err"
  | some n =>
    -- run-time re-check of `VirtualViewLaws.virtual_view_reads` on this very tree: the view reads mirrored over a WHOLLY
    -- VIRTUAL backing served by the dictionary of `n` equal the reads on `n` (complete read, length, the first elements)
    let src := Virtual.srcOfDict (Virtual.dictOf H n)
    let m := Virtual.MNode.virt (n.root H)
    let same {α} [BEq α] (a b : Option α) : Bool := match a, b with
      | none, none => true | some x, some y => x == y | _, _ => false
    let vok : String :=
      if decide (Virtual.Serves H src n) then
        b01 (same ((Virtual.readValM H src t m).map valStr) ((Impl.readVal H t n).map valStr) &&
          same (Virtual.viewLenM H src t m) (Impl.viewLen H t n) &&
          ((List.range 6).all fun i =>
            same ((Virtual.readElemM H src t m i).map valStr) ((Impl.readElem H t n i).map valStr)) &&
          -- … the tree-reading serialiser and `to_obj` through the stack iterators (`VirtualIterLaws.virtual_ser_obj`) …
          same ((Virtual.serTreeM H src t m).map fun r => (hexOf r.1, r.2)) ((Impl.serTree H t n).map fun r => (hexOf r.1, r.2)) &&
          same ((Virtual.toObjTreeM H src t m).map Obj.toJson) ((Impl.toObjTree H t n).map Obj.toJson) &&
          -- … and the history of the plain mutations of this case applied through the view (`VirtualApplyLaws.virtual_apply_history_root`)
          (let plain := ops.filterMap fun o => match o with | .mut (.op x) => some x | _ => none
           same ((Virtual.applyAllM H src t m plain).map fun r => hexOf (r.root H))
                ((Virtual.applyAll H t n plain).map fun r => hexOf (r.root H))))
      else "-"
    join ([kv "i.root" (hexOf (n.root H)), kv "iv.ok" vok] ++ runPOps t n ops "ic")

/-- `(cls (bases <cls>*) (name idx)*)`: a container class with its bases and its own annotations (types by table index) -/
partial def toCls : Sexp → Option (Impl.Cls Nat)
  | .list (.atom "cls" :: .list (.atom "bases" :: bs) :: anns) => do
    let bases ← bs.mapM toCls
    let ann ← anns.mapM fun a =>
      match a with
      | .list [.atom k, i] => (atomNat i).map fun i => (k, i)
      | _ => none
    pure (.mk bases ann)
  | _ => none

/-- `inh`: the fields of the class (`Cls.fields`), then the type facts and the value facts of the FLATTENED container -/
def runInh (tys : List Ty) (vals : List Val) (c : Impl.Cls Nat) : String :=
  if !c.buildable then kv "i.fields" "err" else
  let fl := c.fields
  let fts := fl.filterMap fun kv => tys[kv.2]?
  let fvs := fl.filterMap fun kv => vals[kv.2]?
  let t : Ty := .container fts
  join [
    kv "i.fields" (String.intercalate "," (fl.map fun kv => kv.1 ++ ":" ++ toString kv.2)),
    runType t,
    runVal t (.seq fvs)]

def toOperand (w v : Sexp) : Option Impl.Operand := do
  let v ← atomInt v
  match w with
  | .atom "-" => pure { width := none, val := v }
  | w => pure { width := some (← atomNat w), val := v }

def runCase (xs : List Sexp) : Option String :=
  match xs with
  | [.atom "val", t, v] => do pure (runVal (← toTy t) (← toVal v))
  | [.atom "type", t] => do pure (runType (← toTy t))
  | [.atom "be", t, v] => do pure (runVal (← toTy t) (← toVal v))
  | [.atom "inh", .list (.atom "types" :: ts), .list (.atom "vals" :: vs), c] => do
    pure (runInh (← ts.mapM toTy) (← vs.mapM toVal) (← toCls c))
  | .atom "hist" :: t :: v :: ops => do pure (runHist (← toTy t) (← toVal v) (← ops.mapM toHOp))
  | .atom "histf" :: t :: v :: ops => do pure (runHist (← toTy t) (← toVal v) (← ops.mapM toHOp))
  | .atom "histd" :: t :: ops => do
    -- a history that starts from the DEFAULT value of the type
    let t ← toTy t
    pure (runHist t (Spec.zeroVal t) (← ops.mapM toHOp))
  | .atom "store" :: t :: v :: ops => do pure (runStore (← toTy t) (← toVal v) (← ops.mapM toSOp))
  | .atom "storel" :: t :: v :: ops => do pure (runStore (← toTy t) (← toVal v) (← ops.mapM toSOp) true)
  -- the same store history with the root view's backing served lazily by a root-keyed source
  | .atom "storev" :: t :: v :: ops => do pure (runStore (← toTy t) (← toVal v) (← ops.mapM toSOp))
  | .atom "storevl" :: t :: v :: ops => do pure (runStore (← toTy t) (← toVal v) (← ops.mapM toSOp) true)
  | .atom "partial" :: t :: v :: .list (.atom "pos" :: gs) :: ops => do
    pure (runPartial (← toTy t) (← toVal v) (← gs.mapM atomNat) (← ops.mapM toPOp))
  -- the PARTIAL tree served lazily by a root-keyed source: the partial-tree semantics (`k.i`)
  | .atom "virtp" :: t :: v :: .list (.atom "pos" :: gs) :: ops => do
    pure (runPartial (← toTy t) (← toVal v) (← gs.mapM atomNat) (← ops.mapM toPOp))
  | .atom "virt" :: t :: v :: ops => do pure (runVirt (← toTy t) (← toVal v) (← ops.mapM toPOp))
  | [.atom "dec", t, .atom pre, .atom body, .atom post] => do
    pure (runDec (← toTy t) (← unhexAux (pre.toList.drop 1)) (← unhexAux (body.toList.drop 1))
      (← unhexAux (post.toList.drop 1)))
  | .atom "tree" :: tr :: cmds => do runTree (← toTree H tr) cmds
  | .atom "path" :: t :: keys => do
    if keys.any isNegAtom then pure (runPathInvalid keys.length) else
    pure (runPath (← toTy t) none (← keys.mapM toKey))
  | .atom "pathv" :: t :: v :: keys => do
    if keys.any isNegAtom then pure (runPathInvalid keys.length) else
    pure (runPath (← toTy t) (some (← toVal v)) (← keys.mapM toKey))
  | .atom "pathm" :: t :: v :: keys => do
    -- (the container's fields carry the names of view methods on the code side: positions are what counts)
    pure (runPath (← toTy t) (some (← toVal v)) (← keys.mapM toKey))
  | [.atom "tsize", t] => do pure (runTSize (← toTy t))
  | [.atom "tnav", t] => do pure (runTSize (← toTy t))   -- navigability probes of a default tree: python-side expectations only
  | [.atom "uop", op, xw, xv, yw, yv] => do
    let op ← toBinOp op
    let x ← toOperand xw xv
    let y ← toOperand yw yv
    pure (kv "r" (optStr (fun (p : Nat × Nat) => toString p.1 ++ ":" ++ toString p.2) (Impl.evalBin op x y)))
  | [.atom "uun", .atom op, w, a] => do
    let o ← match op with | "neg" => some Impl.UnOp.neg | "pos" => some .pos | "abs" => some .abs | _ => none
    pure (kv "r" (optStr (fun (p : Nat × Nat) => toString p.1 ++ ":" ++ toString p.2) (Impl.evalUn o (← atomNat w) (← atomNat a))))
  | [.atom "upow3", w, a, e, m] => do
    pure (kv "r" (optStr toString (Impl.pow3 (← atomNat w) (← atomNat a) (← atomNat e) (← atomInt m))))
  | [.atom "urefl", op, xw, xv, yw, yv] => do
    pure (kv "r" (optStr (fun (p : Nat × Nat) => toString p.1 ++ ":" ++ toString p.2)
      (Impl.reflShiftDunder (← toBinOp op) (← atomNat xw) (← atomNat xv) (← atomNat yw) (← atomNat yv))))
  | [.atom "uinv", w, a] => do
    let w ← atomNat w
    pure (kv "r" (optStr (fun r => toString r ++ ":" ++ toString w) (Impl.invert w (← atomNat a))))
  | [.atom "uctorw", w, _, a] => do
    pure (kv "r" (optStr toString (Impl.wrap (← atomNat w) (← atomInt a))))
  | [.atom "uctor", w, a] => do
    pure (kv "r" (optStr toString (Impl.wrap (← atomNat w) (← atomInt a))))
  | [.atom "eq2", _, _, _] => some "ok=1"
  | [.atom "ctor", t, _, v] => do pure (runVal (← toTy t) (← toVal v))
  | [.atom "zh", d] => do pure (kv "zh" (hexOf (zeroHash H (← atomNat d))))
  | _ => none

partial def loop (h : IO.FS.Stream) (out : IO.FS.Stream) : IO Unit := do
  let line ← h.getLine
  if line.isEmpty then return ()
  let line := line.trimAscii.toString
  if line.isEmpty then
    out.putStrLn ""
  else
    match parseLine line with
    | none => out.putStrLn "PROTOCOL-ERROR parse"
    | some xs =>
      let xs := match xs with | [.list ys] => ys | _ => xs
      match runCase xs with
      | none => out.putStrLn "PROTOCOL-ERROR case"
      | some s => out.putStrLn s
  loop h out

end Driver

def main : IO Unit := do
  let stdin ← IO.getStdin
  let stdout ← IO.getStdout
  Driver.loop stdin stdout
