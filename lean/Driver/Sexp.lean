/-
Line protocol of the driver: S-expression parsing, conversion to model terms, canonical printing.
-/
import Rmk.Model.Types
import Rmk.Model.Tree
import Rmk.Impl.View
import Rmk.Impl.Misc
namespace Driver
open Rmk

inductive Sexp where
  | atom (s : String)
  | list (xs : List Sexp)
  deriving Repr, Inhabited

partial def parseList (cs : List Char) (acc : List Sexp) : Option (List Sexp × List Char) :=
  match cs with
  | [] => some (acc.reverse, [])
  | ')' :: rest => some (acc.reverse, ')' :: rest)
  | ' ' :: rest => parseList rest acc
  | '(' :: rest =>
    match parseList rest [] with
    | some (xs, ')' :: rest') => parseList rest' (Sexp.list xs :: acc)
    | _ => none
  | _ =>
    let tok := cs.takeWhile fun c => c != ' ' && c != '(' && c != ')'
    let rest := cs.dropWhile fun c => c != ' ' && c != '(' && c != ')'
    parseList rest (Sexp.atom (String.ofList tok) :: acc)

def parseLine (s : String) : Option (List Sexp) :=
  match parseList s.toList [] with
  | some (xs, []) => some xs
  | _ => none

def atomNat : Sexp → Option Nat
  | .atom s => s.toNat?
  | _ => none

def atomInt : Sexp → Option Int
  | .atom s => s.toInt?
  | _ => none

mutual
partial def toTy : Sexp → Option Ty
  | .atom "u8" => some (.uint 1)
  | .atom "u16" => some (.uint 2)
  | .atom "u32" => some (.uint 4)
  | .atom "u64" => some (.uint 8)
  | .atom "u128" => some (.uint 16)
  | .atom "u256" => some (.uint 32)
  | .atom "bool" => some .bool
  | .list [.atom "bv", n] => (atomNat n).map .bitvector
  | .list [.atom "bl", n] => (atomNat n).map .bitlist
  | .list [.atom "Bv", n] => (atomNat n).map .bytevector
  | .list [.atom "Bl", n] => (atomNat n).map .bytelist
  | .list [.atom "vec", t, n] => do pure (.vector (← toTy t) (← atomNat n))
  | .list [.atom "list", t, n] => do pure (.list (← toTy t) (← atomNat n))
  | .list (.atom "cont" :: fs) => (toTys fs).map .container
  | .list (.atom "union" :: .atom "none" :: os) => (toTys os).map (.union true)
  | .list (.atom "union" :: os) => (toTys os).map (.union false)
  | _ => none
partial def toTys : List Sexp → Option (List Ty)
  | [] => some []
  | x :: xs => do pure ((← toTy x) :: (← toTys xs))
end

def bitsOfString (cs : List Char) : Option (List Bool) :=
  cs.mapM fun c => if c == '0' then some false else if c == '1' then some true else none

mutual
partial def toVal : Sexp → Option Val
  | .atom "none" => some .none
  | .list (.atom "s" :: vs) => (toVals vs).map .seq
  | .list [.atom "u", sel, v] => do pure (.un (← atomNat sel) (← toVal v))
  | .atom s =>
    match s.toList with
    | 'b' :: rest => (bitsOfString rest).map .bits
    | 'x' :: rest => (unhexAux rest).map .bytes
    | _ => s.toNat?.map .num
  | _ => none
partial def toVals : List Sexp → Option (List Val)
  | [] => some []
  | x :: xs => do pure ((← toVal x) :: (← toVals xs))
end

partial def toTree (H : Hash) : Sexp → Option Node
  | .list [.atom "L", .atom h] => (unhex h).map .leaf
  | .list [.atom "Z", d] => (atomNat d).map (zeroNode H)
  | .list [.atom "P", l, r] => do pure (.pair (← toTree H l) (← toTree H r))
  | .list [.atom "F", d, b] => do
    -- `subtree_fill_to_depth`: the bottom node doubled `d` times
    let b ← toTree H b
    pure ((List.range (← atomNat d)).foldl (fun acc _ => .pair acc acc) b)
  | _ => none

def toKey : Sexp → Option Key
  | .atom "len" => some .len
  | .atom "sel" => some .sel
  | .atom s => s.toNat?.map .idx
  | _ => none

def toOp : Sexp → Option Impl.Op
  | .list [.atom "set", i, v] => do pure (.set (← atomNat i) (← toVal v))
  | .list [.atom "app", v] => do pure (.append (← toVal v))
  | .list [.atom "pop"] => some .pop
  | .list [.atom "chg", s, v] => do pure (.change (← atomNat s) (← toVal v))
  | _ => none

def toBinOp : Sexp → Option Impl.BinOp
  | .atom "add" => some .add
  | .atom "sub" => some .sub
  | .atom "mul" => some .mul
  | .atom "floordiv" => some .floordiv
  | .atom "mod" => some .mod
  | .atom "pow" => some .pow
  | .atom "lshift" => some .lshift
  | .atom "rshift" => some .rshift
  | .atom "and" => some .and
  | .atom "or" => some .or
  | .atom "xor" => some .xor
  | .atom "truediv" => some .truediv
  | _ => none

/-! printing -/

def bitsStr (bs : List Bool) : String := String.ofList (bs.map fun b => if b then '1' else '0')

mutual
partial def valStr : Val → String
  | .num n => toString n
  | .bits bs => "b" ++ bitsStr bs
  | .bytes bs => "x" ++ hexOf bs
  | .seq vs => "(s" ++ valsStr vs ++ ")"
  | .un s v => "(u " ++ toString s ++ " " ++ valStr v ++ ")"
  | .none => "none"
partial def valsStr : List Val → String
  | [] => ""
  | v :: vs => " " ++ valStr v ++ valsStr vs
end

def optStr {α} (f : α → String) : Option α → String
  | none => "err"
  | some a => f a

end Driver
