-- This module serves as the root of the `Rmk` library.
-- Import modules here that should be built as part of the library.
import Rmk.Basic
