/-
Axiom audit: for every theorem name listed in obligations.json print whether the constant exists,
whether it is a theorem, and the axioms it depends on (one JSON record per line, prefixed AUDIT).
Run:  lake env lean Rmk/Audit.lean      (cwd = /verif/lean; elaboration-time script)
-/
import Lean
import Rmk.Properties.All
open Lean Elab Command

run_cmd do
  let txt ← IO.FS.readFile "obligations.json"
  let .ok j := Json.parse txt | throwError "obligations.json: parse error"
  let .ok obj := j.getObj? | throwError "obligations.json: not an object"
  for (_, v) in obj.toList do
    let .ok arr := v.getArr? | throwError "obligations.json: not an array"
    for n in arr do
      let .ok s := n.getStr? | throwError "obligations.json: not a string"
      let name := s.toName
      let env ← getEnv
      match env.find? name with
      | none =>
        IO.println s!"AUDIT {Json.compress (Json.mkObj [("name", s), ("found", false), ("isTheorem", false), ("axioms", Json.arr #[])])}"
      | some ci =>
        let isThm := match ci with | .thmInfo _ => true | _ => false
        let axs ← liftCoreM (collectAxioms name)
        let axj := Json.arr (axs.map fun a => Json.str a.toString)
        IO.println s!"AUDIT {Json.compress (Json.mkObj [("name", s), ("found", true), ("isTheorem", isThm), ("axioms", axj)])}"
