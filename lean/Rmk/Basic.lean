def hello := "world"
