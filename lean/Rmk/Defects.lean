/-
The theorems are sharp: model-level witnesses for the repaired defects that live in modelled code (D1–D13, D15, D16; D14 is a
CPython-level defect — a mutable buffer — outside the model).

The Lean model mirrors the REPAIRED library.  For every defect that lives in modelled code this file
puts the bug back into a small local copy of the affected model function (`…Buggy`) and exhibits, by
`decide`, a concrete input on which the statement of the property theorem that the repaired model
satisfies FAILS for the buggy variant (and holds for the repaired one).  So the property theorems
are not vacuous and are sensitive to exactly these bugs.  These are labelled tests, not general
theorems (the only general statement is the D13 equivalence at the end).

The toy hash `H0 a b = a ++ b` is used wherever a hash is needed.
-/
import Rmk.Model.Tree
import Rmk.Model.Types
import Rmk.Spec.Ssz
import Rmk.Spec.Apply
import Rmk.Impl.Layout
import Rmk.Impl.View
import Rmk.Impl.Codec
import Rmk.Impl.Misc
import Rmk.Impl.Store
import Rmk.Impl.Virtual
import Rmk.Impl.StoreGuard
namespace Rmk.Defects
open Rmk Rmk.Impl Rmk.Spec

/-- toy hash -/
def H0 : Hash := fun a b => a ++ b

/-! ## D1 — `Bitlist.pop` cleared bit `len` instead of `len - 1` and summarised a non-emptied chunk
(fix 3f5aecb, property C04).  Buggy copy of the `.bitlist`/`.pop` branch of `Impl.apply`. -/

def bitlistPopBuggy (H : Hash) (lim : Nat) (n : Node) : Option Node :=
  match listLength H n with
  | none => none
  | some len =>
    if len = 0 then none else
    let i := len - 1
    let depth := getDepth ((lim + 255) / 256) + 1
    let chunkI := i / 256
    if chunkI ≥ 2 ^ depth then none else
    let next : Option Node :=
      if i % 256 == 0 then setAt H false n chunkI depth (zeroNode H 0)
      else (getAt n chunkI depth).bind fun chunk =>
        setAt H false n chunkI depth (chunkWithBit H chunk len false)      -- BUG: `ll & 0xff`, not `i & 0xff`
    next.bind fun nx =>
      popFinish H nx (pbits depth chunkI) (chunkI % 2 == 0) (len - 1)      -- BUG: no `and (i & 0xff) == 0`

/-- `Bitlist[8](1,1,1)` -/
def d1Tree (lim : Nat) : Option Node := construct H0 (.bitlist lim) (.bits [true, true, true])

/-- repaired model: after `pop` the root is the spec root of `[1,1]` and the encoding is `07` (C04.step /
    C04.history_observations) -/
example :
    ((d1Tree 8).bind fun n => apply H0 (.bitlist 8) n .pop).map (·.root H0)
      = some (htr H0 (.bitlist 8) (.bits [true, true])) ∧
    ((d1Tree 8).bind fun n => apply H0 (.bitlist 8) n .pop).bind (serTree H0 (.bitlist 8))
      = some (serialize (.bitlist 8) (.bits [true, true]), 1) ∧
    serialize (.bitlist 8) (.bits [true, true]) = [7] := by decide

/-- buggy variant: bit 2 is still set below the new length; the root is NOT the spec root of `[1,1]`
    and the encoding is `03` instead of `07` -/
example :
    ((d1Tree 8).bind fun n => bitlistPopBuggy H0 8 n).map (·.root H0)
      ≠ some (htr H0 (.bitlist 8) (.bits [true, true])) ∧
    ((d1Tree 8).bind fun n => bitlistPopBuggy H0 8 n).bind (serTree H0 (.bitlist 8))
      = some ([3], 1) := by decide

/-- buggy variant, second half of the bug: with more than one chunk of capacity (`Bitlist[600]`) the
    non-emptied chunk 0 is summarised (up to the contents root), so the remaining bits cannot be read
    any more; the repaired model reads back `[1,1]` (as a serialisation: `07`). -/
example :
    ((d1Tree 600).bind fun n => bitlistPopBuggy H0 600 n).isSome = true ∧
    (((d1Tree 600).bind fun n => bitlistPopBuggy H0 600 n).bind (readVal H0 (.bitlist 600))).isSome = false ∧
    (((d1Tree 600).bind fun n => apply H0 (.bitlist 600) n .pop).bind (readVal H0 (.bitlist 600))).map
        (serialize (.bitlist 600)) = some [7] := by decide

/-! ## D2 — `Container.deserialize` accepted a gap before the first variable part
(`first offset < fixed size` instead of `≠`; fix 628b66f, property C10).
## D3 — fixed-size `Container.deserialize` ignored the scope (fix e835eb3, property C10).
One standalone copy of the container branch of `Impl.deser` (it uses the sub-decoders of the model's
mutual block), with a switch for each of the two bugs. -/

def deserContainerWith (gapBug scopeBug : Bool) (fs : List Ty) (s : Stream) (scope : Nat) :
    Option (Val × Stream) :=
  if Spec.allFixed fs then
    if !scopeBug && scope != Spec.fixedLenSum fs then none             -- D3 BUG when `scopeBug`: check absent
    else (deserFixedFields fs s).map fun (vs, s') => (.seq vs, s')
  else
    match deserScan fs s with
    | none => none
    | some (slots, offs, s1) =>
      let fixedSize := Spec.fixedPartLen fs
      match offs.head? with
      | none => some (.seq (slots.filterMap id), s1)
      | some first =>
        if (if gapBug then decide (first < fixedSize) else first != fixedSize) then none   -- D2 BUG: `<`
        else
          match deserDyn fs scope (offs ++ [scope]) s1 with
          | none => none
          | some (dynVals, s2) => some (.seq (mergeSlots slots dynVals), s2)

/-- with both switches off this IS the container branch of the model -/
theorem deserContainerWith_repaired (fs : List Ty) (s : Stream) (scope : Nat) :
    deserContainerWith false false fs s scope = deser (.container fs) s scope := by
  simp only [deserContainerWith, deser, Bool.not_false, Bool.true_and, Bool.false_eq_true, if_false]
  rfl

/-- what `DecodeSound.sound` asserts about an accepted input, in a decidable form: re-encoding the
    decoded value gives the consumed bytes, and exactly `scope` bytes are consumed -/
def soundOn (t : Ty) (s : Stream) (scope : Nat) (r : Option (Val × Stream)) : Bool :=
  match r with
  | none => true
  | some (v, rest) => WT t v && serialize t v == s.take scope && rest == s.drop scope

def tD2 : Ty := .container [.list (.uint 1) 10]

/-- D2 witness `05000000aabb` for `{List[uint8,10]}`: accepted by the buggy decoder with the value
    `[aa]`, which re-encodes as `04000000aa` ≠ input (and `bb` is left unread): `DecodeSound.sound` fails.
    The repaired decoder rejects the input. -/
example :
    (deserContainerWith true false [.list (.uint 1) 10] [5, 0, 0, 0, 0xaa, 0xbb] 6).map
        (fun p => (serialize tD2 p.1, p.2)) = some ([4, 0, 0, 0, 0xaa], [0xbb]) ∧
    soundOn tD2 [5, 0, 0, 0, 0xaa, 0xbb] 6
      (deserContainerWith true false [.list (.uint 1) 10] [5, 0, 0, 0, 0xaa, 0xbb] 6) = false ∧
    tD2.wf = true ∧
    deser tD2 [5, 0, 0, 0, 0xaa, 0xbb] 6 = none := by decide

def tD3 : Ty := .container [.uint 2, .uint 1]

/-- D3 witnesses for `{uint16,uint8}`: 4 bytes with scope 4 are accepted (3 consumed, re-encoding is
    `010203`), and 2 bytes with scope 2 are accepted (re-encoding is `010200`).  The first one
    contradicts `DecodeSound.sound` (`scope ≤ length`); the repaired decoder rejects both. -/
example :
    (deserContainerWith false true [.uint 2, .uint 1] [1, 2, 3, 4] 4).map
        (fun p => (serialize tD3 p.1, p.2)) = some ([1, 2, 3], [4]) ∧
    soundOn tD3 [1, 2, 3, 4] 4 (deserContainerWith false true [.uint 2, .uint 1] [1, 2, 3, 4] 4) = false ∧
    (deserContainerWith false true [.uint 2, .uint 1] [1, 2] 2).map
        (fun p => (serialize tD3 p.1, p.2)) = some ([1, 2, 0], []) ∧
    tD3.wf = true ∧
    deser tD3 [1, 2, 3, 4] 4 = none ∧ deser tD3 [1, 2] 2 = none ∧
    (deser tD3 [1, 2, 3, 4] 3).map (fun p => (serialize tD3 p.1, p.2)) = some ([1, 2, 3], [4]) := by decide

/-! ## D4 — `Union.deserialize` accepted trailing bytes after the `None` option
(fix 0505683, property C10).  Copy of the union branch of `Impl.deser`. -/

def deserUnionBuggy (hasNone : Bool) (opts : List Ty) (s : Stream) (scope : Nat) : Option (Val × Stream) :=
  if scope < 1 then none
  else
    let sel := fromLE (s.take 1)
    let s1 := s.drop 1
    if sel ≥ optCount hasNone opts then none
    else if hasNone && sel == 0 then some (.un 0 .none, s1)              -- BUG: no `scope != 1` check
    else (deserOpt opts (optIndex hasNone sel) s1 (scope - 1)).map fun (v, s2) => (.un sel v, s2)

def tD4 : Ty := .union true [.uint 1]

/-- D4 witness `00ff` for `Union[None,uint8]`: accepted, re-encodes as `00`, `ff` left unread -/
example :
    (deserUnionBuggy true [.uint 1] [0, 0xff] 2).map (fun p => (serialize tD4 p.1, p.2))
      = some ([0], [0xff]) ∧
    soundOn tD4 [0, 0xff] 2 (deserUnionBuggy true [.uint 1] [0, 0xff] 2) = false ∧
    tD4.wf = true ∧
    deser tD4 [0, 0xff] 2 = none ∧
    -- the valid inputs are treated alike
    (deserUnionBuggy true [.uint 1] [0] 1).map (fun p => (serialize tD4 p.1, p.2)) = some ([0], []) ∧
    (deser tD4 [0] 1).map (fun p => (serialize tD4 p.1, p.2)) = some ([0], []) := by decide

/-! ## D5 — `boolean.decode_bytes` accepted any non-zero byte (fix 020e9e7, property C10).
Copy of the `.bool` branch of `Impl.deser`. -/

def deserBoolBuggy (s : Stream) (scope : Nat) : Option (Val × Stream) :=
  if 1 != scope then none
  else some (.num (if s.take 1 != [0] then 1 else 0), s.drop 1)           -- BUG: `bytez != b"\x00"`

/-- D5 witness `02`: accepted as `True`, which re-encodes as `01` -/
example :
    (deserBoolBuggy [2] 1).map (fun p => (serialize .bool p.1, p.2)) = some ([1], []) ∧
    soundOn .bool [2] 1 (deserBoolBuggy [2] 1) = false ∧
    deser .bool [2] 1 = none ∧
    (deser .bool [1] 1).map (fun p => (serialize .bool p.1, p.2)) = some ([1], []) := by decide

/-! ## D6 — the `Union.value()` hook dropped the changed backing (fix a8fddb4, property C05).
The hook computed `self.get_backing().setter(LEFT)(v.get_backing())` and threw the result away:
in the store model the parent's `set(key, child)` run by the hook returns the OLD union node. -/

def setChildNodeBuggy (H : Hash) (t : Ty) (n : Node) (key : Nat) (child : Node) : Option Node :=
  match t with
  | .union _ _ => (rebindLeft n child).map fun _ => n                    -- BUG: result dropped
  | _ => setChildNode H t n key child

/-- `set_backing` with the buggy hook -/
def setBackingBuggy (H : Hash) : Nat → Store → Nat → Node → Option Store
  | 0, _, _, _ => none
  | fuel+1, s, r, n =>
    match s[r]? with
    | none => none
    | some o =>
      let s1 := s.set r { o with backing := n }
      match o.hook with
      | none => some s1
      | some (p, key) =>
        match s1[p]? with
        | none => none
        | some po =>
          match setChildNodeBuggy H po.ty po.backing key n with
          | none => none
          | some pn => setBackingBuggy H fuel s1 p pn

/-- `Impl.step` for a mutation, with the buggy hook -/
def mutateBuggy (H : Hash) (s : Store) (r : Nat) (op : Op) : Option Store :=
  match s[r]? with
  | none => none
  | some o =>
    match apply H o.ty o.backing op with
    | none => none
    | some n' => setBackingBuggy H (r + 1) s r n'

def tD6 : Ty := .union false [.container [.uint 1]]

/-- a union view holding `{5}` -/
def d6Union : Option Node := construct H0 tD6 (.un 0 (.seq [.num 5]))
/-- the node of `{7}` -/
def d6New : Option Node := construct H0 (.container [.uint 1]) (.seq [.num 7])

/-- hook level: the statement of `StoreLaws.childOf_setChildNode` (after the hook ran, the parent's
    child at `key` IS the node written) holds for the repaired hook and fails for the buggy one
    (node components compared; the type components agree). -/
example :
    (d6Union.bind fun n => d6New.bind fun c =>
      (setChildNode H0 tD6 n 0 c).bind fun n' => (childOf H0 tD6 n' 0).map (·.2)) = d6New ∧
    (d6Union.bind fun n => d6New.bind fun c =>
      (setChildNodeBuggy H0 tD6 n 0 c).bind fun n' => (childOf H0 tD6 n' 0).map (·.2)) ≠ d6New ∧
    -- (the buggy hook does not fail and the child is still readable: it is the OLD child)
    (d6Union.bind fun n => d6New.bind fun c =>
      (setChildNodeBuggy H0 tD6 n 0 c).bind fun n' => (childOf H0 tD6 n' 0).map (·.2))
      = construct H0 (.container [.uint 1]) (.seq [.num 5]) ∧
    d6New.isSome = true ∧ d6Union.isSome = true := by decide

/-- the store: view 0 = the union, view 1 = its value view (obtained by `value()`, hook `(0, 0)`) -/
def d6Store : Option Store :=
  d6Union.bind fun n => step H0 [{ ty := tD6, backing := n, hook := none }] (.child 0 0)

/-- the encoding of the content of view `r` of a store, read through the view API -/
def encOf (s : Option Store) (r : Nat) : Option (List UInt8) :=
  s.bind fun st => (st[r]?).bind fun o => (readVal H0 o.ty o.backing).map (serialize o.ty)

/-- store level (C05.propagates / C05.content): after `value_view.x = 7` the repaired model shows
    `{7}` in both views; with the buggy hook the value view reads `{7}` but the union still reads `{5}`. -/
example :
    encOf (d6Store.bind fun s => step H0 s (.mutate 1 (.set 0 (.num 7)))) 1 = some [7] ∧
    encOf (d6Store.bind fun s => step H0 s (.mutate 1 (.set 0 (.num 7)))) 0 = some [0, 7] ∧
    encOf (d6Store.bind fun s => mutateBuggy H0 s 1 (.set 0 (.num 7))) 1 = some [7] ∧
    encOf (d6Store.bind fun s => mutateBuggy H0 s 1 (.set 0 (.num 7))) 0 = some [0, 5] := by decide

/-! ## D7 — `ByteVector/ByteList.navigate_type` accepted the index equal to the length / limit
(fix 5227cb8, property C08). -/

def navigateTypeBuggy (t : Ty) (k : Key) : Option (Option Ty) :=
  match t, k with
  | .bytevector n, .idx i => if i > n then none else some (some (.uint 1))      -- BUG: `>` for `≥`
  | .bytelist lim, .idx i => if i > lim then none else some (some (.uint 1))    -- BUG: `>` for `≥`
  | _, _ => navigateType t k

def buildPathBuggy : Option Ty → List Key → Option (List (Key × Option Ty))
  | _, [] => some []
  | none, _ :: _ => none
  | some t, k :: ks =>
    match navigateTypeBuggy t k with
    | none => none
    | some t' => (buildPathBuggy t' ks).map fun rest => (k, t') :: rest

/-- D7 witness: `ByteVector[4] / 4` and `ByteList[4] / 4` are accepted as paths although the SSZ
    generalized index is undefined (C08.static_gindex: "both are undefined for exactly the same key
    sequences, so keys that do not belong to the type are rejected when the path is built").
    The repaired `buildPath` rejects them. -/
example :
    (buildPathBuggy (some (.bytevector 4)) [.idx 4]).isSome = true ∧
    Spec.gindex 1 (some (.bytevector 4)) [.idx 4] = none ∧
    (buildPath (some (.bytevector 4)) [.idx 4]).isSome = false ∧
    (buildPathBuggy (some (.bytelist 4)) [.idx 4]).isSome = true ∧
    Spec.gindex 1 (some (.bytelist 4)) [.idx 4] = none ∧
    (buildPath (some (.bytelist 4)) [.idx 4]).isSome = false := by decide

/-! ## D8 — `Bitlist.key_to_static_gindex` lacked `'__len__'` (fix d77458a, property C08). -/

def keyToStaticGindexBuggy (t : Ty) (k : Key) : Option Nat :=
  match t, k with
  | .bitlist _, .len => none                                               -- BUG: TypeError
  | _, _ => keyToStaticGindex t k

def stepGindicesBuggy : Option Ty → List (Key × Option Ty) → Option (List Nat)
  | _, [] => some []
  | none, _ :: _ => none
  | some t, (k, t') :: rest =>
    match keyToStaticGindexBuggy t k, stepGindicesBuggy t' rest with
    | some g, some gs => some (g :: gs)
    | _, _ => none

def pathGindexBuggy (t : Ty) (keys : List Key) : Option Nat :=
  match buildPath (some t) keys with
  | none => none
  | some p => (stepGindicesBuggy (some t) p).map concatGindices

/-- D8 witness: the path `Bitlist[8] / '__len__'` is accepted, its SSZ index is 3, the buggy static
    index is undefined: `C08.static_gindex` fails.  The repaired model gives 3. -/
example :
    (buildPath (some (.bitlist 8)) [.len]).isSome = true ∧
    pathGindexBuggy (.bitlist 8) [.len] = none ∧
    Spec.gindex 1 (some (.bitlist 8)) [.len] = some 3 ∧
    (Ty.bitlist 8).wf = true ∧
    pathGindex (.bitlist 8) [.len] = some 3 := by decide

/-! ## D9 — `get_target_history` returned `[]` for every history
(`if last is None or …: continue`; fix 1ddfdf3, property C18). -/

def historyLevelBuggy (H : Hash) (dir : Option Bool) :
    List (Nat × Node) → Option Chunk → Option (List (Nat × Node))
  | [], _ => some []
  | (k, n) :: rest, last =>
    let child : Option Node := match dir with
      | none => some n
      | some true => getRight n
      | some false => getLeft n
    match child with
    | none => none
    | some c =>
      if last.isNone || last == some (c.root H) then historyLevelBuggy H dir rest last   -- BUG: `last is None or`
      else (historyLevelBuggy H dir rest (some (c.root H))).map (fun t => (k, c) :: t)

def targetHistoryPathBuggy (H : Hash) : List (Nat × Node) → List Bool → Option (List (Nat × Node))
  | hist, [] => historyLevelBuggy H none hist none
  | hist, b :: bs =>
    match historyLevelBuggy H (some b) hist none with
    | none => none
    | some out => targetHistoryPathBuggy H out bs

def targetHistoryBuggy (H : Hash) (hist : List (Nat × Node)) (g : Nat) : Option (List (Nat × Node)) :=
  if g = 0 then none else targetHistoryPathBuggy H hist (gbits g)

def d9a : Node := .pair (.leaf [1]) (.pair (.leaf [2]) (.leaf [3]))
def d9b : Node := .pair (.leaf [1]) (.pair (.leaf [9]) (.leaf [3]))

/-- D9 witness: a non-empty history in which the target (gindex 6) exists everywhere and changes:
    the buggy result is empty (contradicting `C18.history_nonempty`), the repaired one is the list of
    changes. -/
example :
    (∀ e ∈ [(0, d9a), (1, d9a), (2, d9b)], (getter e.2 6).isSome = true) ∧
    targetHistoryBuggy H0 [(0, d9a), (1, d9a), (2, d9b)] 6 = some [] ∧
    targetHistoryBuggy H0 [(0, d9a), (1, d9a), (2, d9b)] 1 = some [] ∧
    targetHistory H0 [(0, d9a), (1, d9a), (2, d9b)] 6 = some [(0, .leaf [2]), (2, .leaf [9])] := by decide

/-! ## D10 — `remerkleable.virtual` could not be imported (class-level defaults conflict with
`__slots__`; fix 2a6f486, property C20).
NOT EXPRESSIBLE in the model: the defect is a Python class-definition error raised at import time,
before any function of the module can run.  The model (`Rmk/Impl/Virtual.lean`) describes the behaviour
of the functions of the module and has no notion of "the module fails to load"; there is no function
to put the bug back into.  (It is caught by the executable harness only.) -/

/-! ## D11 — `setter(expand=True)` expanded ANY leaf, discarding a non-zero summary
(fix bee36d6, properties C07 and C17). -/

def setPathBuggy (H : Hash) (expand : Bool) : Node → List Bool → Node → Option Node
  | _, [], v => some v
  | .pair l r, b :: bs, v =>
    if b then (setPathBuggy H expand r bs v).map (fun r' => .pair l r')
    else (setPathBuggy H expand l bs v).map (fun l' => .pair l' r)
  | .leaf _, b :: bs, v =>
    if expand then some (expandSet H (b :: bs) v) else none                -- BUG: no zero-summary check

/-- the complete tree and the partial tree whose left subtree is summarised (root `[1,2]` under `H0`) -/
def d11Full : Node := .pair (.pair (.leaf [1]) (.leaf [2])) (.leaf [3])
def d11Part : Node := .pair (.leaf [1, 2]) (.leaf [3])

/-- D11 witness against `setPath_expand_nonzero` (C07 / `C17.write_expand_excluded_fails`): the path
    `[false] ++ true :: []` runs through the non-zero leaf `[1,2]`; the repaired setter fails, the buggy
    one succeeds and the leaf `[1,2]` is gone (replaced by a zero leaf and the new value). -/
example :
    getPath d11Part [false] = some (.leaf [1, 2]) ∧ [1, 2] ≠ zeroHash H0 ([] : List Bool).length.succ ∧
    setPath H0 true d11Part ([false] ++ true :: []) (.leaf [7]) = none ∧
    setPathBuggy H0 true d11Part ([false] ++ true :: []) (.leaf [7])
      = some (.pair (.pair (zeroNode H0 0) (.leaf [7])) (.leaf [3])) := by decide

/-- D11 witness against C17 ("a write on the partial tree either fails or has the root of the same
    write on the complete tree"): the partial tree has the root of the complete tree, the write
    succeeds on both, and the roots afterwards differ. -/
example :
    d11Part.root H0 = d11Full.root H0 ∧
    (setPathBuggy H0 true d11Part [false, true] (.leaf [7])).isSome = true ∧
    (setPathBuggy H0 true d11Part [false, true] (.leaf [7])).map (·.root H0)
      ≠ (setPathBuggy H0 true d11Full [false, true] (.leaf [7])).map (·.root H0) ∧
    -- on complete trees (no leaf on the way) the buggy and the repaired setter agree
    setPathBuggy H0 true d11Full [false, true] (.leaf [7]) = setPath H0 true d11Full [false, true] (.leaf [7]) := by
  decide

/-! ## D12 — `Union` had no `coerce_view`: a union could not be the selected option of a union
(fix 4d4ca42, property C03 / C01). -/

def constructOptBuggy (H : Hash) : List Ty → Nat → Val → Option Node
  | [], _, _ => none
  | .union _ _ :: _, 0, _ => none                                          -- BUG: `coerce_view` stub returned None
  | t :: _, 0, v => construct H t v
  | _ :: ts, k+1, v => constructOptBuggy H ts k v

/-- the union branch of `Impl.construct` over the buggy option constructor -/
def constructUnionBuggy (H : Hash) (hasNone : Bool) (opts : List Ty) (sel : Nat) (v : Val) : Option Node :=
  if sel ≥ optCount hasNone opts then none
  else if hasNone && sel == 0 then
    (match v with | .none => some (.pair (zeroNode H 0) (lenNode 0)) | _ => none)
  else (constructOptBuggy H opts (optIndex hasNone sel) v).map fun c => .pair c (lenNode sel)

def tD12 : Ty := .union false [.union true [.uint 1]]
def vD12 : Val := .un 0 (.un 1 (.num 5))

/-- D12 witness: `Union[Union[None,uint8]]` with value `(0, (1, 5))` is a well-typed value of a
    well-formed type; the buggy constructor fails (contradicting `ConstructRoot.construct_isSome`),
    the repaired one succeeds with the spec root. -/
example :
    tD12.wf = true ∧ WT tD12 vD12 = true ∧
    (constructUnionBuggy H0 false [.union true [.uint 1]] 0 (.un 1 (.num 5))).isSome = false ∧
    (construct H0 tD12 vD12).isSome = true ∧
    (construct H0 tD12 vD12).map (·.root H0) = some (htr H0 tD12 vD12) ∧
    -- unions of other options are built alike
    constructUnionBuggy H0 true [.uint 1] 1 (.num 5) = construct H0 (.union true [.uint 1]) (.un 1 (.num 5)) := by
  decide

/-! ## D13 — offsets beyond the scope were used as element sizes before being rejected
(fix 8a7278b, property C09).
The set of accepted inputs is the same before and after the fix (`deserVarNTrace_result_eq` below:
the offsets end with the scope and must be non-decreasing, so an offset beyond the scope is always
rejected *eventually*), hence no input/output property distinguishes the two.  The difference is
resource usage: the pre-fix loop called the element decoder with a scope larger than the whole
input, and the element decoder then built that many elements from an exhausted stream.
`deserVarNTrace check` is `Impl.deserVarN` instrumented to record the scopes passed to the element
decoder; `check = true` is the repaired loop, `check = false` the pre-fix loop. -/

def deserVarNTrace (check : Bool) (dec : Dec) (emin emax scope : Nat) :
    List Nat → Stream → List Nat × Option (List Val × Stream)
  | start :: stop :: rest, s =>
    if stop < start then ([], none)
    else if check && stop > scope then ([], none)                          -- the check added by the fix
    else if !(emin ≤ stop - start && stop - start ≤ emax) then ([], none)
    else
      match dec s (stop - start) with
      | none => ([stop - start], none)
      | some (v, s1) =>
        let r := deserVarNTrace check dec emin emax scope (stop :: rest) s1
        ((stop - start) :: r.1,
          match r.2 with
          | none => none
          | some (vs, s2) => some (v :: vs, s2))
  | _, s => ([], some ([], s))

/-- the instrumented repaired loop computes `Impl.deserVarN` -/
theorem deserVarNTrace_true (dec : Dec) (emin emax scope : Nat) (offs : List Nat) (s : Stream) :
    (deserVarNTrace true dec emin emax scope offs s).2 = deserVarN dec emin emax scope offs s := by
  induction offs generalizing s with
  | nil => simp [deserVarNTrace, deserVarN]
  | cons start tl ih =>
    cases tl with
    | nil => simp [deserVarNTrace, deserVarN]
    | cons stop rest =>
      simp only [deserVarNTrace, deserVarN, Bool.true_and, decide_eq_true_eq]
      split
      · rfl
      · split
        · rfl
        · split
          · rfl
          · cases hd : dec s (stop - start) with
            | none => rfl
            | some p =>
              obtain ⟨v, s1⟩ := p
              simp only [ih s1]
              cases deserVarN dec emin emax scope (stop :: rest) s1 <;> rfl

/-- D13 witness: `Vector[List[uint8,1000],2]`, 10 input bytes `08000000 f4010000 aabb`
    (offsets 8 and 500, scope 10).  Both loops reject the input, but the pre-fix loop first calls the
    element decoder with scope 492 — far beyond the 10 bytes of input — and that call "succeeds",
    building 492 elements out of the 2 bytes left in the stream; the repaired loop never calls the
    element decoder. -/
example :
    let dec := deser (.list (.uint 1) 1000)
    (deserVarNTrace true dec 0 1000 10 [8, 500, 10] [0xaa, 0xbb]).2.isSome = false ∧
    (deserVarNTrace false dec 0 1000 10 [8, 500, 10] [0xaa, 0xbb]).2.isSome = false ∧
    (deserVarNTrace true dec 0 1000 10 [8, 500, 10] [0xaa, 0xbb]).1 = [] ∧
    (deserVarNTrace false dec 0 1000 10 [8, 500, 10] [0xaa, 0xbb]).1 = [492] ∧
    (dec [0xaa, 0xbb] 492).isSome = true ∧
    -- the whole decoder of the repaired model rejects the input as well
    (deser (.vector (.list (.uint 1) 1000) 2) [8, 0, 0, 0, 0xf4, 1, 0, 0, 0xaa, 0xbb] 10).isSome = false := by
  decide +kernel

/-- a start offset beyond the scope is always rejected by the pre-fix loop when the offsets end
    with the scope (the sequence would have to decrease somewhere) -/
theorem deserVarNTrace_false_none (dec : Dec) (emin emax scope : Nat) (start : Nat) (tl : List Nat)
    (s : Stream) (hgt : start > scope) (hne : tl ≠ []) (hlast : tl.getLast? = some scope) :
    (deserVarNTrace false dec emin emax scope (start :: tl) s).2 = none := by
  induction tl generalizing start s with
  | nil => exact absurd rfl hne
  | cons stop rest ih =>
    simp only [deserVarNTrace, Bool.false_and]
    split
    · rfl
    · rename_i h1
      split
      · rfl
      · split
        · rfl
        · cases hd : dec s (stop - start) with
          | none => rfl
          | some p =>
            obtain ⟨v, s1⟩ := p
            have hrest : rest ≠ [] := by
              intro h
              subst h
              simp at hlast
              omega
            have hl : rest.getLast? = some scope := by
              rw [getLast?_cons_of_ne hrest] at hlast
              exact hlast
            have := ih stop s1 (by omega) hrest hl
            simp only [this]
where
  getLast?_cons_of_ne {α} {a : α} {l : List α} (h : l ≠ []) :
      (a :: l).getLast? = l.getLast? := by
    cases l with
    | nil => exact absurd rfl h
    | cons b t => simp [List.getLast?_cons_cons]

/-- D13, the equivalence in general: on offset lists that end with the scope (the only ones the
    sequence decoder builds: `first :: more ++ [scope]`), the pre-fix loop and the repaired loop
    return the same result — they differ only in the recorded calls of the element decoder. -/
theorem deserVarNTrace_result_eq (dec : Dec) (emin emax scope : Nat) (offs : List Nat) (s : Stream)
    (hlast : offs.getLast? = some scope) :
    (deserVarNTrace false dec emin emax scope offs s).2 = (deserVarNTrace true dec emin emax scope offs s).2 := by
  induction offs generalizing s with
  | nil => simp at hlast
  | cons start tl ih =>
    cases tl with
    | nil => simp [deserVarNTrace]
    | cons stop rest =>
      have hl : (stop :: rest).getLast? = some scope := by
        simpa [List.getLast?_cons_cons] using hlast
      by_cases hgt : stop > scope
      · -- the repaired loop rejects here; the pre-fix loop rejects here or later
        have hrest : rest ≠ [] := by
          intro h
          subst h
          simp at hl
          omega
        have hl' : rest.getLast? = some scope := by
          cases rest with
          | nil => exact absurd rfl hrest
          | cons b t => simpa [List.getLast?_cons_cons] using hl
        have hT : (deserVarNTrace true dec emin emax scope (start :: stop :: rest) s).2 = none := by
          simp only [deserVarNTrace, Bool.true_and, decide_eq_true_eq]
          split
          · rfl
          · simp
        rw [hT]
        simp only [deserVarNTrace, Bool.false_and]
        split
        · rfl
        · split
          · rfl
          · split
            · rfl
            · cases hd : dec s (stop - start) with
              | none => rfl
              | some p =>
                obtain ⟨v, s1⟩ := p
                have := deserVarNTrace_false_none dec emin emax scope stop rest s1 hgt hrest hl'
                simp only [this]
      · simp only [deserVarNTrace, Bool.false_and, Bool.true_and, decide_eq_true_eq, hgt,
          Bool.false_eq_true, if_false]
        split
        · rfl
        · split
          · rfl
          · cases hd : dec s (stop - start) with
            | none => rfl
            | some p =>
              obtain ⟨v, s1⟩ := p
              simp only [ih s1 hl]

/-- so the pre-fix loop, too, computes `Impl.deserVarN` on the offset lists the decoder builds -/
theorem deserVarN_prefix_same_result (dec : Dec) (emin emax scope : Nat) (offs : List Nat) (s : Stream)
    (hlast : offs.getLast? = some scope) :
    (deserVarNTrace false dec emin emax scope offs s).2 = deserVarN dec emin emax scope offs s := by
  rw [deserVarNTrace_result_eq dec emin emax scope offs s hlast, deserVarNTrace_true]

/-! ### D15 — `VirtualNode.setter(expand=True)` on a lazily loaded zero-summary LEAF did not expand (C20) -/

/-- a source that knows no pair at all: every key is a leaf -/
def d15Src : Virtual.Src := fun _ => none

/-- the lazily loaded leaf holding the zero hash of depth 1, written at gindex 2 with `expand`: the materialised
    leaf is expanded (`setter`), the repaired virtual `setter` agrees (`setterM`), the unrepaired one refused -/
example :
    (setter H0 (.leaf (zeroHash H0 1)) 2 true (.leaf [9])).map (·.root H0)
      = (Virtual.setterM H0 d15Src (.virt (zeroHash H0 1)) 2 true (.leaf [9])).map (Virtual.MNode.root H0) ∧
    (Virtual.setterM H0 d15Src (.virt (zeroHash H0 1)) 2 true (.leaf [9])).isSome = true ∧
    Virtual.setterMUnrepaired H0 d15Src (.virt (zeroHash H0 1)) 2 true (.leaf [9]) = none := by decide

/-! ### D16 — `ByteList / '__len__'` was refused although the SSZ text gives byte lists the length key (C08) -/

/-- the SSZ generalized index of the length of a byte list is `2·root + 1`, exactly as for lists and bit lists; the
    repaired library (and `Impl.pathGindex`) agrees, also below other path steps -/
example :
    Spec.gindex 1 (some (.bytelist 40)) [.len] = some 3 ∧
    Impl.pathGindex (.bytelist 40) [.len] = some 3 ∧
    Impl.pathGindex (.container [.uint 1, .bytelist 40]) [.idx 1, .len] = some 7 ∧
    Impl.pathGindex (.bytevector 40) [.len] = none := by decide

/-! ### D17 — a view whose super view refused a change stayed changed (C14); D18 — a union value view of an option that
    is no longer selected was written back (C14 / C05 / C01) -/

/-- `set_backing` as it was before D17: the new backing is assigned first, then the hook runs; when the hook raises
    the exception propagates and the view KEEPS the new backing (the repaired code, `Impl.setBacking`, yields no new
    state at all). Result: the store left behind, and whether the operation raised. -/
def setBackingUnrepaired (H : Hash) : Nat → Impl.Store → Nat → Node → Impl.Store × Bool
  | 0, s, _, _ => (s, true)
  | fuel+1, s, r, n =>
    match s[r]? with
    | none => (s, true)
    | some o =>
      let s1 := s.set r { o with backing := n }
      match o.hook with
      | none => (s1, false)
      | some (p, key) =>
        match s1[p]? with
        | none => (s1, true)
        | some po =>
          match Impl.setChildNode H po.ty po.backing key n with
          | none => (s1, true)          -- the super view refuses: raised, but `r` stays changed
          | some pn => setBackingUnrepaired H fuel s1 p pn

private def d17Ty : Ty := .list (.container [.uint 1]) 4

/-- a list of two containers; the element view of index 1 is held, the list is popped, then the held view is written:
    the repaired semantics yields no new state; the unrepaired one raised as well but left the held view changed -/
private def d17 : Option (Bool × Bool × Bool) := do
  let b ← Impl.construct H0 d17Ty (.seq [.seq [.num 1], .seq [.num 2]])
  let s1 ← Impl.step H0 [⟨d17Ty, b, none⟩] (.child 0 1)
  let s2 ← Impl.step H0 s1 (.mutate 0 .pop)
  let c ← s2[1]?
  let n ← Impl.apply H0 c.ty c.backing (.set 0 (.num 9))
  let (s3, raised) := setBackingUnrepaired H0 2 s2 1 n
  let c' ← s3[1]?
  pure ((Impl.step H0 s2 (.mutate 1 (.set 0 (.num 9)))).isNone, raised, c'.backing.root H0 != c.backing.root H0)

example : d17 = some (true, true, true) := by decide

private def d18Ty : Ty := .union false [.list (.uint 1) 4, .container [.uint 1]]

/-- the union holds option 0; its value view is taken; the union is changed to option 1 through the parent; an append
    through the old value view: the unguarded hook (`Impl.step`, the code before D18) lets it through and the union then
    holds, under selector 1, a node that is not the tree of any value of option 1's type read back as such —
    the guarded store (`Impl.stepG`, the repaired code) refuses -/
private def d18 : Option (Bool × Bool × Option Nat) := do
  let b ← Impl.construct H0 d18Ty (.un 0 (.seq [.num 1]))
  let g : Impl.GStore := { views := [⟨d18Ty, b, none⟩], sels := [none] }
  let g1 ← Impl.stepG H0 g (.child 0 0)
  let g2 ← Impl.stepG H0 g1 (.mutate 0 (.change 1 (.seq [.num 7])))
  let parent ← g2.views[0]?
  pure ((Impl.stepG H0 g2 (.mutate 1 (.append (.num 2)))).isNone,
        (Impl.step H0 g2.views (.mutate 1 (.append (.num 2)))).isSome,
        Impl.unionSel H0 parent.backing)

example : d18 = some (true, true, some 1) := by decide

end Rmk.Defects
