/-
Impl layer, part 3b: `value_byte_length()` computed from the tree.
The library does NOT serialise to answer this question; every view class has its own recursion:
  `FixedByteLengthViewHelper.value_byte_length` (core.py)   = `type_byte_length()`
      (uintN, boolean, Bitvector, ByteVector)
  `Bitlist.value_byte_length` (bitfields.py)                = `(length() + 7 + 1) // 8`
  `ByteList.value_byte_length` (byte_arrays.py)             = `len(self)`
  `List.value_byte_length` (complex.py)     = `elem.type_byte_length() * length()` for fixed-size
      elements, else `sum(4 + el.value_byte_length() for el in iter(self))`
  `Vector.value_byte_length` (complex.py)   = `type_byte_length()` when fixed-size, else the same sum
  `Container.value_byte_length` (complex.py) = `type_byte_length()` when fixed-size, else the sum over
      the fields of `type_byte_length()` (fixed-size field) or `4 + field.value_byte_length()`
  `Union.value_byte_length` (union.py)      = `1` (None option) or `1 + value().value_byte_length()`

`valueByteLength H t n` is `t.view_from_backing(n).value_byte_length()`; `none` = something raises.
`view_from_backing` is lazy for all tree-backed views (Bitvector, Bitlist, List, Vector, Container,
Union) and eager for uintN (cannot fail), boolean (byte must be 0/1), ByteVector and ByteList (all
chunks are read), exactly as in `readVal` / `serTree`.
Element / field / option views are obtained like everywhere else: `get(i)` = `getter(to_gindex(i,
depth))` followed by `view_from_backing`; only variable-size children are ever looked at.
-/
import Rmk.Impl.Codec
namespace Rmk.Impl
open Rmk

/-- `sum(OFFSET_BYTE_LENGTH + el.value_byte_length() for el in iter(self))` over the elements
    `0..len-1` of a sequence view with unpacked (variable-size) elements; `vbl` is the
    `value_byte_length` of one element node (same higher-order pattern as `serSeqWith`) -/
def vblSeqWith (vbl : Node → Option Nat) (n : Node) (depth len : Nat) : Option Nat :=
  (allSome ((List.range len).map fun i => (getAt n i depth).bind vbl)).map
    fun ls => (ls.map fun l => 4 + l).sum

mutual
/-- `t.view_from_backing(n).value_byte_length()` -/
def valueByteLength (H : Hash) : Ty → Node → Option Nat
  | .uint nb, _ => some nb
  | .bool, n => (readBasicAt H .bool n 0).map fun _ => 1
  | .bitvector len, _ => some ((len + 7) / 8)
  | .bitlist _, n => (listLength H n).map fun len => (len + 8) / 8
  | .bytevector len, n => (readVal H (.bytevector len) n).map fun _ => len
  | .bytelist lim, n =>
    match readVal H (.bytelist lim) n with
    | some (.bytes bs) => some bs.length
    | _ => none
  | .vector et len, n =>
    if Spec.isFixed et then some (Spec.fixedLen et * len)
    else vblSeqWith (valueByteLength H et) n (getDepth (chunkLen et len)) len
  | .list et lim, n =>
    match listLength H n with
    | none => none
    | some len =>
      if Spec.isFixed et then some (Spec.fixedLen et * len)
      else vblSeqWith (valueByteLength H et) n (getDepth (chunkLen et lim) + 1) len
  | .container fs, n =>
    if Spec.allFixed fs then some (Spec.fixedLenSum fs)
    else vblFields H fs n (getDepth fs.length) 0
  | .union hasNone opts, n =>
    match getLeft n, getRight n with
    | some c, some s =>
      let sel := readLen H s
      if sel ≥ optCount hasNone opts then none
      else if hasNone && sel == 0 then (if c.root H == zeroChunk then some 1 else none)
      else (vblOpt H opts (optIndex hasNone sel) c).map fun k => 1 + k
    | _, _ => none
/-- the loop of `Container.value_byte_length` from field `i` on -/
def vblFields (H : Hash) : List Ty → Node → Nat → Nat → Option Nat
  | [], _, _, _ => some 0
  | t :: ts, n, depth, i =>
    let here : Option Nat :=
      if Spec.isFixed t then some (Spec.fixedLen t)
      else ((getAt n i depth).bind fun c => valueByteLength H t c).map fun k => 4 + k
    match here, vblFields H ts n depth (i + 1) with
    | some a, some rest => some (a + rest)
    | _, _ => none
/-- `value_byte_length` of the selected (non-None) option of a union -/
def vblOpt (H : Hash) : List Ty → Nat → Node → Option Nat
  | [], _, _ => none
  | t :: _, 0, c => valueByteLength H t c
  | _ :: ts, k+1, c => vblOpt H ts k c
end

end Rmk.Impl
