/-
Container class hierarchies with SEVERAL bases (`class D(A, B)`: legal, all container classes share the one slotted
base `Container`), as a tree of classes: `Container.fields()` walks `cls.__bases__` in order, takes each base's
`fields()` (computed the same way), then the class's own public annotations (Rmk/Impl/Fields.lean: `dictUpdate`,
`fieldsStep`).  A hierarchy in which two bases share an ancestor is the tree with that ancestor spelled twice: `fields()`
only ever reads the dicts, so sharing is not observable.  Executable; driver case `inh`.
-/
import Rmk.Impl.Fields
namespace Rmk.Impl

inductive Cls (α : Type) where
  | mk (bases : List (Cls α)) (ann : List (String × α))

mutual
/-- `cls.fields()` -/
def Cls.fields {α : Type} : Cls α → List (String × α)
  | .mk bases ann => fieldsStep (basesFields bases []) ann
/-- `for b in cls.__bases__: for k, v in b.fields().items(): fields[k] = v` -/
def basesFields {α : Type} : List (Cls α) → List (String × α) → List (String × α)
  | [], acc => acc
  | b :: bs, acc => basesFields bs (dictUpdate acc b.fields)
end

mutual
/-- the class statement succeeds: `__init_subclass__` refuses a container class without any field, for the class and for
    every base before it -/
def Cls.buildable {α : Type} : Cls α → Bool
  | .mk bases ann => buildableList bases && !(fieldsStep (basesFields bases []) ann).isEmpty
def buildableList {α : Type} : List (Cls α) → Bool
  | [] => true
  | b :: bs => b.buildable && buildableList bs
end

/-- a single chain of classes (root-most first) as a class tree -/
def Cls.ofChain {α : Type} : List (List (String × α)) → Option (Cls α)
  | [] => none
  | ann :: rest =>
    rest.foldl (fun c a => c.map fun b => Cls.mk [b] a) (some (Cls.mk [] ann))

end Rmk.Impl
