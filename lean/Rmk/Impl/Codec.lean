/-
Impl layer, part 3: serialisation from the tree and stream deserialisation.
Mirrors `MonoSubtreeView.serialize/deserialize`, `Container.serialize/deserialize`,
`Bitlist/Bitvector.serialize/deserialize`, `Union.serialize/deserialize`,
`FixedByteLengthViewHelper.deserialize`, `uint/boolean.decode_bytes`, `ByteList.deserialize`.
A stream is the list of bytes still to be read; `stream.read(n)` = `(take n, drop n)` (short at the end).
-/
import Rmk.Impl.View
namespace Rmk.Impl
open Rmk

/-! ### serialisation from the tree -/

/-- `Bitvector.serialize`: full chunks, then the first bytes of the last chunk -/
def serBitsRaw (H : Hash) (n : Node) (depth bitlen : Nat) : Option (List UInt8) :=
  let chunkCount := (bitlen + 255) / 256
  let byteLen := (bitlen + 7) / 8
  let full := chunkCount - 1
  match readChunks H n depth full with
  | none => none
  | some pre =>
    if chunkCount > 0 then
      (getAt n (chunkCount - 1) depth).map fun last => pre ++ (last.root H).take (byteLen - full * 32)
    else some pre

/-- add the delimiting bit of a bitlist to the raw bytes (`Bitlist.serialize`) -/
def addDelimiter (raw : List UInt8) (bitlen : Nat) : List UInt8 :=
  if bitlen = 0 then [1]
  else if bitlen % 8 == 0 then raw ++ [1]
  else
    let lastB := (raw.getLastD 0).toNat
    let bit := 2 ^ (bitlen % 8)
    -- xor with the delimiter bit
    let x := if lastB / bit % 2 == 1 then lastB - bit else lastB + bit
    raw.dropLast ++ [UInt8.ofNat x]

/-- the streaming offset loop of `MonoSubtreeView.serialize` (variable-size elements):
    returns the bytes written to the stream and the returned count -/
def streamVar (parts : List (List UInt8)) : List UInt8 × Nat :=
  let init : List UInt8 × List UInt8 × Nat := ([], [], 4 * parts.length)
  let (fixedOut, dynOut, offset) :=
    parts.foldl (fun (acc : List UInt8 × List UInt8 × Nat) p =>
      (acc.1 ++ toLE 4 acc.2.2, acc.2.1 ++ p, acc.2.2 + p.length)) init
  (fixedOut ++ dynOut.take offset, offset)

/-- the loop of `Container.serialize`: per field `(isFixed, bytes)` -/
def streamFields (parts : List (Bool × List UInt8)) : List UInt8 × Nat :=
  let written0 := (parts.map fun (p : Bool × List UInt8) => if p.1 then p.2.length else 4).sum
  let init : List UInt8 × List UInt8 × Nat := ([], [], written0)
  let (fixedOut, dynOut, written) :=
    parts.foldl (fun (acc : List UInt8 × List UInt8 × Nat) (p : Bool × List UInt8) =>
      if p.1 then (acc.1 ++ p.2, acc.2.1, acc.2.2)
      else (acc.1 ++ toLE 4 acc.2.2, acc.2.1 ++ p.2, acc.2.2 + p.2.length)) init
  (fixedOut ++ dynOut.take written, written)

/-- elements `0..len-1` of a sequence view; `ser` serialises one (unpacked) element node -/
def serSeqWith (H : Hash) (ser : Node → Option (List UInt8 × Nat)) (et : Ty) (n : Node)
    (depth len : Nat) : Option (List UInt8 × Nat) :=
  if et.isBasic then
    let per := 32 / et.basicSize
    (allSome ((List.range len).map fun i =>
      (getAt n (i / per) depth).bind fun c =>
        (readBasicAt H et c (i % per)).map fun v =>
          match et with
          | .bool => [UInt8.ofNat (numOf v)]
          | _ => toLE et.basicSize (numOf v))).map
      fun parts => (parts.flatten, et.basicSize * len)
  else
    match allSome ((List.range len).map fun i => (getAt n i depth).bind ser) with
    | none => none
    | some parts =>
      if Spec.isFixed et then some ((parts.map (·.1)).flatten, Spec.fixedLen et * len)
      else some (streamVar (parts.map (·.1)))

mutual
/-- `view.serialize(stream)`: bytes written and the returned count -/
def serTree (H : Hash) : Ty → Node → Option (List UInt8 × Nat)
  | .uint nb, n =>
    match readBasicAt H (.uint nb) n 0 with
    | some (.num v) => some (toLE nb v, nb)
    | _ => none
  | .bool, n =>
    match readBasicAt H .bool n 0 with
    | some (.num v) => some ([UInt8.ofNat v], 1)
    | _ => none
  | .bitvector len, n =>
    (serBitsRaw H n (getDepth ((len + 255) / 256)) len).map fun bs => (bs, (len + 7) / 8)
  | .bitlist lim, n =>
    match listLength H n with
    | none => none
    | some len =>
      (serBitsRaw H n (getDepth ((lim + 255) / 256) + 1) len).map fun raw =>
        (addDelimiter raw len, (len + 8) / 8)
  | .bytevector len, n =>
    match readVal H (.bytevector len) n with
    | some (.bytes bs) => some (bs, bs.length)
    | _ => none
  | .bytelist lim, n =>
    match readVal H (.bytelist lim) n with
    | some (.bytes bs) => some (bs, bs.length)
    | _ => none
  | .vector et len, n => serSeqWith H (serTree H et) et n (getDepth (chunkLen et len)) len
  | .list et lim, n =>
    match listLength H n with
    | none => none
    | some len => serSeqWith H (serTree H et) et n (getDepth (chunkLen et lim) + 1) len
  | .container fs, n =>
    (serFields H fs n (getDepth fs.length) 0).map streamFields
  | .union hasNone opts, n =>
    match getLeft n, getRight n with
    | some c, some s =>
      let sel := readLen H s
      if sel ≥ optCount hasNone opts then none
      else if hasNone && sel == 0 then
        (if c.root H == zeroChunk then some ([UInt8.ofNat sel], 1) else none)
      else (serOpt H opts (optIndex hasNone sel) c).map fun (bs, k) => (UInt8.ofNat sel :: bs, 1 + k)
    | _, _ => none
def serFields (H : Hash) : List Ty → Node → Nat → Nat → Option (List (Bool × List UInt8))
  | [], _, _, _ => some []
  | t :: ts, n, depth, i =>
    match (getAt n i depth).bind (fun c => serTree H t c), serFields H ts n depth (i + 1) with
    | some (bs, _), some rest => some ((Spec.isFixed t, bs) :: rest)
    | _, _ => none
def serOpt (H : Hash) : List Ty → Nat → Node → Option (List UInt8 × Nat)
  | [], _, _ => none
  | t :: _, 0, c => serTree H t c
  | _ :: ts, k+1, c => serOpt H ts k c
end

/-! ### deserialisation from a stream -/

abbrev Stream := List UInt8

/-- `decode_offset(stream)` = `uint32.deserialize(stream, 4)` (a short read yields a smaller number) -/
def readOffset (s : Stream) : Nat × Stream := (fromLE (s.take 4), s.drop 4)

/-- read `k` offsets -/
def readOffsets : Nat → Stream → List Nat × Stream
  | 0, s => ([], s)
  | k+1, s =>
    let (o, s1) := readOffset s
    let (os, s2) := readOffsets k s1
    (o :: os, s2)

abbrev Dec := Stream → Nat → Option (Val × Stream)

/-- `count` fixed-size elements in a row -/
def deserFixedN (dec : Dec) (l : Nat) : Nat → Stream → Option (List Val × Stream)
  | 0, s => some ([], s)
  | k+1, s =>
    match dec s l with
    | none => none
    | some (v, s1) =>
      match deserFixedN dec l k s1 with
      | none => none
      | some (vs, s2) => some (v :: vs, s2)

/-- variable-size elements delimited by consecutive offsets `o₀, o₁, …, scope`; an offset beyond the
    scope is rejected before it is used as an element size -/
def deserVarN (dec : Dec) (emin emax scope : Nat) : List Nat → Stream → Option (List Val × Stream)
  | start :: stop :: rest, s =>
    if stop < start then none
    else if stop > scope then none
    else if !(emin ≤ stop - start && stop - start ≤ emax) then none
    else
      match dec s (stop - start) with
      | none => none
      | some (v, s1) =>
        match deserVarN dec emin emax scope (stop :: rest) s1 with
        | none => none
        | some (vs, s2) => some (v :: vs, s2)
  | _, s => some ([], s)

/-- `MonoSubtreeView.deserialize`; `dec` decodes one element -/
def deserSeqWith (dec : Dec) (fixed : Bool) (l emin emax : Nat) (validCount : Nat → Bool)
    (s : Stream) (scope : Nat) : Option (Val × Stream) :=
  if fixed then
    if l = 0 then none   -- ZeroDivisionError (not a well-formed type)
    else if scope % l != 0 then none
    else
      let count := scope / l
      if !validCount count then none
      else (deserFixedN dec l count s).map fun (vs, s') => (.seq vs, s')
  else
    if scope = 0 then (if validCount 0 then some (.seq [], s) else none)
    else
      let (first, s1) := readOffset s
      if first > scope then none
      else if first % 4 != 0 then none
      else
        let count := first / 4
        if !validCount count then none
        else if count = 0 then none   -- `count - 1` on a uint32 raises
        else
          let (more, s2) := readOffsets (count - 1) s1
          (deserVarN dec emin emax scope (first :: more ++ [scope]) s2).map fun (vs, s') => (.seq vs, s')

/-- put the decoded variable-size fields into the `none` slots, in order -/
def mergeSlots : List (Option Val) → List Val → List Val
  | [], _ => []
  | some v :: slots, dyn => v :: mergeSlots slots dyn
  | none :: slots, d :: dyn => d :: mergeSlots slots dyn
  | none :: slots, [] => mergeSlots slots []

mutual
/-- `T.deserialize(stream, scope)`: the decoded value and the rest of the stream; `none` = raises -/
def deser : Ty → Stream → Nat → Option (Val × Stream)
  | .uint nb, s, scope =>
    if nb != scope then none else some (.num (fromLE (s.take nb)), s.drop nb)
  | .bool, s, scope =>
    if 1 != scope then none
    else if s.take 1 == [1] then some (.num 1, s.drop 1)
    else if s.take 1 == [0] then some (.num 0, s.drop 1)
    else none
  | .bytevector len, s, scope =>
    if len != scope then none
    else if (s.take len).length != len then none
    else some (.bytes (s.take len), s.drop len)
  | .bytelist lim, s, scope =>
    if (s.take scope).length > lim then none else some (.bytes (s.take scope), s.drop scope)
  | .bitvector len, s, scope =>
    if scope != (len + 7) / 8 then none
    else
      let bs := s.take scope
      if bs.length != scope || scope = 0 then none
      else
        let last := (bs.getLastD 0).toNat
        if (scope - 1) * 8 + bitLength last > len then none
        else some (.bits ((bytesToBits bs).take len), s.drop scope)
  | .bitlist lim, s, scope =>
    if scope < 1 then none
    else if scope > lim / 8 + 1 then none
    else
      let bs := s.take scope
      if bs.length != scope then none
      else
        let last := (bs.getLastD 0).toNat
        if last = 0 then none
        else
          let bitlen := (scope - 1) * 8 + (bitLength last - 1)
          if bitlen > lim then none
          else some (.bits ((bytesToBits bs).take bitlen), s.drop scope)
  | .vector et len, s, scope =>
    deserSeqWith (deser et) (Spec.isFixed et) (Spec.fixedLen et) (Spec.minLen et) (Spec.maxLen et)
      (fun c => c == len) s scope
  | .list et lim, s, scope =>
    deserSeqWith (deser et) (Spec.isFixed et) (Spec.fixedLen et) (Spec.minLen et) (Spec.maxLen et)
      (fun c => c ≤ lim) s scope
  | .container fs, s, scope =>
    if Spec.allFixed fs then
      if scope != Spec.fixedLenSum fs then none
      else (deserFixedFields fs s).map fun (vs, s') => (.seq vs, s')
    else
      match deserScan fs s with
      | none => none
      | some (slots, offs, s1) =>
        let fixedSize := Spec.fixedPartLen fs
        match offs.head? with
        | none => some (.seq (slots.filterMap id), s1)   -- unreachable: not all fixed
        | some first =>
          if first != fixedSize then none
          else
            match deserDyn fs scope (offs ++ [scope]) s1 with
            | none => none
            | some (dynVals, s2) => some (.seq (mergeSlots slots dynVals), s2)
  | .union hasNone opts, s, scope =>
    if scope < 1 then none
    else
      let sel := fromLE (s.take 1)
      let s1 := s.drop 1
      if sel ≥ optCount hasNone opts then none
      else if hasNone && sel == 0 then (if scope != 1 then none else some (.un 0 .none, s1))
      else (deserOpt opts (optIndex hasNone sel) s1 (scope - 1)).map fun (v, s2) => (.un sel v, s2)
/-- all fields of a fixed-size container -/
def deserFixedFields : List Ty → Stream → Option (List Val × Stream)
  | [], s => some ([], s)
  | t :: ts, s =>
    match deser t s (Spec.fixedLen t) with
    | none => none
    | some (v, s1) =>
      match deserFixedFields ts s1 with
      | none => none
      | some (vs, s2) => some (v :: vs, s2)
/-- first pass of `Container.deserialize`: fixed-size fields are decoded, offsets are collected.
    Result: per field `some v` (fixed) or `none` (variable), the offsets, the rest of the stream. -/
def deserScan : List Ty → Stream → Option (List (Option Val) × List Nat × Stream)
  | [], s => some ([], [], s)
  | t :: ts, s =>
    if Spec.isFixed t then
      match deser t s (Spec.fixedLen t) with
      | none => none
      | some (v, s1) =>
        match deserScan ts s1 with
        | none => none
        | some (slots, offs, s2) => some (some v :: slots, offs, s2)
    else
      let (o, s1) := readOffset s
      match deserScan ts s1 with
      | none => none
      | some (slots, offs, s2) => some (none :: slots, o :: offs, s2)
/-- second pass: the variable-size fields, delimited by `offs ++ [scope]`; an offset beyond the scope
    is rejected before it is used as a field size -/
def deserDyn : List Ty → Nat → List Nat → Stream → Option (List Val × Stream)
  | [], _, _, s => some ([], s)
  | t :: ts, scope, offs, s =>
    if Spec.isFixed t then deserDyn ts scope offs s
    else
      match offs with
      | start :: stop :: rest =>
        if start > stop then none
        else if stop > scope then none
        else if !(Spec.minLen t ≤ stop - start && stop - start ≤ Spec.maxLen t) then none
        else
          match deser t s (stop - start) with
          | none => none
          | some (v, s1) =>
            match deserDyn ts scope (stop :: rest) s1 with
            | none => none
            | some (vs, s2) => some (v :: vs, s2)
      | _ => none
def deserOpt : List Ty → Nat → Stream → Nat → Option (Val × Stream)
  | [], _, _, _ => none
  | t :: _, 0, s, scope => deser t s scope
  | _ :: ts, k+1, s, scope => deserOpt ts k s scope
end

end Rmk.Impl
