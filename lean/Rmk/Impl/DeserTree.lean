/-
The trees that `Bitlist.deserialize` / `Bitvector.deserialize` (bitfields.py) build DIRECTLY from the raw chunks of the
input — every other decoder goes through the constructors (`Impl.construct`), these two do not: they cut the input
into 32-byte chunks, fix up the last one (delimiting bit removed, zero padding) and fill the tree from those nodes.
`bs` is what the stream yields for the scope (`s.take scope`).
-/
import Rmk.Impl.Codec
namespace Rmk.Impl
open Rmk

/-- the `while scope > 32` loop: the full chunks read first, and the last part (1..32 bytes; empty for empty input) -/
def splitChunks : Nat → List UInt8 → List (List UInt8) × List UInt8
  | 0, bs => ([], bs)
  | fuel+1, bs =>
    if bs.length > 32 then
      let (full, last) := splitChunks fuel (bs.drop 32)
      (bs.take 32 :: full, last)
    else ([], bs)

/-- `Bitlist.deserialize`: the backing built from the chunks (`none` = raises) -/
def deserBitlistTree (H : Hash) (lim : Nat) (bs : List UInt8) : Option Node :=
  let scope := bs.length
  if scope < 1 then none
  else if scope > lim / 8 + 1 then none
  else
    let (full, lastPart) := splitChunks scope bs
    let last := (lastPart.getLastD 0).toNat
    if last = 0 then none
    else
      let lbl := bitLength last - 1
      let bitlen := (scope - 1) * 8 + lbl
      let lastChunk := lastPart.dropLast ++ [UInt8.ofNat (last ^^^ (1 <<< lbl))]
      let chunks := full ++ (if bitlen % 256 != 0 then [lastChunk ++ zeros (32 - lastChunk.length)] else [])
      if bitlen > lim then none
      else (fillToContents H (chunks.map .leaf) (getDepth ((lim + 255) / 256))).map fun c => mixInNode c bitlen

/-- `Bitvector.deserialize` -/
def deserBitvectorTree (H : Hash) (len : Nat) (bs : List UInt8) : Option Node :=
  let scope := bs.length
  if scope != (len + 7) / 8 then none
  else if scope = 0 then none      -- (`last_chunk_part[scope-1]` on an empty read: IndexError; not a well-formed type)
  else
    let (full, lastPart) := splitChunks scope bs
    let last := (lastPart.getLastD 0).toNat
    if (scope - 1) * 8 + bitLength last > len then none
    else fillToContents H ((full ++ [lastPart ++ zeros (32 - lastPart.length)]).map .leaf) (getDepth ((len + 255) / 256))

end Rmk.Impl
