/-
The WORK of decoding: the number of `deserialize` calls (nested ones included) that `T.deserialize(stream, scope)`
makes — successful or not. `deserWork` follows `Impl.deser` call by call (same checks in the same order), so the
harness can compare it with the number of `deserialize` calls the library really makes on the same input.
-/
import Rmk.Impl.Codec
namespace Rmk.Impl

abbrev Wk := Stream → Nat → Nat

/-- calls made by `count` fixed-size element decodes in a row (stops at the first failure) -/
def workFixedN (dec : Dec) (wk : Wk) (l : Nat) : Nat → Stream → Nat
  | 0, _ => 0
  | k+1, s =>
    wk s l + (match dec s l with
      | none => 0
      | some (_, s1) => workFixedN dec wk l k s1)

/-- calls made by the variable-size element decodes (stops at the first rejected offset / failure) -/
def workVarN (dec : Dec) (wk : Wk) (emin emax scope : Nat) : List Nat → Stream → Nat
  | start :: stop :: rest, s =>
    if stop < start then 0
    else if stop > scope then 0
    else if !(emin ≤ stop - start && stop - start ≤ emax) then 0
    else
      wk s (stop - start) + (match dec s (stop - start) with
        | none => 0
        | some (_, s1) => workVarN dec wk emin emax scope (stop :: rest) s1)
  | _, _ => 0

/-- calls made below `MonoSubtreeView.deserialize` -/
def workSeqWith (dec : Dec) (wk : Wk) (fixed : Bool) (l emin emax : Nat) (validCount : Nat → Bool)
    (s : Stream) (scope : Nat) : Nat :=
  if fixed then
    if l = 0 then 0
    else if scope % l != 0 then 0
    else
      let count := scope / l
      if !validCount count then 0
      else workFixedN dec wk l count s
  else
    if scope = 0 then 0
    else
      let (first, s1) := readOffset s
      if first > scope then 0
      else if first % 4 != 0 then 0
      else
        let count := first / 4
        if !validCount count then 0
        else if count = 0 then 0
        else
          let (more, s2) := readOffsets (count - 1) s1
          workVarN dec wk emin emax scope (first :: more ++ [scope]) s2

mutual
/-- number of `deserialize` calls made by `T.deserialize(stream, scope)`, this one included -/
def deserWork : Ty → Stream → Nat → Nat
  | .uint _, _, _ => 1
  | .bool, _, _ => 1
  | .bytevector _, _, _ => 1
  | .bytelist _, _, _ => 1
  | .bitvector _, _, _ => 1
  | .bitlist _, _, _ => 1
  | .vector et len, s, scope =>
    1 + workSeqWith (deser et) (deserWork et) (Spec.isFixed et) (Spec.fixedLen et) (Spec.minLen et) (Spec.maxLen et)
      (fun c => c == len) s scope
  | .list et lim, s, scope =>
    1 + workSeqWith (deser et) (deserWork et) (Spec.isFixed et) (Spec.fixedLen et) (Spec.minLen et) (Spec.maxLen et)
      (fun c => c ≤ lim) s scope
  | .container fs, s, scope =>
    if Spec.allFixed fs then
      if scope != Spec.fixedLenSum fs then 1
      else 1 + workFixedFields fs s
    else
      1 + workScan fs s +
        (match deserScan fs s with
         | none => 0
         | some (_, offs, s1) =>
           match offs.head? with
           | none => 0
           | some first =>
             if first != Spec.fixedPartLen fs then 0
             else workDyn fs scope (offs ++ [scope]) s1)
  | .union hasNone opts, s, scope =>
    if scope < 1 then 1
    else
      let sel := fromLE (s.take 1)
      let s1 := s.drop 1
      if sel ≥ optCount hasNone opts then 1
      else if hasNone && sel == 0 then 1
      else 1 + workOpt opts (optIndex hasNone sel) s1 (scope - 1)
def workFixedFields : List Ty → Stream → Nat
  | [], _ => 0
  | t :: ts, s =>
    deserWork t s (Spec.fixedLen t) + (match deser t s (Spec.fixedLen t) with
      | none => 0
      | some (_, s1) => workFixedFields ts s1)
def workScan : List Ty → Stream → Nat
  | [], _ => 0
  | t :: ts, s =>
    if Spec.isFixed t then
      deserWork t s (Spec.fixedLen t) + (match deser t s (Spec.fixedLen t) with
        | none => 0
        | some (_, s1) => workScan ts s1)
    else workScan ts (readOffset s).2
def workDyn : List Ty → Nat → List Nat → Stream → Nat
  | [], _, _, _ => 0
  | t :: ts, scope, offs, s =>
    if Spec.isFixed t then workDyn ts scope offs s
    else
      match offs with
      | start :: stop :: rest =>
        if start > stop then 0
        else if stop > scope then 0
        else if !(Spec.minLen t ≤ stop - start && stop - start ≤ Spec.maxLen t) then 0
        else
          deserWork t s (stop - start) + (match deser t s (stop - start) with
            | none => 0
            | some (_, s1) => workDyn ts scope (stop :: rest) s1)
      | _ => 0
def workOpt : List Ty → Nat → Stream → Nat → Nat
  | [], _, _, _ => 0
  | t :: _, 0, s, scope => deserWork t s scope
  | _ :: ts, k+1, s, scope => workOpt ts k s scope
end

end Rmk.Impl
