/-
Element-wise reads through the view API: `view[i]` / `view.field` (`get(i)`: navigate to the element's
chunk by generalized index, then read), `len(view)`, and in-range slice reads `view[a:b]` (the element reads
in order, as `__getitem__` with a slice does).  Executable; used by the driver for the `elem` / `slice` / `len`
observations on complete, partial and lazily loaded trees.
-/
import Rmk.Impl.View
import Rmk.Impl.Codec
namespace Rmk.Impl
open Rmk

/-- element `i` of a view, read through the view API (composition of model functions) -/
def readElem (H : Hash) (t : Ty) (n : Node) (i : Nat) : Option Val :=
  match t with
  | .vector et len =>
    if i ≥ len then none else
    if et.isBasic then
      let per := 32 / et.basicSize
      (getAt n (i / per) (treeDepth t)).bind fun c => readBasicAt H et c (i % per)
    else (getAt n i (treeDepth t)).bind (readVal H et)
  | .list et _ =>
    match listLength H n with
    | none => none
    | some len =>
      if i ≥ len then none else
      if et.isBasic then
        let per := 32 / et.basicSize
        (getAt n (i / per) (treeDepth t)).bind fun c => readBasicAt H et c (i % per)
      else (getAt n i (treeDepth t)).bind (readVal H et)
  | .container fs =>
    match fs[i]? with
    | none => none
    | some ft => (getAt n i (treeDepth t)).bind (readVal H ft)
  | .bitvector len =>
    if i ≥ len then none else
    (getAt n (i / 256) (treeDepth t)).map fun c => .num (if bitOfChunk (c.root H) i then 1 else 0)
  | .bitlist _ =>
    match listLength H n with
    | none => none
    | some len =>
      if i ≥ len then none else
      (getAt n (i / 256) (treeDepth t)).map fun c => .num (if bitOfChunk (c.root H) i then 1 else 0)
  | _ => none

/-- `len(view)` -/
def viewLen (H : Hash) (t : Ty) (n : Node) : Option Nat :=
  match t with
  | .vector _ len => some len
  | .bitvector len => some len
  | .bytevector len => some len
  | .list _ _ => listLength H n
  | .bitlist _ => listLength H n
  | .bytelist _ => (readVal H t n).map fun v => match v with | .bytes bs => bs.length | _ => 0
  | _ => none


/-- `view[a:b]` for `a ≤ b ≤ len(view)`: the element reads `a, a+1, …, b-1` in order; fails when one of them fails -/
def sliceRead (H : Hash) (t : Ty) (n : Node) (a b : Nat) : Option (List Val) :=
  (List.range (b - a)).mapM fun j => readElem H t n (a + j)

/-- element `i` of a value, as `view[i]` presents it (a bit is presented as the number 0 / 1) -/
def elemAt : Val → Nat → Option Val
  | .seq vs, i => vs[i]?
  | .bits bs, i => bs[i]?.map fun b => .num (if b then 1 else 0)
  | _, _ => none

/-- number of elements of a value, as `len(view)` presents it -/
def lenOf : Val → Option Nat
  | .seq vs => some vs.length
  | .bits bs => some bs.length
  | .bytes bs => some bs.length
  | _ => none

end Rmk.Impl
