/-
Container inheritance: `Container.fields()` (complex.py).

    fields = {}
    for b in cls.__bases__:
        for k, v in b.fields().items(): fields[k] = v
    for k, v in cls.__annotations__.items():
        if k[0] != '_': fields[k] = v      # an existing key is overwritten IN PLACE, a new key is appended
    return fields

A class hierarchy is modelled as the list of the `__annotations__` dicts along the (single) chain of bases, root-most
class first, the class itself last (`Container` itself contributes `{}`; multiple container bases are impossible:
`Container` has non-empty `__slots__`, CPython refuses the layout).  A Python `dict` is an association list without
duplicate keys in insertion order.  The rest of the model works on the FLATTENED field list; `fieldsChain` is how the
library obtains it.  Executable; the driver prints it for `inh` cases beside the real `cls.fields()`.
-/
namespace Rmk.Impl

/-- `d[k] = v` on an insertion-ordered dict: overwrite in place, or append -/
def dictSet {α} (d : List (String × α)) (k : String) (v : α) : List (String × α) :=
  match d with
  | [] => [(k, v)]
  | (k', v') :: rest => if k' = k then (k, v) :: rest else (k', v') :: dictSet rest k v

/-- the `for k, v in …: fields[k] = v` loop -/
def dictUpdate {α} (d : List (String × α)) (kvs : List (String × α)) : List (String × α) :=
  kvs.foldl (fun acc kv => dictSet acc kv.1 kv.2) d

/-- `k[0] != '_'` (annotation names are non-empty identifiers) -/
def isPublic (k : String) : Bool := k.toList.head? != some '_'

/-- one class: the inherited dict updated with the public annotations of the class -/
def fieldsStep {α} (inherited : List (String × α)) (ann : List (String × α)) : List (String × α) :=
  dictUpdate inherited (ann.filter fun kv => isPublic kv.1)

/-- `cls.fields()` for a chain of classes (root-most first) -/
def fieldsChain {α} (chain : List (List (String × α))) : List (String × α) :=
  chain.foldl fieldsStep []

end Rmk.Impl
