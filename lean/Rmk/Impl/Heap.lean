/-
Heap layer: object identity, the cached root of a `PairNode` and in-place mutation (tree.py).

The pure tree layer (`Rmk/Model/Tree.lean`) cannot speak about *which object* a child is, about the
`_root` cache of a `PairNode`, or about the number of `merkle_hash` calls.  Here a Python object is an
address into an append-only array of cells:

  * `RootNode(root)`              ↦ `Cell.leaf root`
  * `PairNode(left, right)`       ↦ `Cell.pair l r cache`   (`cache = none` ⇔ `_root is None`)

Modelled operations:
  * `alloc`       – object construction (`PairNode(..)`, `RootNode(..)`): push a cell.
  * `merkleRoot`  – `PairNode.merkle_root`: return the cache, or compute the children's roots, call the
                    pair hash ONCE (`hashCalls + 1`), fill the cache.  Filling a `none` cache is the only
                    write to an existing cell in the whole model.
  * `setPathH`    – `setter(target, expand)(v)`: new uncached pair cells along the path, re-using the
                    ADDRESSES of the untouched siblings; never writes an existing cell.
                    (With `expand`, Python builds a temporary `PairNode(child, child)` per expanded
                    level that is immediately rebound and dropped; the model allocates only the cells
                    that stay reachable: one fresh zero leaf and one pair per expanded level.)
  * `ofNode`      – build a whole (uncached) tree.

Core Lean only; everything is executable and kernel-reducible (fuel = address + 1; children of a pair
always have smaller addresses, which every recursive function re-checks so that it is total).
-/
import Rmk.Model.Tree
namespace Rmk.Heap
open Rmk

/-- addresses.  (The definitions below spell the type `Nat` so that `omega` sees through it.) -/
abbrev Addr := Nat

inductive Cell where
  | leaf (c : Chunk)
  | pair (l r : Nat) (cache : Option Chunk)
  deriving Repr, DecidableEq, Inhabited

/-- the cell with its cache erased (what `denote` looks at) -/
def Cell.shape : Cell → Cell
  | .leaf c => .leaf c
  | .pair l r _ => .pair l r none

structure Heap where
  /-- append-only in all modelled operations (except for cache filling) -/
  cells : Array Cell := #[]
  /-- number of pair-hash invocations so far -/
  hashCalls : Nat := 0
  deriving Repr, DecidableEq, Inhabited

def empty : Heap := {}

/-- object construction: push a cell, return its address -/
def alloc (h : Heap) (c : Cell) : Heap × Nat :=
  ({ h with cells := h.cells.push c }, h.cells.size)

/-- what a dangling / ill-formed address denotes (never reached on a well-formed heap) -/
def dangling : Node := .leaf []

def denoteF (h : Heap) : Nat → Nat → Node
  | 0, _ => dangling
  | f+1, a =>
    match h.cells[a]? with
    | some (.leaf c) => .leaf c
    | some (.pair l r _) =>
      if l < a ∧ r < a then .pair (denoteF h f l) (denoteF h f r) else dangling
    | none => dangling

/-- the pure tree an address stands for -/
def denote (h : Heap) (a : Nat) : Node := denoteF h (a + 1) a

def merkleRootF (H : Hash) : Nat → Heap → Nat → Heap × Chunk
  | 0, h, _ => (h, [])
  | f+1, h, a =>
    match h.cells[a]? with
    | some (.leaf c) => (h, c)
    | some (.pair _ _ (some c)) => (h, c)
    | some (.pair l r none) =>
      if l < a ∧ r < a then
        let r1 := merkleRootF H f h l
        let r2 := merkleRootF H f r1.1 r
        let c := H r1.2 r2.2
        ({ cells := r2.1.cells.setIfInBounds a (.pair l r (some c)),
           hashCalls := r2.1.hashCalls + 1 }, c)
      else (h, [])
    | none => (h, [])

/-- `merkle_root()` of the object at `a` -/
def merkleRoot (H : Hash) (h : Heap) (a : Nat) : Heap × Chunk := merkleRootF H (a + 1) h a

/-- the cells `setter(.., expand=True)` allocates below a zero summary (mirror of `expandSet`) -/
def expandH (H : Hash) (h : Heap) : List Bool → Nat → Heap × Nat
  | [], v => (h, v)
  | b :: bs, v =>
    let r1 := expandH H h bs v
    let r2 := alloc r1.1 (.leaf (zeroHash H bs.length))
    if b then alloc r2.1 (.pair r2.2 r1.2 none) else alloc r2.1 (.pair r1.2 r2.2 none)

/-- `setter(target, expand)(v)` along a path (mirror of `setPath`); `none` = NavigationError -/
def setPathH (H : Hash) (expand : Bool) (h : Heap) (a : Nat) : List Bool → Nat → Option (Heap × Nat)
  | [], v => some (h, v)
  | b :: bs, v =>
    match h.cells[a]? with
    | some (.pair l r _) =>
      if b then (setPathH H expand h r bs v).map fun x => alloc x.1 (.pair l x.2 none)
      else (setPathH H expand h l bs v).map fun x => alloc x.1 (.pair x.2 r none)
    | some (.leaf c) =>
      if expand && c == zeroHash H (bs.length + 1) then some (expandH H h (b :: bs) v) else none
    | none => none

/-- allocate a whole tree, uncached -/
def ofNode (h : Heap) : Node → Heap × Nat
  | .leaf c => alloc h (.leaf c)
  | .pair l r =>
    let r1 := ofNode h l
    let r2 := ofNode r1.1 r
    alloc r2.1 (.pair r1.2 r2.2 none)

def collectF (h : Heap) : Nat → Nat → List Nat → List Nat
  | 0, _, vis => vis
  | f+1, a, vis =>
    if a ∈ vis then vis else
    match h.cells[a]? with
    | some (.pair l r none) =>
      if l < a ∧ r < a then a :: collectF h f r (collectF h f l vis) else vis
    | _ => vis

/-- depth-first search with a visited list `vis`: adds to `vis` every uncached pair address reachable
    from `a` through uncached pairs (the walk stops at leaves, cached pairs and visited addresses) -/
def collect (h : Heap) (a : Nat) (vis : List Nat) : List Nat := collectF h (a + 1) a vis

/-- the DISTINCT uncached pair addresses reachable from `a` (see `HeapLaws.mem_uncachedList`,
    `HeapLaws.uncachedList_nodup`) -/
def uncachedList (h : Heap) (a : Nat) : List Nat := collect h a []

def uncached (h : Heap) (a : Nat) : Nat := (uncachedList h a).length

/-! ### invariants -/

/-- children are older objects than their parent -/
def Shape (h : Heap) : Prop :=
  ∀ a l r c, h.cells[a]? = some (Cell.pair l r c) → l < a ∧ r < a

/-- every filled cache holds the root of the denoted tree -/
def CacheOK (H : Hash) (h : Heap) : Prop :=
  ∀ a l r c, h.cells[a]? = some (Cell.pair l r (some c)) → c = (denote h a).root H

def WF (H : Hash) (h : Heap) : Prop := Shape h ∧ CacheOK H h

/-- everything reachable from `a` is hashed: leaves and cached pairs only -/
inductive Hashed (h : Heap) : Nat → Prop
  | leaf (a : Nat) (c : Chunk) : h.cells[a]? = some (Cell.leaf c) → Hashed h a
  | pair (a l r : Nat) (c : Chunk) : h.cells[a]? = some (Cell.pair l r (some c)) →
      Hashed h l → Hashed h r → Hashed h a

/-- a cache is only ever filled after the children's (Python invariant of `merkle_root`) -/
def Closed (h : Heap) : Prop :=
  ∀ a l r c, h.cells[a]? = some (Cell.pair l r (some c)) → Hashed h a

/-- C19 sharing: along the path `p` the new cells (from `a'` in `h'`) and the old cells (from `a` in
    `h`) have the very same ADDRESS as off-path child -/
def SharesOffPath (h : Heap) (a : Nat) (h' : Heap) (a' : Nat) : List Bool → Prop
  | [] => True
  | b :: bs =>
    ∃ l r c l' r' c', h.cells[a]? = some (Cell.pair l r c) ∧ h'.cells[a']? = some (Cell.pair l' r' c') ∧
      if b then l' = l ∧ SharesOffPath h r h' r' bs else r' = r ∧ SharesOffPath h l h' l' bs

end Rmk.Heap
