/-
Impl layer, part 4b: the two remaining stack-machine iterators of readonly_iters.py,
`PackedIter` and `BitfieldIter`, as explicit state machines with the SAME state variables as the
Python classes (`i`, `j`, `rootIndex`, `currentRoot`, `stack`).  `none` = the iterator raises.

The chunk fetch (xor with the previous index, backtrack, step right, descend left) is textually the
same code as `NodeIter.__next__` with `rootIndex` in the role of `i`; it is modelled by
`nodeIterNext anchor depth ⟨rootIndex, stack⟩` (Rmk/Impl/Misc.lean).
-/
import Rmk.Impl.Misc
namespace Rmk.Impl
open Rmk

/-! ### PackedIter -/

/-- the mutable fields of `PackedIter` (`anchor`, `depth`, `length`, `per_node`, `elem_type` are
    constant) -/
structure PackedIterState where
  i : Nat
  j : Nat
  rootIndex : Nat
  currentRoot : Node
  stack : List (Option Node)
  deriving Inhabited

/-- `PackedIter.__next__` after the `i >= length` test.
    `j < per_node`: yield element `j` of the remembered chunk, `j += 1`, `i += 1`.
    otherwise: fetch bottom node number `rootIndex` (stack walk), require `is_leaf()`, remember it,
    yield its element 0, `j = 1`, `rootIndex += 1`, `i += 1`. -/
def packedIterNext (H : Hash) (et : Ty) (anchor : Node) (depth perNode : Nat)
    (st : PackedIterState) : Option (Val × PackedIterState) :=
  if st.j < perNode then
    -- elem = self.elem_type.basic_view_from_backing(self.currentRoot, self.j)
    match readBasicAt H et st.currentRoot st.j with
    | none => none
    | some elem => some (elem, { st with j := st.j + 1, i := st.i + 1 })
  else
    match nodeIterNext anchor depth { i := st.rootIndex, stack := st.stack } with
    | none => none
    | some (node, walk) =>
      -- if not node.is_leaf(): raise
      if !node.isLeaf then none
      else
        -- el = self.elem_type.basic_view_from_backing(node, 0)
        match readBasicAt H et node 0 with
        | none => none
        | some el =>
          some (el, { i := st.i + 1, j := 1, rootIndex := st.rootIndex + 1,
                      currentRoot := node, stack := walk.stack })

/-- repeated `__next__` until `StopIteration` (`i >= length`).  `fuel` only bounds the recursion: every
    call increments `i`, so `length - i` calls suffice (`packedIterRun_fuel` in ItersLaws.lean). -/
def packedIterRun (H : Hash) (et : Ty) (anchor : Node) (depth perNode length : Nat) :
    Nat → PackedIterState → Option (List Val)
  | 0, _ => some []
  | fuel+1, st =>
    if st.i ≥ length then some []
    else
      match packedIterNext H et anchor depth perNode st with
      | none => none
      | some (v, st') => (packedIterRun H et anchor depth perNode length fuel st').map (v :: ·)

/-- everything yielded by `PackedIter(anchor, depth, length, elem_type)`; `none` = raises
    (in `__init__`: division by a zero element size, `limit < length`; in `__next__`: navigation
    error, non-leaf bottom node, undecodable element). -/
def packedIter (H : Hash) (et : Ty) (anchor : Node) (depth length : Nat) : Option (List Val) :=
  if et.basicSize = 0 then none            -- `32 // 0`
  else
    let perNode := 32 / et.basicSize
    let limit := 2 ^ depth * perNode
    if limit < length then none
    else
      packedIterRun H et anchor depth perNode length length
        { i := 0, j := perNode, rootIndex := 0, currentRoot := .leaf zeroChunk,
          stack := List.replicate depth none }

/-! ### BitfieldIter -/

/-- the mutable fields of `BitfieldIter`; `currentRoot` is a root (bytes), not a node -/
structure BitfieldIterState where
  i : Nat
  j : Nat
  rootIndex : Nat
  currentRoot : Chunk
  stack : List (Option Node)
  deriving Inhabited

/-- `((currentRoot[j >> 3] >> (j & 7)) & 1) == 1` -/
def bitfieldIterBit (root : Chunk) (j : Nat) : Bool :=
  let elByte := (root.getD (j >>> 3) 0).toNat
  ((elByte >>> (j &&& 7)) &&& 1) == 1

/-- `BitfieldIter.__next__` after the `i >= length` test.
    `j > 0`: yield bit `j` of the remembered root, `j += 1`, wrap `j` to 0 when `j > 0xff`, `i += 1`.
    otherwise: fetch bottom node number `rootIndex`, require `is_leaf()`, remember its root, yield
    bit 0 (`currentRoot[0] & 1`), `j = 1`, `rootIndex += 1`, `i += 1`. -/
def bitfieldIterNext (H : Hash) (anchor : Node) (depth : Nat) (st : BitfieldIterState) :
    Option (Bool × BitfieldIterState) :=
  if st.j > 0 then
    let elem := bitfieldIterBit st.currentRoot st.j
    let j1 := st.j + 1
    let j2 := if j1 > 0xff then 0 else j1
    some (elem, { st with j := j2, i := st.i + 1 })
  else
    match nodeIterNext anchor depth { i := st.rootIndex, stack := st.stack } with
    | none => none
    | some (node, walk) =>
      if !node.isLeaf then none
      else
        let root := node.root H
        -- `el = (self.currentRoot[0] & 1 == 1)` (in Python `&` binds tighter than `==`)
        let el := ((root.getD 0 0).toNat &&& 1) == 1
        some (el, { i := st.i + 1, j := 1, rootIndex := st.rootIndex + 1,
                    currentRoot := root, stack := walk.stack })

def bitfieldIterRun (H : Hash) (anchor : Node) (depth length : Nat) :
    Nat → BitfieldIterState → Option (List Bool)
  | 0, _ => some []
  | fuel+1, st =>
    if st.i ≥ length then some []
    else
      match bitfieldIterNext H anchor depth st with
      | none => none
      | some (b, st') => (bitfieldIterRun H anchor depth length fuel st').map (b :: ·)

/-- everything yielded by `BitfieldIter(anchor, depth, length)`; `none` = raises -/
def bitfieldIter (H : Hash) (anchor : Node) (depth length : Nat) : Option (List Bool) :=
  let limit := 2 ^ depth * 2 ^ 8          -- `(1 << depth) << 8`
  if limit < length then none
  else
    bitfieldIterRun H anchor depth length length
      { i := 0, j := 0, rootIndex := 0, currentRoot := zeroChunk,
        stack := List.replicate depth none }

end Rmk.Impl
