/-
Impl layer, part 1: tree layout of every type, constructors (value → backing tree), default nodes.
Mirrors core.py (packing), complex.py / bitfields.py / byte_arrays.py / union.py (`__new__`,
`get_backing`, `default_node`, `tree_depth`, `contents_depth`).
-/
import Rmk.Model.Types
import Rmk.Model.Tree
import Rmk.Spec.Ssz
namespace Rmk.Impl
open Rmk

/-- `pack_ints_to_chunks(items, items_per_chunk)` with `grouper(.., fillvalue=0)` -/
def packInts (size : Nat) (vs : List Nat) : List Chunk :=
  let per := 32 / size
  (groups per vs).map fun g =>
    (g ++ List.replicate (per - g.length) 0).flatMap fun v => toLE size v

/-- `pack_bits_to_chunks`: bits → byte ints (groups of 8, fill 0) → chunks of 32 bytes (fill 0) -/
def packBits (bs : List Bool) : List Chunk :=
  (groups 32 (bitsToBytes bs)).map fun g => g ++ zeros (32 - g.length)

/-- `pack_bytes_to_chunks` -/
def packBytes (bs : List UInt8) : List Chunk :=
  let full := bs.length / 32 * 32
  let fullChunks := (List.range (bs.length / 32)).map fun i => (bs.drop (32 * i)).take 32
  if bs.length != full then fullChunks ++ [bs.drop full ++ zeros (32 - (bs.length - full))]
  else fullChunks

/-- number of chunks of the contents of a sequence type with `n` elements (`to_chunk_length`) -/
def chunkLen (et : Ty) (n : Nat) : Nat :=
  if et.isBasic then
    let per := 32 / et.basicSize
    (n + per - 1) / per
  else n

/-- depth of the contents subtree (without the length mix-in) -/
def contentsDepth : Ty → Nat
  | .uint _ => 0
  | .bool => 0
  | .bitvector n => getDepth ((n + 255) / 256)
  | .bitlist lim => getDepth ((lim + 255) / 256)
  | .bytevector n => getDepth ((n + 31) / 32)
  | .bytelist lim => getDepth ((lim + 31) / 32)
  | .vector et n => getDepth (chunkLen et n)
  | .list et lim => getDepth (chunkLen et lim)
  | .container fs => getDepth fs.length
  | .union _ _ => 0

/-- has a length / selector mix-in at the right child of the root -/
def hasMixIn : Ty → Bool
  | .bitlist _ => true
  | .bytelist _ => true
  | .list _ _ => true
  | .union _ _ => true
  | _ => false

/-- `tree_depth()` -/
def treeDepth (t : Ty) : Nat := contentsDepth t + (if hasMixIn t then 1 else 0)

/-- `uint256(n).get_backing()` -/
def lenNode (n : Nat) : Node := .leaf (chunkOfLE 32 n)

def mixInNode (contents : Node) (n : Nat) : Node := .pair contents (lenNode n)

/-- extract the number of a `.num` (basic) value -/
def numOf : Val → Nat
  | .num n => n
  | _ => 0

mutual
/-- default backing tree of a type: `default_node()` -/
def defaultNode (H : Hash) : Ty → Option Node
  | .uint _ => some (zeroNode H 0)
  | .bool => some (zeroNode H 0)
  | .bitvector n => fillToLength H (zeroNode H 0) (getDepth ((n + 255) / 256)) ((n + 255) / 256)
  | .bitlist lim => some (.pair (zeroNode H (getDepth ((lim + 255) / 256))) (zeroNode H 0))
  | .bytevector n => fillToLength H (zeroNode H 0) (getDepth ((n + 31) / 32)) ((n + 31) / 32)
  | .bytelist lim => some (.pair (zeroNode H (getDepth ((lim + 31) / 32))) (zeroNode H 0))
  | .vector et n =>
    if et.isBasic then fillToLength H (zeroNode H 0) (getDepth (chunkLen et n)) (chunkLen et n)
    else match defaultNode H et with
      | some e => fillToLength H e (getDepth n) n
      | none => none
  | .list et lim => some (.pair (zeroNode H (getDepth (chunkLen et lim))) (zeroNode H 0))
  | .container fs =>
    match defaultNodes H fs with
    | some ns => fillToContents H ns (getDepth fs.length)
    | none => none
  | .union true _ => some (.pair (zeroNode H 0) (zeroNode H 0))
  | .union false opts =>
    match defaultNodeHead H opts with
    | some c => some (.pair c (zeroNode H 0))
    | none => none
def defaultNodes (H : Hash) : List Ty → Option (List Node)
  | [] => some []
  | t :: ts =>
    match defaultNode H t, defaultNodes H ts with
    | some n, some ns => some (n :: ns)
    | _, _ => none
def defaultNodeHead (H : Hash) : List Ty → Option Node
  | [] => none
  | t :: _ => defaultNode H t
end

/-- sequence of `Option`s to `Option` of a list -/
def allSome {α} : List (Option α) → Option (List α)
  | [] => some []
  | none :: _ => none
  | some a :: rest => (allSome rest).map (a :: ·)

mutual
/-- backing tree built by the constructors from a (well-typed) value; `none` = the constructor raises.
    Mirrors `List/Vector/Container/Bitlist/Bitvector/Union.__new__`, `ByteVector/ByteList.get_backing`,
    `BasicView.get_backing`, including the constraint checks made there. -/
def construct (H : Hash) : Ty → Val → Option Node
  | .uint nb, .num n => if n < 2 ^ (8 * nb) then some (.leaf (chunkOfLE nb n)) else none
  | .bool, .num n => if n < 2 then some (.leaf (chunkOfLE 1 n)) else none
  | .bitvector n, .bits bs =>
    if bs.length != n then none
    else fillToContents H ((packBits bs).map .leaf) (getDepth ((n + 255) / 256))
  | .bitlist lim, .bits bs =>
    if bs.length > lim then none
    else if bs.length = 0 then defaultNode H (.bitlist lim)
    else (fillToContents H ((packBits bs).map .leaf) (getDepth ((lim + 255) / 256))).map
      fun c => mixInNode c bs.length
  | .bytevector n, .bytes bs =>
    if bs.length != n then none
    else if bs.length ≤ 32 then some (.leaf (bs ++ zeros (32 - bs.length)))
    else fillToContents H ((packBytes bs).map .leaf) (getDepth ((n + 31) / 32))
  | .bytelist lim, .bytes bs =>
    if bs.length > lim then none
    else (fillToContents H ((packBytes bs).map .leaf) (getDepth ((lim + 31) / 32))).map
      fun c => mixInNode c bs.length
  | .vector et n, .seq vs =>
    if vs.length != n then none
    else if n = 0 then none
    else match allSome (vs.map fun v => construct H et v) with
      | none => none
      | some ns =>
        let chunks := if et.isBasic then (packInts et.basicSize (vs.map numOf)).map .leaf else ns
        fillToContents H chunks (getDepth (chunkLen et n))
  | .list et lim, .seq vs =>
    if vs.length = 0 then defaultNode H (.list et lim)
    else if vs.length > lim then none
    else match allSome (vs.map fun v => construct H et v) with
      | none => none
      | some ns =>
        let chunks := if et.isBasic then (packInts et.basicSize (vs.map numOf)).map .leaf else ns
        (fillToContents H chunks (getDepth (chunkLen et lim))).map fun c => mixInNode c vs.length
  | .container fs, .seq vs =>
    match constructFields H fs vs with
    | none => none
    | some ns => fillToContents H ns (getDepth fs.length)
  | .union hasNone opts, .un sel v =>
    if sel ≥ optCount hasNone opts then none
    else if hasNone && sel == 0 then
      (match v with | .none => some (.pair (zeroNode H 0) (lenNode 0)) | _ => none)
    else (constructOpt H opts (optIndex hasNone sel) v).map fun c => .pair c (lenNode sel)
  | _, _ => none
def constructFields (H : Hash) : List Ty → List Val → Option (List Node)
  | [], [] => some []
  | t :: ts, v :: vs =>
    match construct H t v, constructFields H ts vs with
    | some n, some ns => some (n :: ns)
    | _, _ => none
  | _, _ => none
def constructOpt (H : Hash) : List Ty → Nat → Val → Option Node
  | [], _, _ => none
  | t :: _, 0, v => construct H t v
  | _ :: ts, k+1, v => constructOpt H ts k v
end

end Rmk.Impl
