/-
Impl layer, part 4: type navigation and static gindices (`navigate_type`, `key_to_static_gindex`,
`Path.gindex`), the checked `uintN` operators (basic.py), the stack-machine iterators
(readonly_iters.py).
-/
import Rmk.Impl.View
namespace Rmk.Impl
open Rmk

/-! ### paths -/

/-- `T.navigate_type(key)`: `none` = raises; `some none` = the `None` option of a union -/
def navigateType (t : Ty) (k : Key) : Option (Option Ty) :=
  match t, k with
  | .list et lim, .idx i => if i ≥ lim then none else some (some et)
  | .list _ _, .len => some (some (.uint 32))
  | .vector et n, .idx i => if i ≥ n then none else some (some et)
  | .container fs, .idx i => (fs[i]?).map some
  | .bitlist lim, .idx i => if i ≥ lim then none else some (some .bool)
  | .bitlist _, .len => some (some (.uint 32))
  | .bitvector n, .idx i => if i ≥ n then none else some (some .bool)
  | .bytevector n, .idx i => if i ≥ n then none else some (some (.uint 1))
  | .bytelist lim, .idx i => if i ≥ lim then none else some (some (.uint 1))
  | .bytelist _, .len => some (some (.uint 32))
  | .union hasNone opts, .idx i =>
    if i ≥ optCount hasNone opts then none else some (Spec.optType hasNone opts i)
  | .union _ _, .sel => some (some (.uint 32))
  | _, _ => none

/-- `T.key_to_static_gindex(key)` -/
def keyToStaticGindex (t : Ty) (k : Key) : Option Nat :=
  match t, k with
  | .list et lim, .idx i =>
    if i ≥ lim then none
    else toGindex (if et.isBasic then i / (32 / et.basicSize) else i) (treeDepth (.list et lim))
  | .list _ _, .len => some 3
  | .vector et n, .idx i =>
    if i ≥ n then none
    else toGindex (if et.isBasic then i / (32 / et.basicSize) else i) (treeDepth (.vector et n))
  | .container fs, .idx i => if i ≥ fs.length then none else toGindex i (treeDepth (.container fs))
  | .bitlist lim, .idx i => if i ≥ lim then none else toGindex (i / 256) (treeDepth (.bitlist lim))
  | .bitlist _, .len => some 3
  | .bitvector n, .idx i => if i ≥ n then none else toGindex (i / 256) (treeDepth (.bitvector n))
  | .bytevector n, .idx i => if i ≥ n then none else toGindex (i / 32) (treeDepth (.bytevector n))
  | .bytelist lim, .idx i => if i ≥ lim then none else toGindex (i / 32) (treeDepth (.bytelist lim))
  | .bytelist _, .len => some 3
  | .union hasNone opts, .idx i => if i ≥ optCount hasNone opts then none else some 2
  | .union _ _, .sel => some 3
  | _, _ => none

/-- `Path.from_raw_path(anchor, keys)`: the types along the path; `none` = a key is rejected -/
def buildPath : Option Ty → List Key → Option (List (Key × Option Ty))
  | _, [] => some []
  | none, _ :: _ => none
  | some t, k :: ks =>
    match navigateType t k with
    | none => none
    | some t' => (buildPath t' ks).map fun rest => (k, t') :: rest

/-- step gindices of `Path.gindex()` (static) -/
def stepGindices : Option Ty → List (Key × Option Ty) → Option (List Nat)
  | _, [] => some []
  | none, _ :: _ => none
  | some t, (k, t') :: rest =>
    match keyToStaticGindex t k, stepGindices t' rest with
    | some g, some gs => some (g :: gs)
    | _, _ => none

/-- `(T / k₁ / k₂ / …).gindex()` -/
def pathGindex (t : Ty) (keys : List Key) : Option Nat :=
  match buildPath (some t) keys with
  | none => none
  | some p => (stepGindices (some t) p).map concatGindices

/-! ### uintN operators -/

inductive BinOp where
  | add | sub | mul | floordiv | mod | pow | lshift | rshift | and | or | xor | truediv
  deriving Repr, DecidableEq, Inhabited

/-- an operand: a uint of byte width `w` (`some w`) or a plain Python int (`none`) -/
structure Operand where
  width : Option Nat
  val : Int
  deriving Repr, Inhabited

/-- `uintW(x)`: range check of the constructor (`value < 0`, `value.bit_length() > (byte_len << 3)`) -/
def wrap (w : Nat) (x : Int) : Option Nat :=
  if x < 0 then none else if bitLength x.toNat > 8 * w then none else some x.toNat

/-- `uintW.coerce_view(o)`: a uint of another width is refused, anything else goes through the constructor -/
def coerceOperand (w : Nat) (o : Operand) : Option Nat :=
  match o.width with
  | some w' => if w' != w then none else wrap w o.val
  | none => wrap w o.val

/-- the constructor applied to a non-negative result -/
def wrapN (w : Nat) (n : Nat) : Option Nat := wrap w (n : Int)

/-- `a.__op__(o)` for `a : uintW`.  Every result goes through the constructor (`wrapN` / `wrap`);
    a difference is negative exactly when `b > a`. -/
def directOp (w : Nat) (a : Nat) (op : BinOp) (o : Operand) : Option Nat :=
  match op with
  | .add => (coerceOperand w o).bind fun b => wrapN w (a + b)
  | .sub => (coerceOperand w o).bind fun b => if a < b then none else wrapN w (a - b)
  | .mul => (coerceOperand w o).bind fun b => wrapN w (a * b)
  | .floordiv => (coerceOperand w o).bind fun b => if b = 0 then none else wrapN w (a / b)
  | .mod => (coerceOperand w o).bind fun b => if b = 0 then none else wrapN w (a % b)
  | .and => (coerceOperand w o).bind fun b => wrapN w (a &&& b)
  | .or => (coerceOperand w o).bind fun b => wrapN w (a ||| b)
  | .xor => (coerceOperand w o).bind fun b => wrapN w (a ^^^ b)
  | .pow => if o.val < 0 then none else wrapN w (a ^ o.val.toNat)
  | .lshift => if o.val < 0 then none else wrapN w ((a * 2 ^ o.val.toNat) % 2 ^ (8 * w))
  | .rshift => if o.val < 0 then none else wrapN w (a / 2 ^ o.val.toNat)
  | .truediv => none

/-- `a.__rop__(o)` for `a : uintW` and a plain int `o` on the left -/
def reflectedOp (w : Nat) (a : Nat) (op : BinOp) (o : Operand) : Option Nat :=
  match op with
  | .add => directOp w a .add o
  | .mul => directOp w a .mul o
  | .and => directOp w a .and o
  | .or => directOp w a .or o
  | .xor => directOp w a .xor o
  | .sub => (coerceOperand w o).bind fun b => if b < a then none else wrapN w (b - a)
  | .floordiv => (coerceOperand w o).bind fun b => if a = 0 then none else wrapN w (b / a)
  | .mod => (coerceOperand w o).bind fun b => if a = 0 then none else wrapN w (b % a)
  | .pow => wrap w (o.val ^ a)
  | .lshift => none     -- `__rlshift__` requires the left operand to be a uint
  | .rshift => none
  | .truediv => none

/-- `x op y` where at least one operand is a uint: the value and the byte width of the result type -/
def evalBin (op : BinOp) (x y : Operand) : Option (Nat × Nat) :=
  match x.width, y.width with
  | some wx, _ => (directOp wx x.val.toNat op y).map fun r => (r, wx)
  | none, some wy => (reflectedOp wy y.val.toNat op x).map fun r => (r, wy)
  | none, none => none

/-- `~a` -/
def invert (w : Nat) (a : Nat) : Option Nat := wrapN w (a ^^^ (2 ^ (8 * w) - 1))

/-! ### stack-machine iterators -/

structure NodeIterState where
  i : Nat
  stack : List (Option Node)
  deriving Inhabited

/-- number of iterations of `while s != 0: s >>= 1` -/
def shiftCount (s : Nat) : Nat := bitLength s

/-- descend left from `node`, recording `stack[x] = node` for `x` in `stackIndex .. depth-1` -/
def descendLeft : Nat → Nat → Node → List (Option Node) → Option (Node × List (Option Node))
  | 0, _, node, stack => some (node, stack)
  | k+1, x, node, stack =>
    match getLeft node with
    | none => none
    | some l => descendLeft k (x + 1) l (stack.set x (some node))

/-- `NodeIter.__next__` (after the `i >= length` test) -/
def nodeIterNext (anchor : Node) (depth : Nat) (st : NodeIterState) : Option (Node × NodeIterState) :=
  let start : Option (Node × Nat) :=
    if st.i != 0 then
      let s := st.i ^^^ (st.i - 1)
      let stackIndex := depth - shiftCount s
      match (st.stack.getD stackIndex none) with
      | none => none
      | some node => (getRight node).map fun r => (r, stackIndex + 1)
    else some (anchor, 0)
  match start with
  | none => none
  | some (node, stackIndex) =>
    match descendLeft (depth - stackIndex) stackIndex node st.stack with
    | none => none
    | some (leaf, stack') => some (leaf, { i := st.i + 1, stack := stack' })

def nodeIterRun (anchor : Node) (depth : Nat) : Nat → NodeIterState → Option (List Node)
  | 0, _ => some []
  | k+1, st =>
    match nodeIterNext anchor depth st with
    | none => none
    | some (n, st') => (nodeIterRun anchor depth k st').map (n :: ·)

/-- all nodes yielded by `NodeIter(anchor, depth, length)`; `none` = raises -/
def nodeIter (anchor : Node) (depth length : Nat) : Option (List Node) :=
  if 2 ^ depth < length then none
  else nodeIterRun anchor depth length { i := 0, stack := List.replicate depth none }

end Rmk.Impl
