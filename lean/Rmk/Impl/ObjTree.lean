/-
`to_obj()` as the library computes it: FROM THE TREE, through the read-only iterators and the tree-reading
serialiser — not from a plain value.

  * basic views: `int(self)` / `bool(self)` / `"0x" + encode_bytes().hex()` of the decoded basic value;
  * bit fields and byte arrays: `'0x' + self.encode_bytes().hex()` — `encode_bytes` is the tree-reading serialiser
    (`serTree`, Rmk/Impl/Codec.lean);
  * `List` / `Vector`: `el.to_obj() for el in self.readonly_iter()` — `PackedIter` for basic elements, `NodeIter`
    + `view_from_backing` for composite ones (the stack machines of Rmk/Impl/Iters.lean and Rmk/Impl/Misc.lean);
  * `Container`: `zip(fields().keys(), self.__iter__())` — `ContainerElemIter` is `NodeIter` over the field nodes;
  * `Union`: selector from the right child, `value().to_obj()` on the left child with the selected option's type.

`none` = the library raises (a node that is not available, a malformed length, an iterator that refuses).
Executable; the driver prints it as `i.objtree` beside `s.obj` (`Obj.toObj` of the plain value) and `p.obj`.
Theorem (Rmk/Proofs/ObjTreeLaws.lean): on every tree that represents `v`, `toObjTree = some (toObj t v)`.
-/
import Rmk.Impl.Iters
import Rmk.Impl.Codec
import Rmk.Spec.Obj
namespace Rmk.Impl
open Rmk Rmk.Obj

mutual
def toObjTree (H : Hash) : Ty → Node → Option Obj
  | .uint nb, n => (readBasicAt H (.uint nb) n 0).map (toObj (.uint nb))
  | .bool, n => (readBasicAt H .bool n 0).map (toObj .bool)
  | .bitvector k, n => (serTree H (.bitvector k) n).map fun r => .str (hexStr r.1)
  | .bitlist k, n => (serTree H (.bitlist k) n).map fun r => .str (hexStr r.1)
  | .bytevector k, n => (serTree H (.bytevector k) n).map fun r => .str (hexStr r.1)
  | .bytelist k, n => (serTree H (.bytelist k) n).map fun r => .str (hexStr r.1)
  | .vector et len, n =>
    let depth := getDepth (chunkLen et len)
    if et.isBasic then (packedIter H et n depth len).map fun vs => .tup (vs.map (toObj et))
    else
      match nodeIter n depth len with
      | none => none
      | some ns => (allSome (ns.map fun c => toObjTree H et c)).map .tup
  | .list et lim, n =>
    let depth := getDepth (chunkLen et lim) + 1
    match listLength H n with
    | none => none
    | some len =>
      if et.isBasic then (packedIter H et n depth len).map fun vs => .arr (vs.map (toObj et))
      else
        match nodeIter n depth len with
        | none => none
        | some ns => (allSome (ns.map fun c => toObjTree H et c)).map .arr
  | .container fs, n =>
    match nodeIter n (getDepth fs.length) fs.length with
    | none => none
    | some ns => (toObjTreeFields H fs 0 ns).map .dict
  | .union hasNone opts, n =>
    match getLeft n, getRight n with
    | some c, some s =>
      let sel := readLen H s
      if sel ≥ optCount hasNone opts then none
      else if hasNone && sel == 0 then
        -- `value()`: `assert value_node.root == zero_node(0).root`
        (if c.root H == zeroChunk then some (.dict [("selector", .num sel), ("value", .null)]) else none)
      else
        (toObjTreeOpt H opts (optIndex hasNone sel) c).map fun o =>
          .dict [("selector", .num sel), ("value", o)]
    | _, _ => none
/-- fields `i, i+1, …` zipped with the nodes the container iterator yields -/
def toObjTreeFields (H : Hash) : List Ty → Nat → List Node → Option (List (String × Obj))
  | t :: ts, i, c :: cs =>
    match toObjTree H t c, toObjTreeFields H ts (i + 1) cs with
    | some o, some os => some ((fieldName i, o) :: os)
    | _, _ => none
  | _, _, _ => some []
def toObjTreeOpt (H : Hash) : List Ty → Nat → Node → Option Obj
  | [], _, _ => none
  | t :: _, 0, c => toObjTree H t c
  | _ :: ts, k+1, c => toObjTreeOpt H ts k c
end

end Rmk.Impl
