/-
The refinement relation between plain values and backing trees.
`IsZero`     — an all-zero subtree of a given height, summarised or (partially) expanded.
`ChunkTree`  — a subtree of depth `d` whose first bottom positions hold the given nodes and whose
               remaining positions are zero (this admits every shape the code produces: after
               construction, default, append with expansion, pop with summarisation).
`Repr`       — node `n` represents value `v` of type `t`.
-/
import Rmk.Impl.Layout
namespace Rmk.Impl
open Rmk

/-- all-zero subtree of height `d`: the summary `zero_node(d)` or a pair of all-zero subtrees -/
inductive IsZero (H : Hash) : Nat → Node → Prop
  | summary (d : Nat) : IsZero H d (zeroNode H d)
  | pair (d : Nat) (l r : Node) : IsZero H d l → IsZero H d r → IsZero H (d + 1) (.pair l r)

/-- `n` is a subtree of depth `d` holding the nodes `ls` at its first bottom positions, zero after -/
def ChunkTree (H : Hash) : Nat → List Node → Node → Prop
  | 0, ls, n => (ls = [] ∧ IsZero H 0 n) ∨ ls = [n]
  | d + 1, ls, n =>
    (ls = [] ∧ IsZero H (d + 1) n) ∨
    (ls ≠ [] ∧ ls.length ≤ 2 ^ (d + 1) ∧
      ∃ l r, n = .pair l r ∧ ChunkTree H d (ls.take (2 ^ d)) l ∧ ChunkTree H d (ls.drop (2 ^ d)) r)

/-- pointwise relation of two lists of equal length -/
def AllRel {α β} (R : α → β → Prop) : List α → List β → Prop
  | [], [] => True
  | a :: as, b :: bs => R a b ∧ AllRel R as bs
  | _, _ => False

mutual
/-- `n` represents the value `v` of type `t` -/
def Repr (H : Hash) : Ty → Val → Node → Prop
  | .uint nb, .num x, n => x < 2 ^ (8 * nb) ∧ n = .leaf (chunkOfLE nb x)
  | .bool, .num x, n => x < 2 ∧ n = .leaf (chunkOfLE 1 x)
  | .bitvector len, .bits bs, n =>
    bs.length = len ∧ ChunkTree H (getDepth ((len + 255) / 256)) ((packBits bs).map .leaf) n
  | .bitlist lim, .bits bs, n =>
    bs.length ≤ lim ∧ ∃ c, n = mixInNode c bs.length ∧
      ChunkTree H (getDepth ((lim + 255) / 256)) ((packBits bs).map .leaf) c
  | .bytevector len, .bytes bs, n =>
    bs.length = len ∧ ChunkTree H (getDepth ((len + 31) / 32)) ((packBytes bs).map .leaf) n
  | .bytelist lim, .bytes bs, n =>
    bs.length ≤ lim ∧ ∃ c, n = mixInNode c bs.length ∧
      ChunkTree H (getDepth ((lim + 31) / 32)) ((packBytes bs).map .leaf) c
  | .vector et len, .seq vs, n =>
    vs.length = len ∧
    (if et.isBasic then
      (∀ v ∈ vs, WT et v = true) ∧
        ChunkTree H (getDepth (chunkLen et len)) ((packInts et.basicSize (vs.map numOf)).map .leaf) n
    else ∃ ns, AllRel (Repr H et) vs ns ∧ ChunkTree H (getDepth (chunkLen et len)) ns n)
  | .list et lim, .seq vs, n =>
    vs.length ≤ lim ∧ ∃ c, n = mixInNode c vs.length ∧
    (if et.isBasic then
      (∀ v ∈ vs, WT et v = true) ∧
        ChunkTree H (getDepth (chunkLen et lim)) ((packInts et.basicSize (vs.map numOf)).map .leaf) c
    else ∃ ns, AllRel (Repr H et) vs ns ∧ ChunkTree H (getDepth (chunkLen et lim)) ns c)
  | .container fs, .seq vs, n =>
    ∃ ns, ReprFields H fs vs ns ∧ ChunkTree H (getDepth fs.length) ns n
  | .union hasNone opts, .un sel v, n =>
    sel < optCount hasNone opts ∧ ∃ c, n = .pair c (lenNode sel) ∧
      (if hasNone && sel == 0 then v = .none ∧ c = zeroNode H 0
       else ReprOpt H opts (optIndex hasNone sel) v c)
  | _, _, _ => False
def ReprFields (H : Hash) : List Ty → List Val → List Node → Prop
  | [], [], [] => True
  | t :: ts, v :: vs, n :: ns => Repr H t v n ∧ ReprFields H ts vs ns
  | _, _, _ => False
def ReprOpt (H : Hash) : List Ty → Nat → Val → Node → Prop
  | [], _, _, _ => False
  | t :: _, 0, v, n => Repr H t v n
  | _ :: ts, k + 1, v, n => ReprOpt H ts k v n
end

end Rmk.Impl
