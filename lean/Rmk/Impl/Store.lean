/-
Impl layer, part 5: a store of simultaneously held views with hooks (core.py `BackedView.set_backing`,
subtree.py `get` hooks, union.py `value()` hook), copies and backing snapshots.
-/
import Rmk.Impl.View
namespace Rmk.Impl
open Rmk

structure VObj where
  ty : Ty
  backing : Node
  hook : Option (Nat × Nat)      -- (reference of the parent view, key)
  deriving Inhabited

abbrev Store := List VObj

/-- type and node of the child of a composite view at `key` (`get(i)` / `__getattr__` / `value()`);
    `none` = raises, or the child is not a mutable view (basic and byte-array elements are values) -/
def childOf (H : Hash) (t : Ty) (n : Node) (key : Nat) : Option (Ty × Node) :=
  match t with
  | .vector et len =>
    if et.isBasic || key ≥ len then none
    else (getAt n key (getDepth (chunkLen et len))).map fun c => (et, c)
  | .list et lim =>
    match listLength H n with
    | none => none
    | some len =>
      if et.isBasic || key ≥ len then none
      else (getAt n key (getDepth (chunkLen et lim) + 1)).map fun c => (et, c)
  | .container fs =>
    match fs[key]? with
    | none => none
    | some ft => (getAt n key (getDepth fs.length)).map fun c => (ft, c)
  | .union hasNone opts =>
    match getLeft n, getRight n with
    | some c, some s =>
      let sel := readLen H s
      if sel ≥ optCount hasNone opts then none
      else match Spec.optType hasNone opts sel with
        | none => none
        | some ot => some (ot, c)
    | _, _ => none
  | _ => none

/-- the parent's `set(key, child)` as run by the hook: the child's backing is written at `key` -/
def setChildNode (H : Hash) (t : Ty) (n : Node) (key : Nat) (child : Node) : Option Node :=
  match t with
  | .vector et len => if key ≥ len then none else setAt H false n key (getDepth (chunkLen et len)) child
  | .list et lim =>
    match listLength H n with
    | none => none
    | some len => if key ≥ len then none else setAt H false n key (getDepth (chunkLen et lim) + 1) child
  | .container fs => if key ≥ fs.length then none else setAt H false n key (getDepth fs.length) child
  | .union _ _ => rebindLeft n child
  | _ => none

/-- `set_backing(value)`: assign, then run the hook chain upwards (`fuel` bounds the chain length;
    a parent always has a smaller reference than its child) -/
def setBacking (H : Hash) : Nat → Store → Nat → Node → Option Store
  | 0, _, _, _ => none
  | fuel+1, s, r, n =>
    match s[r]? with
    | none => none
    | some o =>
      let s1 := s.set r { o with backing := n }
      match o.hook with
      | none => some s1
      | some (p, key) =>
        match s1[p]? with
        | none => none
        | some po =>
          match setChildNode H po.ty po.backing key n with
          | none => none
          | some pn => setBacking H fuel s1 p pn

inductive SOp where
  | child (r key : Nat)
  | mutate (r : Nat) (op : Op)
  | copy (r : Nat)
  deriving Inhabited

/-- one store operation; `none` = the operation raises (the store is then left as it was) -/
def step (H : Hash) (s : Store) : SOp → Option Store
  | .child r key =>
    match s[r]? with
    | none => none
    | some o => (childOf H o.ty o.backing key).map fun (ct, cn) =>
        s ++ [{ ty := ct, backing := cn, hook := some (r, key) }]
  | .mutate r op =>
    match s[r]? with
    | none => none
    | some o =>
      match apply H o.ty o.backing op with
      | none => none
      | some n' => setBacking H (r + 1) s r n'
  | .copy r =>
    match s[r]? with
    | none => none
    | some o => some (s ++ [{ ty := o.ty, backing := o.backing, hook := none }])

end Rmk.Impl
