/-
Impl layer, part 5b: the guard of `Union.value()` hooks (union.py).  A value view handed out by a union remembers
the selector the union had at that moment; writing it back when the union has another selector by then is refused
(before the repair the node of the old option was silently put under the new selector: an ill-typed union).
A refused hook — like a list element view whose index no longer exists — makes the whole mutation fail and every
view on the way keeps its previous backing (core.py `set_backing` restores it).

The guarded store keeps, per view, the selector its parent had when the view was handed out (`none`: the parent is
not a union, or there is no parent).
-/
import Rmk.Impl.Store
namespace Rmk.Impl
open Rmk

/-- the selector currently stored in a union backing -/
def unionSel (H : Hash) (n : Node) : Option Nat := (getRight n).map (readLen H)

structure GStore where
  views : Store
  sels : List (Option Nat)
  deriving Inhabited

/-- the selector to remember for a new child view of `o` -/
def selOf (H : Hash) (o : VObj) : Option Nat :=
  match o.ty with
  | .union _ _ => unionSel H o.backing
  | _ => none

/-- is the hook between view `r` and its parent stale (the parent is a union that has moved on)? -/
def staleLink (H : Hash) (s : Store) (sels : List (Option Nat)) (r : Nat) : Bool :=
  match s[r]? with
  | none => false
  | some o =>
    match o.hook with
    | none => false
    | some (p, _) =>
      match s[p]? with
      | none => false
      | some po =>
        match po.ty, sels[r]? with
        | .union _ _, some (some sel) => unionSel H po.backing != some sel
        | _, _ => false

/-- parent reference of view `r` -/
def parentOf (s : Store) (r : Nat) : Option Nat := (s[r]?).bind fun o => o.hook.map (·.1)

/-- is any hook on the way from view `r` up to its root view stale? -/
def staleChain (H : Hash) (s : Store) (sels : List (Option Nat)) : Nat → Nat → Bool
  | 0, _ => false
  | fuel+1, r =>
    staleLink H s sels r ||
      (match parentOf s r with
       | none => false
       | some p => staleChain H s sels fuel p)

/-- one operation on the guarded store; `none` = raises, everything is left as it was -/
def stepG (H : Hash) (g : GStore) : SOp → Option GStore
  | .child r key =>
    (step H g.views (.child r key)).map fun s' =>
      { views := s', sels := g.sels ++ [(g.views[r]?).bind (selOf H)] }
  | .mutate r op =>
    if staleChain H g.views g.sels (r + 1) r then none
    else (step H g.views (.mutate r op)).map fun s' => { g with views := s' }
  | .copy r =>
    (step H g.views (.copy r)).map fun s' => { views := s', sels := g.sels ++ [none] }

def runG (H : Hash) : GStore → List SOp → Option GStore
  | g, [] => some g
  | g, op :: ops => (stepG H g op).bind fun g' => runG H g' ops

end Rmk.Impl
