/-
Two more spellings of the uint operators (Impl layer, executable):
 * the three-argument power `pow(a, e, m)` with `a : uintW`, a plain non-negative exponent and a plain (or uint, of any
   width) non-zero modulus: python's residue (it has the sign of the modulus) goes through the constructor of `a`'s
   type, so it is returned when it fits the width and refused otherwise;
 * the reflected shift dunders called directly with a uint on the left (`y.__rlshift__(x)` is `x << y`).
-/
import Rmk.Impl.Misc
namespace Rmk.Impl

/-- `pow(uintW(a), e, m)` -/
def pow3 (w : Nat) (a e : Nat) (m : Int) : Option Nat :=
  if m = 0 then none else wrap w (Int.fmod ((a : Int) ^ e) m)

/-- `uintV(y).__rlshift__(uintW(x))` / `__rrshift__`: the shift of `x` by `y`, in `x`'s type -/
def reflShiftDunder (op : BinOp) (wx x wy y : Nat) : Option (Nat × Nat) :=
  match op with
  | .lshift | .rshift => evalBin op ⟨some wx, (x : Int)⟩ ⟨some wy, (y : Int)⟩
  | _ => none

/-- unary operators: `-a` is unsupported for every `a` (zero included), `+a` and `abs(a)` are `a` in its own type -/
inductive UnOp where | neg | pos | abs
def evalUn (op : UnOp) (w a : Nat) : Option (Nat × Nat) :=
  match op with
  | .neg => none
  | .pos | .abs => (wrapN w a).map (·, w)

end Rmk.Impl
