/-
Impl layer, part 2: reading and mutating views over a backing tree.
Mirrors subtree.py (`SubtreeView.get/set`), complex.py (`List.length/append/pop/get/set`,
`Vector.get/set`, `Container.__getattr__/__setattr__`), bitfields.py (`BitsView.get/set`,
`Bitlist.append/pop`), byte_arrays.py (`view_from_backing`), union.py (`selector/value/change`).
`none` = the operation raises.
-/
import Rmk.Impl.Layout
namespace Rmk.Impl
open Rmk

/-- `getter(to_gindex(i, depth))` -/
def getAt (n : Node) (i depth : Nat) : Option Node :=
  if i ≥ 2 ^ depth then none else getPath n (pbits depth i)

/-- `setter(to_gindex(i, depth), expand)(v)` -/
def setAt (H : Hash) (expand : Bool) (n : Node) (i depth : Nat) (v : Node) : Option Node :=
  if i ≥ 2 ^ depth then none else setPath H expand n (pbits depth i) v

/-- `uint256.view_from_backing(node)`: the integer in the 32 root bytes -/
def readLen (H : Hash) (n : Node) : Nat := fromLE (n.root H)

/-- `List.length()` / `Bitlist.length()`: the right child of the root -/
def listLength (H : Hash) (n : Node) : Option Nat := (getRight n).map (readLen H)

/-- `basic_view_from_backing(chunk, j)` for uintN / boolean -/
def readBasicAt (H : Hash) (t : Ty) (chunk : Node) (j : Nat) : Option Val :=
  let size := t.basicSize
  let bs := ((chunk.root H).drop (j * size)).take size
  match t with
  | .uint _ => some (.num (fromLE bs))
  | .bool => if bs == [1] then some (.num 1) else if bs == [0] then some (.num 0) else none
  | _ => none

/-- `BasicView.backing_from_base(base, i)`: splice the encoding into the chunk -/
def spliceBasic (H : Hash) (size : Nat) (base : Node) (j : Nat) (v : Nat) : Node :=
  let r := base.root H
  .leaf (r.take (size * j) ++ toLE size v ++ r.drop (size * (j + 1)))

/-- `_new_chunk_with_bit(chunk, i, v)` -/
def chunkWithBit (H : Hash) (chunk : Node) (i : Nat) (v : Bool) : Node :=
  let r := chunk.root H
  let k := (i % 256) / 8
  let old := (r.getD k 0).toNat
  let bit := 2 ^ (i % 8)
  let new := if v then (if old / bit % 2 == 1 then old else old + bit)
             else (if old / bit % 2 == 1 then old - bit else old)
  .leaf (r.set k (UInt8.ofNat new))

/-- bit `i` of a chunk root -/
def bitOfChunk (c : Chunk) (i : Nat) : Bool := (c.getD ((i % 256) / 8) 0).toNat / 2 ^ (i % 8) % 2 == 1

/-- chunks `0 .. count-1` of a subtree of depth `depth` read by gindex, concatenated -/
def readChunks (H : Hash) (n : Node) (depth count : Nat) : Option (List UInt8) :=
  (allSome ((List.range count).map fun i => getAt n i depth)).map
    fun cs => cs.flatMap fun c => c.root H

mutual
/-- The content of a view, read completely through the view API (length, `get(i)` for every `i`,
    nested views by `view_from_backing`).  Fails when any needed node is not available or malformed. -/
def readVal (H : Hash) : Ty → Node → Option Val
  | .uint nb, n => readBasicAt H (.uint nb) n 0
  | .bool, n => readBasicAt H .bool n 0
  | .bitvector len, n =>
    let depth := getDepth ((len + 255) / 256)
    (allSome ((List.range len).map fun i =>
      (getAt n (i / 256) depth).map fun c => bitOfChunk (c.root H) i)).map .bits
  | .bitlist lim, n =>
    let depth := getDepth ((lim + 255) / 256) + 1
    match listLength H n with
    | none => none
    | some len =>
      (allSome ((List.range len).map fun i =>
        (getAt n (i / 256) depth).map fun c => bitOfChunk (c.root H) i)).map .bits
  | .bytevector len, n =>
    let depth := getDepth ((len + 31) / 32)
    if depth = 0 then some (.bytes ((n.root H).take len))
    else (readChunks H n depth ((len + 31) / 32)).map fun bs => .bytes (bs.take len)
  | .bytelist lim, n =>
    let depth := getDepth ((lim + 31) / 32)
    match getLeft n, getRight n with
    | some c, some l =>
      let len := readLen H l
      if len > lim then none
      else if depth = 0 then some (.bytes ((c.root H).take len))
      else (readChunks H c depth ((len + 31) / 32)).map fun bs => .bytes (bs.take len)
    | _, _ => none
  | .vector et len, n =>
    let depth := getDepth (chunkLen et len)
    if et.isBasic then
      let per := 32 / et.basicSize
      (allSome ((List.range len).map fun i =>
        (getAt n (i / per) depth).bind fun c => readBasicAt H et c (i % per))).map .seq
    else
      (allSome ((List.range len).map fun i =>
        (getAt n i depth).bind fun c => readVal H et c)).map .seq
  | .list et lim, n =>
    let depth := getDepth (chunkLen et lim) + 1
    match listLength H n with
    | none => none
    | some len =>
      if et.isBasic then
        let per := 32 / et.basicSize
        (allSome ((List.range len).map fun i =>
          (getAt n (i / per) depth).bind fun c => readBasicAt H et c (i % per))).map .seq
      else
        (allSome ((List.range len).map fun i =>
          (getAt n i depth).bind fun c => readVal H et c)).map .seq
  | .container fs, n => (readFields H fs n (getDepth fs.length) 0).map .seq
  | .union hasNone opts, n =>
    match getLeft n, getRight n with
    | some c, some s =>
      let sel := readLen H s
      if sel ≥ optCount hasNone opts then none
      else if hasNone && sel == 0 then
        (if c.root H == zeroChunk then some (.un 0 .none) else none)
      else (readOpt H opts (optIndex hasNone sel) c).map fun v => .un sel v
    | _, _ => none
def readFields (H : Hash) : List Ty → Node → Nat → Nat → Option (List Val)
  | [], _, _, _ => some []
  | t :: ts, n, depth, i =>
    match (getAt n i depth).bind (fun c => readVal H t c), readFields H ts n depth (i + 1) with
    | some v, some vs => some (v :: vs)
    | _, _ => none
def readOpt (H : Hash) : List Ty → Nat → Node → Option Val
  | [], _, _ => none
  | t :: _, 0, c => readVal H t c
  | _ :: ts, k+1, c => readOpt H ts k c
end

/-! ### mutators -/

/-- mutating operations of the public interface, with the new element given as a plain value -/
inductive Op where
  | set (i : Nat) (v : Val)      -- element / field / bit assignment
  | append (v : Val)
  | pop
  | change (sel : Nat) (v : Val) -- union change
  deriving Repr, Inhabited

/-- climb from `target` (a path from the root) while it is a left child and not the contents root
    (`while (target & 1) == 0 and target != 0b10: target >>= 1`); on the reversed path -/
def climbRev : List Bool → List Bool
  | false :: (b :: rest) => climbRev (b :: rest)
  | p => p

def climb (p : List Bool) : List Bool := (climbRev p.reverse).reverse

/-- shared tail of `List.pop` / `Bitlist.pop`: optional summarisation, then the new length -/
def popFinish (H : Hash) (next : Node) (target : List Bool) (canSummarize : Bool) (newLen : Nat) :
    Option Node :=
  let summarized : Option Node :=
    if canSummarize then summarizePath H next (climb target) else some next
  summarized.bind fun n => rebindRight n (lenNode newLen)

/-- `set`/`append`/`pop`/`change` on a view of type `t` over backing `n`. -/
def apply (H : Hash) (t : Ty) (n : Node) (op : Op) : Option Node :=
  match t, op with
  -- Vector.set / List.set → SubtreeView.set
  | .vector et len, .set i v =>
    if i ≥ len then none else
    match construct H et v with
    | none => none
    | some vn =>
      let depth := getDepth (chunkLen et len)
      if et.isBasic then
        let per := 32 / et.basicSize
        match getAt n (i / per) depth with
        | none => none
        | some chunk => setAt H false n (i / per) depth (spliceBasic H et.basicSize chunk (i % per) (numOf v))
      else setAt H false n i depth vn
  | .list et lim, .set i v =>
    match listLength H n with
    | none => none
    | some len =>
      if i ≥ len then none else
      match construct H et v with
      | none => none
      | some vn =>
        let depth := getDepth (chunkLen et lim) + 1
        if et.isBasic then
          let per := 32 / et.basicSize
          match getAt n (i / per) depth with
          | none => none
          | some chunk =>
            setAt H false n (i / per) depth (spliceBasic H et.basicSize chunk (i % per) (numOf v))
        else setAt H false n i depth vn
  | .list et lim, .append v =>
    match listLength H n with
    | none => none
    | some len =>
      if len ≥ lim then none else
      match construct H et v with
      | none => none
      | some vn =>
        let depth := getDepth (chunkLen et lim) + 1
        let next : Option Node :=
          if et.isBasic then
            let per := 32 / et.basicSize
            if len % per == 0 then
              setAt H true n (len / per) depth (spliceBasic H et.basicSize (zeroNode H 0) 0 (numOf v))
            else
              match getAt n (len / per) depth with
              | none => none
              | some chunk =>
                setAt H false n (len / per) depth
                  (spliceBasic H et.basicSize chunk (len % per) (numOf v))
          else setAt H true n len depth vn
        next.bind fun nb => rebindRight nb (lenNode (len + 1))
  | .list et lim, .pop =>
    match listLength H n with
    | none => none
    | some len =>
      if len = 0 then none else
      let i := len - 1
      let depth := getDepth (chunkLen et lim) + 1
      if et.isBasic then
        let per := 32 / et.basicSize
        let chunkI := i / per
        if chunkI ≥ 2 ^ depth then none else
        let chunk : Option Node := if i % per == 0 then some (zeroNode H 0) else getAt n chunkI depth
        match chunk with
        | none => none
        | some ch =>
          match setAt H false n chunkI depth (spliceBasic H et.basicSize ch (i % per) 0) with
          | none => none
          | some next =>
            popFinish H next (pbits depth chunkI) (chunkI % 2 == 0 && i % per == 0) (len - 1)
      else
        match setAt H false n i depth (zeroNode H 0) with
        | none => none
        | some next => popFinish H next (pbits depth i) (i % 2 == 0) (len - 1)
  | .container fs, .set i v =>
    match fs[i]? with
    | none => none
    | some ft =>
      match construct H ft v with
      | none => none
      | some vn => setAt H false n i (getDepth fs.length) vn
  -- BitsView.set
  | .bitvector len, .set i v =>
    if i ≥ len then none else
    match v with
    | .num b =>
      let depth := getDepth ((len + 255) / 256)
      (getAt n (i / 256) depth).bind fun chunk =>
        setAt H false n (i / 256) depth (chunkWithBit H chunk i (b != 0))
    | _ => none
  | .bitlist lim, .set i v =>
    match listLength H n with
    | none => none
    | some len =>
      if i ≥ len then none else
      match v with
      | .num b =>
        let depth := getDepth ((lim + 255) / 256) + 1
        (getAt n (i / 256) depth).bind fun chunk =>
          setAt H false n (i / 256) depth (chunkWithBit H chunk i (b != 0))
      | _ => none
  | .bitlist lim, .append v =>
    match listLength H n with
    | none => none
    | some len =>
      if len ≥ lim then none else
      match v with
      | .num b =>
        let depth := getDepth ((lim + 255) / 256) + 1
        let next : Option Node :=
          if len % 256 == 0 then
            setAt H true n (len / 256) depth (chunkWithBit H (zeroNode H 0) 0 (b != 0))
          else
            (getAt n (len / 256) depth).bind fun chunk =>
              setAt H false n (len / 256) depth (chunkWithBit H chunk len (b != 0))
        next.bind fun nb => rebindRight nb (lenNode (len + 1))
      | _ => none
  | .bitlist lim, .pop =>
    match listLength H n with
    | none => none
    | some len =>
      if len = 0 then none else
      let i := len - 1
      let depth := getDepth ((lim + 255) / 256) + 1
      let chunkI := i / 256
      if chunkI ≥ 2 ^ depth then none else
      let next : Option Node :=
        if i % 256 == 0 then setAt H false n chunkI depth (zeroNode H 0)
        else (getAt n chunkI depth).bind fun chunk =>
          setAt H false n chunkI depth (chunkWithBit H chunk i false)
      next.bind fun nx =>
        popFinish H nx (pbits depth chunkI) (chunkI % 2 == 0 && i % 256 == 0) (len - 1)
  | .union hasNone opts, .change sel v =>
    if sel ≥ optCount hasNone opts then none
    else if hasNone && sel == 0 then
      (match v with | .none => some (.pair (zeroNode H 0) (lenNode 0)) | _ => none)
    else (constructOpt H opts (optIndex hasNone sel) v).map fun c => .pair c (lenNode sel)
  | _, _ => none

end Rmk.Impl
