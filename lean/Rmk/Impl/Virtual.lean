/-
Lazily loaded (virtual) trees: mirror of remerkleable/virtual.py (property C20).

A `VirtualNode(root, src)` knows only its root.  `get_left()/get_right()/is_leaf()` ask an external
source keyed by the root and memoise the answer in the node (`_left`, `_right`, `_is_leaf`);
`merkle_root()` is the stored root (it never hashes).  `setter/rebind_left/rebind_right` are inherited
from `RebindableNode`, so a write through a virtual tree produces ordinary `PairNode`s along the path
whose off-path children are the (virtual) siblings.

Modelling assumptions (recorded here, used by the theorems of Rmk/Proofs/VirtualLaws.lean):
 * the source is a *function of the root* (`Src`): the three methods `get_left(key)`, `get_right(key)`,
   `is_leaf(key)` of the protocol are the three projections of one answer `src key`.  Hence a root that
   occurs both as a (summary) leaf and as a pair in one tree cannot be served (excluded by `Serves`);
 * the source answers `none` for a leaf key; the real source raises a NavigationError when asked for the
   children of a leaf key (`VirtualNode.get_left` itself does not check `is_leaf()` first);
 * the children handed out by the source are again virtual nodes over the same source;
 * `RebindableNode.setter` does not test `self.is_leaf()` for the node it is called on, so before the
   repair D15 `setter(expand=True)` on a *top-level* virtual leaf did not expand (the later `get_left`
   raised) whereas a `RootNode` with the same root does: `setPathM` follows `setPath` (expands);
   `setPathMTop` is the variant faithful to the UNREPAIRED code in that corner (kept to state the defect:
   they differ only there, `setPathMTop_eq`).  Since D15 `VirtualNode.setter` treats a virtual leaf like the
   materialised leaf, and `setterM` is `setPathM`.

This file is a MODEL file: core Lean only, everything executable.
-/
import Rmk.Model.Tree
namespace Rmk.Virtual
open Rmk

/-- the external source: root ↦ roots of the children; `none` = the root is a leaf -/
abbrev Src := Chunk → Option (Chunk × Chunk)

/-- mixed trees: ordinary leaves (`RootNode`), ordinary pairs (`PairNode`), virtual nodes -/
inductive MNode where
  | leaf (c : Chunk)
  | pair (l r : MNode)
  | virt (root : Chunk)
  deriving Repr, DecidableEq, Inhabited

namespace MNode

/-- `merkle_root()`; a virtual node answers with its stored root and never hashes -/
def root (H : Hash) : MNode → Chunk
  | leaf c => c
  | pair l r => H (l.root H) (r.root H)
  | virt c => c

/-- an ordinary tree seen as a mixed tree -/
def ofNode : Node → MNode
  | .leaf c => .leaf c
  | .pair l r => .pair (ofNode l) (ofNode r)

end MNode

/-- `is_leaf()` of a mixed node (a virtual node asks the source) -/
def isLeafM (src : Src) : MNode → Bool
  | .leaf _ => true
  | .pair _ _ => false
  | .virt c => (src c).isNone

/-- `get_left()` / `get_right()` (`b = true`: right); `none` = NavigationError -/
def childM (src : Src) (b : Bool) : MNode → Option MNode
  | .leaf _ => none
  | .pair l r => some (if b then r else l)
  | .virt c =>
    match src c with
    | none => none
    | some (lc, rc) => some (.virt (if b then rc else lc))

/-- `Node.getter` along a path through a mixed tree; `none` = NavigationError. -/
def getPathM (src : Src) : MNode → List Bool → Option MNode
  | m, [] => some m
  | .leaf _, _ :: _ => none
  | .pair l r, b :: bs => if b then getPathM src r bs else getPathM src l bs
  | .virt c, b :: bs =>
    match src c with
    | none => none
    | some (lc, rc) => getPathM src (.virt (if b then rc else lc)) bs

def getterM (src : Src) (m : MNode) (g : Nat) : Option MNode :=
  if g = 0 then none else getPathM src m (gbits g)

/-- `getPathM` with the log of source queries: `(position of the asked node, its root)`, in order. -/
def getPathLog (src : Src) : MNode → List Bool → Option MNode × List (List Bool × Chunk)
  | m, [] => (some m, [])
  | .leaf _, _ :: _ => (none, [])
  | .pair l r, b :: bs =>
    let out := if b then getPathLog src r bs else getPathLog src l bs
    (out.1, out.2.map fun e => (b :: e.1, e.2))
  | .virt c, b :: bs =>
    match src c with
    | none => (none, [([], c)])
    | some (lc, rc) =>
      let out := getPathLog src (.virt (if b then rc else lc)) bs
      (out.1, ([], c) :: out.2.map fun e => (b :: e.1, e.2))

/-- the tree `setter(.., expand=True)` builds below a zero summary (mixed-tree copy of `expandSet`) -/
def expandSetM (H : Hash) : List Bool → MNode → MNode
  | [], v => v
  | b :: bs, v =>
    let z := MNode.leaf (zeroHash H bs.length)
    if b then .pair z (expandSetM H bs v) else .pair (expandSetM H bs v) z

/-- `setter(target, expand)(v)` along a path through a mixed tree.  A virtual node on the way asks the
    source: a pair is rebound into an ordinary pair whose off-path child is the virtual sibling; a leaf
    (above the target) is expanded only when `expand` is set and it is the zero summary of its height. -/
def setPathM (H : Hash) (src : Src) (expand : Bool) : MNode → List Bool → MNode → Option MNode
  | _, [], v => some v
  | .pair l r, b :: bs, v =>
    if b then (setPathM H src expand r bs v).map (fun r' => .pair l r')
    else (setPathM H src expand l bs v).map (fun l' => .pair l' r)
  | .leaf c, b :: bs, v =>
    if expand && c == zeroHash H (bs.length + 1) then some (expandSetM H (b :: bs) v) else none
  | .virt c, b :: bs, v =>
    match src c with
    | some (lc, rc) =>
      if b then (setPathM H src expand (.virt rc) bs v).map (fun r' => .pair (.virt lc) r')
      else (setPathM H src expand (.virt lc) bs v).map (fun l' => .pair l' (.virt rc))
    | none =>
      if expand && c == zeroHash H (bs.length + 1) then some (expandSetM H (b :: bs) v) else none

/-- as `setPathM`, but a *top-level* virtual leaf is never expanded (`RebindableNode.setter` does not
    look at `self.is_leaf()`; the source raises when asked for the children) -/
def setPathMTop (H : Hash) (src : Src) (expand : Bool) (m : MNode) (p : List Bool) (v : MNode) :
    Option MNode :=
  match m, p with
  | .virt c, _ :: _ => if (src c).isNone then none else setPathM H src expand m p v
  | _, _ => setPathM H src expand m p v

def setterM (H : Hash) (src : Src) (m : MNode) (g : Nat) (expand : Bool) (v : MNode) : Option MNode :=
  if g = 0 then none else setPathM H src expand m (gbits g) v

/-- `setter` of the code BEFORE the repair D15 (a top-level virtual leaf is never expanded) -/
def setterMUnrepaired (H : Hash) (src : Src) (m : MNode) (g : Nat) (expand : Bool) (v : MNode) : Option MNode :=
  if g = 0 then none else setPathMTop H src expand m (gbits g) v

/-! ### the relation to materialised trees -/

/-- the source serves the tree `n`: every pair of `n` is answered with the roots of its children,
    every leaf of `n` is answered `none` -/
def Serves (H : Hash) (src : Src) : Node → Prop
  | .leaf c => src c = none
  | .pair l r =>
    src ((Node.pair l r).root H) = some (l.root H, r.root H) ∧ Serves H src l ∧ Serves H src r

instance (H : Hash) (src : Src) : (n : Node) → Decidable (Serves H src n)
  | .leaf c => inferInstanceAs (Decidable (src c = none))
  | .pair l r =>
    have := instDecidableServes H src l
    have := instDecidableServes H src r
    inferInstanceAs (Decidable (_ ∧ _ ∧ _))

/-- the mixed tree `m` materialises to the ordinary tree `n` -/
def Mat (H : Hash) (src : Src) : MNode → Node → Prop
  | .leaf c, .leaf c' => c = c'
  | .pair l r, .pair l' r' => Mat H src l l' ∧ Mat H src r r'
  | .virt c, n => n.root H = c ∧ Serves H src n
  | _, _ => False

instance (H : Hash) (src : Src) : (m : MNode) → (n : Node) → Decidable (Mat H src m n)
  | .leaf c, .leaf c' => inferInstanceAs (Decidable (c = c'))
  | .pair l r, .pair l' r' =>
    have := instDecidableMat H src l l'
    have := instDecidableMat H src r r'
    inferInstanceAs (Decidable (_ ∧ _))
  | .virt c, n => inferInstanceAs (Decidable (n.root H = c ∧ Serves H src n))
  | .leaf _, .pair _ _ => isFalse (by simp [Mat])
  | .pair _ _, .leaf _ => isFalse (by simp [Mat])

/-- a dictionary source: the pairs of a tree keyed by their roots (the harness's dict-backed source) -/
def dictOf (H : Hash) : Node → List (Chunk × Chunk × Chunk)
  | .leaf _ => []
  | .pair l r => ((Node.pair l r).root H, l.root H, r.root H) :: (dictOf H l ++ dictOf H r)

def srcOfDict (d : List (Chunk × Chunk × Chunk)) : Src := fun c => d.lookup c

/-! ### per-node memoisation (`_left`, `_right`, `_is_leaf`)

A virtual node object and everything reachable from it through memoised children is a `Memo`:
`unk` is an empty child slot (`_left is None`), `cell root isLeaf l r` is a `VirtualNode` object with its
three memo slots.  Every use of a virtual tree is a program over the three cell methods; such a program
is a `Step`: a function of the memo state returning a result, the new state and the log of the source
queries it made.  A node object is identified by its position (path from the top object). -/

inductive Memo where
  | unk
  | cell (root : Chunk) (isLeaf : Option Bool) (l r : Memo)
  deriving Repr, DecidableEq, Inhabited

/-- a freshly created `VirtualNode(root, src)` -/
def Memo.fresh (c : Chunk) : Memo := .cell c none .unk .unk

def Memo.isCell : Memo → Bool
  | .unk => false
  | .cell .. => true

inductive Kind where
  | left | right | isLeaf
  deriving Repr, DecidableEq, Inhabited

def Kind.ofDir (b : Bool) : Kind := if b then .right else .left

/-- a source query: position of the asking node object, method, and whether the source answered
    (`false`: it raised a NavigationError — asked for a child of a leaf key) -/
structure Query where
  pos : List Bool
  kind : Kind
  ok : Bool
  deriving Repr, DecidableEq, Inhabited

def Query.under (b : Bool) (q : Query) : Query := { q with pos := b :: q.pos }

abbrev Step (α : Type) := Memo → α × Memo × List Query

def Step.pure {α} (a : α) : Step α := fun m => (a, m, [])

def Step.bind {α β} (f : Step α) (g : α → Step β) : Step β := fun m =>
  match f m with
  | (a, m1, log1) =>
    match g a m1 with
    | (b, m2, log2) => (b, m2, log1 ++ log2)

/-- run `f` on the node object memoised in child slot `b` (`dflt` when the slot is empty) -/
def Step.focus {α} (b : Bool) (dflt : α) (f : Step α) : Step α
  | .unk => (dflt, .unk, [])
  | .cell c il l r =>
    match (if b then r else l) with
    | .unk => (dflt, .cell c il l r, [])
    | s =>
      match f s with
      | (a, s', log) =>
        (a, (if b then .cell c il l s' else .cell c il s' r), log.map (Query.under b))

/-- `is_leaf()` of the top node object -/
def cellIsLeaf (src : Src) : Step Bool
  | .unk => (true, .unk, [])
  | .cell c (some a) l r => (a, .cell c (some a) l r, [])
  | .cell c none l r =>
    let a := (src c).isNone
    (a, .cell c (some a) l r, [⟨[], .isLeaf, true⟩])

/-- `get_left()` / `get_right()` of the top node object: fills the slot; the result tells whether the
    child is there (`false` = NavigationError).  A failed query leaves no trace in the object. -/
def cellFetch (src : Src) (b : Bool) : Step Bool
  | .unk => (false, .unk, [])
  | .cell c il l r =>
    match (if b then r else l) with
    | .cell .. => (true, .cell c il l r, [])
    | .unk =>
      if il = some true then (false, .cell c il l r, [])
      else match src c with
        | none => (false, .cell c il l r, [⟨[], Kind.ofDir b, false⟩])
        | some (lc, rc) =>
          (true, (if b then .cell c il l (.fresh rc) else .cell c il (.fresh lc) r),
            [⟨[], Kind.ofDir b, true⟩])

def Memo.rootOf : Memo → Option Chunk
  | .unk => none
  | .cell c .. => some c

/-- `Node.getter` on a virtual node object: the root of the node reached -/
def navMemo (src : Src) : List Bool → Step (Option Chunk)
  | [] => fun m => (m.rootOf, m, [])
  | b :: bs =>
    (cellFetch src b).bind fun ok =>
      if ok then Step.focus b none (navMemo src bs) else Step.pure none

/-- the source queries of `RebindableNode.setter(path, expand)` followed by the call of the link, on a
    virtual node object.  Building the link, per level: the on-path child and `is_leaf()` of it; a leaf
    ends the walk through the virtual tree (it is expanded into ordinary nodes when `expand` is set and it
    is the zero summary, otherwise NavigationError).  Calling the link, innermost first: the sibling of
    each level for the rebind.  The result is `false` when a NavigationError was raised. -/
def setQueriesMemo (H : Hash) (src : Src) (expand : Bool) : List Bool → Step Bool
  | [] => Step.pure true
  | [b] => cellFetch src (!b)
  | b :: b' :: bs =>
    (cellFetch src b).bind fun ok =>
      if !ok then Step.pure false
      else (Step.focus b true (cellIsLeaf src)).bind fun lf =>
        if lf then
          (Step.focus b none (navMemo src [])).bind fun c =>
            if expand && c == some (zeroHash H (bs.length + 1)) then cellFetch src (!b)
            else Step.pure false
        else (Step.focus b false (setQueriesMemo H src expand (b' :: bs))).bind fun r =>
          if r then cellFetch src (!b) else Step.pure false

/-- a sequence of navigations on one node object; all results and the whole query log -/
def runNavs (src : Src) : List (List Bool) → Step (List (Option Chunk))
  | [] => Step.pure []
  | p :: ps =>
    (navMemo src p).bind fun a => (runNavs src ps).bind fun as => Step.pure (a :: as)

/-- the answered queries of a log, as (node object, method) -/
def answered (log : List Query) : List (List Bool × Kind) :=
  (log.filter (·.ok)).map fun q => (q.pos, q.kind)

/-- is the answer to query `(pos, kind)` memoised? -/
def Memo.has : Memo → List Bool → Kind → Bool
  | .unk, _, _ => false
  | .cell _ il _ _, [], .isLeaf => il.isSome
  | .cell _ _ l _, [], .left => l.isCell
  | .cell _ _ _ r, [], .right => r.isCell
  | .cell _ _ l r, b :: q, k => (if b then r else l).has q k

/-- the memo agrees with the source -/
def Memo.Ok (src : Src) : Memo → Prop
  | .unk => True
  | .cell c il l r =>
    (∀ a, il = some a → a = (src c).isNone) ∧
    (∀ cl, l.rootOf = some cl → ∃ cr, src c = some (cl, cr)) ∧
    (∀ cr, r.rootOf = some cr → ∃ cl, src c = some (cl, cr)) ∧
    Memo.Ok src l ∧ Memo.Ok src r

end Rmk.Virtual
