/-
View MUTATORS over a lazily loaded (virtual / mixed) backing tree (property C20, view level:
"mutations give the same results").

The library's views mutate a virtual backing through exactly the same code as a materialised one
(`getter / setter / get_left / get_right / rebind_right / summarize_into / merkle_root`).  This file is a
LINE-BY-LINE mirror of the mutating part of Rmk/Impl/View.lean (`setAt`, `spliceBasic`, `chunkWithBit`,
`popFinish`, `apply`) and of `summarizePath`, `rebindRight`, `rebindLeft` (Rmk/Model/Tree.lean) over `MNode`,
changing only the tree primitives:

    getAt n i d                ↦  getAtM src m i d
    setAt H e n i d v          ↦  setAtM H src e m i d v'   (:= setPathM H src e m (pbits d i) v', the same path)
    listLength H n             ↦  listLengthM H src m
    getLeft n / getRight n     ↦  childM src false m / childM src true m
    n.root H                   ↦  m.root H                  (`MNode.root`: a virtual node never hashes)
    construct H et v = some vn ↦  the fresh sub-tree `MNode.ofNode vn`
    zeroNode H d, lenNode k    ↦  zeroNodeM H d, lenNodeM k (ordinary leaves `MNode.leaf …`)
    rebindRight n x            ↦  rebindRightM src m x      (a virtual node asks the source for its children and
                                                             becomes an ordinary pair, as `setPathM` does on the way down)
    summarizePath H n p        ↦  summarizePathM H src m p  (navigate with getPathM, replace the node by
                                                             `.leaf (its root)` with setPathM, no expand)

`climb` works on paths and is reused unchanged; `Op`, `construct`, `constructOpt`, `numOf` work on values.
Every `if`, bound and arithmetic expression is identical to the original (review by diff).

This file is a MODEL file: core Lean only, everything executable.
Agreement with the materialised mutators: Rmk/Proofs/VirtualApplyLaws.lean.
-/
import Rmk.Impl.Virtual
import Rmk.Impl.VirtualView
import Rmk.Impl.View
namespace Rmk.Virtual
open Rmk Rmk.Impl

/-- `zero_node(d)` as a mixed tree (an ordinary leaf) -/
def zeroNodeM (H : Hash) (d : Nat) : MNode := .leaf (zeroHash H d)

/-- `uint256(n).get_backing()` as a mixed tree (an ordinary leaf) -/
def lenNodeM (n : Nat) : MNode := .leaf (chunkOfLE 32 n)

/-- `setter(to_gindex(i, depth), expand)(v)` on a mixed tree (mirror of `setAt`) -/
def setAtM (H : Hash) (src : Src) (expand : Bool) (n : MNode) (i depth : Nat) (v : MNode) : Option MNode :=
  if i ≥ 2 ^ depth then none else setPathM H src expand n (pbits depth i) v

/-- `BasicView.backing_from_base(base, i)`: splice the encoding into the chunk (mirror of `spliceBasic`) -/
def spliceBasicM (H : Hash) (size : Nat) (base : MNode) (j : Nat) (v : Nat) : MNode :=
  let r := base.root H
  .leaf (r.take (size * j) ++ toLE size v ++ r.drop (size * (j + 1)))

/-- `_new_chunk_with_bit(chunk, i, v)` (mirror of `chunkWithBit`) -/
def chunkWithBitM (H : Hash) (chunk : MNode) (i : Nat) (v : Bool) : MNode :=
  let r := chunk.root H
  let k := (i % 256) / 8
  let old := (r.getD k 0).toNat
  let bit := 2 ^ (i % 8)
  let new := if v then (if old / bit % 2 == 1 then old else old + bit)
             else (if old / bit % 2 == 1 then old - bit else old)
  .leaf (r.set k (UInt8.ofNat new))

/-- `summarize_into(target)()` on a mixed tree (mirror of `summarizePath`) -/
def summarizePathM (H : Hash) (src : Src) (n : MNode) (p : List Bool) : Option MNode :=
  match getPathM src n p with
  | none => none
  | some m => setPathM H src false n p (.leaf (m.root H))

/-- `rebind_right` (NavigationError on a leaf); a virtual node asks the source for its left child and
    becomes an ordinary pair (mirror of `rebindRight`) -/
def rebindRightM (src : Src) : MNode → MNode → Option MNode
  | .pair l _, v => some (.pair l v)
  | .leaf _, _ => none
  | .virt c, v =>
    match src c with
    | none => none
    | some (lc, _) => some (.pair (.virt lc) v)

/-- mirror of `rebindLeft` -/
def rebindLeftM (src : Src) : MNode → MNode → Option MNode
  | .pair _ r, v => some (.pair v r)
  | .leaf _, _ => none
  | .virt c, v =>
    match src c with
    | none => none
    | some (_, rc) => some (.pair v (.virt rc))

/-- shared tail of `List.pop` / `Bitlist.pop`: optional summarisation, then the new length
    (mirror of `popFinish`) -/
def popFinishM (H : Hash) (src : Src) (next : MNode) (target : List Bool) (canSummarize : Bool)
    (newLen : Nat) : Option MNode :=
  let summarized : Option MNode :=
    if canSummarize then summarizePathM H src next (climb target) else some next
  summarized.bind fun n => rebindRightM src n (lenNodeM newLen)

/-- `set`/`append`/`pop`/`change` on a view of type `t` over the mixed backing `n` (mirror of `apply`). -/
def applyM (H : Hash) (src : Src) (t : Ty) (n : MNode) (op : Op) : Option MNode :=
  match t, op with
  -- Vector.set / List.set → SubtreeView.set
  | .vector et len, .set i v =>
    if i ≥ len then none else
    match construct H et v with
    | none => none
    | some vn =>
      let depth := getDepth (chunkLen et len)
      if et.isBasic then
        let per := 32 / et.basicSize
        match getAtM src n (i / per) depth with
        | none => none
        | some chunk =>
          setAtM H src false n (i / per) depth (spliceBasicM H et.basicSize chunk (i % per) (numOf v))
      else setAtM H src false n i depth (MNode.ofNode vn)
  | .list et lim, .set i v =>
    match listLengthM H src n with
    | none => none
    | some len =>
      if i ≥ len then none else
      match construct H et v with
      | none => none
      | some vn =>
        let depth := getDepth (chunkLen et lim) + 1
        if et.isBasic then
          let per := 32 / et.basicSize
          match getAtM src n (i / per) depth with
          | none => none
          | some chunk =>
            setAtM H src false n (i / per) depth (spliceBasicM H et.basicSize chunk (i % per) (numOf v))
        else setAtM H src false n i depth (MNode.ofNode vn)
  | .list et lim, .append v =>
    match listLengthM H src n with
    | none => none
    | some len =>
      if len ≥ lim then none else
      match construct H et v with
      | none => none
      | some vn =>
        let depth := getDepth (chunkLen et lim) + 1
        let next : Option MNode :=
          if et.isBasic then
            let per := 32 / et.basicSize
            if len % per == 0 then
              setAtM H src true n (len / per) depth (spliceBasicM H et.basicSize (zeroNodeM H 0) 0 (numOf v))
            else
              match getAtM src n (len / per) depth with
              | none => none
              | some chunk =>
                setAtM H src false n (len / per) depth
                  (spliceBasicM H et.basicSize chunk (len % per) (numOf v))
          else setAtM H src true n len depth (MNode.ofNode vn)
        next.bind fun nb => rebindRightM src nb (lenNodeM (len + 1))
  | .list et lim, .pop =>
    match listLengthM H src n with
    | none => none
    | some len =>
      if len = 0 then none else
      let i := len - 1
      let depth := getDepth (chunkLen et lim) + 1
      if et.isBasic then
        let per := 32 / et.basicSize
        let chunkI := i / per
        if chunkI ≥ 2 ^ depth then none else
        let chunk : Option MNode := if i % per == 0 then some (zeroNodeM H 0) else getAtM src n chunkI depth
        match chunk with
        | none => none
        | some ch =>
          match setAtM H src false n chunkI depth (spliceBasicM H et.basicSize ch (i % per) 0) with
          | none => none
          | some next =>
            popFinishM H src next (pbits depth chunkI) (chunkI % 2 == 0 && i % per == 0) (len - 1)
      else
        match setAtM H src false n i depth (zeroNodeM H 0) with
        | none => none
        | some next => popFinishM H src next (pbits depth i) (i % 2 == 0) (len - 1)
  | .container fs, .set i v =>
    match fs[i]? with
    | none => none
    | some ft =>
      match construct H ft v with
      | none => none
      | some vn => setAtM H src false n i (getDepth fs.length) (MNode.ofNode vn)
  -- BitsView.set
  | .bitvector len, .set i v =>
    if i ≥ len then none else
    match v with
    | .num b =>
      let depth := getDepth ((len + 255) / 256)
      (getAtM src n (i / 256) depth).bind fun chunk =>
        setAtM H src false n (i / 256) depth (chunkWithBitM H chunk i (b != 0))
    | _ => none
  | .bitlist lim, .set i v =>
    match listLengthM H src n with
    | none => none
    | some len =>
      if i ≥ len then none else
      match v with
      | .num b =>
        let depth := getDepth ((lim + 255) / 256) + 1
        (getAtM src n (i / 256) depth).bind fun chunk =>
          setAtM H src false n (i / 256) depth (chunkWithBitM H chunk i (b != 0))
      | _ => none
  | .bitlist lim, .append v =>
    match listLengthM H src n with
    | none => none
    | some len =>
      if len ≥ lim then none else
      match v with
      | .num b =>
        let depth := getDepth ((lim + 255) / 256) + 1
        let next : Option MNode :=
          if len % 256 == 0 then
            setAtM H src true n (len / 256) depth (chunkWithBitM H (zeroNodeM H 0) 0 (b != 0))
          else
            (getAtM src n (len / 256) depth).bind fun chunk =>
              setAtM H src false n (len / 256) depth (chunkWithBitM H chunk len (b != 0))
        next.bind fun nb => rebindRightM src nb (lenNodeM (len + 1))
      | _ => none
  | .bitlist lim, .pop =>
    match listLengthM H src n with
    | none => none
    | some len =>
      if len = 0 then none else
      let i := len - 1
      let depth := getDepth ((lim + 255) / 256) + 1
      let chunkI := i / 256
      if chunkI ≥ 2 ^ depth then none else
      let next : Option MNode :=
        if i % 256 == 0 then setAtM H src false n chunkI depth (zeroNodeM H 0)
        else (getAtM src n chunkI depth).bind fun chunk =>
          setAtM H src false n chunkI depth (chunkWithBitM H chunk i false)
      next.bind fun nx =>
        popFinishM H src nx (pbits depth chunkI) (chunkI % 2 == 0 && i % 256 == 0) (len - 1)
  | .union hasNone opts, .change sel v =>
    if sel ≥ optCount hasNone opts then none
    else if hasNone && sel == 0 then
      (match v with | .none => some (.pair (zeroNodeM H 0) (lenNodeM 0)) | _ => none)
    else (constructOpt H opts (optIndex hasNone sel) v).map fun c => .pair (MNode.ofNode c) (lenNodeM sel)
  | _, _ => none

/-- a history of mutations through one view over a materialised backing: the operations applied from the
    left, each to the backing the previous one produced; `none` as soon as one raises
    (Rmk/Impl has no such fold; it is defined here next to its mirror) -/
def applyAll (H : Hash) (t : Ty) : Node → List Op → Option Node
  | n, [] => some n
  | n, op :: ops => (apply H t n op).bind fun n' => applyAll H t n' ops

/-- the same history through a view over a mixed backing (mirror of `applyAll`) -/
def applyAllM (H : Hash) (src : Src) (t : Ty) : MNode → List Op → Option MNode
  | n, [] => some n
  | n, op :: ops => (applyM H src t n op).bind fun n' => applyAllM H src t n' ops

end Rmk.Virtual
