/-
The remaining read routes over a lazily loaded (virtual / mixed) backing tree (property C20):
the stack-machine iterators, the tree-reading serialiser and `to_obj()` computed from the tree.

The library runs `NodeIter` / `PackedIter` / `BitfieldIter`, `serialize(stream)` and `to_obj()` over a virtual
backing through exactly the same code as over a materialised one.  This file is a LINE-BY-LINE mirror over
`MNode` of

  (a) Rmk/Impl/Misc.lean   `descendLeft`, `nodeIterNext`, `nodeIterRun`, `nodeIter`
      Rmk/Impl/Iters.lean  `packedIterNext/Run`, `packedIter`, `bitfieldIterNext/Run`, `bitfieldIter`
  (b) Rmk/Impl/Codec.lean  `serBitsRaw`, `serSeqWith`, `serTree` / `serFields` / `serOpt`
  (c) Rmk/Impl/ObjTree.lean `toObjTree` / `toObjTreeFields` / `toObjTreeOpt`

changing only the tree primitives:

    getAt n i d              ↦  getAtM src m i d
    getLeft n / getRight n   ↦  childM src false m / childM src true m
    n.root H                 ↦  m.root H            (`MNode.root`: a virtual node never hashes)
    n.isLeaf                 ↦  isLeafM src m       (a virtual node ASKS THE SOURCE whether it is a leaf)
    .leaf zeroChunk          ↦  MNode.leaf zeroChunk
    readBasicAt / readChunks / listLength / readLen / readVal
                             ↦  their mirrors of Rmk/Impl/VirtualView.lean

Every `if`, bound and arithmetic expression is identical to the original (review by diff).
`shiftCount`, `bitfieldIterBit`, `addDelimiter`, `streamVar`, `streamFields` do not touch the tree and are
reused unchanged.

This file is a MODEL file: core Lean only, everything executable.
Equality with the materialised routes: Rmk/Proofs/VirtualIterLaws.lean.
-/
import Rmk.Impl.VirtualView
import Rmk.Impl.Iters
import Rmk.Impl.Codec
import Rmk.Impl.ObjTree
namespace Rmk.Virtual
open Rmk Rmk.Impl Rmk.Obj

/-! ### (a) stack-machine iterators -/

/-- mirror of `NodeIterState` -/
structure NodeIterStateM where
  i : Nat
  stack : List (Option MNode)
  deriving Inhabited

/-- mirror of `descendLeft` -/
def descendLeftM (src : Src) : Nat → Nat → MNode → List (Option MNode) → Option (MNode × List (Option MNode))
  | 0, _, node, stack => some (node, stack)
  | k+1, x, node, stack =>
    match childM src false node with
    | none => none
    | some l => descendLeftM src k (x + 1) l (stack.set x (some node))

/-- mirror of `nodeIterNext` -/
def nodeIterNextM (src : Src) (anchor : MNode) (depth : Nat) (st : NodeIterStateM) :
    Option (MNode × NodeIterStateM) :=
  let start : Option (MNode × Nat) :=
    if st.i != 0 then
      let s := st.i ^^^ (st.i - 1)
      let stackIndex := depth - shiftCount s
      match (st.stack.getD stackIndex none) with
      | none => none
      | some node => (childM src true node).map fun r => (r, stackIndex + 1)
    else some (anchor, 0)
  match start with
  | none => none
  | some (node, stackIndex) =>
    match descendLeftM src (depth - stackIndex) stackIndex node st.stack with
    | none => none
    | some (leaf, stack') => some (leaf, { i := st.i + 1, stack := stack' })

/-- mirror of `nodeIterRun` -/
def nodeIterRunM (src : Src) (anchor : MNode) (depth : Nat) : Nat → NodeIterStateM → Option (List MNode)
  | 0, _ => some []
  | k+1, st =>
    match nodeIterNextM src anchor depth st with
    | none => none
    | some (n, st') => (nodeIterRunM src anchor depth k st').map (n :: ·)

/-- mirror of `nodeIter` -/
def nodeIterM (src : Src) (anchor : MNode) (depth length : Nat) : Option (List MNode) :=
  if 2 ^ depth < length then none
  else nodeIterRunM src anchor depth length { i := 0, stack := List.replicate depth none }

/-- mirror of `PackedIterState` -/
structure PackedIterStateM where
  i : Nat
  j : Nat
  rootIndex : Nat
  currentRoot : MNode
  stack : List (Option MNode)
  deriving Inhabited

/-- mirror of `packedIterNext` -/
def packedIterNextM (H : Hash) (src : Src) (et : Ty) (anchor : MNode) (depth perNode : Nat)
    (st : PackedIterStateM) : Option (Val × PackedIterStateM) :=
  if st.j < perNode then
    match readBasicAtM H et st.currentRoot st.j with
    | none => none
    | some elem => some (elem, { st with j := st.j + 1, i := st.i + 1 })
  else
    match nodeIterNextM src anchor depth { i := st.rootIndex, stack := st.stack } with
    | none => none
    | some (node, walk) =>
      if !isLeafM src node then none
      else
        match readBasicAtM H et node 0 with
        | none => none
        | some el =>
          some (el, { i := st.i + 1, j := 1, rootIndex := st.rootIndex + 1,
                      currentRoot := node, stack := walk.stack })

/-- mirror of `packedIterRun` -/
def packedIterRunM (H : Hash) (src : Src) (et : Ty) (anchor : MNode) (depth perNode length : Nat) :
    Nat → PackedIterStateM → Option (List Val)
  | 0, _ => some []
  | fuel+1, st =>
    if st.i ≥ length then some []
    else
      match packedIterNextM H src et anchor depth perNode st with
      | none => none
      | some (v, st') => (packedIterRunM H src et anchor depth perNode length fuel st').map (v :: ·)

/-- mirror of `packedIter` -/
def packedIterM (H : Hash) (src : Src) (et : Ty) (anchor : MNode) (depth length : Nat) : Option (List Val) :=
  if et.basicSize = 0 then none            -- `32 // 0`
  else
    let perNode := 32 / et.basicSize
    let limit := 2 ^ depth * perNode
    if limit < length then none
    else
      packedIterRunM H src et anchor depth perNode length length
        { i := 0, j := perNode, rootIndex := 0, currentRoot := MNode.leaf zeroChunk,
          stack := List.replicate depth none }

/-- mirror of `BitfieldIterState`; `currentRoot` is a root (bytes), not a node -/
structure BitfieldIterStateM where
  i : Nat
  j : Nat
  rootIndex : Nat
  currentRoot : Chunk
  stack : List (Option MNode)
  deriving Inhabited

/-- mirror of `bitfieldIterNext` -/
def bitfieldIterNextM (H : Hash) (src : Src) (anchor : MNode) (depth : Nat) (st : BitfieldIterStateM) :
    Option (Bool × BitfieldIterStateM) :=
  if st.j > 0 then
    let elem := bitfieldIterBit st.currentRoot st.j
    let j1 := st.j + 1
    let j2 := if j1 > 0xff then 0 else j1
    some (elem, { st with j := j2, i := st.i + 1 })
  else
    match nodeIterNextM src anchor depth { i := st.rootIndex, stack := st.stack } with
    | none => none
    | some (node, walk) =>
      if !isLeafM src node then none
      else
        let root := node.root H
        let el := ((root.getD 0 0).toNat &&& 1) == 1
        some (el, { i := st.i + 1, j := 1, rootIndex := st.rootIndex + 1,
                    currentRoot := root, stack := walk.stack })

/-- mirror of `bitfieldIterRun` -/
def bitfieldIterRunM (H : Hash) (src : Src) (anchor : MNode) (depth length : Nat) :
    Nat → BitfieldIterStateM → Option (List Bool)
  | 0, _ => some []
  | fuel+1, st =>
    if st.i ≥ length then some []
    else
      match bitfieldIterNextM H src anchor depth st with
      | none => none
      | some (b, st') => (bitfieldIterRunM H src anchor depth length fuel st').map (b :: ·)

/-- mirror of `bitfieldIter` -/
def bitfieldIterM (H : Hash) (src : Src) (anchor : MNode) (depth length : Nat) : Option (List Bool) :=
  let limit := 2 ^ depth * 2 ^ 8          -- `(1 << depth) << 8`
  if limit < length then none
  else
    bitfieldIterRunM H src anchor depth length length
      { i := 0, j := 0, rootIndex := 0, currentRoot := zeroChunk,
        stack := List.replicate depth none }

/-! ### (b) serialisation from the tree -/

/-- mirror of `serBitsRaw` -/
def serBitsRawM (H : Hash) (src : Src) (n : MNode) (depth bitlen : Nat) : Option (List UInt8) :=
  let chunkCount := (bitlen + 255) / 256
  let byteLen := (bitlen + 7) / 8
  let full := chunkCount - 1
  match readChunksM H src n depth full with
  | none => none
  | some pre =>
    if chunkCount > 0 then
      (getAtM src n (chunkCount - 1) depth).map fun last => pre ++ (last.root H).take (byteLen - full * 32)
    else some pre

/-- mirror of `serSeqWith` -/
def serSeqWithM (H : Hash) (src : Src) (ser : MNode → Option (List UInt8 × Nat)) (et : Ty) (n : MNode)
    (depth len : Nat) : Option (List UInt8 × Nat) :=
  if et.isBasic then
    let per := 32 / et.basicSize
    (allSome ((List.range len).map fun i =>
      (getAtM src n (i / per) depth).bind fun c =>
        (readBasicAtM H et c (i % per)).map fun v =>
          match et with
          | .bool => [UInt8.ofNat (numOf v)]
          | _ => toLE et.basicSize (numOf v))).map
      fun parts => (parts.flatten, et.basicSize * len)
  else
    match allSome ((List.range len).map fun i => (getAtM src n i depth).bind ser) with
    | none => none
    | some parts =>
      if Spec.isFixed et then some ((parts.map (·.1)).flatten, Spec.fixedLen et * len)
      else some (streamVar (parts.map (·.1)))

mutual
/-- mirror of `serTree` -/
def serTreeM (H : Hash) (src : Src) : Ty → MNode → Option (List UInt8 × Nat)
  | .uint nb, n =>
    match readBasicAtM H (.uint nb) n 0 with
    | some (.num v) => some (toLE nb v, nb)
    | _ => none
  | .bool, n =>
    match readBasicAtM H .bool n 0 with
    | some (.num v) => some ([UInt8.ofNat v], 1)
    | _ => none
  | .bitvector len, n =>
    (serBitsRawM H src n (getDepth ((len + 255) / 256)) len).map fun bs => (bs, (len + 7) / 8)
  | .bitlist lim, n =>
    match listLengthM H src n with
    | none => none
    | some len =>
      (serBitsRawM H src n (getDepth ((lim + 255) / 256) + 1) len).map fun raw =>
        (addDelimiter raw len, (len + 8) / 8)
  | .bytevector len, n =>
    match readValM H src (.bytevector len) n with
    | some (.bytes bs) => some (bs, bs.length)
    | _ => none
  | .bytelist lim, n =>
    match readValM H src (.bytelist lim) n with
    | some (.bytes bs) => some (bs, bs.length)
    | _ => none
  | .vector et len, n => serSeqWithM H src (serTreeM H src et) et n (getDepth (chunkLen et len)) len
  | .list et lim, n =>
    match listLengthM H src n with
    | none => none
    | some len => serSeqWithM H src (serTreeM H src et) et n (getDepth (chunkLen et lim) + 1) len
  | .container fs, n =>
    (serFieldsM H src fs n (getDepth fs.length) 0).map streamFields
  | .union hasNone opts, n =>
    match childM src false n, childM src true n with
    | some c, some s =>
      let sel := readLenM H s
      if sel ≥ optCount hasNone opts then none
      else if hasNone && sel == 0 then
        (if c.root H == zeroChunk then some ([UInt8.ofNat sel], 1) else none)
      else (serOptM H src opts (optIndex hasNone sel) c).map fun (bs, k) => (UInt8.ofNat sel :: bs, 1 + k)
    | _, _ => none
/-- mirror of `serFields` -/
def serFieldsM (H : Hash) (src : Src) : List Ty → MNode → Nat → Nat → Option (List (Bool × List UInt8))
  | [], _, _, _ => some []
  | t :: ts, n, depth, i =>
    match (getAtM src n i depth).bind (fun c => serTreeM H src t c), serFieldsM H src ts n depth (i + 1) with
    | some (bs, _), some rest => some ((Spec.isFixed t, bs) :: rest)
    | _, _ => none
/-- mirror of `serOpt` -/
def serOptM (H : Hash) (src : Src) : List Ty → Nat → MNode → Option (List UInt8 × Nat)
  | [], _, _ => none
  | t :: _, 0, c => serTreeM H src t c
  | _ :: ts, k+1, c => serOptM H src ts k c
end

/-! ### (c) `to_obj()` computed from the tree -/

mutual
/-- mirror of `toObjTree` -/
def toObjTreeM (H : Hash) (src : Src) : Ty → MNode → Option Obj
  | .uint nb, n => (readBasicAtM H (.uint nb) n 0).map (toObj (.uint nb))
  | .bool, n => (readBasicAtM H .bool n 0).map (toObj .bool)
  | .bitvector k, n => (serTreeM H src (.bitvector k) n).map fun r => .str (hexStr r.1)
  | .bitlist k, n => (serTreeM H src (.bitlist k) n).map fun r => .str (hexStr r.1)
  | .bytevector k, n => (serTreeM H src (.bytevector k) n).map fun r => .str (hexStr r.1)
  | .bytelist k, n => (serTreeM H src (.bytelist k) n).map fun r => .str (hexStr r.1)
  | .vector et len, n =>
    let depth := getDepth (chunkLen et len)
    if et.isBasic then (packedIterM H src et n depth len).map fun vs => .tup (vs.map (toObj et))
    else
      match nodeIterM src n depth len with
      | none => none
      | some ns => (allSome (ns.map fun c => toObjTreeM H src et c)).map .tup
  | .list et lim, n =>
    let depth := getDepth (chunkLen et lim) + 1
    match listLengthM H src n with
    | none => none
    | some len =>
      if et.isBasic then (packedIterM H src et n depth len).map fun vs => .arr (vs.map (toObj et))
      else
        match nodeIterM src n depth len with
        | none => none
        | some ns => (allSome (ns.map fun c => toObjTreeM H src et c)).map .arr
  | .container fs, n =>
    match nodeIterM src n (getDepth fs.length) fs.length with
    | none => none
    | some ns => (toObjTreeFieldsM H src fs 0 ns).map .dict
  | .union hasNone opts, n =>
    match childM src false n, childM src true n with
    | some c, some s =>
      let sel := readLenM H s
      if sel ≥ optCount hasNone opts then none
      else if hasNone && sel == 0 then
        (if c.root H == zeroChunk then some (.dict [("selector", .num sel), ("value", .null)]) else none)
      else
        (toObjTreeOptM H src opts (optIndex hasNone sel) c).map fun o =>
          .dict [("selector", .num sel), ("value", o)]
    | _, _ => none
/-- mirror of `toObjTreeFields` -/
def toObjTreeFieldsM (H : Hash) (src : Src) : List Ty → Nat → List MNode → Option (List (String × Obj))
  | t :: ts, i, c :: cs =>
    match toObjTreeM H src t c, toObjTreeFieldsM H src ts (i + 1) cs with
    | some o, some os => some ((fieldName i, o) :: os)
    | _, _ => none
  | _, _, _ => some []
/-- mirror of `toObjTreeOpt` -/
def toObjTreeOptM (H : Hash) (src : Src) : List Ty → Nat → MNode → Option Obj
  | [], _, _ => none
  | t :: _, 0, c => toObjTreeM H src t c
  | _ :: ts, k+1, c => toObjTreeOptM H src ts k c
end

end Rmk.Virtual
