/-
View reads over a lazily loaded (virtual / mixed) backing tree (property C20, view level).

The library's views read a virtual backing through exactly the same code as a materialised one
(`get_left / get_right / getter / merkle_root`).  This file is a LINE-BY-LINE mirror of the reading part of
Rmk/Impl/View.lean (`getAt`, `readLen`, `listLength`, `readBasicAt`, `readChunks`, `readVal` / `readFields` /
`readOpt`) and Rmk/Impl/Elem.lean (`readElem`, `viewLen`, `sliceRead`) over `MNode`, changing only the tree
primitives:

    getPath n p              ↦  getPathM src m p
    getLeft n / getRight n   ↦  childM src false m / childM src true m
    n.root H                 ↦  m.root H            (`MNode.root`: a virtual node never hashes)

Every `if`, bound and arithmetic expression is identical to the original (review by diff).
`readBasicAt` only uses `chunk.root H`; `readBasicAtM` is a plain mirror of its body with `MNode.root`
(not a call of the original on `.leaf (m.root H)`).  `bitOfChunk` works on a chunk, not on a node, and is
reused unchanged.

This file is a MODEL file: core Lean only, everything executable.
Equality with the materialised reads: Rmk/Proofs/VirtualViewLaws.lean.
-/
import Rmk.Impl.Virtual
import Rmk.Impl.View
import Rmk.Impl.Elem
namespace Rmk.Virtual
open Rmk Rmk.Impl

/-- `getter(to_gindex(i, depth))` on a mixed tree (mirror of `getAt`) -/
def getAtM (src : Src) (m : MNode) (i depth : Nat) : Option MNode :=
  if i ≥ 2 ^ depth then none else getPathM src m (pbits depth i)

/-- `uint256.view_from_backing(node)` (mirror of `readLen`) -/
def readLenM (H : Hash) (m : MNode) : Nat := fromLE (m.root H)

/-- `List.length()` / `Bitlist.length()`: the right child of the root (mirror of `listLength`) -/
def listLengthM (H : Hash) (src : Src) (m : MNode) : Option Nat := (childM src true m).map (readLenM H)

/-- `basic_view_from_backing(chunk, j)` for uintN / boolean (mirror of `readBasicAt`) -/
def readBasicAtM (H : Hash) (t : Ty) (chunk : MNode) (j : Nat) : Option Val :=
  let size := t.basicSize
  let bs := ((chunk.root H).drop (j * size)).take size
  match t with
  | .uint _ => some (.num (fromLE bs))
  | .bool => if bs == [1] then some (.num 1) else if bs == [0] then some (.num 0) else none
  | _ => none

/-- chunks `0 .. count-1` of a subtree of depth `depth` read by gindex, concatenated (mirror of `readChunks`) -/
def readChunksM (H : Hash) (src : Src) (m : MNode) (depth count : Nat) : Option (List UInt8) :=
  (allSome ((List.range count).map fun i => getAtM src m i depth)).map
    fun cs => cs.flatMap fun c => c.root H

mutual
/-- mirror of `readVal` -/
def readValM (H : Hash) (src : Src) : Ty → MNode → Option Val
  | .uint nb, n => readBasicAtM H (.uint nb) n 0
  | .bool, n => readBasicAtM H .bool n 0
  | .bitvector len, n =>
    let depth := getDepth ((len + 255) / 256)
    (allSome ((List.range len).map fun i =>
      (getAtM src n (i / 256) depth).map fun c => bitOfChunk (c.root H) i)).map .bits
  | .bitlist lim, n =>
    let depth := getDepth ((lim + 255) / 256) + 1
    match listLengthM H src n with
    | none => none
    | some len =>
      (allSome ((List.range len).map fun i =>
        (getAtM src n (i / 256) depth).map fun c => bitOfChunk (c.root H) i)).map .bits
  | .bytevector len, n =>
    let depth := getDepth ((len + 31) / 32)
    if depth = 0 then some (.bytes ((n.root H).take len))
    else (readChunksM H src n depth ((len + 31) / 32)).map fun bs => .bytes (bs.take len)
  | .bytelist lim, n =>
    let depth := getDepth ((lim + 31) / 32)
    match childM src false n, childM src true n with
    | some c, some l =>
      let len := readLenM H l
      if len > lim then none
      else if depth = 0 then some (.bytes ((c.root H).take len))
      else (readChunksM H src c depth ((len + 31) / 32)).map fun bs => .bytes (bs.take len)
    | _, _ => none
  | .vector et len, n =>
    let depth := getDepth (chunkLen et len)
    if et.isBasic then
      let per := 32 / et.basicSize
      (allSome ((List.range len).map fun i =>
        (getAtM src n (i / per) depth).bind fun c => readBasicAtM H et c (i % per))).map .seq
    else
      (allSome ((List.range len).map fun i =>
        (getAtM src n i depth).bind fun c => readValM H src et c)).map .seq
  | .list et lim, n =>
    let depth := getDepth (chunkLen et lim) + 1
    match listLengthM H src n with
    | none => none
    | some len =>
      if et.isBasic then
        let per := 32 / et.basicSize
        (allSome ((List.range len).map fun i =>
          (getAtM src n (i / per) depth).bind fun c => readBasicAtM H et c (i % per))).map .seq
      else
        (allSome ((List.range len).map fun i =>
          (getAtM src n i depth).bind fun c => readValM H src et c)).map .seq
  | .container fs, n => (readFieldsM H src fs n (getDepth fs.length) 0).map .seq
  | .union hasNone opts, n =>
    match childM src false n, childM src true n with
    | some c, some s =>
      let sel := readLenM H s
      if sel ≥ optCount hasNone opts then none
      else if hasNone && sel == 0 then
        (if c.root H == zeroChunk then some (.un 0 .none) else none)
      else (readOptM H src opts (optIndex hasNone sel) c).map fun v => .un sel v
    | _, _ => none
/-- mirror of `readFields` -/
def readFieldsM (H : Hash) (src : Src) : List Ty → MNode → Nat → Nat → Option (List Val)
  | [], _, _, _ => some []
  | t :: ts, n, depth, i =>
    match (getAtM src n i depth).bind (fun c => readValM H src t c), readFieldsM H src ts n depth (i + 1) with
    | some v, some vs => some (v :: vs)
    | _, _ => none
/-- mirror of `readOpt` -/
def readOptM (H : Hash) (src : Src) : List Ty → Nat → MNode → Option Val
  | [], _, _ => none
  | t :: _, 0, c => readValM H src t c
  | _ :: ts, k+1, c => readOptM H src ts k c
end

/-- element `i` of a view over a mixed backing (mirror of `readElem`) -/
def readElemM (H : Hash) (src : Src) (t : Ty) (n : MNode) (i : Nat) : Option Val :=
  match t with
  | .vector et len =>
    if i ≥ len then none else
    if et.isBasic then
      let per := 32 / et.basicSize
      (getAtM src n (i / per) (treeDepth t)).bind fun c => readBasicAtM H et c (i % per)
    else (getAtM src n i (treeDepth t)).bind (readValM H src et)
  | .list et _ =>
    match listLengthM H src n with
    | none => none
    | some len =>
      if i ≥ len then none else
      if et.isBasic then
        let per := 32 / et.basicSize
        (getAtM src n (i / per) (treeDepth t)).bind fun c => readBasicAtM H et c (i % per)
      else (getAtM src n i (treeDepth t)).bind (readValM H src et)
  | .container fs =>
    match fs[i]? with
    | none => none
    | some ft => (getAtM src n i (treeDepth t)).bind (readValM H src ft)
  | .bitvector len =>
    if i ≥ len then none else
    (getAtM src n (i / 256) (treeDepth t)).map fun c => .num (if bitOfChunk (c.root H) i then 1 else 0)
  | .bitlist _ =>
    match listLengthM H src n with
    | none => none
    | some len =>
      if i ≥ len then none else
      (getAtM src n (i / 256) (treeDepth t)).map fun c => .num (if bitOfChunk (c.root H) i then 1 else 0)
  | _ => none

/-- `len(view)` over a mixed backing (mirror of `viewLen`) -/
def viewLenM (H : Hash) (src : Src) (t : Ty) (n : MNode) : Option Nat :=
  match t with
  | .vector _ len => some len
  | .bitvector len => some len
  | .bytevector len => some len
  | .list _ _ => listLengthM H src n
  | .bitlist _ => listLengthM H src n
  | .bytelist _ => (readValM H src t n).map fun v => match v with | .bytes bs => bs.length | _ => 0
  | _ => none

/-- `view[a:b]` over a mixed backing (mirror of `sliceRead`) -/
def sliceReadM (H : Hash) (src : Src) (t : Ty) (n : MNode) (a b : Nat) : Option (List Val) :=
  (List.range (b - a)).mapM fun j => readElemM H src t n (a + j)

end Rmk.Virtual
