/-
Byte / bit level helpers of the model.  Core Lean only.
`Chunk` is a 32-byte list (the length is a side condition where it matters).
-/
namespace Rmk

abbrev Chunk := List UInt8

def zeros (n : Nat) : List UInt8 := List.replicate n 0

def zeroChunk : Chunk := zeros 32

/-- little-endian encoding of `n` in exactly `k` bytes (truncating, like `int.to_bytes` on in-range input). -/
def toLE : Nat → Nat → List UInt8
  | 0, _ => []
  | k+1, n => (UInt8.ofNat (n % 256)) :: toLE k (n / 256)

/-- little-endian decoding (`int.from_bytes(b, 'little')`). -/
def fromLE : List UInt8 → Nat
  | [] => 0
  | b :: bs => b.toNat + 256 * fromLE bs

/-- right-pad with zero bytes up to length `n` (no-op when already long enough). -/
def padRight (bs : List UInt8) (n : Nat) : List UInt8 := bs ++ zeros (n - bs.length)

/-- A basic value as a 32-byte leaf chunk: `bytez + b"\x00" * (32 - len(bytez))`. -/
def chunkOfLE (size n : Nat) : Chunk := padRight (toLE size n) 32

/-- bits (LSB first) to a natural number. -/
def bitsToNat : List Bool → Nat
  | [] => 0
  | b :: bs => (if b then 1 else 0) + 2 * bitsToNat bs

/-- `k` bits of `n`, LSB first. -/
def natToBits : Nat → Nat → List Bool
  | 0, _ => []
  | k+1, n => (n % 2 == 1) :: natToBits k (n / 2)

/-- split a list into groups of `n` (last group may be short). Fuel-structural on the length. -/
def groupsAux {α} (n : Nat) : Nat → List α → List (List α)
  | 0, _ => []
  | fuel+1, xs => if xs.isEmpty then [] else xs.take n :: groupsAux n fuel (xs.drop n)

def groups {α} (n : Nat) (xs : List α) : List (List α) := groupsAux n xs.length xs

/-- bits to bytes, 8 per byte LSB first, last byte zero-filled (`grouper(items, 8, fillvalue=0)`). -/
def bitsToBytes (bs : List Bool) : List UInt8 :=
  (groups 8 bs).map fun g => UInt8.ofNat (bitsToNat g)

/-- bytes to bits, 8 per byte LSB first. -/
def bytesToBits (bs : List UInt8) : List Bool :=
  bs.flatMap fun b => natToBits 8 b.toNat

/-- bytes to 32-byte chunks, last chunk zero-padded (`pack_bytes_to_chunks`). -/
def bytesToChunks (bs : List UInt8) : List Chunk :=
  (groups 32 bs).map fun g => padRight g 32

/-- number of bits of `n` (Python `int.bit_length`). -/
def bitLength (n : Nat) : Nat := if n = 0 then 0 else Nat.log2 n + 1

def hexDigit (n : Nat) : Char :=
  if n < 10 then Char.ofNat (48 + n) else Char.ofNat (87 + n)

def hexOf (bs : List UInt8) : String :=
  String.ofList (bs.flatMap fun b => [hexDigit (b.toNat / 16), hexDigit (b.toNat % 16)])

def hexVal (c : Char) : Option Nat :=
  if '0' ≤ c ∧ c ≤ '9' then some (c.toNat - 48)
  else if 'a' ≤ c ∧ c ≤ 'f' then some (c.toNat - 87)
  else if 'A' ≤ c ∧ c ≤ 'F' then some (c.toNat - 55)
  else none

def unhexAux : List Char → Option (List UInt8)
  | [] => some []
  | [_] => none
  | a :: b :: rest => do
    let x ← hexVal a
    let y ← hexVal b
    let r ← unhexAux rest
    pure (UInt8.ofNat (x * 16 + y) :: r)

def unhex (s : String) : Option (List UInt8) := unhexAux s.toList

end Rmk
