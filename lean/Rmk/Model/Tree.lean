/-
Pure tree layer: mirror of remerkleable/tree.py (and history.py).
`PairNode._root` caching is invisible here (the root is a function of the tree); see Heap.lean.
`RootNode` and a summary are the same constructor `leaf`, as in the code.
-/
import Rmk.Model.Bytes
namespace Rmk

inductive Node where
  | leaf (c : Chunk)
  | pair (l r : Node)
  deriving Repr, DecidableEq, Inhabited

abbrev Hash := Chunk → Chunk → Chunk

namespace Node

def root (H : Hash) : Node → Chunk
  | leaf c => c
  | pair l r => H (l.root H) (r.root H)

def isLeaf : Node → Bool
  | leaf _ => true
  | pair _ _ => false

end Node

/-- `zero_hashes[d]` -/
def zeroHash (H : Hash) : Nat → Chunk
  | 0 => zeroChunk
  | d+1 => H (zeroHash H d) (zeroHash H d)

/-- `zero_node(d)` -/
def zeroNode (H : Hash) (d : Nat) : Node := .leaf (zeroHash H d)

/-- `get_depth` (tree.py:7-10) -/
def getDepth (n : Nat) : Nat := if n ≤ 1 then 0 else bitLength (n - 1)

/-- `k` low bits of `i`, most significant first: the path of bottom position `i` in a depth-`k` subtree. -/
def pbits : Nat → Nat → List Bool
  | 0, _ => []
  | k+1, i => (i / 2^k % 2 == 1) :: pbits k i

/-- `gindex_bit_iter`: the bits of `g` below its leading one, most significant first. -/
def gbits (g : Nat) : List Bool := pbits (bitLength g - 1) g

/-- `to_gindex(index, depth)`; `none` when the index does not fit. -/
def toGindex (index depth : Nat) : Option Nat :=
  if index ≥ 2^depth then none else some (2^depth + index)

/-- gindex of a path (inverse of `gbits`). -/
def gindexOfPath : List Bool → Nat
  | bs => bs.foldl (fun g b => 2 * g + (if b then 1 else 0)) 1

/-- `concat_gindices` (tree.py:46-52): one step. -/
def concatStep (out step : Nat) : Nat :=
  let l := bitLength step - 1
  out * 2^l + (step - 2^l)

def concatGindices (steps : List Nat) : Nat := steps.foldl concatStep 1

/-- Navigation along a path; `none` = NavigationError (path runs through a leaf). -/
def getPath : Node → List Bool → Option Node
  | n, [] => some n
  | .leaf _, _ :: _ => none
  | .pair l r, b :: bs => if b then getPath r bs else getPath l bs

/-- `Node.getter(target)`; `target < 1` is a NavigationError. -/
def getter (n : Node) (g : Nat) : Option Node :=
  if g = 0 then none else getPath n (gbits g)

/-- The tree `setter(.., expand=True)` builds below a zero summary: a path through zero summaries. -/
def expandSet (H : Hash) : List Bool → Node → Node
  | [], v => v
  | b :: bs, v =>
    let z := zeroNode H bs.length
    if b then .pair z (expandSet H bs v) else .pair (expandSet H bs v) z

/-- `setter(target, expand)(v)` along a path.  `none` = NavigationError.
    Mirrors `RebindableNode.setter` and `RootNode.setter` (with the zero-summary check):
    a leaf on the way (above the target) is replaced by an expanded zero subtree only when `expand`
    is set and it *is* the zero summary of its height. -/
def setPath (H : Hash) (expand : Bool) : Node → List Bool → Node → Option Node
  | _, [], v => some v
  | .pair l r, b :: bs, v =>
    if b then (setPath H expand r bs v).map (fun r' => .pair l r')
    else (setPath H expand l bs v).map (fun l' => .pair l' r)
  | .leaf c, b :: bs, v =>
    if expand && c == zeroHash H (bs.length + 1) then some (expandSet H (b :: bs) v) else none

def setter (H : Hash) (n : Node) (g : Nat) (expand : Bool) (v : Node) : Option Node :=
  if g = 0 then none else setPath H expand n (gbits g) v

/-- `summarize_into(target)()` -/
def summarizePath (H : Hash) (n : Node) (p : List Bool) : Option Node :=
  match getPath n p with
  | none => none
  | some m => setPath H false n p (.leaf (m.root H))

def summarizeInto (H : Hash) (n : Node) (g : Nat) : Option Node :=
  if g = 0 then none else summarizePath H n (gbits g)

/-- `rebind_right` (NavigationError on a leaf) -/
def rebindRight : Node → Node → Option Node
  | .pair l _, v => some (.pair l v)
  | .leaf _, _ => none

def rebindLeft : Node → Node → Option Node
  | .pair _ r, v => some (.pair v r)
  | .leaf _, _ => none

def getLeft : Node → Option Node
  | .pair l _ => some l
  | .leaf _ => none

def getRight : Node → Option Node
  | .pair _ r => some r
  | .leaf _ => none

/-- `subtree_fill_to_depth` -/
def fillToDepth (bottom : Node) : Nat → Node
  | 0 => bottom
  | d+1 => let n := fillToDepth bottom d; .pair n n

/-- `subtree_fill_to_length`; `none` = exception. -/
def fillToLength (H : Hash) (bottom : Node) : Nat → Nat → Option Node
  | depth, length =>
    if length = 0 then some (zeroNode H depth)
    else if length > 2^depth then none
    else if length = 2^depth then some (fillToDepth bottom depth)
    else match depth with
      | 0 => none   -- unreachable: 0 < length < 1
      | 1 => some (.pair bottom (if length > 1 then bottom else zeroNode H 0))
      | d+1 =>
        let pivot := 2^d
        if length ≤ pivot then
          (fillToLength H bottom d length).map (fun l => .pair l (zeroNode H d))
        else
          (fillToLength H bottom d (length - pivot)).map (fun r => .pair (fillToDepth bottom d) r)

/-- `subtree_fill_to_contents`; `none` = exception. -/
def fillToContents (H : Hash) : List Node → Nat → Option Node
  | nodes, depth =>
    if nodes.length = 0 then some (zeroNode H depth)
    else if nodes.length > 2^depth then none
    else match depth with
      | 0 => nodes.head?
      | 1 => some (.pair (nodes.headD (zeroNode H 0)) ((nodes.drop 1).headD (zeroNode H 0)))
      | d+1 =>
        let pivot := 2^d
        if nodes.length ≤ pivot then
          (fillToContents H nodes d).map (fun l => .pair l (zeroNode H d))
        else
          match fillToContents H (nodes.take pivot) d, fillToContents H (nodes.drop pivot) d with
          | some l, some r => some (.pair l r)
          | _, _ => none

/-- `leaf_iter` -/
def leafIter : Node → List Node
  | .leaf c => [.leaf c]
  | .pair l r => leafIter l ++ leafIter r

/-- `get_diff` -/
def getDiff (H : Hash) : Node → Node → List (Node × Node)
  | .pair al ar, .pair bl br =>
    if (Node.pair al ar).root H != (Node.pair bl br).root H then
      getDiff H al bl ++ getDiff H ar br
    else []
  | a, b => if a.root H != b.root H then [(a, b)] else []

/-- `get_diff` with the path of each reported pair (model-only extension used to state the graft law). -/
def getDiffPos (H : Hash) : Node → Node → List (List Bool × Node × Node)
  | .pair al ar, .pair bl br =>
    if (Node.pair al ar).root H != (Node.pair bl br).root H then
      (getDiffPos H al bl).map (fun (p, x, y) => (false :: p, x, y)) ++
      (getDiffPos H ar br).map (fun (p, x, y) => (true :: p, x, y))
    else []
  | a, b => if a.root H != b.root H then [([], a, b)] else []

/-- `history.get_target_history`, one level: look up the child in direction `b` (or the node itself
    when `b = none`), dropping entries whose root equals the previous kept one. -/
def historyLevel (H : Hash) (dir : Option Bool) :
    List (Nat × Node) → Option Chunk → Option (List (Nat × Node))
  | [], _ => some []
  | (k, n) :: rest, last =>
    let child : Option Node := match dir with
      | none => some n
      | some true => getRight n
      | some false => getLeft n
    match child with
    | none => none
    | some c =>
      if last == some (c.root H) then historyLevel H dir rest last
      else (historyLevel H dir rest (some (c.root H))).map (fun t => (k, c) :: t)

/-- `get_target_history(history, target)` along the path of the target. -/
def targetHistoryPath (H : Hash) : List (Nat × Node) → List Bool → Option (List (Nat × Node))
  | hist, [] => historyLevel H none hist none
  | hist, b :: bs =>
    match historyLevel H (some b) hist none with
    | none => none
    | some out => targetHistoryPath H out bs

def targetHistory (H : Hash) (hist : List (Nat × Node)) (g : Nat) : Option (List (Nat × Node)) :=
  if g = 0 then none else targetHistoryPath H hist (gbits g)

end Rmk
