/-
SSZ type expressions and plain values of the model.
Nested occurrences are `List Ty` / `List Val` only; recursive functions over `Ty` are `mutual`
structural definitions with explicit list companions.
-/
import Rmk.Model.Bytes
namespace Rmk

inductive Ty where
  | uint (nb : Nat)                      -- byte size: 1,2,4,8,16,32
  | bool
  | bitvector (n : Nat)
  | bitlist (lim : Nat)
  | bytevector (n : Nat)
  | bytelist (lim : Nat)
  | vector (t : Ty) (n : Nat)
  | list (t : Ty) (lim : Nat)
  | container (fs : List Ty)             -- fields are positional
  | union (hasNone : Bool) (opts : List Ty)   -- options = (if hasNone then [None] else []) ++ opts
  deriving Repr, Inhabited

inductive Val where
  | num (n : Nat)                        -- uintN, boolean (0/1)
  | bits (bs : List Bool)                -- bitvector, bitlist
  | bytes (bs : List UInt8)              -- bytevector, bytelist
  | seq (vs : List Val)                  -- vector, list, container (fields in order)
  | un (sel : Nat) (v : Val)             -- union; the None option carries `Val.none`
  | none
  deriving Repr, Inhabited

mutual
def Val.beq : Val → Val → Bool
  | .num a, .num b => a == b
  | .bits a, .bits b => a == b
  | .bytes a, .bytes b => a == b
  | .seq a, .seq b => Val.beqList a b
  | .un s a, .un t b => s == t && Val.beq a b
  | .none, .none => true
  | _, _ => false
def Val.beqList : List Val → List Val → Bool
  | [], [] => true
  | a :: as, b :: bs => Val.beq a b && Val.beqList as bs
  | _, _ => false
end

instance : BEq Val := ⟨Val.beq⟩

namespace Ty

/-- basic types (packed when they are sequence elements): `isinstance(t, BasicView)` -/
def isBasic : Ty → Bool
  | uint _ => true
  | bool => true
  | _ => false

/-- byte size of a basic type (`type_byte_length`), 0 otherwise -/
def basicSize : Ty → Nat
  | uint nb => nb
  | bool => 1
  | _ => 0

end Ty

/-- number of options of a union -/
def optCount (hasNone : Bool) (opts : List Ty) : Nat := (if hasNone then 1 else 0) + opts.length

/-- index into `opts` of selector `sel` (meaningful unless `hasNone ∧ sel = 0`) -/
def optIndex (hasNone : Bool) (sel : Nat) : Nat := if hasNone then sel - 1 else sel

mutual
/-- "a type the library builds (and the SSZ spec allows)" -/
def Ty.wf : Ty → Bool
  | .uint nb => nb == 1 || nb == 2 || nb == 4 || nb == 8 || nb == 16 || nb == 32
  | .bool => true
  | .bitvector n => n > 0
  | .bitlist _ => true
  | .bytevector n => n > 0
  | .bytelist _ => true
  | .vector t n => n > 0 && t.wf
  | .list t _ => t.wf
  | .container fs => !fs.isEmpty && Ty.wfList fs
  | .union hasNone opts =>
    optCount hasNone opts ≥ 1 && optCount hasNone opts ≤ 128 && (!hasNone || opts.length ≥ 1)
      && Ty.wfList opts
def Ty.wfList : List Ty → Bool
  | [] => true
  | t :: ts => t.wf && Ty.wfList ts
end

mutual
/-- well-typed value -/
def WT : Ty → Val → Bool
  | .uint nb, .num n => n < 2 ^ (8 * nb)
  | .bool, .num n => n < 2
  | .bitvector n, .bits bs => bs.length == n
  | .bitlist lim, .bits bs => bs.length ≤ lim
  | .bytevector n, .bytes bs => bs.length == n
  | .bytelist lim, .bytes bs => bs.length ≤ lim
  | .vector t n, .seq vs => vs.length == n && vs.all (WT t)
  | .list t lim, .seq vs => vs.length ≤ lim && vs.all (WT t)
  | .container fs, .seq vs => WTs fs vs
  | .union hasNone opts, .un sel v =>
    if hasNone && sel == 0 then (match v with | .none => true | _ => false)
    else WTopt opts (optIndex hasNone sel) v
  | _, _ => false
def WTs : List Ty → List Val → Bool
  | [], [] => true
  | t :: ts, v :: vs => WT t v && WTs ts vs
  | _, _ => false
def WTopt : List Ty → Nat → Val → Bool
  | [], _, _ => false
  | t :: _, 0, v => WT t v
  | _ :: ts, k+1, v => WTopt ts k v
end

/-- path keys: element / field / option index, `'__len__'`, `'__selector__'` -/
inductive Key where
  | idx (i : Nat)
  | len
  | sel
  deriving Repr, DecidableEq, Inhabited

end Rmk
