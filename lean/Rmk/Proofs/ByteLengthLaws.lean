/-
`value_byte_length()` (property C11, last clause): the byte length the library reports for a view —
computed by its own recursion over the tree, `Impl.valueByteLength`, NOT by serialising — equals the
length of the SSZ encoding of the represented value, for EVERY tree that represents the value.
Corollaries: it lies within `[minLen, maxLen]`, equals `fixedLen` for fixed-size types, and agrees
with the count returned by `serialize(stream)`.
-/
import Rmk.Impl.ByteLength
import Rmk.Impl.Repr
import Rmk.Proofs.BytesLemmas
import Rmk.Proofs.Sizes
import Rmk.Proofs.ChunkTree
import Rmk.Proofs.ReprBasics
import Rmk.Proofs.SerTree
namespace Rmk.ByteLengthLaws
open Rmk Rmk.Impl Rmk.Spec
open Rmk.ChunkTreeLemmas Rmk.ReprBasics Rmk.SerTree

/-! ## 1. helpers -/

/-- length of the interleaving of all-variable parts: 4 bytes of offset plus the part, each -/
theorem seqSer_var_length (et : Ty) (vs : List Val) (hf : ¬ Spec.isFixed et = true) :
    (seqSer et vs).length = ((vs.map fun v => (serialize et v).length).map fun l => 4 + l).sum := by
  have hf' : Spec.isFixed et = false := by simpa using hf
  rw [seqSer, interleave_length, hf']
  simp only [List.map_map]
  congr 1

/-- the sum loop of `List/Vector.value_byte_length` over a chunk tree of element nodes -/
theorem vblSeqWith_spec (vbl : Node → Option Nat) (et : Ty) (vs : List Val) (n : Node) (d : Nat)
    (hf : ¬ Spec.isFixed et = true)
    (hget : ∀ i (hi : i < vs.length), (getAt n i d).bind vbl = some (serialize et vs[i]).length) :
    vblSeqWith vbl n d vs.length = some (seqSer et vs).length := by
  unfold vblSeqWith
  rw [allSome_range_eq vs.length (vs.map fun v => (serialize et v).length) _ (by simp)
    (fun i hi => by rw [hget i (by simpa using hi)]; simp)]
  rw [Option.map_some, seqSer_var_length et vs hf]

theorem not_basic_of_not_fixed (et : Ty) (hf : ¬ Spec.isFixed et = true) : ¬ et.isBasic = true :=
  fun hb => hf (isFixed_basic et hb)

/-! ## 2. the main theorem -/

mutual
theorem repr_vbl_aux (H : Hash) (t : Ty) (v : Val) (n : Node) (hwf : t.wf = true)
    (hlim : limitsOk t = true) (h : Impl.Repr H t v n) :
    valueByteLength H t n = some (Spec.serialize t v).length := by
  cases t with
  | uint nb =>
    cases v <;> simp only [Impl.Repr] at h
    simp only [valueByteLength, Spec.serialize, toLE_length]
  | bool =>
    have hr := repr_read H _ _ _ hwf hlim h
    cases v <;> simp only [Impl.Repr] at h
    simp only [readVal] at hr
    simp only [valueByteLength, hr, Option.map_some, Spec.serialize, List.length_singleton]
  | bitvector len =>
    cases v <;> simp only [Impl.Repr] at h
    rename_i bs
    obtain ⟨hlen, _⟩ := h
    subst hlen
    simp only [valueByteLength, Spec.serialize, bitsToBytes_length]
  | bitlist lim =>
    cases v <;> simp only [Impl.Repr] at h
    rename_i bs
    obtain ⟨hlen, c, rfl, _⟩ := h
    simp [limitsOk] at hlim
    have e : (bs.length + 1 + 7) / 8 = (bs.length + 8) / 8 := by omega
    simp only [valueByteLength, listLength_mixin H c _ (by omega : bs.length < 2 ^ 256),
      Option.map_some, Spec.serialize, bitsToBytes_length, List.length_append,
      List.length_singleton, e]
  | bytevector len =>
    have hr := repr_read H _ _ _ hwf hlim h
    cases v <;> simp only [Impl.Repr] at h
    simp only [valueByteLength, hr, Option.map_some, Spec.serialize, h.1]
  | bytelist lim =>
    have hr := repr_read H _ _ _ hwf hlim h
    cases v <;> simp only [Impl.Repr] at h
    simp only [valueByteLength, hr, Spec.serialize]
  | vector et len =>
    have hwt := repr_wt H _ _ _ h
    cases v <;> simp only [Impl.Repr] at h
    rename_i vs
    simp [Ty.wf] at hwf
    simp only [limitsOk] at hlim
    simp [WT] at hwt
    obtain ⟨hlen, h⟩ := h
    subst hlen
    simp only [valueByteLength, Spec.serialize]
    by_cases hf : Spec.isFixed et = true
    · rw [if_pos hf]
      exact congrArg some (seqSer_fixed_length et vs hwf.2 hf hwt.2).symm
    · rw [if_neg hf]
      have hb := not_basic_of_not_fixed et hf
      simp only [hb, Bool.false_eq_true, if_false] at h
      obtain ⟨ns, hall, hct⟩ := h
      have hl := allRel_length hall
      refine vblSeqWith_spec _ et vs n _ hf (fun i hi => ?_)
      have hi' : i < ns.length := by omega
      rw [ct_get hct hi']
      exact repr_vbl_aux H et vs[i] ns[i] hwf.2 hlim (allRel_get hall i hi hi')
  | list et lim =>
    have hwt := repr_wt H _ _ _ h
    cases v <;> simp only [Impl.Repr] at h
    rename_i vs
    simp [Ty.wf] at hwf
    simp [limitsOk] at hlim
    simp [WT] at hwt
    obtain ⟨hlen, c, rfl, h⟩ := h
    simp only [valueByteLength, listLength_mixin H c _ (by omega : vs.length < 2 ^ 256),
      Spec.serialize]
    by_cases hf : Spec.isFixed et = true
    · rw [if_pos hf]
      exact congrArg some (seqSer_fixed_length et vs hwf hf hwt.2).symm
    · rw [if_neg hf]
      have hb := not_basic_of_not_fixed et hf
      simp only [hb, Bool.false_eq_true, if_false] at h
      obtain ⟨ns, hall, hct⟩ := h
      have hl := allRel_length hall
      have hle := ct_length_le hct
      refine vblSeqWith_spec _ et vs _ _ hf (fun i hi => ?_)
      have hi' : i < ns.length := by omega
      rw [mixInNode, getAt_mixin _ _ (by omega), ct_get hct hi']
      exact repr_vbl_aux H et vs[i] ns[i] hwf hlim.2 (allRel_get hall i hi hi')
  | container fs =>
    have hwt := repr_wt H _ _ _ h
    cases v <;> simp only [Impl.Repr] at h
    rename_i vs
    have hwf0 := hwf
    simp [Ty.wf] at hwf
    simp only [limitsOk] at hlim
    obtain ⟨ns, hfs, hct⟩ := h
    simp only [valueByteLength]
    by_cases hf : Spec.allFixed fs = true
    · rw [if_pos hf]
      exact congrArg some (serialize_fixed (.container fs) (.seq vs) hwf0 hwt
        (by simpa [Spec.isFixed] using hf)).symm
    · rw [if_neg hf]
      simp only [Spec.serialize, interleave_length]
      exact reprFields_vbl_aux H fs vs ns hwf.2 hlim hfs n (getDepth fs.length) 0 (fun i hi => by
        rw [Nat.zero_add, ct_get hct hi, List.getElem?_eq_getElem hi])
  | union hasNone opts =>
    cases v <;> simp only [Impl.Repr] at h
    rename_i sel v
    simp [Ty.wf] at hwf
    simp only [limitsOk] at hlim
    obtain ⟨hsel, c, rfl, h⟩ := h
    have hsel' : sel < 2 ^ 256 := by omega
    simp only [valueByteLength, getLeft, getRight, readLen_lenNode H sel hsel']
    rw [if_neg (by omega)]
    by_cases hc : (hasNone && sel == 0) = true
    · simp only [hc, if_true] at h ⊢
      obtain ⟨rfl, rfl⟩ := h
      simp [Node.root, zeroNode, zeroHash, Spec.serialize, hc]
    · simp only [hc, Bool.false_eq_true, if_false] at h ⊢
      rw [reprOpt_vbl_aux H opts _ v c hwf.2 hlim h]
      simp only [Option.map_some, Spec.serialize, hc, Bool.false_eq_true, if_false,
        List.length_cons]
      rw [Nat.add_comm]

theorem reprFields_vbl_aux (H : Hash) (fs : List Ty) (vs : List Val) (ns : List Node)
    (hwf : Ty.wfList fs = true) (hlim : limitsOkList fs = true) (h : ReprFields H fs vs ns)
    (n : Node) (depth k : Nat) (hget : ∀ i, i < ns.length → getAt n (k + i) depth = ns[i]?) :
    vblFields H fs n depth k
      = some ((Spec.serializeFields fs vs).map fun p => Spec.partLen p.1 p.2.length).sum := by
  cases fs with
  | nil =>
    cases vs with
    | nil => simp [vblFields, Spec.serializeFields]
    | cons v vs => cases ns <;> simp only [ReprFields] at h
  | cons t ts =>
    cases vs with
    | nil => cases ns <;> simp only [ReprFields] at h
    | cons v vs =>
      cases ns with
      | nil => simp only [ReprFields] at h
      | cons m ms =>
        simp [Ty.wfList] at hwf
        simp [limitsOkList] at hlim
        simp only [ReprFields] at h
        have ih1 := repr_vbl_aux H t v m hwf.1 hlim.1 h.1
        have ih2 := reprFields_vbl_aux H ts vs ms hwf.2 hlim.2 h.2 n depth (k + 1) (fun i hi => by
          have := hget (i + 1) (by simp; omega)
          rw [List.getElem?_cons_succ] at this
          rw [← this]; congr 1; omega)
        have h0 := hget 0 (by simp)
        simp only [Nat.add_zero, List.getElem?_cons_zero] at h0
        simp only [vblFields, h0, Option.bind_some, ih1, ih2, Spec.serializeFields, List.map_cons,
          List.sum_cons, Option.map_some]
        by_cases hf : Spec.isFixed t = true
        · have hlen := serialize_fixed t v hwf.1 (repr_wt H t v m h.1) hf
          simp only [hf, if_true, Spec.partLen, hlen]
        · simp only [hf, Bool.false_eq_true, if_false, Spec.partLen]

theorem reprOpt_vbl_aux (H : Hash) (opts : List Ty) (k : Nat) (v : Val) (c : Node)
    (hwf : Ty.wfList opts = true) (hlim : limitsOkList opts = true) (h : ReprOpt H opts k v c) :
    vblOpt H opts k c = some (Spec.serializeOpt opts k v).length := by
  cases opts with
  | nil => simp only [ReprOpt] at h
  | cons t ts =>
    simp [Ty.wfList] at hwf
    simp [limitsOkList] at hlim
    cases k with
    | zero =>
      simp only [ReprOpt] at h
      simp only [vblOpt, Spec.serializeOpt]
      exact repr_vbl_aux H t v c hwf.1 hlim.1 h
    | succ k =>
      simp only [ReprOpt] at h
      simp only [vblOpt, Spec.serializeOpt]
      exact reprOpt_vbl_aux H ts k v c hwf.2 hlim.2 h
end

/-! ## 3. the statements of the task -/

variable (H : Hash)

/-- C11 (last clause): `value_byte_length()` computed from ANY tree that represents `v` is the length
    of the SSZ encoding of `v`.  `hlim`: every list / bitlist / bytelist limit in `t` is `< 2^256`
    (the length is read back from a 32-byte leaf). -/
theorem repr_vbl (t : Ty) (v : Val) (n : Node) (hwf : t.wf = true) (hlim : limitsOk t = true)
    (h : Impl.Repr H t v n) :
    Impl.valueByteLength H t n = some (Spec.serialize t v).length :=
  repr_vbl_aux H t v n hwf hlim h

/-- container fields: the loop of `Container.value_byte_length` -/
theorem reprFields_vbl (fs : List Ty) (vs : List Val) (ns : List Node)
    (hwf : Ty.wfList fs = true) (hlim : limitsOkList fs = true) (h : ReprFields H fs vs ns)
    (n : Node) (depth k : Nat) (hget : ∀ i, i < ns.length → getAt n (k + i) depth = ns[i]?) :
    Impl.vblFields H fs n depth k
      = some (Spec.interleave (Spec.serializeFields fs vs)).length := by
  rw [interleave_length]
  exact reprFields_vbl_aux H fs vs ns hwf hlim h n depth k hget

/-- union options -/
theorem reprOpt_vbl (opts : List Ty) (k : Nat) (v : Val) (c : Node)
    (hwf : Ty.wfList opts = true) (hlim : limitsOkList opts = true) (h : ReprOpt H opts k v c) :
    Impl.vblOpt H opts k c = some (Spec.serializeOpt opts k v).length :=
  reprOpt_vbl_aux H opts k v c hwf hlim h

/-- the reported length is within the type's `[min_byte_length, max_byte_length]` -/
theorem repr_vbl_bounds (t : Ty) (v : Val) (n : Node) (hwf : t.wf = true)
    (hlim : limitsOk t = true) (h : Impl.Repr H t v n) :
    ∃ k, Impl.valueByteLength H t n = some k ∧ Spec.minLen t ≤ k ∧ k ≤ Spec.maxLen t :=
  ⟨_, repr_vbl H t v n hwf hlim h, serialize_bounds t v hwf (repr_wt H t v n h)⟩

/-- for fixed-size types the reported length is `type_byte_length()` -/
theorem repr_vbl_fixed (t : Ty) (v : Val) (n : Node) (hwf : t.wf = true)
    (hlim : limitsOk t = true) (hf : Spec.isFixed t = true) (h : Impl.Repr H t v n) :
    Impl.valueByteLength H t n = some (Spec.fixedLen t) := by
  rw [repr_vbl H t v n hwf hlim h, serialize_fixed t v hwf (repr_wt H t v n h) hf]

/-- `value_byte_length()` agrees with the count returned by `serialize(stream)` and with the number
    of bytes actually written -/
theorem repr_vbl_eq_ser_count (t : Ty) (v : Val) (n : Node) (hwf : t.wf = true)
    (hlim : limitsOk t = true) (h : Impl.Repr H t v n) :
    Impl.valueByteLength H t n = (Impl.serTree H t n).map (·.2) ∧
    Impl.valueByteLength H t n = (Impl.serTree H t n).map (·.1.length) := by
  rw [repr_vbl H t v n hwf hlim h, repr_ser H t v n hwf hlim h]
  exact ⟨rfl, rfl⟩

/-- the tree built by the constructor from a well-typed value reports the SSZ length -/
theorem construct_vbl (t : Ty) (v : Val) (hwf : t.wf = true) (hlim : limitsOk t = true)
    (hwt : WT t v = true) :
    ∃ n, Impl.construct H t v = some n ∧
      Impl.valueByteLength H t n = some (Spec.serialize t v).length := by
  obtain ⟨n, hn, hr⟩ := repr_exists H t v hwf hwt
  exact ⟨n, hn, repr_vbl H t v n hwf hlim hr⟩

/-- two trees representing the same value report the same length (whatever their shape) -/
theorem repr_vbl_unique (t : Ty) (v : Val) (n n' : Node) (hwf : t.wf = true)
    (hlim : limitsOk t = true) (h : Impl.Repr H t v n) (h' : Impl.Repr H t v n') :
    Impl.valueByteLength H t n = Impl.valueByteLength H t n' := by
  rw [repr_vbl H t v n hwf hlim h, repr_vbl H t v n' hwf hlim h']

end Rmk.ByteLengthLaws
