/-
Byte / bit level lemmas: `toLE`/`fromLE`, `groups`, `natToBits`/`bitsToNat`,
`bitsToBytes`/`bytesToBits`, `bytesToChunks`, `padRight`, `chunkOfLE`.
-/
import Rmk.Model.Bytes
namespace Rmk

/-! ## zeros -/

@[simp] theorem zeros_length (n : Nat) : (zeros n).length = n := by simp [zeros]

@[simp] theorem zeros_zero : zeros 0 = [] := rfl

theorem zeros_succ (n : Nat) : zeros (n + 1) = 0 :: zeros n := by simp [zeros, List.replicate_succ]

theorem zeros_add (m n : Nat) : zeros (m + n) = zeros m ++ zeros n := by
  simp [zeros, List.replicate_append_replicate]

/-! ## toLE / fromLE -/

@[simp] theorem toLE_length (k n : Nat) : (toLE k n).length = k := by
  induction k generalizing n with
  | zero => rfl
  | succ k ih => simp [toLE, ih]

@[simp] theorem fromLE_nil : fromLE [] = 0 := rfl

@[simp] theorem fromLE_cons (b : UInt8) (bs : List UInt8) :
    fromLE (b :: bs) = b.toNat + 256 * fromLE bs := rfl

@[simp] theorem toLE_zero_len (n : Nat) : toLE 0 n = [] := rfl

theorem toLE_succ (k n : Nat) : toLE (k + 1) n = UInt8.ofNat (n % 256) :: toLE k (n / 256) := rfl

theorem fromLE_toLE_mod (k n : Nat) : fromLE (toLE k n) = n % 256 ^ k := by
  induction k generalizing n with
  | zero => simp [Nat.mod_one]
  | succ k ih =>
    have h8 : n % 256 % 2 ^ 8 = n % 256 := Nat.mod_mod _ _
    simp only [toLE_succ, fromLE_cons, ih, UInt8.toNat_ofNat', h8]
    rw [Nat.pow_succ 256 k, Nat.mul_comm (256 ^ k) 256, Nat.mod_mul]

theorem fromLE_toLE (k n : Nat) (h : n < 256 ^ k) : fromLE (toLE k n) = n := by
  rw [fromLE_toLE_mod, Nat.mod_eq_of_lt h]

theorem pow_256_eq (k : Nat) : 256 ^ k = 2 ^ (8 * k) := by
  rw [Nat.pow_mul]

theorem fromLE_toLE' (k n : Nat) (h : n < 2 ^ (8 * k)) : fromLE (toLE k n) = n :=
  fromLE_toLE k n (by rw [pow_256_eq]; exact h)

theorem fromLE_lt (bs : List UInt8) : fromLE bs < 256 ^ bs.length := by
  induction bs with
  | nil => simp
  | cons b bs ih =>
    simp only [fromLE_cons, List.length_cons, Nat.pow_succ]
    have := UInt8.toNat_lt b
    have : (2:Nat) ^ 8 = 256 := by decide
    omega

theorem fromLE_lt' (bs : List UInt8) : fromLE bs < 2 ^ (8 * bs.length) := by
  rw [← pow_256_eq]; exact fromLE_lt bs

@[simp] theorem toLE_fromLE (bs : List UInt8) : toLE bs.length (fromLE bs) = bs := by
  induction bs with
  | nil => rfl
  | cons b bs ih =>
    have hb := UInt8.toNat_lt b
    have h256 : (2:Nat) ^ 8 = 256 := by decide
    simp only [List.length_cons, toLE_succ, fromLE_cons]
    have h1 : (b.toNat + 256 * fromLE bs) % 256 = b.toNat := by omega
    have h2 : (b.toNat + 256 * fromLE bs) / 256 = fromLE bs := by omega
    rw [h1, h2, ih, UInt8.ofNat_toNat]

@[simp] theorem fromLE_zeros (n : Nat) : fromLE (zeros n) = 0 := by
  induction n with
  | zero => rfl
  | succ n ih => simp [zeros_succ, ih]

theorem fromLE_append (as bs : List UInt8) :
    fromLE (as ++ bs) = fromLE as + 256 ^ as.length * fromLE bs := by
  induction as with
  | nil => simp
  | cons a as ih =>
    simp only [List.cons_append, fromLE_cons, ih, List.length_cons, Nat.pow_succ]
    rw [Nat.mul_add, ← Nat.mul_assoc, Nat.mul_comm 256 (256 ^ as.length)]
    omega

@[simp] theorem fromLE_append_zeros (bs : List UInt8) (n : Nat) :
    fromLE (bs ++ zeros n) = fromLE bs := by
  simp [fromLE_append]

@[simp] theorem toLE_zero (k : Nat) : toLE k 0 = zeros k := by
  induction k with
  | zero => rfl
  | succ k ih => simp [toLE_succ, zeros_succ, ih]

/-- `toLE` only depends on `n` modulo `256^k`. -/
theorem toLE_mod (k n : Nat) : toLE k (n % 256 ^ k) = toLE k n := by
  have h := toLE_fromLE (toLE k n)
  rw [toLE_length, fromLE_toLE_mod] at h
  exact h

/-- injectivity of `toLE` on in-range values. -/
theorem toLE_inj {k a b : Nat} (ha : a < 256 ^ k) (hb : b < 256 ^ k)
    (h : toLE k a = toLE k b) : a = b := by
  rw [← fromLE_toLE k a ha, ← fromLE_toLE k b hb, h]

/-- injectivity of `fromLE` on equal-length byte strings. -/
theorem fromLE_inj {as bs : List UInt8} (hl : as.length = bs.length)
    (h : fromLE as = fromLE bs) : as = bs := by
  rw [← toLE_fromLE as, ← toLE_fromLE bs, hl, h]

/-! ## groups -/

section Groups
variable {α : Type _}

@[simp] theorem groupsAux_nil (n fuel : Nat) : groupsAux n fuel ([] : List α) = [] := by
  cases fuel <;> simp [groupsAux]

/-- fuel-independence: any two sufficient fuels give the same result. -/
theorem groupsAux_fuel_irrel {n : Nat} (hn : 0 < n) (f1 f2 : Nat) (xs : List α)
    (h1 : xs.length ≤ f1) (h2 : xs.length ≤ f2) : groupsAux n f1 xs = groupsAux n f2 xs := by
  induction f1 generalizing f2 xs with
  | zero =>
    have : xs = [] := List.eq_nil_of_length_eq_zero (by omega)
    subst this; simp
  | succ f1 ih =>
    cases xs with
    | nil => simp
    | cons x xs =>
      cases f2 with
      | zero => simp at h2
      | succ f2 =>
        simp only [groupsAux, List.isEmpty_cons, Bool.false_eq_true, if_false]
        congr 1
        apply ih
        · simp only [List.length_drop, List.length_cons] at *; omega
        · simp only [List.length_drop, List.length_cons] at *; omega

theorem groupsAux_fuel {n : Nat} (hn : 0 < n) (fuel : Nat) (xs : List α)
    (h : xs.length ≤ fuel) : groupsAux n fuel xs = groupsAux n xs.length xs :=
  groupsAux_fuel_irrel hn _ _ xs h (Nat.le_refl _)

theorem groupsAux_eq_groups {n : Nat} (hn : 0 < n) (fuel : Nat) (xs : List α)
    (h : xs.length ≤ fuel) : groupsAux n fuel xs = groups n xs :=
  groupsAux_fuel hn fuel xs h

@[simp] theorem groups_nil (n : Nat) : groups n ([] : List α) = [] := rfl

/-- unfolding equation of `groups`. -/
theorem groups_of_ne_nil {n : Nat} (hn : 0 < n) {xs : List α} (h : xs ≠ []) :
    groups n xs = xs.take n :: groups n (xs.drop n) := by
  cases xs with
  | nil => exact absurd rfl h
  | cons x xs =>
    show groupsAux n (xs.length + 1) (x :: xs) = _
    simp only [groupsAux, List.isEmpty_cons, Bool.false_eq_true, if_false]
    congr 1
    apply groupsAux_eq_groups hn
    simp only [List.length_drop, List.length_cons]; omega

theorem groups_eq_nil_iff {n : Nat} (hn : 0 < n) (xs : List α) : groups n xs = [] ↔ xs = [] := by
  constructor
  · intro h
    cases xs with
    | nil => rfl
    | cons x xs => rw [groups_of_ne_nil hn (by simp)] at h; simp at h
  · rintro rfl; rfl

/-- induction principle following the recursion of `groups`. -/
theorem groups_induct {n : Nat} (hn : 0 < n) {P : List α → Prop} (hnil : P [])
    (hstep : ∀ xs, xs ≠ [] → P (xs.drop n) → P xs) : ∀ xs, P xs := by
  intro xs
  generalize hl : xs.length = l
  induction l using Nat.strongRecOn generalizing xs with
  | _ l ih =>
    cases xs with
    | nil => exact hnil
    | cons x xs =>
      apply hstep _ (by simp)
      apply ih ((x :: xs).drop n).length _ _ rfl
      subst hl
      simp only [List.length_drop, List.length_cons]; omega

theorem groups_single {n : Nat} {xs : List α} (h0 : 0 < xs.length) (hn : xs.length ≤ n) :
    groups n xs = [xs] := by
  have hne : xs ≠ [] := by intro h; subst h; simp at h0
  rw [groups_of_ne_nil (by omega) hne, List.take_of_length_le hn, List.drop_of_length_le hn]
  rfl

@[simp] theorem groups_flatten {n : Nat} (hn : 0 < n) (xs : List α) : (groups n xs).flatten = xs := by
  induction xs using groups_induct hn with
  | hnil => rfl
  | hstep xs hne ih =>
    rw [groups_of_ne_nil hn hne, List.flatten_cons, ih, List.take_append_drop]

theorem groups_length {n : Nat} (hn : 0 < n) (xs : List α) :
    (groups n xs).length = (xs.length + n - 1) / n := by
  induction xs using groups_induct hn with
  | hnil =>
    simp only [groups_nil, List.length_nil, Nat.zero_add]
    exact (Nat.div_eq_of_lt (by omega)).symm
  | hstep xs hne ih =>
    have hpos : 0 < xs.length := List.length_pos_iff.mpr hne
    rw [groups_of_ne_nil hn hne, List.length_cons, ih, List.length_drop]
    by_cases hle : xs.length ≤ n
    · have h0 : xs.length - n = 0 := by omega
      rw [h0, Nat.zero_add, Nat.div_eq_of_lt (by omega)]
      have : xs.length + n - 1 = (xs.length - 1) + n := by omega
      rw [this, Nat.add_div_right _ hn, Nat.div_eq_of_lt (by omega)]
    · have : xs.length + n - 1 = (xs.length - n + n - 1) + n := by omega
      rw [this, Nat.add_div_right _ hn]

/-- the `i`-th group is the `i`-th window of width `n`. -/
theorem groups_getElem {n : Nat} (hn : 0 < n) (xs : List α) (i : Nat)
    (hi : i < (groups n xs).length) : (groups n xs)[i] = (xs.drop (n * i)).take n := by
  induction xs using groups_induct hn generalizing i with
  | hnil => simp at hi
  | hstep xs hne ih =>
    have hg := groups_of_ne_nil hn hne
    cases i with
    | zero => simp [hg]
    | succ i =>
      have hi' : i < (groups n (xs.drop n)).length := by
        rw [hg] at hi; simpa using hi
      have := ih i hi'
      simp only [hg, List.getElem_cons_succ, this, List.drop_drop, Nat.mul_succ]
      rw [Nat.add_comm]

theorem groups_getElem? {n : Nat} (hn : 0 < n) (xs : List α) (i : Nat) :
    (groups n xs)[i]? = if i < (groups n xs).length then some ((xs.drop (n * i)).take n) else none := by
  split
  · next h => rw [List.getElem?_eq_getElem h, groups_getElem hn]
  · next h => exact List.getElem?_eq_none (by omega)

theorem length_le_of_mem_groups {n : Nat} (hn : 0 < n) {xs g : List α} (hg : g ∈ groups n xs) :
    g.length ≤ n := by
  induction xs using groups_induct hn with
  | hnil => simp at hg
  | hstep xs hne ih =>
    rw [groups_of_ne_nil hn hne, List.mem_cons] at hg
    rcases hg with rfl | hg
    · simp only [List.length_take]; omega
    · exact ih hg

theorem ne_nil_of_mem_groups {n : Nat} (hn : 0 < n) {xs g : List α} (hg : g ∈ groups n xs) :
    g ≠ [] := by
  induction xs using groups_induct hn with
  | hnil => simp at hg
  | hstep xs hne ih =>
    rw [groups_of_ne_nil hn hne, List.mem_cons] at hg
    rcases hg with rfl | hg
    · cases xs with
      | nil => exact absurd rfl hne
      | cons x xs =>
        obtain ⟨m, rfl⟩ : ∃ m, n = m + 1 := ⟨n - 1, by omega⟩
        simp
    · exact ih hg

theorem length_pos_of_mem_groups {n : Nat} (hn : 0 < n) {xs g : List α} (hg : g ∈ groups n xs) :
    0 < g.length :=
  List.length_pos_iff.mpr (ne_nil_of_mem_groups hn hg)

/-- every group except possibly the last has length exactly `n`. -/
theorem length_eq_of_mem_groups_dropLast {n : Nat} (hn : 0 < n) {xs g : List α}
    (hg : g ∈ (groups n xs).dropLast) : g.length = n := by
  induction xs using groups_induct hn with
  | hnil => simp at hg
  | hstep xs hne ih =>
    rw [groups_of_ne_nil hn hne] at hg
    by_cases hd : xs.drop n = []
    · rw [hd] at hg; simp at hg
    · have hne' : groups n (xs.drop n) ≠ [] := fun h => hd ((groups_eq_nil_iff hn _).1 h)
      rw [List.dropLast_cons_of_ne_nil hne', List.mem_cons] at hg
      rcases hg with rfl | hg
      · have : 0 < (xs.drop n).length := List.length_pos_iff.mpr hd
        simp only [List.length_drop] at this
        simp only [List.length_take]; omega
      · exact ih hg

/-- index form: every group except possibly the last has length exactly `n`. -/
theorem groups_getElem_length {n : Nat} (hn : 0 < n) (xs : List α) (i : Nat)
    (hi : i + 1 < (groups n xs).length) :
    ((groups n xs)[i]'(by omega)).length = n := by
  apply length_eq_of_mem_groups_dropLast hn (xs := xs)
  have : i < (groups n xs).dropLast.length := by simp; omega
  have h := List.getElem_mem this
  rwa [List.getElem_dropLast] at h

/-- when `n ∣ xs.length`, all groups are full. -/
theorem length_eq_of_mem_groups_of_dvd {n : Nat} (hn : 0 < n) {xs g : List α}
    (hd : n ∣ xs.length) (hg : g ∈ groups n xs) : g.length = n := by
  induction xs using groups_induct hn with
  | hnil => simp at hg
  | hstep xs hne ih =>
    have hpos : 0 < xs.length := List.length_pos_iff.mpr hne
    have hle : n ≤ xs.length := Nat.le_of_dvd hpos hd
    rw [groups_of_ne_nil hn hne, List.mem_cons] at hg
    rcases hg with rfl | hg
    · simp only [List.length_take]; omega
    · apply ih _ hg
      rw [List.length_drop]
      exact Nat.dvd_sub hd (Nat.dvd_refl n)

theorem groups_append {n : Nat} (hn : 0 < n) (xs ys : List α) (hd : n ∣ xs.length) :
    groups n (xs ++ ys) = groups n xs ++ groups n ys := by
  induction xs using groups_induct hn with
  | hnil => simp
  | hstep xs hne ih =>
    have hpos : 0 < xs.length := List.length_pos_iff.mpr hne
    have hle : n ≤ xs.length := Nat.le_of_dvd hpos hd
    have hne' : xs ++ ys ≠ [] := by simp [hne]
    rw [groups_of_ne_nil hn hne', groups_of_ne_nil hn hne, List.take_append_of_le_length hle,
      List.drop_append_of_le_length hle, List.cons_append]
    congr 1
    apply ih
    rw [List.length_drop]
    exact Nat.dvd_sub hd (Nat.dvd_refl n)

/-- a full first block splits off. -/
theorem groups_append_of_length_eq {n : Nat} (hn : 0 < n) (xs ys : List α) (hl : xs.length = n) :
    groups n (xs ++ ys) = xs :: groups n ys := by
  rw [groups_append hn xs ys (by rw [hl]; exact Nat.dvd_refl n), groups_single (by omega) (by omega)]
  rfl

/-- padding every group to width `n` pads the whole list up to the next multiple of `n`. -/
theorem groups_map_pad_flatten {n : Nat} (hn : 0 < n) (a : α) (xs : List α) :
    ((groups n xs).map fun g => g ++ List.replicate (n - g.length) a).flatten
      = xs ++ List.replicate ((n - xs.length % n) % n) a := by
  induction xs using groups_induct hn with
  | hnil => simp [Nat.mod_self]
  | hstep xs hne ih =>
    have hpos : 0 < xs.length := List.length_pos_iff.mpr hne
    by_cases hle : xs.length ≤ n
    · rw [groups_single hpos hle]
      simp only [List.map_cons, List.map_nil, List.flatten_cons, List.flatten_nil, List.append_nil]
      congr 2
      by_cases heq : xs.length = n
      · rw [heq, Nat.mod_self, Nat.sub_zero, Nat.mod_self, Nat.sub_self]
      · rw [Nat.mod_eq_of_lt (by omega : xs.length < n), Nat.mod_eq_of_lt (by omega)]
    · have hlt : n < xs.length := by omega
      rw [groups_of_ne_nil hn hne, List.map_cons, List.flatten_cons, ih, List.length_take,
        List.length_drop, ← Nat.mod_eq_sub_mod (by omega : xs.length ≥ n)]
      have : n - min n xs.length = 0 := by omega
      rw [this, List.replicate_zero, List.append_nil, ← List.append_assoc, List.take_append_drop]

end Groups

/-! ## natToBits / bitsToNat -/

@[simp] theorem natToBits_length (k n : Nat) : (natToBits k n).length = k := by
  induction k generalizing n with
  | zero => rfl
  | succ k ih => simp [natToBits, ih]

@[simp] theorem bitsToNat_nil : bitsToNat [] = 0 := rfl

@[simp] theorem bitsToNat_cons (b : Bool) (bs : List Bool) :
    bitsToNat (b :: bs) = (if b then 1 else 0) + 2 * bitsToNat bs := rfl

@[simp] theorem natToBits_zero_len (n : Nat) : natToBits 0 n = [] := rfl

theorem natToBits_succ (k n : Nat) :
    natToBits (k + 1) n = (n % 2 == 1) :: natToBits k (n / 2) := rfl

theorem bitsToNat_natToBits (k n : Nat) : bitsToNat (natToBits k n) = n % 2 ^ k := by
  induction k generalizing n with
  | zero => simp [Nat.mod_one]
  | succ k ih =>
    simp only [natToBits_succ, bitsToNat_cons, ih]
    rw [Nat.pow_succ, Nat.mul_comm (2 ^ k) 2, Nat.mod_mul]
    rcases Nat.mod_two_eq_zero_or_one n with h | h <;> simp [h]

theorem bitsToNat_natToBits_of_lt (k n : Nat) (h : n < 2 ^ k) : bitsToNat (natToBits k n) = n := by
  rw [bitsToNat_natToBits, Nat.mod_eq_of_lt h]

theorem bitsToNat_lt (bs : List Bool) : bitsToNat bs < 2 ^ bs.length := by
  induction bs with
  | nil => simp
  | cons b bs ih =>
    simp only [bitsToNat_cons, List.length_cons, Nat.pow_succ]
    cases b <;> simp <;> omega

@[simp] theorem natToBits_bitsToNat (bs : List Bool) : natToBits bs.length (bitsToNat bs) = bs := by
  induction bs with
  | nil => rfl
  | cons b bs ih =>
    simp only [List.length_cons, natToBits_succ, bitsToNat_cons]
    have h2 : ((if b then 1 else 0) + 2 * bitsToNat bs) / 2 = bitsToNat bs := by
      cases b <;> simp <;> omega
    have h1 : (((if b then 1 else 0) + 2 * bitsToNat bs) % 2 == 1) = b := by
      cases b <;> simp <;> omega
    rw [h1, h2, ih]

@[simp] theorem natToBits_zero (k : Nat) : natToBits k 0 = List.replicate k false := by
  induction k with
  | zero => rfl
  | succ k ih => simp [natToBits_succ, ih, List.replicate_succ]

@[simp] theorem bitsToNat_replicate_false (k : Nat) : bitsToNat (List.replicate k false) = 0 := by
  induction k with
  | zero => rfl
  | succ k ih => simp [List.replicate_succ, ih]

theorem bitsToNat_append (as bs : List Bool) :
    bitsToNat (as ++ bs) = bitsToNat as + 2 ^ as.length * bitsToNat bs := by
  induction as with
  | nil => simp
  | cons a as ih =>
    simp only [List.cons_append, bitsToNat_cons, ih, List.length_cons, Nat.pow_succ]
    rw [Nat.mul_add, ← Nat.mul_assoc, Nat.mul_comm 2 (2 ^ as.length)]
    omega

@[simp] theorem bitsToNat_append_replicate_false (bs : List Bool) (k : Nat) :
    bitsToNat (bs ++ List.replicate k false) = bitsToNat bs := by
  simp [bitsToNat_append]

/-- re-expanding a short bit list to width `k` pads it with `false`. -/
theorem natToBits_bitsToNat_of_le (k : Nat) (bs : List Bool) (h : bs.length ≤ k) :
    natToBits k (bitsToNat bs) = bs ++ List.replicate (k - bs.length) false := by
  induction bs generalizing k with
  | nil => simp
  | cons b bs ih =>
    obtain ⟨k, rfl⟩ : ∃ k', k = k' + 1 := ⟨k - 1, by simp at h; omega⟩
    simp only [List.length_cons, Nat.add_le_add_iff_right] at h
    simp only [natToBits_succ, bitsToNat_cons, List.length_cons, Nat.add_sub_add_right,
      List.cons_append]
    have h2 : ((if b then 1 else 0) + 2 * bitsToNat bs) / 2 = bitsToNat bs := by
      cases b <;> simp <;> omega
    have h1 : (((if b then 1 else 0) + 2 * bitsToNat bs) % 2 == 1) = b := by
      cases b <;> simp <;> omega
    rw [h1, h2, ih k h]

theorem natToBits_mod (k n : Nat) : natToBits k (n % 2 ^ k) = natToBits k n := by
  have h := natToBits_bitsToNat (natToBits k n)
  rw [natToBits_length, bitsToNat_natToBits] at h
  exact h

theorem natToBits_inj {k a b : Nat} (ha : a < 2 ^ k) (hb : b < 2 ^ k)
    (h : natToBits k a = natToBits k b) : a = b := by
  rw [← bitsToNat_natToBits_of_lt k a ha, ← bitsToNat_natToBits_of_lt k b hb, h]

theorem bitsToNat_inj {as bs : List Bool} (hl : as.length = bs.length)
    (h : bitsToNat as = bitsToNat bs) : as = bs := by
  rw [← natToBits_bitsToNat as, ← natToBits_bitsToNat bs, hl, h]

/-! ## bitsToBytes / bytesToBits -/

@[simp] theorem bitsToBytes_nil : bitsToBytes [] = [] := rfl

@[simp] theorem bytesToBits_nil : bytesToBits [] = [] := rfl

@[simp] theorem bytesToBits_cons (b : UInt8) (bs : List UInt8) :
    bytesToBits (b :: bs) = natToBits 8 b.toNat ++ bytesToBits bs := rfl

theorem bytesToBits_append (as bs : List UInt8) :
    bytesToBits (as ++ bs) = bytesToBits as ++ bytesToBits bs := by
  simp [bytesToBits]

@[simp] theorem bitsToBytes_length (bs : List Bool) : (bitsToBytes bs).length = (bs.length + 7) / 8 := by
  simp only [bitsToBytes, List.length_map, groups_length (by decide : 0 < 8)]
  rfl

@[simp] theorem bytesToBits_length (bs : List UInt8) : (bytesToBits bs).length = 8 * bs.length := by
  induction bs with
  | nil => rfl
  | cons b bs ih => simp only [bytesToBits_cons, List.length_append, natToBits_length, ih,
      List.length_cons]; omega

theorem bitsToBytes_of_ne_nil {bs : List Bool} (h : bs ≠ []) :
    bitsToBytes bs = UInt8.ofNat (bitsToNat (bs.take 8)) :: bitsToBytes (bs.drop 8) := by
  simp only [bitsToBytes, groups_of_ne_nil (by decide : 0 < 8) h, List.map_cons]

/-- a full byte worth of bits splits off. -/
theorem bitsToBytes_append_of_length_eq (as bs : List Bool) (h : as.length = 8) :
    bitsToBytes (as ++ bs) = UInt8.ofNat (bitsToNat as) :: bitsToBytes bs := by
  simp only [bitsToBytes, groups_append_of_length_eq (by decide : 0 < 8) as bs h, List.map_cons]

theorem bitsToBytes_append (as bs : List Bool) (h : 8 ∣ as.length) :
    bitsToBytes (as ++ bs) = bitsToBytes as ++ bitsToBytes bs := by
  simp only [bitsToBytes, groups_append (by decide : 0 < 8) as bs h, List.map_append]

theorem toNat_ofNat_bitsToNat {g : List Bool} (h : g.length ≤ 8) :
    (UInt8.ofNat (bitsToNat g)).toNat = bitsToNat g := by
  rw [UInt8.toNat_ofNat']
  apply Nat.mod_eq_of_lt
  have h1 := bitsToNat_lt g
  have h2 : 2 ^ g.length ≤ 2 ^ 8 := Nat.pow_le_pow_right (by decide) h
  omega

/-- the full picture: decoding the packed bits gives the bits back, followed by zero padding. -/
theorem bytesToBits_bitsToBytes_eq (bs : List Bool) :
    bytesToBits (bitsToBytes bs)
      = bs ++ List.replicate (8 * ((bs.length + 7) / 8) - bs.length) false := by
  have key : bytesToBits (bitsToBytes bs)
      = ((groups 8 bs).map fun g => g ++ List.replicate (8 - g.length) false).flatten := by
    simp only [bytesToBits, bitsToBytes, List.flatMap_def, List.map_map]
    congr 1
    apply List.map_congr_left
    intro g hg
    have hle := length_le_of_mem_groups (by decide : 0 < 8) hg
    simp only [Function.comp]
    rw [toNat_ofNat_bitsToNat hle, natToBits_bitsToNat_of_le 8 g hle]
  rw [key, groups_map_pad_flatten (by decide : 0 < 8)]
  congr 2
  omega

theorem bytesToBits_bitsToBytes (bs : List Bool) :
    (bytesToBits (bitsToBytes bs)).take bs.length = bs := by
  rw [bytesToBits_bitsToBytes_eq, List.take_left]

theorem bytesToBits_bitsToBytes_drop (bs : List Bool) :
    (bytesToBits (bitsToBytes bs)).drop bs.length
      = List.replicate (8 * ((bs.length + 7) / 8) - bs.length) false := by
  rw [bytesToBits_bitsToBytes_eq, List.drop_left]

/-- when the number of bits is a multiple of 8 there is no padding. -/
theorem bytesToBits_bitsToBytes_of_dvd (bs : List Bool) (h : 8 ∣ bs.length) :
    bytesToBits (bitsToBytes bs) = bs := by
  rw [bytesToBits_bitsToBytes_eq]
  have : 8 * ((bs.length + 7) / 8) - bs.length = 0 := by omega
  rw [this]; simp

@[simp] theorem bitsToBytes_bytesToBits (bs : List UInt8) : bitsToBytes (bytesToBits bs) = bs := by
  induction bs with
  | nil => rfl
  | cons b bs ih =>
    rw [bytesToBits_cons, bitsToBytes_append_of_length_eq _ _ (natToBits_length 8 _), ih,
      bitsToNat_natToBits]
    have hb := UInt8.toNat_lt b
    rw [Nat.mod_eq_of_lt hb, UInt8.ofNat_toNat]

/-! ## padRight / chunkOfLE / bytesToChunks -/

theorem padRight_length (bs : List UInt8) (n : Nat) (h : bs.length ≤ n) :
    (padRight bs n).length = n := by
  simp only [padRight, List.length_append, zeros_length]; omega

theorem padRight_length' (bs : List UInt8) (n : Nat) :
    (padRight bs n).length = max bs.length n := by
  simp only [padRight, List.length_append, zeros_length]; omega

theorem padRight_of_length_ge (bs : List UInt8) (n : Nat) (h : n ≤ bs.length) :
    padRight bs n = bs := by
  have : n - bs.length = 0 := by omega
  simp [padRight, this]

@[simp] theorem padRight_nil (n : Nat) : padRight [] n = zeros n := by simp [padRight]

@[simp] theorem fromLE_padRight (bs : List UInt8) (n : Nat) : fromLE (padRight bs n) = fromLE bs := by
  simp [padRight]

theorem take_padRight (bs : List UInt8) (n : Nat) : (padRight bs n).take bs.length = bs := by
  simp [padRight]

theorem chunkOfLE_length (size n : Nat) (h : size ≤ 32) : (chunkOfLE size n).length = 32 :=
  padRight_length _ _ (by rw [toLE_length]; exact h)

theorem take_chunkOfLE (size n : Nat) : (chunkOfLE size n).take size = toLE size n := by
  have := take_padRight (toLE size n) 32
  rwa [toLE_length] at this

@[simp] theorem fromLE_chunkOfLE (size n : Nat) : fromLE (chunkOfLE size n) = n % 256 ^ size := by
  simp [chunkOfLE, fromLE_toLE_mod]

@[simp] theorem zeroChunk_length : zeroChunk.length = 32 := by simp [zeroChunk]

@[simp] theorem bytesToChunks_nil : bytesToChunks [] = [] := rfl

theorem bytesToChunks_length (bs : List UInt8) :
    (bytesToChunks bs).length = (bs.length + 31) / 32 := by
  simp only [bytesToChunks, List.length_map, groups_length (by decide : 0 < 32)]
  rfl

theorem length_of_mem_bytesToChunks {bs : List UInt8} {c : Chunk} (h : c ∈ bytesToChunks bs) :
    c.length = 32 := by
  simp only [bytesToChunks, List.mem_map] at h
  obtain ⟨g, hg, rfl⟩ := h
  exact padRight_length _ _ (length_le_of_mem_groups (by decide) hg)

theorem bytesToChunks_flatten (bs : List UInt8) :
    (bytesToChunks bs).flatten = bs ++ zeros ((32 - bs.length % 32) % 32) := by
  have := groups_map_pad_flatten (by decide : 0 < 32) (0 : UInt8) bs
  simpa [bytesToChunks, padRight, zeros] using this

theorem bytesToChunks_of_ne_nil {bs : List UInt8} (h : bs ≠ []) :
    bytesToChunks bs = padRight (bs.take 32) 32 :: bytesToChunks (bs.drop 32) := by
  simp only [bytesToChunks, groups_of_ne_nil (by decide : 0 < 32) h, List.map_cons]

theorem bytesToChunks_append (as bs : List UInt8) (h : 32 ∣ as.length) :
    bytesToChunks (as ++ bs) = bytesToChunks as ++ bytesToChunks bs := by
  simp only [bytesToChunks, groups_append (by decide : 0 < 32) as bs h, List.map_append]

/-- the original bytes are recovered as a prefix of the flattened chunks. -/
theorem take_bytesToChunks_flatten (bs : List UInt8) :
    (bytesToChunks bs).flatten.take bs.length = bs := by
  rw [bytesToChunks_flatten, List.take_left]

end Rmk
