/-
The ChunkTree library: structural facts about `IsZero` / `ChunkTree` (Rmk/Impl/Repr.lean) and their
interaction with the tree operations (`getPath`, `setPath`, `summarizePath`, `fillToContents`,
`fillToLength`, `Impl.getAt`, `Impl.setAt`, `Impl.climb`).  Everything is generic in the hash `H`.
-/
import Rmk.Impl.Repr
import Rmk.Impl.View
import Rmk.Proofs.Merkle
import Rmk.Proofs.TreeLaws
namespace Rmk.ChunkTreeLemmas
open Rmk Rmk.Impl

/-! ### `IsZero` -/

/-- 1. an all-zero subtree has the zero hash as root -/
theorem isZero_root {H : Hash} {d : Nat} {n : Node} (h : IsZero H d n) : n.root H = zeroHash H d := by
  induction h with
  | summary d => rfl
  | pair d l r _ _ ihl ihr => simp [Node.root, ihl, ihr, zeroHash]

theorem isZero_leaf_iff (H : Hash) (d : Nat) (c : Chunk) : IsZero H d (.leaf c) ↔ c = zeroHash H d := by
  constructor
  · intro h
    cases h
    rfl
  · rintro rfl
    exact .summary d

theorem isZero_pair_iff (H : Hash) (d : Nat) (l r : Node) :
    IsZero H (d + 1) (.pair l r) ↔ IsZero H d l ∧ IsZero H d r := by
  constructor
  · intro h
    cases h with
    | pair _ _ _ hl hr => exact ⟨hl, hr⟩
  · rintro ⟨hl, hr⟩
    exact .pair d l r hl hr

theorem not_isZero_zero_pair (H : Hash) (l r : Node) : ¬ IsZero H 0 (.pair l r) := by
  intro h
  cases h

/-! ### `ChunkTree`: unfolding lemmas -/

/-- 10. with no data the tree is all-zero -/
theorem ct_nil_iff (H : Hash) (d : Nat) (n : Node) : ChunkTree H d [] n ↔ IsZero H d n := by
  cases d with
  | zero =>
    simp only [ChunkTree, true_and]
    constructor
    · rintro (h | h)
      · exact h
      · cases h
    · exact fun h => .inl h
  | succ d => simp [ChunkTree]

theorem isZero_of_ct_nil {H : Hash} {d : Nat} {n : Node} (h : ChunkTree H d [] n) : IsZero H d n :=
  (ct_nil_iff H d n).1 h

theorem ct_nil_of_isZero {H : Hash} {d : Nat} {n : Node} (h : IsZero H d n) : ChunkTree H d [] n :=
  (ct_nil_iff H d n).2 h

theorem ct_zero (H : Hash) (d : Nat) : ChunkTree H d [] (zeroNode H d) :=
  ct_nil_of_isZero (.summary d)

theorem ct_zero_iff (H : Hash) (ls : List Node) (n : Node) :
    ChunkTree H 0 ls n ↔ (ls = [] ∧ IsZero H 0 n) ∨ ls = [n] := by
  simp [ChunkTree]

theorem ct_singleton (H : Hash) (x : Node) : ChunkTree H 0 [x] x := by
  simp [ChunkTree]

theorem ct_zero_singleton_iff (H : Hash) (x n : Node) : ChunkTree H 0 [x] n ↔ n = x := by
  simp [ChunkTree, eq_comm]

/-- uniform unfolding at a pair node (also covers the empty / all-zero case) -/
theorem ct_pair_iff (H : Hash) (d : Nat) (ls : List Node) (l r : Node) :
    ChunkTree H (d + 1) ls (.pair l r) ↔
      ls.length ≤ 2 ^ (d + 1) ∧ ChunkTree H d (ls.take (2 ^ d)) l ∧ ChunkTree H d (ls.drop (2 ^ d)) r := by
  by_cases hnil : ls = []
  · subst hnil
    simp [ChunkTree, isZero_pair_iff, ct_nil_iff]
  · simp only [ChunkTree, hnil, false_and, false_or, ne_eq, not_false_eq_true, true_and]
    constructor
    · rintro ⟨hlen, l', r', heq, hl, hr⟩
      cases heq
      exact ⟨hlen, hl, hr⟩
    · rintro ⟨hlen, hl, hr⟩
      exact ⟨hlen, l, r, rfl, hl, hr⟩

/-- at a leaf of positive height the tree is the zero summary of no data -/
theorem ct_leaf_succ_iff (H : Hash) (d : Nat) (ls : List Node) (c : Chunk) :
    ChunkTree H (d + 1) ls (.leaf c) ↔ ls = [] ∧ c = zeroHash H (d + 1) := by
  simp [ChunkTree, isZero_leaf_iff]

/-- 2. the data fits -/
theorem ct_length_le {H : Hash} {d : Nat} {ls : List Node} {n : Node} (h : ChunkTree H d ls n) :
    ls.length ≤ 2 ^ d := by
  cases d with
  | zero =>
    rcases (ct_zero_iff H ls n).1 h with ⟨rfl, _⟩ | rfl <;> simp
  | succ d =>
    simp only [ChunkTree] at h
    rcases h with ⟨rfl, _⟩ | ⟨_, hlen, _⟩
    · simp
    · exact hlen

/-- with data and positive height the node is a pair -/
theorem ct_succ_ne_nil {H : Hash} {d : Nat} {ls : List Node} {n : Node}
    (h : ChunkTree H (d + 1) ls n) (hne : ls ≠ []) :
    ∃ l r, n = .pair l r ∧ ChunkTree H d (ls.take (2 ^ d)) l ∧ ChunkTree H d (ls.drop (2 ^ d)) r := by
  simp only [ChunkTree, hne, false_and, false_or] at h
  exact h.2.2

/-- 3. the root of a chunk tree is the spec `merkleize` of the roots of its data -/
theorem ct_root {H : Hash} {d : Nat} {ls : List Node} {n : Node} (h : ChunkTree H d ls n) :
    n.root H = Spec.merkleize H (ls.map (·.root H)) d := by
  induction d generalizing ls n with
  | zero =>
    rcases (ct_zero_iff H ls n).1 h with ⟨rfl, hz⟩ | rfl
    · rw [isZero_root hz]; simp [merkleize_nil]
    · rfl
  | succ d ih =>
    by_cases hnil : ls = []
    · subst hnil
      rw [isZero_root (isZero_of_ct_nil h)]; simp [merkleize_nil]
    · have hlen := ct_length_le h
      obtain ⟨l, r, rfl, hl, hr⟩ := ct_succ_ne_nil h hnil
      rw [merkleize_split H _ d (by simpa using hlen)]
      simp [Node.root, ih hl, ih hr, List.map_take, List.map_drop]

/-! ### construction -/

theorem two_pow_succ' (d : Nat) : 2 ^ (d + 1) = 2 ^ d + 2 ^ d := by rw [Nat.pow_succ]; omega

/-- existence form of `ct_fill` -/
theorem ct_fill_exists (H : Hash) (nodes : List Node) (d : Nat) (h : nodes.length ≤ 2 ^ d) :
    ∃ n, fillToContents H nodes d = some n ∧ ChunkTree H d nodes n := by
  induction d generalizing nodes with
  | zero =>
    match nodes, h with
    | [], _ => exact ⟨_, fillToContents_nil H 0, ct_zero H 0⟩
    | [a], _ => exact ⟨a, by simp [fillToContents], ct_singleton H a⟩
    | _ :: _ :: _, h => simp at h
  | succ d ih =>
    by_cases hz : nodes.length = 0
    · have : nodes = [] := List.eq_nil_of_length_eq_zero hz
      subst this
      exact ⟨_, fillToContents_nil H _, ct_zero H _⟩
    · cases d with
      | zero =>
        match nodes, h, hz with
        | [a], _, _ =>
          exact ⟨.pair a (zeroNode H 0), by simp [fillToContents], by
            rw [ct_pair_iff]; simp [ct_singleton, ct_zero]⟩
        | [a, b], _, _ =>
          exact ⟨.pair a b, by simp [fillToContents], by
            rw [ct_pair_iff]; simp [ct_singleton]⟩
        | _ :: _ :: _ :: _, h, _ => simp at h
      | succ d =>
        by_cases hle : nodes.length ≤ 2 ^ (d + 1)
        · obtain ⟨l, hl, hr⟩ := ih nodes hle
          refine ⟨.pair l (zeroNode H (d + 1)), ?_, ?_⟩
          · rw [fillToContents, if_neg hz, if_neg (by omega)]
            · simp only [if_pos hle, hl, Option.map_some]
            · simp
          · rw [ct_pair_iff, List.take_of_length_le hle, List.drop_of_length_le hle]
            exact ⟨h, hr, ct_zero H _⟩
        · have hlt : 2 ^ (d + 1) < nodes.length := by omega
          have e := two_pow_succ' (d + 1)
          obtain ⟨l, hl, hlr⟩ := ih (nodes.take (2 ^ (d + 1))) (by simp; omega)
          obtain ⟨r, hr, hrr⟩ := ih (nodes.drop (2 ^ (d + 1))) (by simp; omega)
          refine ⟨.pair l r, ?_, ?_⟩
          · rw [fillToContents, if_neg hz, if_neg (by omega)]
            · simp only [if_neg hle, hl, hr]
            · simp
          · rw [ct_pair_iff]
            exact ⟨h, hlr, hrr⟩

/-- 4. `subtree_fill_to_contents` builds a chunk tree of its input -/
theorem ct_fill {H : Hash} {ls : List Node} {d : Nat} {n : Node}
    (h : fillToContents H ls d = some n) : ChunkTree H d ls n := by
  have hle : ls.length ≤ 2 ^ d := (fillToContents_isSome_iff H ls d).1 (by simp [h])
  obtain ⟨n', hn', hct⟩ := ct_fill_exists H ls d hle
  rw [h] at hn'
  cases hn'
  exact hct

theorem ct_fillToDepth (H : Hash) (b : Node) (d : Nat) :
    ChunkTree H d (List.replicate (2 ^ d) b) (fillToDepth b d) := by
  induction d with
  | zero => exact ct_singleton H b
  | succ d ih =>
    have e := two_pow_succ' d
    have hp := Nat.two_pow_pos d
    have h1 : min (2 ^ d) (2 ^ (d + 1)) = 2 ^ d := by omega
    have h2 : 2 ^ (d + 1) - 2 ^ d = 2 ^ d := by omega
    simp only [fillToDepth]
    rw [ct_pair_iff]
    simp only [List.take_replicate, List.drop_replicate, h1, h2, List.length_replicate]
    exact ⟨Nat.le_refl _, ih, ih⟩

theorem ct_fillToLength_exists (H : Hash) (b : Node) (d len : Nat) (h : len ≤ 2 ^ d) :
    ∃ n, fillToLength H b d len = some n ∧ ChunkTree H d (List.replicate len b) n := by
  induction d generalizing len with
  | zero =>
    have : len = 0 ∨ len = 1 := by simp at h; omega
    rcases this with rfl | rfl
    · exact ⟨_, fillToLength_zero H b 0, ct_zero H 0⟩
    · exact ⟨_, fillToLength_full H b 0, ct_singleton H b⟩
  | succ d ih =>
    by_cases hz : len = 0
    · subst hz
      exact ⟨_, fillToLength_zero H b _, ct_zero H _⟩
    by_cases hfull : len = 2 ^ (d + 1)
    · subst hfull
      exact ⟨_, fillToLength_full H b _, ct_fillToDepth H b _⟩
    have hlt : len < 2 ^ (d + 1) := by omega
    cases d with
    | zero =>
      have h1 : len = 1 := by simp at hlt; omega
      subst h1
      exact ⟨.pair b (zeroNode H 0), by simp [fillToLength], by
        rw [ct_pair_iff]; simp [ct_singleton, ct_zero]⟩
    | succ d =>
      by_cases hle : len ≤ 2 ^ (d + 1)
      · obtain ⟨l, hl, hr⟩ := ih len hle
        refine ⟨.pair l (zeroNode H (d + 1)), ?_, ?_⟩
        · rw [fillToLength, if_neg hz, if_neg (by omega), if_neg hfull]
          · simp only [if_pos hle, hl, Option.map_some]
          · simp
        · rw [ct_pair_iff, List.take_of_length_le (by simpa using hle),
            List.drop_of_length_le (by simpa using hle)]
          exact ⟨by simpa using h, hr, ct_zero H _⟩
      · have e := two_pow_succ' (d + 1)
        obtain ⟨r, hr, hrr⟩ := ih (len - 2 ^ (d + 1)) (by omega)
        refine ⟨.pair (fillToDepth b (d + 1)) r, ?_, ?_⟩
        · rw [fillToLength, if_neg hz, if_neg (by omega), if_neg hfull]
          · simp only [if_neg hle, hr, Option.map_some]
          · simp
        · rw [ct_pair_iff]
          simp only [List.take_replicate, List.drop_replicate, List.length_replicate]
          have h1 : min (2 ^ (d + 1)) len = 2 ^ (d + 1) := by omega
          rw [h1]
          exact ⟨h, ct_fillToDepth H b _, hrr⟩

/-- 4. `subtree_fill_to_length` builds a chunk tree of `len` copies of the bottom node -/
theorem ct_fillToLength {H : Hash} {b : Node} {d len : Nat} {n : Node}
    (h : fillToLength H b d len = some n) : ChunkTree H d (List.replicate len b) n := by
  have hle : len ≤ 2 ^ d := (fillToLength_isSome_iff H b d len).1 (by simp [h])
  obtain ⟨n', hn', hct⟩ := ct_fillToLength_exists H b d len hle
  rw [h] at hn'
  cases hn'
  exact hct

/-! ### paths: `pbits` and the numeric value of a path prefix -/

theorem pbits_succ_lt {d i : Nat} (h : i < 2 ^ d) : pbits (d + 1) i = false :: pbits d i := by
  simp [pbits, Nat.div_eq_of_lt h]

theorem pbits_succ_ge {d i : Nat} (h1 : 2 ^ d ≤ i) (h2 : i < 2 ^ (d + 1)) :
    pbits (d + 1) i = true :: pbits d (i - 2 ^ d) := by
  have e := two_pow_succ' d
  have hdiv : i / 2 ^ d = 1 := Nat.div_eq_of_lt_le (by omega) (by omega)
  have hi : i = (i - 2 ^ d) + 2 ^ d * 1 := by omega
  have hp : pbits d i = pbits d (i - 2 ^ d) := by
    conv => lhs; rw [hi]
    exact pbits_add_mul d (i - 2 ^ d) 1
  simp [pbits, hdiv, hp]

theorem pbits_zero_eq (d : Nat) : pbits d 0 = List.replicate d false := by
  induction d with
  | zero => rfl
  | succ d ih => rw [pbits_succ_lt (Nat.two_pow_pos d), ih]; rfl

/-- the number spelled by a path, most significant bit first: the index (among the nodes of its
    level) of the node the path leads to -/
def pnum : List Bool → Nat
  | [] => 0
  | b :: p => (if b then 2 ^ p.length else 0) + pnum p

@[simp] theorem pnum_nil : pnum [] = 0 := rfl
@[simp] theorem pnum_cons (b : Bool) (p : List Bool) :
    pnum (b :: p) = (if b then 2 ^ p.length else 0) + pnum p := rfl

theorem pnum_lt (p : List Bool) : pnum p < 2 ^ p.length := by
  induction p with
  | nil => simp
  | cons b p ih =>
    have e := two_pow_succ' p.length
    cases b <;> simp <;> omega

theorem pnum_pbits_mod (d i : Nat) : pnum (pbits d i) = i % 2 ^ d := by
  induction d with
  | zero => simp [pbits, Nat.mod_one]
  | succ d ih =>
    rw [pbits, pnum_cons, ih, pbits_length, Nat.mod_pow_succ]
    have : i / 2 ^ d % 2 = 0 ∨ i / 2 ^ d % 2 = 1 := by omega
    rcases this with h | h <;> simp [h] <;> omega

theorem pnum_pbits {d i : Nat} (h : i < 2 ^ d) : pnum (pbits d i) = i := by
  rw [pnum_pbits_mod, Nat.mod_eq_of_lt h]

theorem pnum_append_replicate_false (p : List Bool) (j : Nat) :
    pnum (p ++ List.replicate j false) = pnum p * 2 ^ j := by
  induction p with
  | nil =>
    induction j with
    | zero => rfl
    | succ j ih => simpa [List.replicate_succ] using ih
  | cons b p ih =>
    simp only [List.cons_append, pnum_cons, ih, List.length_append, List.length_replicate]
    cases b <;> simp [Nat.add_mul, Nat.pow_add]

/-- the value of a prefix of `pbits d i` is `i` with the low bits cut off -/
theorem pnum_take_pbits (d i k : Nat) (hk : k ≤ d) :
    pnum ((pbits d i).take k) = i % 2 ^ d / 2 ^ (d - k) := by
  induction d generalizing k with
  | zero =>
    have : k = 0 := by omega
    subst this
    simp [Nat.mod_one]
  | succ d ih =>
    cases k with
    | zero =>
      simp only [List.take_zero, pnum_nil, Nat.sub_zero]
      exact (Nat.div_eq_of_lt (Nat.mod_lt _ (Nat.two_pow_pos _))).symm
    | succ k =>
      have hk' : k ≤ d := by omega
      have hlen : ((pbits d i).take k).length = k := by simp [pbits_length]; omega
      rw [pbits, List.take_succ_cons, pnum_cons, ih k hk', hlen, Nat.mod_pow_succ]
      have hsub : d + 1 - (k + 1) = d - k := by omega
      have hpow : 2 ^ d = 2 ^ (d - k) * 2 ^ k := by rw [← Nat.pow_add]; congr 1; omega
      rw [hsub]
      have hq := Nat.two_pow_pos (d - k)
      have : i / 2 ^ d % 2 = 0 ∨ i / 2 ^ d % 2 = 1 := by omega
      rcases this with h | h
      · simp [h]
      · have key : ∀ A : Nat, (A + 2 ^ d) / 2 ^ (d - k) = A / 2 ^ (d - k) + 2 ^ k := by
          intro A
          rw [hpow, Nat.add_mul_div_left _ _ hq]
        simp only [h, Nat.mul_one, key]
        simp; omega

/-! ### reading -/

/-- The subtree reached by a path `p` (not longer than the depth) is the chunk tree of the
    corresponding slice of the data. -/
theorem ct_getPath {H : Hash} {d : Nat} {ls : List Node} {n : Node} (h : ChunkTree H d ls n)
    (p : List Bool) (hp : p.length ≤ d) {m : Node} (hg : getPath n p = some m) :
    ChunkTree H (d - p.length)
      ((ls.drop (pnum p * 2 ^ (d - p.length))).take (2 ^ (d - p.length))) m := by
  induction p generalizing d ls n with
  | nil =>
    simp at hg
    subst hg
    simpa [List.take_of_length_le (ct_length_le h)] using h
  | cons b p ih =>
    cases d with
    | zero => simp at hp
    | succ d =>
      have hp' : p.length ≤ d := by simpa using hp
      cases n with
      | leaf c => simp at hg
      | pair l r =>
        rw [ct_pair_iff] at h
        obtain ⟨hlen, hl, hr⟩ := h
        have hsub : d + 1 - (b :: p).length = d - p.length := by simp
        have hpow : 2 ^ d = 2 ^ p.length * 2 ^ (d - p.length) := by
          rw [← Nat.pow_add]; congr 1; omega
        have hlt := pnum_lt p
        have hbound : pnum p * 2 ^ (d - p.length) + 2 ^ (d - p.length) ≤ 2 ^ d := by
          rw [hpow, ← Nat.succ_mul]
          exact Nat.mul_le_mul_right _ hlt
        rw [hsub]
        cases b with
        | false =>
          simp at hg
          have := ih hl hp' hg
          rw [List.drop_take, List.take_take] at this
          have hmin : min (2 ^ (d - p.length)) (2 ^ d - pnum p * 2 ^ (d - p.length))
              = 2 ^ (d - p.length) := by omega
          rw [hmin] at this
          simpa using this
        | true =>
          simp at hg
          have := ih hr hp' hg
          rw [List.drop_drop] at this
          have e : pnum (true :: p) * 2 ^ (d - p.length)
              = 2 ^ d + pnum p * 2 ^ (d - p.length) := by
            rw [pnum_cons, if_pos rfl, Nat.add_mul, ← hpow]
          rw [e]
          exact this

/-- 5. reading a data position returns the stored node -/
theorem ct_get_path {H : Hash} {d : Nat} {ls : List Node} {n : Node} (h : ChunkTree H d ls n)
    {i : Nat} (hi : i < ls.length) : getPath n (pbits d i) = some ls[i] := by
  induction d generalizing ls n i with
  | zero =>
    rcases (ct_zero_iff H ls n).1 h with ⟨rfl, _⟩ | rfl
    · simp at hi
    · have : i = 0 := by simpa using hi
      subst this
      simp [pbits]
  | succ d ih =>
    have hne : ls ≠ [] := by intro h0; subst h0; simp at hi
    have hlen := ct_length_le h
    obtain ⟨l, r, rfl, hl, hr⟩ := ct_succ_ne_nil h hne
    by_cases hlt : i < 2 ^ d
    · rw [pbits_succ_lt hlt]
      have hi' : i < (ls.take (2 ^ d)).length := by simp; omega
      simpa using ih hl hi'
    · have hge : 2 ^ d ≤ i := by omega
      rw [pbits_succ_ge hge (by omega)]
      have hi' : i - 2 ^ d < (ls.drop (2 ^ d)).length := by simp; omega
      have := ih hr hi'
      simp only [List.getElem_drop] at this
      have e : 2 ^ d + (i - 2 ^ d) = i := by omega
      simpa [e] using this

/-- 5. `getter(to_gindex(i, depth))` on a chunk tree returns the `i`-th node -/
theorem ct_get {H : Hash} {d : Nat} {ls : List Node} {n : Node} (h : ChunkTree H d ls n)
    {i : Nat} (hi : i < ls.length) : Impl.getAt n i d = some ls[i] := by
  have hlen := ct_length_le h
  unfold Impl.getAt
  rw [if_neg (by omega)]
  exact ct_get_path h hi

/-- 9. a successful read beyond the data returns an all-zero node of height 0 -/
theorem ct_get_beyond {H : Hash} {d : Nat} {ls : List Node} {n : Node} (h : ChunkTree H d ls n)
    {i : Nat} (hi : ls.length ≤ i) {m : Node} (hg : Impl.getAt n i d = some m) : IsZero H 0 m := by
  unfold Impl.getAt at hg
  by_cases hlt : i < 2 ^ d
  · rw [if_neg (by omega)] at hg
    have := ct_getPath h (pbits d i) (by simp [pbits_length]) hg
    simp only [pbits_length, Nat.sub_self, Nat.pow_zero, Nat.mul_one, pnum_pbits hlt] at this
    rw [List.drop_of_length_le hi] at this
    exact isZero_of_ct_nil this
  · rw [if_pos (by omega)] at hg
    cases hg

/-- 9. reading beyond the data either fails or returns an all-zero node of height 0 -/
theorem ct_get_none_beyond {H : Hash} {d : Nat} {ls : List Node} {n : Node} (h : ChunkTree H d ls n)
    {i : Nat} (hi : ls.length ≤ i) :
    Impl.getAt n i d = none ∨ ∃ m, Impl.getAt n i d = some m ∧ IsZero H 0 m := by
  cases hg : Impl.getAt n i d with
  | none => exact .inl rfl
  | some m => exact .inr ⟨m, rfl, ct_get_beyond h hi hg⟩

/-- a subtree lying entirely beyond the data is all-zero -/
theorem ct_getPath_isZero {H : Hash} {d : Nat} {ls : List Node} {n : Node} (h : ChunkTree H d ls n)
    (p : List Bool) (hp : p.length ≤ d) (hbeyond : ls.length ≤ pnum p * 2 ^ (d - p.length))
    {m : Node} (hg : getPath n p = some m) : IsZero H (d - p.length) m := by
  have := ct_getPath h p hp hg
  rw [List.drop_of_length_le hbeyond, List.take_nil] at this
  exact isZero_of_ct_nil this

/-! ### writing -/

/-- 6. (path form) overwriting a data position; holds with or without expansion -/
theorem ct_set_path {H : Hash} {d : Nat} {ls : List Node} {n : Node} (h : ChunkTree H d ls n)
    {i : Nat} (hi : i < ls.length) (e : Bool) (x : Node) :
    ∃ n', setPath H e n (pbits d i) x = some n' ∧ ChunkTree H d (ls.set i x) n' := by
  induction d generalizing ls n i with
  | zero =>
    rcases (ct_zero_iff H ls n).1 h with ⟨rfl, _⟩ | rfl
    · simp at hi
    · have : i = 0 := by simpa using hi
      subst this
      exact ⟨x, by simp [pbits], by simpa using ct_singleton H x⟩
  | succ d ih =>
    have hne : ls ≠ [] := by intro h0; subst h0; simp at hi
    have hlen := ct_length_le h
    obtain ⟨l, r, rfl, hl, hr⟩ := ct_succ_ne_nil h hne
    by_cases hlt : i < 2 ^ d
    · rw [pbits_succ_lt hlt]
      have hi' : i < (ls.take (2 ^ d)).length := by simp; omega
      obtain ⟨l', hs, hct⟩ := ih hl hi'
      refine ⟨.pair l' r, by simp [hs], ?_⟩
      rw [ct_pair_iff, List.take_set, List.drop_set, if_pos hlt]
      exact ⟨by simpa using hlen, hct, hr⟩
    · have hge : 2 ^ d ≤ i := by omega
      rw [pbits_succ_ge hge (by omega)]
      have hi' : i - 2 ^ d < (ls.drop (2 ^ d)).length := by simp; omega
      obtain ⟨r', hs, hct⟩ := ih hr hi'
      refine ⟨.pair l r', by simp [hs], ?_⟩
      rw [ct_pair_iff, List.take_set, List.drop_set, if_neg hlt,
        List.set_eq_of_length_le (l := ls.take (2 ^ d)) (by rw [List.length_take]; omega)]
      exact ⟨by simpa using hlen, hl, hct⟩

/-- 6. `setter(to_gindex(i, depth))(x)` on a data position -/
theorem ct_set {H : Hash} {d : Nat} {ls : List Node} {n : Node} (h : ChunkTree H d ls n)
    {i : Nat} (hi : i < ls.length) (x : Node) :
    ∃ n', Impl.setAt H false n i d x = some n' ∧ ChunkTree H d (ls.set i x) n' := by
  have hlen := ct_length_le h
  unfold Impl.setAt
  rw [if_neg (by omega)]
  exact ct_set_path h hi false x

/-- 6'. the same with `expand = True` (used by the append paths that overwrite a partial chunk) -/
theorem ct_set_expand {H : Hash} {d : Nat} {ls : List Node} {n : Node} (h : ChunkTree H d ls n)
    {i : Nat} (hi : i < ls.length) (x : Node) :
    ∃ n', Impl.setAt H true n i d x = some n' ∧ ChunkTree H d (ls.set i x) n' := by
  have hlen := ct_length_le h
  unfold Impl.setAt
  rw [if_neg (by omega)]
  exact ct_set_path h hi true x

/-- the expansion of a zero summary along the leftmost path holds exactly the written node -/
theorem ct_expandSet (H : Hash) (d : Nat) (x : Node) :
    ChunkTree H d [x] (expandSet H (pbits d 0) x) := by
  induction d with
  | zero => simpa [pbits, expandSet] using ct_singleton H x
  | succ d ih =>
    have hp := Nat.two_pow_pos d
    rw [pbits_succ_lt hp]
    simp only [expandSet, Bool.false_eq_true, if_false, pbits_length]
    rw [ct_pair_iff, List.take_of_length_le (by simp; omega),
      List.drop_of_length_le (by simp; omega)]
    exact ⟨by simp; omega, ih, ct_zero H d⟩

/-- 7. (path form) append by `setter(.., expand=True)` -/
theorem ct_push_path {H : Hash} {d : Nat} {ls : List Node} {n : Node} (h : ChunkTree H d ls n)
    (hlen : ls.length < 2 ^ d) (x : Node) :
    ∃ n', setPath H true n (pbits d ls.length) x = some n' ∧ ChunkTree H d (ls ++ [x]) n' := by
  induction d generalizing ls n with
  | zero =>
    have : ls = [] := by
      apply List.eq_nil_of_length_eq_zero
      simpa using hlen
    subst this
    exact ⟨x, by simp [pbits], by simpa using ct_singleton H x⟩
  | succ d ih =>
    have e := two_pow_succ' d
    cases n with
    | leaf c =>
      obtain ⟨rfl, rfl⟩ := (ct_leaf_succ_iff H d ls c).1 h
      refine ⟨expandSet H (pbits (d + 1) 0) x, ?_, by simpa using ct_expandSet H (d + 1) x⟩
      simp [pbits, pbits_length]
    | pair l r =>
      rw [ct_pair_iff] at h
      obtain ⟨_, hl, hr⟩ := h
      by_cases hlt : ls.length < 2 ^ d
      · rw [pbits_succ_lt hlt]
        rw [List.take_of_length_le (by omega)] at hl
        rw [List.drop_of_length_le (by omega)] at hr
        obtain ⟨l', hs, hct⟩ := ih hl hlt
        refine ⟨.pair l' r, by simp [hs], ?_⟩
        rw [ct_pair_iff, List.take_of_length_le (by simp; omega),
          List.drop_of_length_le (by simp; omega)]
        exact ⟨by simp; omega, hct, hr⟩
      · have hge : 2 ^ d ≤ ls.length := by omega
        rw [pbits_succ_ge hge hlen]
        have hlen' : (ls.drop (2 ^ d)).length < 2 ^ d := by simp; omega
        obtain ⟨r', hs, hct⟩ := ih hr hlen'
        rw [List.length_drop] at hs
        refine ⟨.pair l r', by simp [hs], ?_⟩
        rw [ct_pair_iff, List.take_append_of_le_length hge, List.drop_append_of_le_length hge]
        exact ⟨by simp; omega, hl, hct⟩

/-- 7. append by `setter(to_gindex(len, depth), expand=True)(x)`: every leaf met above the target is
    the zero summary of exactly the remaining height, so the zero-checked expansion succeeds. -/
theorem ct_push {H : Hash} {d : Nat} {ls : List Node} {n : Node} (h : ChunkTree H d ls n)
    (hlen : ls.length < 2 ^ d) (x : Node) :
    ∃ n', Impl.setAt H true n ls.length d x = some n' ∧ ChunkTree H d (ls ++ [x]) n' := by
  unfold Impl.setAt
  rw [if_neg (by omega)]
  exact ct_push_path h hlen x

/-! ### zeroing a subtree at the end of the data (pop) -/

/-- Writing an all-zero subtree at a path `p` whose subtree covers the end of the data truncates the
    data to the positions left of that subtree.  (`pnum p * 2^(d-|p|)` is the leftmost bottom position
    below `p`.)  Covers both zeroing the last element and summarising a subtree beyond the data. -/
theorem ct_setPath_zero_trunc {H : Hash} {d : Nat} {ls : List Node} {n : Node}
    (h : ChunkTree H d ls n) (p : List Bool) (hp : p.length ≤ d) {z : Node}
    (hz : IsZero H (d - p.length) z)
    (hcover : ls.length ≤ (pnum p + 1) * 2 ^ (d - p.length)) {n' : Node}
    (hs : setPath H false n p z = some n') :
    ChunkTree H d (ls.take (pnum p * 2 ^ (d - p.length))) n' := by
  induction p generalizing d ls n n' with
  | nil =>
    simp at hs
    subst hs
    simpa using ct_nil_of_isZero hz
  | cons b p ih =>
    cases d with
    | zero => simp at hp
    | succ d =>
      have hp' : p.length ≤ d := by simpa using hp
      cases n with
      | leaf c => simp at hs
      | pair l r =>
        rw [ct_pair_iff] at h
        obtain ⟨hlen, hl, hr⟩ := h
        have hsub : d + 1 - (b :: p).length = d - p.length := by simp
        have hpow : 2 ^ d = 2 ^ p.length * 2 ^ (d - p.length) := by
          rw [← Nat.pow_add]; congr 1; omega
        have hlt := pnum_lt p
        have hbound : (pnum p + 1) * 2 ^ (d - p.length) ≤ 2 ^ d := by
          rw [hpow]
          exact Nat.mul_le_mul_right _ hlt
        have hsm : (pnum p + 1) * 2 ^ (d - p.length)
            = pnum p * 2 ^ (d - p.length) + 2 ^ (d - p.length) := Nat.succ_mul _ _
        have e2 := two_pow_succ' d
        have hqpos := Nat.two_pow_pos (d - p.length)
        rw [hsub] at hz hcover ⊢
        cases b with
        | false =>
          simp at hs
          obtain ⟨l', hs', rfl⟩ := hs
          simp only [pnum_cons, Bool.false_eq_true, if_false, Nat.zero_add] at hcover ⊢
          have hc' : (ls.take (2 ^ d)).length ≤ (pnum p + 1) * 2 ^ (d - p.length) := by
            simp; omega
          have := ih hl hp' hz hc' hs'
          rw [List.take_take] at this
          have hmin : min (pnum p * 2 ^ (d - p.length)) (2 ^ d) = pnum p * 2 ^ (d - p.length) :=
            Nat.min_eq_left (by omega)
          rw [hmin] at this
          rw [ct_pair_iff, List.take_take, Nat.min_comm, hmin]
          refine ⟨by simp; omega, this, ?_⟩
          rw [List.drop_of_length_le (by simp; omega)]
          rw [List.drop_of_length_le (by omega)] at hr
          exact hr
        | true =>
          simp at hs
          obtain ⟨r', hs', rfl⟩ := hs
          have e : pnum (true :: p) * 2 ^ (d - p.length)
              = 2 ^ d + pnum p * 2 ^ (d - p.length) := by
            rw [pnum_cons, if_pos rfl, Nat.add_mul, ← hpow]
          have e' : (pnum (true :: p) + 1) * 2 ^ (d - p.length)
              = 2 ^ d + (pnum p + 1) * 2 ^ (d - p.length) := by
            rw [Nat.succ_mul, e, hsm]; omega
          rw [e'] at hcover
          rw [e]
          have hc' : (ls.drop (2 ^ d)).length ≤ (pnum p + 1) * 2 ^ (d - p.length) := by
            simp; omega
          have := ih hr hp' hz hc' hs'
          rw [ct_pair_iff, List.take_take, List.drop_take]
          have hmin : min (2 ^ d) (2 ^ d + pnum p * 2 ^ (d - p.length)) = 2 ^ d :=
            Nat.min_eq_left (Nat.le_add_right _ _)
          have hsub2 : 2 ^ d + pnum p * 2 ^ (d - p.length) - 2 ^ d
              = pnum p * 2 ^ (d - p.length) := by omega
          rw [hmin, hsub2]
          exact ⟨by simp; omega, hl, this⟩

/-- 8(a), general form: overwriting the LAST data position with any all-zero bottom node removes it
    from the data -/
theorem ct_set_zero_last_path {H : Hash} {d : Nat} {ls : List Node} {n : Node}
    (h : ChunkTree H d ls n) (hne : ls ≠ []) {z : Node} (hz : IsZero H 0 z) :
    ∃ n1, setPath H false n (pbits d (ls.length - 1)) z = some n1 ∧
      ChunkTree H d ls.dropLast n1 := by
  have hlen := ct_length_le h
  have hpos : 0 < ls.length := List.length_pos_iff.2 hne
  have hi : ls.length - 1 < ls.length := by omega
  obtain ⟨n1, hs, _⟩ := ct_set_path h hi false z
  refine ⟨n1, hs, ?_⟩
  have hlt : ls.length - 1 < 2 ^ d := by omega
  have := ct_setPath_zero_trunc h (pbits d (ls.length - 1)) (by simp [pbits_length])
    (z := z) (by simpa [pbits_length] using hz)
    (by simp only [pbits_length, Nat.sub_self, Nat.pow_zero, Nat.mul_one, pnum_pbits hlt]; omega) hs
  simp only [pbits_length, Nat.sub_self, Nat.pow_zero, Nat.mul_one, pnum_pbits hlt] at this
  rw [List.dropLast_eq_take]
  exact this

/-- 8(a). writing `zero_node(0)` at the last position (first step of `pop`) -/
theorem ct_set_zero_last {H : Hash} {d : Nat} {ls : List Node} {n : Node}
    (h : ChunkTree H d ls n) (hne : ls ≠ []) :
    ∃ n1, Impl.setAt H false n (ls.length - 1) d (zeroNode H 0) = some n1 ∧
      ChunkTree H d ls.dropLast n1 := by
  have hlen := ct_length_le h
  have hpos : 0 < ls.length := List.length_pos_iff.2 hne
  unfold Impl.setAt
  rw [if_neg (by omega)]
  exact ct_set_zero_last_path h hne (.summary 0)

/-- 8(b). summarising any existing subtree that lies entirely beyond the data keeps the chunk tree.
    `pnum p * 2^(d-|p|)` is the leftmost bottom position below `p`.
    NOTE the hypothesis `hg`: `summarize_into` navigates to the target first, so the path must exist
    in the tree (it fails on a tree that is already summarised above `p`).  In `pop` the path is a
    prefix of the path just written by `setter`, so it exists (`getPath_setPath_same`). -/
theorem ct_summarize {H : Hash} {d : Nat} {ls : List Node} {n : Node} (h : ChunkTree H d ls n)
    (p : List Bool) (hp : p.length ≤ d) (hbeyond : ls.length ≤ pnum p * 2 ^ (d - p.length))
    {m : Node} (hg : getPath n p = some m) :
    ∃ n', summarizePath H n p = some n' ∧ ChunkTree H d ls n' := by
  have hz : IsZero H (d - p.length) m := ct_getPath_isZero h p hp hbeyond hg
  have hsome : (setPath H false n p (.leaf (m.root H))).isSome := by
    rw [setPath_isSome_iff, hg]; rfl
  obtain ⟨n', hs⟩ := Option.isSome_iff_exists.1 hsome
  refine ⟨n', by simp [summarizePath, hg, hs], ?_⟩
  have hz' : IsZero H (d - p.length) (.leaf (m.root H)) := by
    rw [isZero_root hz]; exact .summary _
  have := ct_setPath_zero_trunc h p hp hz'
    (by rw [Nat.succ_mul]; exact Nat.le_trans hbeyond (Nat.le_add_right _ _)) hs
  rwa [List.take_of_length_le hbeyond] at this

/-- 8(b), `pbits` form: `p` is the length-`k` prefix of the path of bottom position `i`; the bottom
    positions below it start at `i / 2^(d-k) * 2^(d-k)`. -/
theorem ct_summarize_pbits {H : Hash} {d : Nat} {ls : List Node} {n : Node} (h : ChunkTree H d ls n)
    (i k : Nat) (hi : i < 2 ^ d) (hk : k ≤ d)
    (hbeyond : ls.length ≤ i / 2 ^ (d - k) * 2 ^ (d - k))
    {m : Node} (hg : getPath n ((pbits d i).take k) = some m) :
    ∃ n', summarizePath H n ((pbits d i).take k) = some n' ∧ ChunkTree H d ls n' := by
  have hlen : ((pbits d i).take k).length = k := by simp [pbits_length]; omega
  apply ct_summarize h _ (by omega) _ hg
  rw [hlen, pnum_take_pbits d i k hk, Nat.mod_eq_of_lt hi]
  exact hbeyond

/-! ### `climb` and the complete `pop` on the contents subtree -/

theorem climbRev_snoc_false (q : List Bool) :
    ∃ q' j, q = List.replicate j false ++ q' ∧ climbRev (q ++ [false]) = q' ++ [false] := by
  induction q with
  | nil => exact ⟨[], 0, rfl, rfl⟩
  | cons b t ih =>
    cases b with
    | true => exact ⟨true :: t, 0, rfl, by simp [climbRev]⟩
    | false =>
      obtain ⟨q', j, hq, hc⟩ := ih
      refine ⟨q', j + 1, by rw [hq]; simp [List.replicate_succ], ?_⟩
      rw [← hc]
      cases t with
      | nil => simp [climbRev]
      | cons c t' => simp [climbRev]

/-- `climb` on a path into the contents subtree (first bit `false`) removes trailing `false` bits
    and never the first bit -/
theorem climb_cons_false (p : List Bool) :
    ∃ p' j, p = p' ++ List.replicate j false ∧ climb (false :: p) = false :: p' := by
  obtain ⟨q', j, hq, hc⟩ := climbRev_snoc_false p.reverse
  refine ⟨q'.reverse, j, ?_, ?_⟩
  · have := congrArg List.reverse hq
    simpa using this
  · simp [climb, hc]

/-- 8. The tree part of `List.pop` / `Bitlist.pop` on the mix-in node `pair contents len`:
    (a) zero the last position by `setter` (no expansion), (b) optionally summarise at
    `climb (path of that position)`.  Both results have the contents a chunk tree of `dropLast`
    and the right child untouched.  (No parity assumption is needed: `climb` only strips trailing
    `false` bits, so the summarised subtree always starts at the zeroed position.) -/
theorem ct_pop {H : Hash} {d : Nat} {ls : List Node} {c : Node} (h : ChunkTree H d ls c)
    (hne : ls ≠ []) (lenN : Node) {z : Node} (hz : IsZero H 0 z) :
    ∃ c1, Impl.setAt H false (.pair c lenN) (ls.length - 1) (d + 1) z = some (.pair c1 lenN) ∧
      ChunkTree H d ls.dropLast c1 ∧
      ∃ c2, summarizePath H (.pair c1 lenN) (climb (pbits (d + 1) (ls.length - 1)))
          = some (.pair c2 lenN) ∧ ChunkTree H d ls.dropLast c2 := by
  have hlen := ct_length_le h
  have hpos : 0 < ls.length := List.length_pos_iff.2 hne
  have hlt : ls.length - 1 < 2 ^ d := by omega
  have e := two_pow_succ' d
  obtain ⟨c1, hs, hct⟩ := ct_set_zero_last_path h hne hz
  refine ⟨c1, ?_, hct, ?_⟩
  · unfold Impl.setAt
    rw [if_neg (by omega), pbits_succ_lt hlt]
    simp [hs]
  · rw [pbits_succ_lt hlt]
    obtain ⟨p', j, hp, hcl⟩ := climb_cons_false (pbits d (ls.length - 1))
    rw [hcl]
    have hg := getPath_setPath_same H false c _ z c1 hs
    rw [hp, getPath_append] at hg
    cases hg' : getPath c1 p' with
    | none => simp [hg'] at hg
    | some m =>
      have hlen' : p'.length + j = d := by
        have := congrArg List.length hp
        simpa [pbits_length] using this.symm
      have hnum : pnum p' * 2 ^ j = ls.length - 1 := by
        rw [← pnum_append_replicate_false, ← hp, pnum_pbits hlt]
      have hj : d - p'.length = j := by omega
      obtain ⟨c2, hsum, hct2⟩ := ct_summarize hct p' (by omega)
        (by rw [hj, hnum]; simp) hg'
      refine ⟨c2, ?_, hct2⟩
      unfold summarizePath at hsum ⊢
      rw [hg'] at hsum
      simp only [getPath_pair_cons, Bool.false_eq_true, if_false, hg', setPath_pair_cons, hsum,
        Option.map_some]

/-- the shared tail of `List.pop` / `Bitlist.pop` after zeroing the last position: with or without
    summarisation the result is `pair contents' (lenNode newLen)` with `contents'` a chunk tree of
    `dropLast` -/
theorem ct_popFinish {H : Hash} {d : Nat} {ls : List Node} {c : Node} (h : ChunkTree H d ls c)
    (hne : ls ≠ []) (lenN : Node) {z : Node} (hz : IsZero H 0 z) :
    ∃ c1, Impl.setAt H false (.pair c lenN) (ls.length - 1) (d + 1) z = some (.pair c1 lenN) ∧
      ChunkTree H d ls.dropLast c1 ∧
      ∀ (canSummarize : Bool) (newLen : Nat), ∃ c2,
        Impl.popFinish H (.pair c1 lenN) (pbits (d + 1) (ls.length - 1)) canSummarize newLen
          = some (.pair c2 (lenNode newLen)) ∧ ChunkTree H d ls.dropLast c2 := by
  obtain ⟨c1, hs, hct, c2, hsum, hct2⟩ := ct_pop h hne lenN hz
  refine ⟨c1, hs, hct, ?_⟩
  intro can newLen
  cases can with
  | false => exact ⟨c1, by simp [popFinish, rebindRight], hct⟩
  | true => exact ⟨c2, by simp [popFinish, hsum, rebindRight], hct2⟩

/-! ### access through the mix-in node `pair contents length` (depth + 1, first bit `false`) -/

theorem getAt_mixin (c lenN : Node) {i d : Nat} (hi : i < 2 ^ d) :
    Impl.getAt (.pair c lenN) i (d + 1) = Impl.getAt c i d := by
  have e := two_pow_succ' d
  unfold Impl.getAt
  rw [if_neg (by omega), if_neg (by omega), pbits_succ_lt hi]
  simp

theorem setAt_mixin (H : Hash) (e : Bool) (c lenN x : Node) {i d : Nat} (hi : i < 2 ^ d) :
    Impl.setAt H e (.pair c lenN) i (d + 1) x
      = (Impl.setAt H e c i d x).map (fun c' => .pair c' lenN) := by
  have e2 := two_pow_succ' d
  unfold Impl.setAt
  rw [if_neg (by omega), if_neg (by omega), pbits_succ_lt hi]
  simp

/-- `IsZero` at height 0 is just the zero chunk leaf -/
theorem isZero_zero_iff (H : Hash) (n : Node) : IsZero H 0 n ↔ n = zeroNode H 0 := by
  constructor
  · intro h
    cases h
    rfl
  · rintro rfl
    exact .summary 0

/-- two chunk trees of the same data have the same root -/
theorem ct_root_unique {H : Hash} {d : Nat} {ls : List Node} {n n' : Node}
    (h : ChunkTree H d ls n) (h' : ChunkTree H d ls n') : n.root H = n'.root H := by
  rw [ct_root h, ct_root h']

end Rmk.ChunkTreeLemmas
