/-
Laws of `Container.fields()` on class TREES (several bases; Rmk/Impl/ClassTree.lean).
  * the key lemma: updating with an already flattened dict = updating with the declarations one by one
  * `fields` has no key twice, only public names
  * `fields` = one big `dictUpdate []` of all public declarations in visiting order
    (LAST declaration wins, FIRST declaration fixes the position)
  * a single chain of classes is the chain model of Rmk/Impl/Fields.lean
Everything is for an arbitrary value type `α`.
-/
import Rmk.Impl.ClassTree
import Rmk.Proofs.FieldsLaws

open Rmk.Impl Rmk.FieldsLaws

namespace Rmk.ClassTreeLaws

abbrev pub {α} (xs : List (String × α)) : List (String × α) := xs.filter fun kv => isPublic kv.1

/-! ## 0. equations of the mutual definitions -/

theorem fields_mk {α : Type} (bases : List (Cls α)) (ann : List (String × α)) :
    (Cls.mk bases ann).fields = fieldsStep (basesFields bases []) ann := by
  rw [Cls.fields]

theorem basesFields_nil {α : Type} (acc : List (String × α)) : basesFields ([] : List (Cls α)) acc = acc := by
  rw [basesFields]

theorem basesFields_cons {α : Type} (b : Cls α) (bs : List (Cls α)) (acc : List (String × α)) :
    basesFields (b :: bs) acc = basesFields bs (dictUpdate acc b.fields) := by
  rw [basesFields]

/-! ## 1. `dictSet` algebra and the key lemma -/

theorem dictSet_dictSet_same {α} (a : List (String × α)) (k : String) (v1 v : α) :
    dictSet (dictSet a k v1) k v = dictSet a k v := by
  induction a with
  | nil => simp [dictSet]
  | cons hd rest ih =>
    obtain ⟨k1, w1⟩ := hd
    by_cases h : k1 = k
    · simp [dictSet, h]
    · simp [dictSet, h, ih]

/-- two assignments to different keys commute as soon as one of the keys is already present -/
theorem dictSet_comm {α} (a : List (String × α)) (k k' : String) (v v' : α)
    (hk : k ∈ keys a) (hne : k ≠ k') :
    dictSet (dictSet a k' v') k v = dictSet (dictSet a k v) k' v' := by
  induction a with
  | nil => simp [keys] at hk
  | cons hd rest ih =>
    obtain ⟨k1, w1⟩ := hd
    by_cases h1 : k1 = k
    · subst h1
      simp [dictSet, hne]
    · have hm : k ∈ keys rest := by
        simp only [keys, List.map_cons, List.mem_cons] at hk
        rcases hk with hk | hk
        · exact absurd hk.symm h1
        · exact hk
      by_cases h2 : k1 = k'
      · subst h2
        simp [dictSet, h1]
      · simp [dictSet, h1, h2, ih hm]

theorem dictSet_dictUpdate_comm {α} (a r : List (String × α)) (k : String) (v : α)
    (hk : k ∈ keys a) (hr : k ∉ keys r) :
    dictSet (dictUpdate a r) k v = dictUpdate (dictSet a k v) r := by
  induction r generalizing a with
  | nil => rfl
  | cons hd rest ih =>
    obtain ⟨k', v'⟩ := hd
    simp only [keys, List.map_cons, List.mem_cons, not_or] at hr
    rw [dictUpdate_cons, dictUpdate_cons]
    show dictSet (dictUpdate (dictSet a k' v') rest) k v = dictUpdate (dictSet (dictSet a k v) k' v') rest
    rw [ih (dictSet a k' v') ((mem_keys_dictSet a k' k v').mpr (Or.inr hk)) hr.2,
      dictSet_comm a k k' v v' hk hr.1]

/-- updating with `d[k] = v` (d a dict) is updating with `d`, then assigning `k` -/
theorem dictUpdate_dictSet {α} (acc d : List (String × α)) (k : String) (v : α) (hd : (keys d).Nodup) :
    dictUpdate acc (dictSet d k v) = dictSet (dictUpdate acc d) k v := by
  induction d generalizing acc with
  | nil => rfl
  | cons hd' rest ih =>
    obtain ⟨k1, v1⟩ := hd'
    simp only [keys, List.map_cons, List.nodup_cons] at hd
    by_cases h1 : k1 = k
    · subst h1
      have e : dictSet ((k1, v1) :: rest) k1 v = (k1, v) :: rest := by simp [dictSet]
      rw [e, dictUpdate_cons, dictUpdate_cons]
      show dictUpdate (dictSet acc k1 v) rest = dictSet (dictUpdate (dictSet acc k1 v1) rest) k1 v
      rw [dictSet_dictUpdate_comm (dictSet acc k1 v1) rest k1 v
        ((mem_keys_dictSet acc k1 k1 v1).mpr (Or.inl rfl)) hd.1, dictSet_dictSet_same]
    · have e : dictSet ((k1, v1) :: rest) k v = (k1, v1) :: dictSet rest k v := by simp [dictSet, h1]
      rw [e, dictUpdate_cons, dictUpdate_cons]
      exact ih (dictSet acc k1 v1) hd.2

/-- updating with a dict that is itself being built = updating with its base, then with the declarations -/
theorem dictUpdate_dictUpdate {α} (acc d xs : List (String × α)) (hd : (keys d).Nodup) :
    dictUpdate acc (dictUpdate d xs) = dictUpdate (dictUpdate acc d) xs := by
  induction xs generalizing d with
  | nil => rfl
  | cons x rest ih =>
    rw [dictUpdate_cons, dictUpdate_cons, ih _ (nodup_dictSet d x.1 x.2 hd), dictUpdate_dictSet acc d x.1 x.2 hd]

/-- THE KEY LEMMA: updating with an already flattened dict gives the same dict as updating with the
declarations one by one (for ANY `acc`, `xs`) -/
theorem dictUpdate_flatten {α} (acc xs : List (String × α)) :
    dictUpdate acc (dictUpdate [] xs) = dictUpdate acc xs := by
  rw [dictUpdate_dictUpdate acc [] xs (by simp [keys])]
  rfl

/-! ## 2. no key twice -/

theorem basesFields_nodup {α : Type} (bs : List (Cls α)) (acc : List (String × α)) (h : (keys acc).Nodup) :
    (keys (basesFields bs acc)).Nodup := by
  induction bs generalizing acc with
  | nil => rw [basesFields_nil]; exact h
  | cons b bs ih => rw [basesFields_cons]; exact ih _ (nodup_dictUpdate acc b.fields h)

theorem fields_nodup {α : Type} (c : Cls α) : (keys c.fields).Nodup := by
  obtain ⟨bases, ann⟩ := c
  rw [fields_mk]
  exact nodup_dictUpdate _ _ (basesFields_nodup bases [] (by simp [keys]))

/-! ## 3. only public names -/

theorem fieldsStep_public {α} (inh ann : List (String × α)) (h : ∀ kv ∈ inh, isPublic kv.1 = true) :
    ∀ kv ∈ fieldsStep inh ann, isPublic kv.1 = true := by
  intro kv hkv
  rcases mem_dictUpdate _ _ _ hkv with e | e
  · exact (List.mem_filter.mp e).2
  · exact h kv e

mutual
theorem fields_public {α : Type} : ∀ (c : Cls α), ∀ kv ∈ c.fields, isPublic kv.1 = true
  | .mk bases ann => by
    rw [fields_mk]
    exact fieldsStep_public _ ann (basesFields_public bases [] (by simp))
theorem basesFields_public {α : Type} : ∀ (bs : List (Cls α)) (acc : List (String × α)),
    (∀ kv ∈ acc, isPublic kv.1 = true) → ∀ kv ∈ basesFields bs acc, isPublic kv.1 = true
  | [], acc, h => by rw [basesFields_nil]; exact h
  | b :: bs, acc, h => by
    rw [basesFields_cons]
    apply basesFields_public bs
    intro kv hkv
    rcases mem_dictUpdate _ _ _ hkv with e | e
    · exact fields_public b kv e
    · exact h kv e
end

/-! ## 4. all declarations of a class tree, in the order `fields()` visits them -/

mutual
def decls {α : Type} : Cls α → List (String × α)
  | .mk bases ann => declsList bases ++ ann
def declsList {α : Type} : List (Cls α) → List (String × α)
  | [] => []
  | b :: bs => decls b ++ declsList bs
end

theorem decls_mk {α : Type} (bases : List (Cls α)) (ann : List (String × α)) :
    decls (Cls.mk bases ann) = declsList bases ++ ann := by rw [decls]
theorem declsList_nil {α : Type} : declsList ([] : List (Cls α)) = [] := by rw [declsList]
theorem declsList_cons {α : Type} (b : Cls α) (bs : List (Cls α)) :
    declsList (b :: bs) = decls b ++ declsList bs := by rw [declsList]

mutual
/-- `fields()` of a class tree is ONE update of the empty dict with all public declarations in visiting order -/
theorem fields_eq_decls {α : Type} : ∀ (c : Cls α), c.fields = dictUpdate [] (pub (decls c))
  | .mk bases ann => by
    rw [fields_mk, decls_mk, basesFields_eq_decls bases []]
    show dictUpdate _ (pub ann) = _
    simp only [pub, List.filter_append]
    rw [dictUpdate_append]
theorem basesFields_eq_decls {α : Type} : ∀ (bs : List (Cls α)) (acc : List (String × α)),
    basesFields bs acc = dictUpdate acc (pub (declsList bs))
  | [], acc => by rw [basesFields_nil, declsList_nil]; rfl
  | b :: bs, acc => by
    rw [basesFields_cons, basesFields_eq_decls bs, fields_eq_decls b, dictUpdate_flatten, declsList_cons]
    simp only [pub, List.filter_append]
    rw [dictUpdate_append]
end

/-- LAST declaration (in visiting order) wins -/
theorem fields_lookup {α : Type} (c : Cls α) (k : String) :
    c.fields.lookup k = ((decls c).filter fun kv => isPublic kv.1).reverse.lookup k := by
  rw [fields_eq_decls, lookup_dictUpdate]
  simp

/-- FIRST declaration (in visiting order) fixes the position -/
theorem fields_keys {α : Type} (c : Cls α) :
    keys c.fields = (keys ((decls c).filter fun kv => isPublic kv.1)).eraseDups := by
  rw [fields_eq_decls, keys_dictUpdate]
  show [] ++ (List.filter (fun k => !([] : List String).contains k) _).eraseDups = _
  rw [List.nil_append]
  congr 1
  rw [List.filter_eq_self]
  intro x _
  rfl

/-- every field is one of the public declarations of the tree -/
theorem fields_mem {α : Type} (c : Cls α) (kv : String × α) (h : kv ∈ c.fields) :
    kv ∈ (decls c).filter fun kv => isPublic kv.1 := by
  rw [fields_eq_decls] at h
  rcases mem_dictUpdate _ _ _ h with e | e
  · exact e
  · simp at e

/-! ## 5. single inheritance is the chain model -/

theorem dictUpdate_nil_self {α} (d : List (String × α)) (h : (keys d).Nodup) : dictUpdate [] d = d := by
  rw [dictUpdate_extend [] d h (by intro k _; simp [keys])]
  rfl

theorem fields_single_base {α : Type} (b : Cls α) (a : List (String × α)) :
    (Cls.mk [b] a).fields = fieldsStep b.fields a := by
  rw [fields_mk, basesFields_cons, basesFields_nil, dictUpdate_nil_self _ (fields_nodup b)]

theorem ofChain_foldl {α : Type} (rest : List (List (String × α))) (c0 : Cls α) :
    ∃ c, rest.foldl (fun c a => c.map fun b => Cls.mk [b] a) (some c0) = some c
      ∧ c.fields = rest.foldl fieldsStep c0.fields := by
  induction rest generalizing c0 with
  | nil => exact ⟨c0, rfl, rfl⟩
  | cons a rest ih =>
    obtain ⟨c, h1, h2⟩ := ih (Cls.mk [c0] a)
    refine ⟨c, ?_, ?_⟩
    · rw [List.foldl_cons]; exact h1
    · rw [h2, fields_single_base, List.foldl_cons]

theorem ofChain_fields {α : Type} (chain : List (List (String × α))) (c : Cls α)
    (h : Cls.ofChain chain = some c) : c.fields = fieldsChain chain := by
  cases chain with
  | nil => simp [Cls.ofChain] at h
  | cons ann rest =>
    obtain ⟨c', h1, h2⟩ := ofChain_foldl rest (Cls.mk [] ann)
    have h' : rest.foldl (fun c a => c.map fun b => Cls.mk [b] a) (some (Cls.mk [] ann)) = some c := h
    rw [h1] at h'
    cases h'
    rw [h2, fields_mk, basesFields_nil]
    rfl

/-- a non-empty chain always is a class tree -/
theorem ofChain_isSome {α : Type} (ann : List (String × α)) (rest : List (List (String × α))) :
    ∃ c, Cls.ofChain (ann :: rest) = some c ∧ c.fields = fieldsChain (ann :: rest) := by
  obtain ⟨c, h1, _⟩ := ofChain_foldl rest (Cls.mk [] ann)
  exact ⟨c, h1, ofChain_fields _ c h1⟩

/-! ## 6. non-vacuity: the order of bases matters only through position -/

example : (Cls.mk [Cls.mk [] [("a", 1), ("b", 2)], Cls.mk [] [("b", 3), ("c", 4)]] [("d", 5)]).fields
    = [("a", 1), ("b", 3), ("c", 4), ("d", 5)] := by decide

example : (Cls.mk [Cls.mk [] [("b", 3), ("c", 4)], Cls.mk [] [("a", 1), ("b", 2)]] [("d", 5)]).fields
    = [("b", 2), ("c", 4), ("a", 1), ("d", 5)] := by decide

/-- the key lemma is not vacuous: a flattened dict differs from the declaration list -/
example : dictUpdate [("b", 0)] (dictUpdate [] [("a", 1), ("b", 2), ("a", 3)])
    = dictUpdate [("b", 0)] [("a", 1), ("b", 2), ("a", 3)] := by decide

example : decls (Cls.mk [Cls.mk [] [("a", 1), ("_p", 9)], Cls.mk [] [("a", 3)]] [("d", 5)])
    = [("a", 1), ("_p", 9), ("a", 3), ("d", 5)] := by decide

end Rmk.ClassTreeLaws
