/-
C01 — the trees built by the constructors (`Impl.construct`) have the SSZ-spec hash tree root
(`Spec.htr`), every well-typed value can be constructed, and ill-typed values are rejected.
Generic in the pair hash `H`.
-/
import Rmk.Impl.Layout
import Rmk.Spec.Ssz
import Rmk.Proofs.BytesLemmas
import Rmk.Proofs.Merkle
import Rmk.Proofs.PathGindex
namespace Rmk.ConstructRoot
open Rmk Rmk.Impl Rmk.Spec

/-! ## 1. packing -/

/-- `pack_bits_to_chunks` is the spec `pack` of the bitfield bytes -/
theorem packBits_eq_pack (bs : List Bool) : packBits bs = Spec.pack (bitsToBytes bs) := rfl

theorem packBytes_length (bs : List UInt8) : (packBytes bs).length = (bs.length + 31) / 32 := by
  unfold packBytes
  simp only
  split
  · rename_i h
    simp only [bne_iff_ne, ne_eq] at h
    simp only [List.length_append, List.length_map, List.length_range, List.length_cons,
      List.length_nil]
    omega
  · rename_i h
    simp only [bne_iff_ne, ne_eq, Decidable.not_not] at h
    simp only [List.length_map, List.length_range]
    omega

/-- `pack_bytes_to_chunks` is the spec `pack` -/
theorem packBytes_eq_pack (bs : List UInt8) : packBytes bs = Spec.pack bs := by
  apply List.ext_getElem
  · rw [packBytes_length, Spec.pack, bytesToChunks_length]
  · intro i h1 h2
    have hlen : i < (bs.length + 31) / 32 := by rw [packBytes_length] at h1; exact h1
    have hg : i < (groups 32 bs).length := by
      rw [groups_length (by decide : 0 < 32)]; exact hlen
    have hR : (Spec.pack bs)[i] = padRight ((bs.drop (32 * i)).take 32) 32 := by
      simp only [Spec.pack, bytesToChunks, List.getElem_map, groups_getElem (by decide : 0 < 32) bs i hg]
    rw [hR]
    unfold packBytes
    simp only
    by_cases hi : i < bs.length / 32
    · have hfull : ((bs.drop (32 * i)).take 32).length = 32 := by
        simp only [List.length_take, List.length_drop]; omega
      rw [padRight_of_length_ge _ _ (by omega)]
      split
      · rw [List.getElem_append_left (by simpa using hi)]
        simp
      · simp
    · have hi' : i = bs.length / 32 := by omega
      have hne : bs.length ≠ bs.length / 32 * 32 := by omega
      have hne' : (bs.length != bs.length / 32 * 32) = true := by simpa using hne
      simp only [hne', if_true]
      rw [List.getElem_append_right (by simp; omega)]
      simp only [List.length_map, List.length_range, hi', Nat.sub_self, List.getElem_cons_zero]
      have e : 32 * (bs.length / 32) = bs.length / 32 * 32 := Nat.mul_comm _ _
      rw [e]
      have hshort : (bs.drop (bs.length / 32 * 32)).length ≤ 32 := by
        simp only [List.length_drop]; omega
      rw [List.take_of_length_le hshort]
      simp only [padRight, List.length_drop]

theorem flatMap_toLE_length (size : Nat) (ns : List Nat) :
    (ns.flatMap fun v => toLE size v).length = ns.length * size := by
  induction ns with
  | nil => simp
  | cons a ns ih => simp only [List.flatMap_cons, List.length_append, toLE_length, ih,
      List.length_cons, Nat.succ_mul]; omega

theorem flatMap_toLE_replicate_zero (size k : Nat) :
    ((List.replicate k 0).flatMap fun v => toLE size v) = zeros (k * size) := by
  induction k with
  | zero => simp
  | succ k ih =>
    rw [List.replicate_succ, List.flatMap_cons, ih, toLE_zero, ← zeros_add]
    congr 1
    rw [Nat.succ_mul]; omega

/-- `pack_ints_to_chunks` is the spec `pack` of the concatenated little-endian encodings -/
theorem packInts_eq_bytesToChunks (size : Nat)
    (hs : size = 1 ∨ size = 2 ∨ size = 4 ∨ size = 8 ∨ size = 16 ∨ size = 32) (ns : List Nat) :
    packInts size ns = bytesToChunks (ns.flatMap fun v => toLE size v) := by
  have hper : 0 < 32 / size := by rcases hs with rfl | rfl | rfl | rfl | rfl | rfl <;> decide
  have hmul : 32 / size * size = 32 := by rcases hs with rfl | rfl | rfl | rfl | rfl | rfl <;> decide
  have hsz : 0 < size := by omega
  unfold packInts
  simp only
  induction ns using groups_induct hper with
  | hnil => rfl
  | hstep ns hne ih =>
    have hpos : 0 < ns.length := List.length_pos_iff.mpr hne
    rw [groups_of_ne_nil hper hne, List.map_cons, ih]
    by_cases hle : 32 / size ≤ ns.length
    · -- a full first chunk
      have htl : (ns.take (32 / size)).length = 32 / size := by
        simp only [List.length_take]; omega
      have hz : 32 / size - (ns.take (32 / size)).length = 0 := by omega
      rw [hz, List.replicate_zero, List.append_nil]
      conv => rhs; rw [← List.take_append_drop (32 / size) ns, List.flatMap_append]
      have hl32 : ((ns.take (32 / size)).flatMap fun v => toLE size v).length = 32 := by
        rw [flatMap_toLE_length, htl, hmul]
      conv => rhs; rw [bytesToChunks, groups_append_of_length_eq (by decide : 0 < 32) _ _ hl32,
        List.map_cons, padRight_of_length_ge _ _ (by omega)]
      rfl
    · have hlt : ns.length < 32 / size := by omega
      have ht : ns.take (32 / size) = ns := List.take_of_length_le (by omega)
      have hd : ns.drop (32 / size) = [] := List.drop_of_length_le (by omega)
      rw [ht, hd]
      simp only [List.flatMap_nil, bytesToChunks_nil]
      have hl : (ns.flatMap fun v => toLE size v).length = ns.length * size :=
        flatMap_toLE_length size ns
      have hlt32 : ns.length * size < 32 := by
        rw [← hmul]; exact Nat.mul_lt_mul_of_pos_right hlt hsz
      have hpos' : 0 < ns.length * size := Nat.mul_pos hpos hsz
      rw [bytesToChunks, groups_single (by omega) (by omega)]
      simp only [List.map_cons, List.map_nil, List.flatMap_append, flatMap_toLE_replicate_zero,
        padRight, hl]
      congr 3
      rw [Nat.sub_mul, hmul]

/-- serialization of a well-typed basic value is the little-endian encoding of its number -/
theorem serialize_basic (et : Ty) (v : Val) (hb : et.isBasic = true) (hwt : WT et v = true) :
    Spec.serialize et v = toLE et.basicSize (numOf v) := by
  cases et <;> simp [Ty.isBasic] at hb
  · cases v <;> simp [WT] at hwt
    rfl
  · cases v <;> simp [WT] at hwt
    rename_i n
    have : n % 256 = n := by omega
    simp [Spec.serialize, Ty.basicSize, numOf, toLE, this]

theorem flatMap_serialize_basic (et : Ty) (vs : List Val) (hb : et.isBasic = true)
    (hwt : ∀ v ∈ vs, WT et v = true) :
    (vs.flatMap fun v => Spec.serialize et v)
      = ((vs.map numOf).flatMap fun n => toLE et.basicSize n) := by
  induction vs with
  | nil => rfl
  | cons v vs ih =>
    rw [List.flatMap_cons, List.map_cons, List.flatMap_cons,
      serialize_basic et v hb (hwt v (by simp)), ih (fun w hw => hwt w (by simp [hw]))]

/-- `pack_ints_to_chunks` of the numbers of well-typed basic values is the spec `pack` of their
    concatenated serializations -/
theorem packInts_eq_pack (et : Ty) (vs : List Val) (hb : et.isBasic = true) (hwf : et.wf = true)
    (hwt : ∀ v ∈ vs, WT et v = true) :
    packInts et.basicSize (vs.map numOf) = Spec.pack (vs.flatMap fun v => Spec.serialize et v) := by
  rw [flatMap_serialize_basic et vs hb hwt, Spec.pack,
    packInts_eq_bytesToChunks _ (basicSize_cases et hwf hb)]

/-! ## 2. helpers -/

theorem allSome_map_length {α β} (f : α → Option β) (vs : List α) (ns : List β)
    (h : allSome (vs.map f) = some ns) : ns.length = vs.length := by
  induction vs generalizing ns with
  | nil => simp [allSome] at h; subst h; rfl
  | cons v vs ih =>
    simp only [List.map_cons] at h
    cases hf : f v with
    | none => simp [hf, allSome] at h
    | some n =>
      simp only [hf, allSome] at h
      cases hr : allSome (vs.map f) with
      | none => simp [hr] at h
      | some ms =>
        simp [hr] at h; subst h
        simp [ih ms hr]

theorem allSome_map_mem {α β} (f : α → Option β) (vs : List α) (ns : List β)
    (h : allSome (vs.map f) = some ns) : ∀ v ∈ vs, ∃ n, f v = some n := by
  induction vs generalizing ns with
  | nil => simp
  | cons v vs ih =>
    simp only [List.map_cons] at h
    cases hf : f v with
    | none => simp [hf, allSome] at h
    | some n =>
      simp only [hf, allSome] at h
      cases hr : allSome (vs.map f) with
      | none => simp [hr] at h
      | some ms =>
        intro w hw
        rcases List.mem_cons.1 hw with rfl | hw
        · exact ⟨n, hf⟩
        · exact ih ms hr w hw

theorem allSome_map_eq {α β γ} (f : α → Option β) (r : β → γ) (g : α → γ) (vs : List α)
    (ns : List β) (h : allSome (vs.map f) = some ns)
    (hfg : ∀ v ∈ vs, ∀ n, f v = some n → r n = g v) : ns.map r = vs.map g := by
  induction vs generalizing ns with
  | nil => simp [allSome] at h; subst h; rfl
  | cons v vs ih =>
    simp only [List.map_cons] at h
    cases hf : f v with
    | none => simp [hf, allSome] at h
    | some n =>
      simp only [hf, allSome] at h
      cases hr : allSome (vs.map f) with
      | none => simp [hr] at h
      | some ms =>
        simp [hr] at h; subst h
        simp only [List.map_cons]
        rw [hfg v (by simp) n hf, ih ms hr (fun w hw => hfg w (by simp [hw]))]

theorem allSome_map_isSome {α β} (f : α → Option β) (vs : List α)
    (h : ∀ v ∈ vs, (f v).isSome = true) : (allSome (vs.map f)).isSome = true := by
  induction vs with
  | nil => rfl
  | cons v vs ih =>
    have h1 := h v (by simp)
    have h2 := ih (fun w hw => h w (by simp [hw]))
    rw [Option.isSome_iff_exists] at h1 h2
    obtain ⟨n, hn⟩ := h1
    obtain ⟨ms, hms⟩ := h2
    simp [allSome, hn, hms]

theorem map_root_map_leaf (H : Hash) (cs : List Chunk) :
    (cs.map Node.leaf).map (·.root H) = cs := by
  induction cs with
  | nil => rfl
  | cons c cs ih => simp only [List.map_cons, Node.root, ih]

theorem chunkOfLE_32 (n : Nat) : chunkOfLE 32 n = toLE 32 n :=
  padRight_of_length_ge _ _ (by simp)

theorem lenNode_root (H : Hash) (n : Nat) : (lenNode n).root H = toLE 32 n := by
  simp [lenNode, Node.root, chunkOfLE_32]

theorem mixInNode_root (H : Hash) (c : Node) (n : Nat) :
    (mixInNode c n).root H = Spec.mixIn H (c.root H) n := by
  simp [mixInNode, Node.root, Spec.mixIn, lenNode_root]

theorem getDepth_one : getDepth 1 = 0 := by simp [getDepth]

/-! ## 3. the constructors reject ill-typed values -/

mutual
theorem some_wt (H : Hash) (t : Ty) (v : Val) (n : Node) (hwf : t.wf = true)
    (h : construct H t v = some n) : WT t v = true := by
  cases t with
  | uint nb =>
    cases v <;> simp [construct] at h
    simp [WT, h.1]
  | bool =>
    cases v <;> simp [construct] at h
    simp [WT, h.1]
  | bitvector len =>
    cases v <;> simp [construct] at h
    simp [WT, h.1]
  | bitlist lim =>
    cases v <;> simp [construct] at h
    simp [WT, h.1]
  | bytevector len =>
    cases v <;> simp [construct] at h
    simp [WT, h.1]
  | bytelist lim =>
    cases v <;> simp [construct] at h
    simp [WT, h.1]
  | vector et len =>
    cases v <;> simp only [construct] at h <;> try (simp at h; done)
    rename_i vs
    simp [Ty.wf] at hwf
    split at h
    · simp at h
    split at h
    · simp at h
    rename_i hlen hne
    split at h
    · simp at h
    rename_i ns hns
    simp only [WT, Bool.and_eq_true, List.all_eq_true]
    refine ⟨by simpa using hlen, fun w hw => ?_⟩
    obtain ⟨m, hm⟩ := allSome_map_mem _ vs ns hns w hw
    exact some_wt H et w m hwf.2 hm
  | list et lim =>
    cases v <;> simp only [construct] at h <;> try (simp at h; done)
    rename_i vs
    simp [Ty.wf] at hwf
    split at h
    · rename_i h0
      have : vs = [] := List.eq_nil_of_length_eq_zero h0
      subst this
      simp [WT]
    split at h
    · simp at h
    rename_i h0 hlen
    split at h
    · simp at h
    rename_i ns hns
    simp only [WT, Bool.and_eq_true, List.all_eq_true]
    refine ⟨by simpa using hlen, fun w hw => ?_⟩
    obtain ⟨m, hm⟩ := allSome_map_mem _ vs ns hns w hw
    exact some_wt H et w m hwf hm
  | container fs =>
    cases v <;> simp only [construct] at h <;> try (simp at h; done)
    rename_i vs
    simp [Ty.wf] at hwf
    split at h
    · simp at h
    rename_i ns hns
    simp only [WT]
    exact fields_some_wt H fs vs ns hwf.2 hns
  | union hasNone opts =>
    cases v <;> simp only [construct] at h <;> try (simp at h; done)
    rename_i sel v
    simp [Ty.wf] at hwf
    split at h
    · simp at h
    simp only [WT]
    split at h
    · rename_i hc
      simp only [hc, if_true]
      cases v <;> simp at h
      rfl
    · rename_i hc
      simp only [hc]
      cases hco : constructOpt H opts (optIndex hasNone sel) v with
      | none => simp [hco] at h
      | some c => exact opt_some_wt H opts _ v c hwf.2 hco

theorem fields_some_wt (H : Hash) (fs : List Ty) (vs : List Val) (ns : List Node)
    (hwf : Ty.wfList fs = true) (h : constructFields H fs vs = some ns) : WTs fs vs = true := by
  cases fs with
  | nil =>
    cases vs with
    | nil => rfl
    | cons v vs => simp [constructFields] at h
  | cons t ts =>
    cases vs with
    | nil => simp [constructFields] at h
    | cons v vs =>
      simp [Ty.wfList] at hwf
      simp only [constructFields] at h
      cases h1 : construct H t v with
      | none => simp [h1] at h
      | some m =>
        cases h2 : constructFields H ts vs with
        | none => simp [h1, h2] at h
        | some ms =>
          simp only [WTs, Bool.and_eq_true]
          exact ⟨some_wt H t v m hwf.1 h1, fields_some_wt H ts vs ms hwf.2 h2⟩

theorem opt_some_wt (H : Hash) (opts : List Ty) (k : Nat) (v : Val) (n : Node)
    (hwf : Ty.wfList opts = true) (h : constructOpt H opts k v = some n) :
    WTopt opts k v = true := by
  cases opts with
  | nil => simp [constructOpt] at h
  | cons t ts =>
    simp [Ty.wfList] at hwf
    cases k with
    | zero =>
      simp only [constructOpt] at h
      simp only [WTopt]
      exact some_wt H t v n hwf.1 h
    | succ k =>
      simp only [constructOpt] at h
      simp only [WTopt]
      exact opt_some_wt H ts k v n hwf.2 h
end

/-! ## 4. constructor trees have the spec root -/

theorem mixIn_nil_zero (H : Hash) (d : Nat) :
    Spec.mixIn H (Spec.merkleize H [] d) 0 = H (zeroHash H d) zeroChunk := by
  rw [Spec.mixIn, merkleize_nil, toLE_zero]; rfl

/-- roots of the bottom nodes of a sequence: packed chunks for basic elements, element roots
    otherwise -/
theorem seq_chunks_root (H : Hash) (et : Ty) (vs : List Val) (ns : List Node) (hwf : et.wf = true)
    (hns : allSome (vs.map fun v => construct H et v) = some ns)
    (ih : ∀ v ∈ vs, ∀ n, construct H et v = some n → n.root H = Spec.htr H et v) :
    (if et.isBasic then (packInts et.basicSize (vs.map numOf)).map Node.leaf else ns).map (·.root H)
      = if et.isBasic then Spec.pack (vs.flatMap fun v => Spec.serialize et v)
        else vs.map fun v => Spec.htr H et v := by
  by_cases hb : et.isBasic = true
  · simp only [hb, if_true]
    rw [map_root_map_leaf]
    apply packInts_eq_pack et vs hb hwf
    intro v hv
    obtain ⟨m, hm⟩ := allSome_map_mem _ vs ns hns v hv
    exact some_wt H et v m hwf hm
  · simp only [hb, Bool.false_eq_true, if_false]
    exact allSome_map_eq _ _ _ vs ns hns ih

mutual
theorem root_eq (H : Hash) (t : Ty) (v : Val) (n : Node) (hwf : t.wf = true)
    (h : construct H t v = some n) : n.root H = Spec.htr H t v := by
  cases t with
  | uint nb =>
    cases v <;> simp [construct] at h
    obtain ⟨_, rfl⟩ := h
    rfl
  | bool =>
    cases v <;> simp [construct] at h
    rename_i x
    obtain ⟨hx, rfl⟩ := h
    have : x % 256 = x := by omega
    simp [Node.root, Spec.htr, chunkOfLE, toLE, this]
  | bitvector len =>
    cases v <;> simp [construct] at h
    rw [fillToContents_some_root H _ _ _ h.2, map_root_map_leaf]
    rfl
  | bitlist lim =>
    cases v <;> simp only [construct] at h <;> try (simp at h; done)
    rename_i bs
    split at h
    · simp at h
    split at h
    · rename_i h0
      have : bs = [] := List.eq_nil_of_length_eq_zero h0
      subst this
      simp only [defaultNode, Option.some.injEq] at h
      subst h
      simp only [Spec.htr, Node.root, zeroNode_root, zeroHash_zero, bitsToBytes_nil, Spec.pack,
        bytesToChunks_nil, List.length_nil, Spec.depthFor]
      exact (mixIn_nil_zero H _).symm
    · cases hc : fillToContents H ((packBits bs).map .leaf) (getDepth ((lim + 255) / 256)) with
      | none => simp [hc] at h
      | some c =>
        simp only [hc, Option.map_some, Option.some.injEq] at h
        subst h
        rw [mixInNode_root, fillToContents_some_root H _ _ _ hc, map_root_map_leaf]
        rfl
  | bytevector len =>
    cases v <;> simp only [construct] at h <;> try (simp at h; done)
    rename_i bs
    simp [Ty.wf] at hwf
    split at h
    · simp at h
    rename_i hlen
    simp only [bne_iff_ne, ne_eq, Decidable.not_not] at hlen
    split at h
    · rename_i hle
      simp only [Option.some.injEq] at h
      subst h
      have h1 : (len + 31) / 32 = 1 := by omega
      simp only [Spec.htr, Node.root, Spec.depthFor, h1, getDepth_one, Spec.pack]
      rw [bytesToChunks, groups_single (by omega) hle]
      rfl
    · rw [fillToContents_some_root H _ _ _ h, map_root_map_leaf, packBytes_eq_pack]
      rfl
  | bytelist lim =>
    cases v <;> simp only [construct] at h <;> try (simp at h; done)
    rename_i bs
    split at h
    · simp at h
    cases hc : fillToContents H ((packBytes bs).map .leaf) (getDepth ((lim + 31) / 32)) with
    | none => simp [hc] at h
    | some c =>
      simp only [hc, Option.map_some, Option.some.injEq] at h
      subst h
      rw [mixInNode_root, fillToContents_some_root H _ _ _ hc, map_root_map_leaf, packBytes_eq_pack]
      rfl
  | vector et len =>
    cases v <;> simp only [construct] at h <;> try (simp at h; done)
    rename_i vs
    simp [Ty.wf] at hwf
    split at h
    · simp at h
    split at h
    · simp at h
    split at h
    · simp at h
    rename_i ns hns
    rw [fillToContents_some_root H _ _ _ h,
      seq_chunks_root H et vs ns hwf.2 hns (fun w _ m hm => root_eq H et w m hwf.2 hm),
      chunkLen_eq_chunkCount et len hwf.2]
    simp only [Spec.htr, Spec.depthFor]
    split <;> rfl
  | list et lim =>
    cases v <;> simp only [construct] at h <;> try (simp at h; done)
    rename_i vs
    simp [Ty.wf] at hwf
    split at h
    · rename_i h0
      have : vs = [] := List.eq_nil_of_length_eq_zero h0
      subst this
      simp only [defaultNode, Option.some.injEq] at h
      subst h
      rw [chunkLen_eq_chunkCount et lim hwf]
      simp only [Spec.htr, Node.root, zeroNode_root, zeroHash_zero, List.flatMap_nil, Spec.pack,
        bytesToChunks_nil, List.length_nil, Spec.depthFor, List.map_nil]
      split <;> exact (mixIn_nil_zero H _).symm
    split at h
    · simp at h
    split at h
    · simp at h
    rename_i ns hns
    cases hc : fillToContents H
        (if et.isBasic then (packInts et.basicSize (vs.map numOf)).map .leaf else ns)
        (getDepth (chunkLen et lim)) with
    | none => simp [hc] at h
    | some c =>
      simp only [hc, Option.map_some, Option.some.injEq] at h
      subst h
      rw [mixInNode_root, fillToContents_some_root H _ _ _ hc,
        seq_chunks_root H et vs ns hwf hns (fun w _ m hm => root_eq H et w m hwf hm),
        chunkLen_eq_chunkCount et lim hwf]
      simp only [Spec.htr, Spec.depthFor]
      split <;> rfl
  | container fs =>
    cases v <;> simp only [construct] at h <;> try (simp at h; done)
    rename_i vs
    simp [Ty.wf] at hwf
    split at h
    · simp at h
    rename_i ns hns
    rw [fillToContents_some_root H _ _ _ h, fields_root_eq H fs vs ns hwf.2 hns]
    rfl
  | union hasNone opts =>
    cases v <;> simp only [construct] at h <;> try (simp at h; done)
    rename_i sel v
    simp [Ty.wf] at hwf
    split at h
    · simp at h
    simp only [Spec.htr]
    split at h
    · rename_i hc
      simp only [hc, if_true]
      cases v <;> simp at h
      subst h
      simp only [Node.root, zeroNode_root, zeroHash_zero, lenNode_root, Spec.mixIn]
      simp at hc
      rw [hc.2]
    · rename_i hc
      simp only [hc]
      cases hco : constructOpt H opts (optIndex hasNone sel) v with
      | none => simp [hco] at h
      | some c =>
        simp only [hco, Option.map_some, Option.some.injEq] at h
        subst h
        simp only [Node.root, lenNode_root, Spec.mixIn, Bool.false_eq_true, if_false,
          opt_root_eq H opts _ v c hwf.2 hco]

theorem fields_root_eq (H : Hash) (fs : List Ty) (vs : List Val) (ns : List Node)
    (hwf : Ty.wfList fs = true) (h : constructFields H fs vs = some ns) :
    ns.map (·.root H) = Spec.htrFields H fs vs := by
  cases fs with
  | nil =>
    cases vs with
    | nil => simp [constructFields] at h; subst h; rfl
    | cons v vs => simp [constructFields] at h
  | cons t ts =>
    cases vs with
    | nil => simp [constructFields] at h
    | cons v vs =>
      simp [Ty.wfList] at hwf
      simp only [constructFields] at h
      cases h1 : construct H t v with
      | none => simp [h1] at h
      | some m =>
        cases h2 : constructFields H ts vs with
        | none => simp [h1, h2] at h
        | some ms =>
          simp only [h1, h2, Option.some.injEq] at h
          subst h
          simp only [List.map_cons, Spec.htrFields, root_eq H t v m hwf.1 h1,
            fields_root_eq H ts vs ms hwf.2 h2]

theorem opt_root_eq (H : Hash) (opts : List Ty) (k : Nat) (v : Val) (n : Node)
    (hwf : Ty.wfList opts = true) (h : constructOpt H opts k v = some n) :
    n.root H = Spec.htrOpt H opts k v := by
  cases opts with
  | nil => simp [constructOpt] at h
  | cons t ts =>
    simp [Ty.wfList] at hwf
    cases k with
    | zero =>
      simp only [constructOpt] at h
      simp only [Spec.htrOpt]
      exact root_eq H t v n hwf.1 h
    | succ k =>
      simp only [constructOpt] at h
      simp only [Spec.htrOpt]
      exact opt_root_eq H ts k v n hwf.2 h
end

/-! ## 5. every well-typed value can be constructed -/

theorem fill_isSome (H : Hash) (nodes : List Node) (k : Nat) (h : nodes.length ≤ k) :
    (fillToContents H nodes (getDepth k)).isSome = true :=
  (fillToContents_isSome_iff H nodes _).2 (Nat.le_trans h (two_pow_getDepth k))

theorem packInts_length (size : Nat) (hper : 0 < 32 / size) (ns : List Nat) :
    (packInts size ns).length = (ns.length + 32 / size - 1) / (32 / size) := by
  unfold packInts
  simp only [List.length_map, groups_length hper]

/-- the bottom nodes of a sequence with at most `lim` elements fit into `chunkLen et lim` chunks -/
theorem seq_chunks_length (et : Ty) (vs : List Val) (ns : List Node) (lim : Nat)
    (hwf : et.wf = true) (hns : ns.length = vs.length) (hle : vs.length ≤ lim) :
    (if et.isBasic then (packInts et.basicSize (vs.map numOf)).map Node.leaf else ns).length
      ≤ chunkLen et lim := by
  unfold chunkLen
  by_cases hb : et.isBasic = true
  · simp only [hb, if_true]
    have hper : 0 < 32 / et.basicSize := by
      rcases basicSize_cases et hwf hb with h | h | h | h | h | h <;> rw [h] <;> decide
    rw [List.length_map, packInts_length _ hper, List.length_map]
    apply Nat.div_le_div_right
    omega
  · simp only [hb, Bool.false_eq_true, if_false]
    omega

theorem constructFields_length (H : Hash) (fs : List Ty) (vs : List Val) (ns : List Node)
    (h : constructFields H fs vs = some ns) : ns.length = fs.length := by
  induction fs generalizing vs ns with
  | nil =>
    cases vs with
    | nil => simp [constructFields] at h; subst h; rfl
    | cons v vs => simp [constructFields] at h
  | cons t ts ih =>
    cases vs with
    | nil => simp [constructFields] at h
    | cons v vs =>
      simp only [constructFields] at h
      cases h1 : construct H t v with
      | none => simp [h1] at h
      | some m =>
        cases h2 : constructFields H ts vs with
        | none => simp [h1, h2] at h
        | some ms =>
          simp only [h1, h2, Option.some.injEq] at h
          subst h
          simp [ih vs ms h2]

theorem WTopt_lt (opts : List Ty) (k : Nat) (v : Val) (h : WTopt opts k v = true) :
    k < opts.length := by
  induction opts generalizing k with
  | nil => simp [WTopt] at h
  | cons t ts ih =>
    cases k with
    | zero => simp
    | succ k =>
      simp only [WTopt] at h
      have := ih k h
      simp only [List.length_cons]; omega

mutual
theorem isSome_of_wt (H : Hash) (t : Ty) (v : Val) (hwf : t.wf = true) (hwt : WT t v = true) :
    (construct H t v).isSome = true := by
  cases t with
  | uint nb =>
    cases v <;> simp [WT] at hwt
    simp [construct, hwt]
  | bool =>
    cases v <;> simp [WT] at hwt
    simp [construct, hwt]
  | bitvector len =>
    cases v <;> simp [WT] at hwt
    rename_i bs
    simp only [construct, hwt, bne_self_eq_false, Bool.false_eq_true, if_false]
    apply fill_isSome
    rw [List.length_map, packBits_eq_pack, Spec.pack, bytesToChunks_length, bitsToBytes_length]
    omega
  | bitlist lim =>
    cases v <;> simp [WT] at hwt
    rename_i bs
    simp only [construct]
    rw [if_neg (by omega)]
    split
    · simp [defaultNode]
    · rw [Option.isSome_map]
      apply fill_isSome
      rw [List.length_map, packBits_eq_pack, Spec.pack, bytesToChunks_length, bitsToBytes_length]
      omega
  | bytevector len =>
    cases v <;> simp [WT] at hwt
    rename_i bs
    simp only [construct, hwt, bne_self_eq_false, Bool.false_eq_true, if_false]
    split
    · rfl
    · apply fill_isSome
      rw [List.length_map, packBytes_length, hwt]
      omega
  | bytelist lim =>
    cases v <;> simp [WT] at hwt
    rename_i bs
    simp only [construct]
    rw [if_neg (by omega), Option.isSome_map]
    apply fill_isSome
    rw [List.length_map, packBytes_length]
    omega
  | vector et len =>
    cases v <;> simp only [WT] at hwt <;> try (simp at hwt; done)
    rename_i vs
    simp [Ty.wf] at hwf
    simp only [Bool.and_eq_true, List.all_eq_true, beq_iff_eq] at hwt
    have hall := allSome_map_isSome (fun v => construct H et v) vs
      (fun w hw => isSome_of_wt H et w hwf.2 (hwt.2 w hw))
    rw [Option.isSome_iff_exists] at hall
    obtain ⟨ns, hns⟩ := hall
    simp only [construct, hwt.1, bne_self_eq_false, Bool.false_eq_true, if_false]
    rw [if_neg (by omega)]
    simp only [hns]
    apply fill_isSome
    exact seq_chunks_length et vs ns len hwf.2 (allSome_map_length _ vs ns hns) (by omega)
  | list et lim =>
    cases v <;> simp only [WT] at hwt <;> try (simp at hwt; done)
    rename_i vs
    simp [Ty.wf] at hwf
    simp only [Bool.and_eq_true, List.all_eq_true, decide_eq_true_eq] at hwt
    have hall := allSome_map_isSome (fun v => construct H et v) vs
      (fun w hw => isSome_of_wt H et w hwf (hwt.2 w hw))
    rw [Option.isSome_iff_exists] at hall
    obtain ⟨ns, hns⟩ := hall
    simp only [construct]
    split
    · simp [defaultNode]
    · rw [if_neg (by omega)]
      simp only [hns]
      rw [Option.isSome_map]
      apply fill_isSome
      exact seq_chunks_length et vs ns lim hwf (allSome_map_length _ vs ns hns) hwt.1
  | container fs =>
    cases v <;> simp only [WT] at hwt <;> try (simp at hwt; done)
    rename_i vs
    simp [Ty.wf] at hwf
    have hf := fields_isSome_of_wt H fs vs hwf.2 hwt
    rw [Option.isSome_iff_exists] at hf
    obtain ⟨ns, hns⟩ := hf
    simp only [construct, hns]
    apply fill_isSome
    rw [constructFields_length H fs vs ns hns]
    exact Nat.le_refl _
  | union hasNone opts =>
    cases v <;> simp only [WT] at hwt <;> try (simp at hwt; done)
    rename_i sel v
    simp [Ty.wf] at hwf
    simp only [construct]
    split at hwt
    · rename_i hc
      simp only [hc, if_true]
      simp only [Bool.and_eq_true, beq_iff_eq] at hc
      have : ¬ sel ≥ optCount hasNone opts := by
        simp only [optCount, hc.1, hc.2, if_true]; omega
      rw [if_neg this]
      cases v <;> simp at hwt
      rfl
    · rename_i hc
      simp only [hc]
      have hlt := WTopt_lt opts _ v hwt
      have : ¬ sel ≥ optCount hasNone opts := by
        simp only [Bool.and_eq_true, beq_iff_eq, not_and] at hc
        unfold optIndex at hlt
        unfold optCount
        cases hasNone
        · simpa using hlt
        · have := hc rfl
          simp only [if_true] at hlt ⊢
          omega
      rw [if_neg this]
      simp only [Bool.false_eq_true, if_false, Option.isSome_map]
      exact opt_isSome_of_wt H opts _ v hwf.2 hwt

theorem fields_isSome_of_wt (H : Hash) (fs : List Ty) (vs : List Val) (hwf : Ty.wfList fs = true)
    (hwt : WTs fs vs = true) : (constructFields H fs vs).isSome = true := by
  cases fs with
  | nil =>
    cases vs with
    | nil => rfl
    | cons v vs => simp [WTs] at hwt
  | cons t ts =>
    cases vs with
    | nil => simp [WTs] at hwt
    | cons v vs =>
      simp [Ty.wfList] at hwf
      simp only [WTs, Bool.and_eq_true] at hwt
      have h1 := isSome_of_wt H t v hwf.1 hwt.1
      have h2 := fields_isSome_of_wt H ts vs hwf.2 hwt.2
      rw [Option.isSome_iff_exists] at h1 h2
      obtain ⟨m, hm⟩ := h1
      obtain ⟨ms, hms⟩ := h2
      simp [constructFields, hm, hms]

theorem opt_isSome_of_wt (H : Hash) (opts : List Ty) (k : Nat) (v : Val)
    (hwf : Ty.wfList opts = true) (hwt : WTopt opts k v = true) :
    (constructOpt H opts k v).isSome = true := by
  cases opts with
  | nil => simp [WTopt] at hwt
  | cons t ts =>
    simp [Ty.wfList] at hwf
    cases k with
    | zero =>
      simp only [WTopt] at hwt
      simp only [constructOpt]
      exact isSome_of_wt H t v hwf.1 hwt
    | succ k =>
      simp only [WTopt] at hwt
      simp only [constructOpt]
      exact opt_isSome_of_wt H ts k v hwf.2 hwt
end

/-! ## 6. the statements of the task -/

variable (H : Hash)

/-- THE theorem (C01): the tree a constructor builds has the SSZ hash tree root -/
theorem construct_root (t : Ty) (v : Val) (n : Node) (hwf : t.wf = true)
    (h : Impl.construct H t v = some n) : n.root H = Spec.htr H t v :=
  root_eq H t v n hwf h

theorem constructFields_root (fs : List Ty) (vs : List Val) (ns : List Node)
    (hwf : Ty.wfList fs = true) (h : Impl.constructFields H fs vs = some ns) :
    ns.map (·.root H) = Spec.htrFields H fs vs :=
  fields_root_eq H fs vs ns hwf h

theorem constructOpt_root (opts : List Ty) (k : Nat) (v : Val) (n : Node)
    (hwf : Ty.wfList opts = true) (h : Impl.constructOpt H opts k v = some n) :
    n.root H = Spec.htrOpt H opts k v :=
  opt_root_eq H opts k v n hwf h

/-- every valid value can be constructed -/
theorem construct_isSome (t : Ty) (v : Val) (hwf : t.wf = true) (hwt : WT t v = true) :
    (Impl.construct H t v).isSome = true :=
  isSome_of_wt H t v hwf hwt

theorem constructFields_isSome (fs : List Ty) (vs : List Val) (hwf : Ty.wfList fs = true)
    (hwt : WTs fs vs = true) : (Impl.constructFields H fs vs).isSome = true :=
  fields_isSome_of_wt H fs vs hwf hwt

theorem constructOpt_isSome (opts : List Ty) (k : Nat) (v : Val) (hwf : Ty.wfList opts = true)
    (hwt : WTopt opts k v = true) : (Impl.constructOpt H opts k v).isSome = true :=
  opt_isSome_of_wt H opts k v hwf hwt

/-- the constructors reject ill-typed values -/
theorem construct_some_wt (t : Ty) (v : Val) (n : Node) (h : Impl.construct H t v = some n)
    (hwf : t.wf = true) : WT t v = true :=
  some_wt H t v n hwf h

theorem constructFields_some_wt (fs : List Ty) (vs : List Val) (ns : List Node)
    (h : Impl.constructFields H fs vs = some ns) (hwf : Ty.wfList fs = true) : WTs fs vs = true :=
  fields_some_wt H fs vs ns hwf h

theorem constructOpt_some_wt (opts : List Ty) (k : Nat) (v : Val) (n : Node)
    (h : Impl.constructOpt H opts k v = some n) (hwf : Ty.wfList opts = true) :
    WTopt opts k v = true :=
  opt_some_wt H opts k v n hwf h

/-- constructing succeeds exactly on the well-typed values -/
theorem construct_isSome_iff (t : Ty) (v : Val) (hwf : t.wf = true) :
    (Impl.construct H t v).isSome = true ↔ WT t v = true := by
  constructor
  · intro h
    rw [Option.isSome_iff_exists] at h
    obtain ⟨n, hn⟩ := h
    exact construct_some_wt H t v n hn hwf
  · exact construct_isSome H t v hwf

/-- C01 in one statement: a well-typed value of a well-formed type has a constructor tree, and
    its root is the SSZ hash tree root -/
theorem construct_spec (t : Ty) (v : Val) (hwf : t.wf = true) (hwt : WT t v = true) :
    ∃ n, Impl.construct H t v = some n ∧ n.root H = Spec.htr H t v := by
  have h := construct_isSome H t v hwf hwt
  rw [Option.isSome_iff_exists] at h
  obtain ⟨n, hn⟩ := h
  exact ⟨n, hn, construct_root H t v n hwf hn⟩

end Rmk.ConstructRoot
