/-
Decoding inverts encoding (property C03): `Impl.deser t (Spec.serialize t v ++ rest) |serialize t v|
= some (v, rest)` for well-formed `t`, well-typed `v`, and an encoding shorter than `2^32`.
-/
import Rmk.Impl.Codec
import Rmk.Proofs.BytesLemmas
import Rmk.Proofs.Sizes
import Rmk.Proofs.Gindex
import Rmk.Proofs.PathGindex
namespace Rmk.DecodeRoundtrip
open Rmk Rmk.Impl Rmk.Spec

/-! ## byte / bit level -/

theorem take_app {α} (a b : List α) (n : Nat) (h : a.length = n) : (a ++ b).take n = a := by
  subst h; exact List.take_left

theorem drop_app {α} (a b : List α) (n : Nat) (h : a.length = n) : (a ++ b).drop n = b := by
  subst h; exact List.drop_left

theorem readOffset_toLE (off : Nat) (s : Stream) (h : off < 2 ^ 32) :
    readOffset (toLE 4 off ++ s) = (off, s) := by
  simp only [readOffset, take_app _ _ 4 (toLE_length 4 off), drop_app _ _ 4 (toLE_length 4 off)]
  rw [fromLE_toLE' 4 off (by simpa using h)]

/-- last byte of a packed bit string -/
theorem bitsToBytes_getLastD (bs : List Bool) (h : bs ≠ []) :
    (bitsToBytes bs).getLastD 0
      = UInt8.ofNat (bitsToNat (bs.drop (8 * ((bs.length + 7) / 8 - 1)))) := by
  have hpos : 0 < bs.length := List.length_pos_iff.mpr h
  have hlen : (groups 8 bs).length = (bs.length + 7) / 8 := by
    rw [groups_length (by decide : 0 < 8)]; omega
  have hi : (bs.length + 7) / 8 - 1 < (groups 8 bs).length := by omega
  have hg := groups_getElem (by decide : 0 < 8) bs _ hi
  rw [List.getLastD_eq_getLast?, List.getLast?_eq_getElem?]
  simp only [bitsToBytes, List.length_map, List.getElem?_map, hlen]
  rw [List.getElem?_eq_getElem hi, hg]
  simp only [Option.map_some, Option.getD_some]
  rw [List.take_of_length_le]
  simp only [List.length_drop]; omega

theorem bitLength_ofNat_bitsToNat_le (g : List Bool) (h : g.length ≤ 8) :
    bitLength (UInt8.ofNat (bitsToNat g)).toNat ≤ g.length := by
  rw [toNat_ofNat_bitsToNat h, bitLength_le_iff]
  exact bitsToNat_lt g

theorem bitsToNat_append_true (g : List Bool) :
    bitsToNat (g ++ [true]) = 2 ^ g.length + bitsToNat g := by
  rw [bitsToNat_append]; simp; omega

/-! ## non-composite kinds -/

theorem rt_uint (nb n : Nat) (rest : Stream) (hwt : WT (.uint nb) (.num n) = true) :
    deser (.uint nb) (toLE nb n ++ rest) (toLE nb n).length = some (.num n, rest) := by
  simp only [WT, decide_eq_true_eq] at hwt
  simp only [deser, toLE_length, bne_self_eq_false, Bool.false_eq_true, if_false,
    take_app _ _ nb (toLE_length nb n), drop_app _ _ nb (toLE_length nb n), fromLE_toLE' nb n hwt]

theorem rt_bool (n : Nat) (rest : Stream) (hwt : WT .bool (.num n) = true) :
    deser .bool ([UInt8.ofNat n] ++ rest) [UInt8.ofNat n].length = some (.num n, rest) := by
  simp only [WT, decide_eq_true_eq] at hwt
  have : n = 0 ∨ n = 1 := by omega
  rcases this with rfl | rfl <;> simp [deser]

theorem rt_bytevector (len : Nat) (bs : List UInt8) (rest : Stream)
    (hwt : WT (.bytevector len) (.bytes bs) = true) :
    deser (.bytevector len) (bs ++ rest) bs.length = some (.bytes bs, rest) := by
  simp only [WT, beq_iff_eq] at hwt
  subst hwt
  simp [deser]

theorem rt_bytelist (lim : Nat) (bs : List UInt8) (rest : Stream)
    (hwt : WT (.bytelist lim) (.bytes bs) = true) :
    deser (.bytelist lim) (bs ++ rest) bs.length = some (.bytes bs, rest) := by
  simp only [WT, decide_eq_true_eq] at hwt
  have : ¬ (bs.length > lim) := by omega
  simp [deser, this]

theorem rt_bitvector (len : Nat) (bs : List Bool) (rest : Stream) (hwf : (Ty.bitvector len).wf = true)
    (hwt : WT (.bitvector len) (.bits bs) = true) :
    deser (.bitvector len) (bitsToBytes bs ++ rest) (bitsToBytes bs).length = some (.bits bs, rest) := by
  simp only [WT, beq_iff_eq] at hwt
  simp only [Ty.wf, decide_eq_true_eq] at hwf
  subst hwt
  have hne : bs ≠ [] := by intro h; subst h; simp at hwf
  have hl := bitsToBytes_length bs
  have hlast := bitsToBytes_getLastD bs hne
  have hg : (bs.drop (8 * ((bs.length + 7) / 8 - 1))).length ≤ 8 := by
    simp only [List.length_drop]; omega
  have hbl := bitLength_ofNat_bitsToNat_le _ hg
  simp only [List.length_drop] at hbl
  have hc : ¬ (((bs.length + 7) / 8 - 1) * 8 + bitLength ((bitsToBytes bs).getLastD 0).toNat > bs.length) := by
    rw [hlast]; omega
  have hz : (bs.length + 7) / 8 ≠ 0 := by omega
  simp only [deser, hl, bne_self_eq_false, Bool.false_eq_true, if_false,
    take_app _ _ _ hl, drop_app _ _ _ hl, hc, hz, Bool.or_self, decide_false,
    bytesToBits_bitsToBytes]

theorem rt_bitlist (lim : Nat) (bs : List Bool) (rest : Stream)
    (hwt : WT (.bitlist lim) (.bits bs) = true) :
    deser (.bitlist lim) (bitsToBytes (bs ++ [true]) ++ rest) (bitsToBytes (bs ++ [true])).length
      = some (.bits bs, rest) := by
  simp only [WT, decide_eq_true_eq] at hwt
  have hne : bs ++ [true] ≠ [] := by simp
  have hl : (bitsToBytes (bs ++ [true])).length = bs.length / 8 + 1 := by
    rw [bitsToBytes_length]; simp only [List.length_append, List.length_cons, List.length_nil]; omega
  have hlast := bitsToBytes_getLastD _ hne
  have hd : (bs ++ [true]).drop (8 * (((bs ++ [true]).length + 7) / 8 - 1))
      = bs.drop (8 * (bs.length / 8)) ++ [true] := by
    have e : 8 * (((bs ++ [true]).length + 7) / 8 - 1) = 8 * (bs.length / 8) := by
      simp only [List.length_append, List.length_cons, List.length_nil]; omega
    rw [e, List.drop_append_of_le_length (by omega)]
  have hgl : (bs.drop (8 * (bs.length / 8))).length = bs.length % 8 := by
    simp only [List.length_drop]; omega
  rw [hd, bitsToNat_append_true, hgl] at hlast
  have hlt : bitsToNat (bs.drop (8 * (bs.length / 8))) < 2 ^ (bs.length % 8) := by
    have := bitsToNat_lt (bs.drop (8 * (bs.length / 8))); rwa [hgl] at this
  have hp : 2 ^ (bs.length % 8) ≤ 2 ^ 7 := Nat.pow_le_pow_right (by decide) (by omega)
  have hv : (UInt8.ofNat (2 ^ (bs.length % 8) + bitsToNat (bs.drop (8 * (bs.length / 8))))).toNat
      = 2 ^ (bs.length % 8) + bitsToNat (bs.drop (8 * (bs.length / 8))) := by
    rw [UInt8.toNat_ofNat']; apply Nat.mod_eq_of_lt; omega
  have hbl := bitLength_two_pow_add _ _ hlt
  have hpos := Nat.two_pow_pos (bs.length % 8)
  have h1 : ¬ (bs.length / 8 + 1 < 1) := by omega
  have h2 : ¬ (bs.length / 8 + 1 > lim / 8 + 1) := by
    have := Nat.div_le_div_right (c := 8) hwt; omega
  have h3 : ¬ (2 ^ (bs.length % 8) + bitsToNat (bs.drop (8 * (bs.length / 8))) = 0) := by omega
  have h4 : (bs.length / 8 + 1 - 1) * 8 + (bs.length % 8 + 1 - 1) = bs.length := by omega
  have h5 : ¬ (bs.length > lim) := by omega
  have htk : (bytesToBits (bitsToBytes (bs ++ [true]))).take bs.length = bs := by
    rw [bytesToBits_bitsToBytes_eq, List.append_assoc, List.take_left]
  simp only [deser, hl, take_app _ _ _ hl, drop_app _ _ _ hl, h1, h2, if_false, bne_self_eq_false,
    Bool.false_eq_true, hlast, hv, hbl, h3, h4, h5, htk]

/-! ## structure of `interleave` -/

/-- the offsets written into the fixed section (running sums starting at `off`) -/
def offsList : List (Bool × List UInt8) → Nat → List Nat
  | [], _ => []
  | (true, _) :: rest, off => offsList rest off
  | (false, b) :: rest, off => off :: offsList rest (off + b.length)

/-- the offsets followed by the end of the variable section -/
def bounds : List (Bool × List UInt8) → Nat → List Nat
  | [], off => [off]
  | (true, _) :: rest, off => bounds rest off
  | (false, b) :: rest, off => off :: bounds rest (off + b.length)

theorem offsList_append_end (parts : List (Bool × List UInt8)) (off : Nat) :
    offsList parts off ++ [off + (varSection parts).length] = bounds parts off := by
  induction parts generalizing off with
  | nil => simp [offsList, bounds, varSection]
  | cons p rest ih =>
    obtain ⟨f, b⟩ := p
    cases f
    · simp only [offsList, bounds, varSection, List.cons_append, List.length_append, ← ih]
      rw [Nat.add_assoc]
    · simp only [offsList, bounds, varSection, ih]

theorem bounds_head (parts : List (Bool × List UInt8)) (off : Nat) :
    ∃ tl, bounds parts off = off :: tl := by
  induction parts generalizing off with
  | nil => exact ⟨[], rfl⟩
  | cons p rest ih =>
    obtain ⟨f, b⟩ := p
    cases f
    · exact ⟨_, rfl⟩
    · simp only [bounds]; exact ih off

theorem mem_parts_le_interleave (parts : List (Bool × List UInt8)) (p : Bool × List UInt8)
    (h : p ∈ parts) : p.2.length ≤ (interleave parts).length := by
  rw [interleave_length]
  induction parts with
  | nil => simp at h
  | cons q rest ih =>
    simp only [List.map_cons, List.sum_cons]
    rcases List.mem_cons.1 h with rfl | h'
    · have : p.2.length ≤ partLen p.1 p.2.length := by unfold partLen; split <;> omega
      omega
    · have := ih h'; omega

/-- all parts fixed-size: plain concatenation -/
def fparts (ser : Val → List UInt8) (vs : List Val) : List (Bool × List UInt8) :=
  vs.map fun v => (true, ser v)

/-- all parts variable-size -/
def vparts (ser : Val → List UInt8) (vs : List Val) : List (Bool × List UInt8) :=
  vs.map fun v => (false, ser v)

@[simp] theorem fparts_nil (ser : Val → List UInt8) : fparts ser [] = [] := rfl
@[simp] theorem fparts_cons (ser : Val → List UInt8) (v : Val) (vs : List Val) :
    fparts ser (v :: vs) = (true, ser v) :: fparts ser vs := rfl
@[simp] theorem vparts_nil (ser : Val → List UInt8) : vparts ser [] = [] := rfl
@[simp] theorem vparts_cons (ser : Val → List UInt8) (v : Val) (vs : List Val) :
    vparts ser (v :: vs) = (false, ser v) :: vparts ser vs := rfl

theorem interleave_fparts (ser : Val → List UInt8) (vs : List Val) :
    interleave (fparts ser vs) = (vs.map ser).flatten := by
  have h2 : varSection (fparts ser vs) = [] := by
    induction vs with
    | nil => rfl
    | cons v vs ih => simp [varSection, ih]
  have h1 : ∀ off, fixedSection (fparts ser vs) off = (vs.map ser).flatten := by
    clear h2
    induction vs with
    | nil => intro off; rfl
    | cons v vs ih => intro off; simp [fixedSection, ih]
  simp [interleave, h1, h2]

theorem fixedTotal_vparts (ser : Val → List UInt8) (vs : List Val) :
    fixedTotal (vparts ser vs) = 4 * vs.length := by
  induction vs with
  | nil => rfl
  | cons v vs ih => simp only [vparts_cons, fixedTotal, ih, List.length_cons]; omega

/-! ## the helper loops, for an arbitrary element decoder -/

theorem deserFixedN_flatten (dec : Dec) (l : Nat) (ser : Val → List UInt8) (vs : List Val)
    (rest : Stream) (h : ∀ v ∈ vs, ∀ r, dec (ser v ++ r) l = some (v, r)) :
    deserFixedN dec l vs.length ((vs.map ser).flatten ++ rest) = some (vs, rest) := by
  induction vs with
  | nil => rfl
  | cons v vs ih =>
    have hv := h v (by simp) ((vs.map ser).flatten ++ rest)
    have ih' := ih (fun w hw => h w (by simp [hw]))
    simp only [List.length_cons, List.map_cons, List.flatten_cons, List.append_assoc, deserFixedN,
      hv, ih']

theorem flatten_length_const (l : Nat) (ser : Val → List UInt8) (vs : List Val)
    (h : ∀ v ∈ vs, (ser v).length = l) : ((vs.map ser).flatten).length = vs.length * l := by
  induction vs with
  | nil => simp
  | cons v vs ih =>
    have hv := h v (by simp)
    have ih' := ih (fun w hw => h w (by simp [hw]))
    simp only [List.map_cons, List.flatten_cons, List.length_append, hv, ih', List.length_cons,
      Nat.succ_mul]
    omega

theorem deserSeqWith_fixed (dec : Dec) (l emin emax : Nat) (validCount : Nat → Bool)
    (ser : Val → List UInt8) (vs : List Val) (rest : Stream) (hl : 0 < l)
    (hser : ∀ v ∈ vs, (ser v).length = l)
    (hdec : ∀ v ∈ vs, ∀ r, dec (ser v ++ r) l = some (v, r))
    (hvc : validCount vs.length = true) :
    deserSeqWith dec true l emin emax validCount (interleave (fparts ser vs) ++ rest)
      (interleave (fparts ser vs)).length = some (.seq vs, rest) := by
  rw [interleave_fparts, flatten_length_const l ser vs hser]
  have h0 : ¬ (l = 0) := by omega
  have h1 : vs.length * l % l = 0 := Nat.mul_mod_left _ _
  have h2 : vs.length * l / l = vs.length := Nat.mul_div_cancel _ hl
  simp only [deserSeqWith, if_true, h0, if_false, h1, h2, hvc, deserFixedN_flatten dec l ser vs rest hdec,
    bne_self_eq_false, Bool.false_eq_true, Bool.not_true, Option.map_some]

theorem readOffsets_vparts (ser : Val → List UInt8) (vs : List Val) (off : Nat) (tail : Stream)
    (h : off + (varSection (vparts ser vs)).length < 2 ^ 32) :
    readOffsets vs.length (fixedSection (vparts ser vs) off ++ tail)
      = (offsList (vparts ser vs) off, tail) := by
  induction vs generalizing off with
  | nil => rfl
  | cons v vs ih =>
    simp only [vparts_cons, varSection, List.length_append] at h
    have h1 : off < 2 ^ 32 := by omega
    have ih' := ih (off + (ser v).length) (by omega)
    simp only [vparts_cons, fixedSection, List.length_cons, readOffsets, List.append_assoc,
      readOffset_toLE _ _ h1, ih', offsList]

theorem deserVarN_vparts (dec : Dec) (emin emax scope : Nat) (ser : Val → List UInt8) (vs : List Val)
    (off : Nat) (rest : Stream)
    (hb : ∀ v ∈ vs, emin ≤ (ser v).length ∧ (ser v).length ≤ emax)
    (hdec : ∀ v ∈ vs, ∀ r, dec (ser v ++ r) (ser v).length = some (v, r))
    (hsc : off + (varSection (vparts ser vs)).length ≤ scope) :
    deserVarN dec emin emax scope (bounds (vparts ser vs) off) (varSection (vparts ser vs) ++ rest)
      = some (vs, rest) := by
  induction vs generalizing off with
  | nil => simp [bounds, deserVarN, varSection]
  | cons v vs ih =>
    have hv := hdec v (by simp) (varSection (vparts ser vs) ++ rest)
    have hbv := hb v (by simp)
    simp only [vparts_cons, varSection, List.length_append] at hsc
    have ih' := ih (off + (ser v).length) (fun w hw => hb w (by simp [hw]))
      (fun w hw => hdec w (by simp [hw])) (by omega)
    obtain ⟨tl, htl⟩ := bounds_head (vparts ser vs) (off + (ser v).length)
    rw [htl] at ih'
    have h1 : ¬ (off + (ser v).length < off) := by omega
    have h1' : ¬ (off + (ser v).length > scope) := by omega
    have h2 : off + (ser v).length - off = (ser v).length := by omega
    simp only [vparts_cons, bounds, varSection, htl, deserVarN, h1, h1', if_false, h2, hbv.1, hbv.2,
      decide_true, Bool.and_self, Bool.not_true, Bool.false_eq_true, List.append_assoc, hv, ih']

theorem deserSeqWith_var (dec : Dec) (l emin emax : Nat) (validCount : Nat → Bool)
    (ser : Val → List UInt8) (vs : List Val) (rest : Stream)
    (hb : ∀ v ∈ vs, emin ≤ (ser v).length ∧ (ser v).length ≤ emax)
    (hdec : ∀ v ∈ vs, ∀ r, dec (ser v ++ r) (ser v).length = some (v, r))
    (hvc : validCount vs.length = true)
    (hlen : (interleave (vparts ser vs)).length < 2 ^ 32) :
    deserSeqWith dec false l emin emax validCount (interleave (vparts ser vs) ++ rest)
      (interleave (vparts ser vs)).length = some (.seq vs, rest) := by
  cases vs with
  | nil =>
    simp only [List.length_nil] at hvc
    simp [deserSeqWith, interleave, fixedSection, varSection, hvc]
  | cons v vs =>
    have hft : fixedTotal ((false, ser v) :: vparts ser vs) = 4 * (vs.length + 1) := by
      simp only [fixedTotal, fixedTotal_vparts]; omega
    have hsc : (interleave (vparts ser (v :: vs))).length
        = 4 * (vs.length + 1) + (ser v).length + (varSection (vparts ser vs)).length := by
      simp only [interleave, List.length_append, Sizes.fixedSection_length, vparts_cons, hft,
        varSection]
      omega
    rw [hsc] at hlen
    rw [hsc]
    simp only [List.length_cons] at hvc
    have hro := readOffsets_vparts ser vs (4 * (vs.length + 1) + (ser v).length)
      (varSection (vparts ser (v :: vs)) ++ rest) (by omega)
    have hbd := offsList_append_end (vparts ser vs) (4 * (vs.length + 1) + (ser v).length)
    have hdv := deserVarN_vparts dec emin emax
      (4 * (vs.length + 1) + (ser v).length + (varSection (vparts ser vs)).length) ser (v :: vs)
      (4 * (vs.length + 1)) rest hb hdec
      (by simp only [vparts_cons, varSection, List.length_append]; omega)
    simp only [vparts_cons, bounds] at hdv
    have h0 : ¬ (4 * (vs.length + 1) + (ser v).length + (varSection (vparts ser vs)).length = 0) := by
      omega
    have h1 : ¬ (4 * (vs.length + 1) >
        4 * (vs.length + 1) + (ser v).length + (varSection (vparts ser vs)).length) := by omega
    have h2 : 4 * (vs.length + 1) % 4 = 0 := by omega
    have h3 : 4 * (vs.length + 1) / 4 = vs.length + 1 := by omega
    simp only [deserSeqWith, Bool.false_eq_true, if_false, h0, interleave, vparts_cons, hft,
      fixedSection, List.append_assoc, readOffset_toLE _ _ (by omega : 4 * (vs.length + 1) < 2 ^ 32),
      h1, h2, h3, bne_self_eq_false, hvc, Bool.not_true, Nat.add_one_ne_zero, Nat.add_sub_cancel]
    simp only [vparts_cons] at hro
    rw [hro]
    simp only [List.cons_append, hbd, hdv, Option.map_some]

/-! ## containers: slots, dynamic values -/

/-- result of the first container pass: decoded fixed-size fields, `none` for variable-size ones -/
def slotsOf : List Ty → List Val → List (Option Val)
  | t :: ts, v :: vs => (if isFixed t then some v else none) :: slotsOf ts vs
  | _, _ => []

/-- the variable-size fields in order -/
def dynOf : List Ty → List Val → List Val
  | t :: ts, v :: vs => if isFixed t then dynOf ts vs else v :: dynOf ts vs
  | _, _ => []

theorem mergeSlots_slotsOf (fs : List Ty) (vs : List Val) (h : WTs fs vs = true) :
    mergeSlots (slotsOf fs vs) (dynOf fs vs) = vs := by
  induction fs generalizing vs with
  | nil =>
    cases vs with
    | nil => rfl
    | cons v vs => simp [WTs] at h
  | cons t ts ih =>
    cases vs with
    | nil => simp [WTs] at h
    | cons v vs =>
      simp only [WTs, Bool.and_eq_true] at h
      cases hf : isFixed t <;> simp [slotsOf, dynOf, hf, mergeSlots, ih vs h.2]

theorem interleave_length_total (parts : List (Bool × List UInt8)) :
    (interleave parts).length = fixedTotal parts + (varSection parts).length := by
  simp [interleave, Sizes.fixedSection_length]

theorem fixedTotal_serializeFields (fs : List Ty) (vs : List Val) (hwf : Ty.wfList fs = true)
    (hwt : WTs fs vs = true) : fixedTotal (serializeFields fs vs) = fixedPartLen fs := by
  induction fs generalizing vs with
  | nil =>
    cases vs with
    | nil => rfl
    | cons v vs => simp [WTs] at hwt
  | cons t ts ih =>
    cases vs with
    | nil => simp [WTs] at hwt
    | cons v vs =>
      simp only [WTs, Bool.and_eq_true] at hwt
      simp only [Ty.wfList, Bool.and_eq_true] at hwf
      cases hf : isFixed t
      · simp [serializeFields, fixedTotal, fixedPartLen, hf, ih vs hwf.2 hwt.2]
      · simp [serializeFields, fixedTotal, fixedPartLen, hf, ih vs hwf.2 hwt.2,
          serialize_fixed t v hwf.1 hwt.1 hf]

theorem varSection_allFixed (fs : List Ty) (vs : List Val) (hf : allFixed fs = true) :
    varSection (serializeFields fs vs) = [] := by
  induction fs generalizing vs with
  | nil => cases vs <;> rfl
  | cons t ts ih =>
    cases vs with
    | nil => rfl
    | cons v vs =>
      simp only [allFixed, Bool.and_eq_true] at hf
      simp [serializeFields, hf.1, varSection, ih vs hf.2]

theorem offsList_head (fs : List Ty) (vs : List Val) (off : Nat) (hf : allFixed fs = false)
    (hwt : WTs fs vs = true) : ∃ tl, offsList (serializeFields fs vs) off = off :: tl := by
  induction fs generalizing vs with
  | nil => simp [allFixed] at hf
  | cons t ts ih =>
    cases vs with
    | nil => simp [WTs] at hwt
    | cons v vs =>
      simp only [WTs, Bool.and_eq_true] at hwt
      cases ht : isFixed t
      · simp only [serializeFields, ht, offsList]; exact ⟨_, rfl⟩
      · simp only [allFixed, ht, Bool.true_and] at hf
        simp only [serializeFields, ht, offsList]
        exact ih vs hf hwt.2

theorem WTopt_lt (opts : List Ty) (k : Nat) (v : Val) (h : WTopt opts k v = true) :
    k < opts.length := by
  induction opts generalizing k with
  | nil => simp [WTopt] at h
  | cons t ts ih =>
    cases k with
    | zero => simp
    | succ k => simp only [WTopt] at h; have := ih k h; simp; omega

/-! ## the main induction -/

mutual
theorem rt (t : Ty) (v : Val) (rest : Stream) (hwf : t.wf = true) (hwt : WT t v = true)
    (hlen : (serialize t v).length < 2 ^ 32) :
    deser t (serialize t v ++ rest) (serialize t v).length = some (v, rest) := by
  cases t with
  | uint nb =>
    cases v with
    | num n => simp only [serialize]; exact rt_uint nb n rest hwt
    | _ => simp [WT] at hwt
  | bool =>
    cases v with
    | num n => simp only [serialize]; exact rt_bool n rest hwt
    | _ => simp [WT] at hwt
  | bitvector len =>
    cases v with
    | bits bs => simp only [serialize]; exact rt_bitvector len bs rest hwf hwt
    | _ => simp [WT] at hwt
  | bitlist lim =>
    cases v with
    | bits bs => simp only [serialize]; exact rt_bitlist lim bs rest hwt
    | _ => simp [WT] at hwt
  | bytevector len =>
    cases v with
    | bytes bs => simp only [serialize]; exact rt_bytevector len bs rest hwt
    | _ => simp [WT] at hwt
  | bytelist lim =>
    cases v with
    | bytes bs => simp only [serialize]; exact rt_bytelist lim bs rest hwt
    | _ => simp [WT] at hwt
  | vector et n =>
    cases v with
    | seq vs =>
      simp only [WT, Bool.and_eq_true, beq_iff_eq, List.all_eq_true] at hwt
      simp only [Ty.wf, Bool.and_eq_true, decide_eq_true_eq] at hwf
      simp only [serialize] at hlen
      have hel : ∀ v ∈ vs, (serialize et v).length < 2 ^ 32 := fun v hv => by
        have := mem_parts_le_interleave _ (isFixed et, serialize et v)
          (List.mem_map_of_mem (f := fun v => (isFixed et, serialize et v)) hv)
        exact Nat.lt_of_le_of_lt this hlen
      simp only [serialize, deser]
      cases hf : isFixed et with
      | true =>
        exact deserSeqWith_fixed (deser et) _ _ _ _ (serialize et) vs rest
          (fixedLen_pos et hwf.2 hf) (fun v hv => serialize_fixed et v hwf.2 (hwt.2 v hv) hf)
          (fun v hv r => by
            have := rt et v r hwf.2 (hwt.2 v hv) (hel v hv)
            rwa [serialize_fixed et v hwf.2 (hwt.2 v hv) hf] at this)
          (by simp [hwt.1])
      | false =>
        rw [hf] at hlen
        exact deserSeqWith_var (deser et) _ _ _ _ (serialize et) vs rest
          (fun v hv => serialize_bounds et v hwf.2 (hwt.2 v hv))
          (fun v hv r => rt et v r hwf.2 (hwt.2 v hv) (hel v hv))
          (by simp [hwt.1]) hlen
    | _ => simp [WT] at hwt
  | list et lim =>
    cases v with
    | seq vs =>
      simp only [WT, Bool.and_eq_true, decide_eq_true_eq, List.all_eq_true] at hwt
      simp only [Ty.wf] at hwf
      simp only [serialize] at hlen
      have hel : ∀ v ∈ vs, (serialize et v).length < 2 ^ 32 := fun v hv => by
        have := mem_parts_le_interleave _ (isFixed et, serialize et v)
          (List.mem_map_of_mem (f := fun v => (isFixed et, serialize et v)) hv)
        exact Nat.lt_of_le_of_lt this hlen
      simp only [serialize, deser]
      cases hf : isFixed et with
      | true =>
        exact deserSeqWith_fixed (deser et) _ _ _ _ (serialize et) vs rest
          (fixedLen_pos et hwf hf) (fun v hv => serialize_fixed et v hwf (hwt.2 v hv) hf)
          (fun v hv r => by
            have := rt et v r hwf (hwt.2 v hv) (hel v hv)
            rwa [serialize_fixed et v hwf (hwt.2 v hv) hf] at this)
          (by simp [hwt.1])
      | false =>
        rw [hf] at hlen
        exact deserSeqWith_var (deser et) _ _ _ _ (serialize et) vs rest
          (fun v hv => serialize_bounds et v hwf (hwt.2 v hv))
          (fun v hv r => rt et v r hwf (hwt.2 v hv) (hel v hv))
          (by simp [hwt.1]) hlen
    | _ => simp [WT] at hwt
  | container fs =>
    cases v with
    | seq vs =>
      have hwf0 := hwf
      have hwt0 := hwt
      simp only [WT] at hwt
      simp only [Ty.wf, Bool.and_eq_true] at hwf
      simp only [serialize] at hlen
      have htot := interleave_length_total (serializeFields fs vs)
      simp only [serialize, deser]
      cases hf : allFixed fs with
      | true =>
        have hvar := varSection_allFixed fs vs hf
        have hsc : (interleave (serializeFields fs vs)).length = fixedLenSum fs := by
          have := serialize_fixed (.container fs) (.seq vs) hwf0 hwt0 (by simp [isFixed, hf])
          simpa only [serialize, fixedLen] using this
        have hff := rtFixedFields fs vs (fixedTotal (serializeFields fs vs)) rest hwf.2 hwt hf
          (by omega)
        simp only [hsc]
        simp only [bne_self_eq_false, Bool.false_eq_true, if_false, if_true, interleave, hvar,
          List.append_nil, hff, Option.map_some]
      | false =>
        have hft := fixedTotal_serializeFields fs vs hwf.2 hwt
        have hscan := rtScan fs vs (fixedTotal (serializeFields fs vs))
          (varSection (serializeFields fs vs) ++ rest) hwf.2 hwt (by omega) (by omega)
        obtain ⟨tl, htl⟩ := offsList_head fs vs (fixedTotal (serializeFields fs vs)) hf hwt
        have hbd := offsList_append_end (serializeFields fs vs) (fixedTotal (serializeFields fs vs))
        have hdyn := rtDyn fs vs
          (fixedTotal (serializeFields fs vs) + (varSection (serializeFields fs vs)).length)
          (fixedTotal (serializeFields fs vs)) rest hwf.2 hwt (by omega) (Nat.le_refl _)
        rw [← hbd, htl] at hdyn
        rw [htl] at hscan
        simp only [hft] at hscan hdyn
        simp only [htot]
        simp only [Bool.false_eq_true, if_false, interleave, List.append_assoc, hscan,
          List.head?_cons, hft, bne_self_eq_false, hdyn, mergeSlots_slotsOf fs vs hwt]
    | _ => simp [WT] at hwt
  | union hasNone opts =>
    cases v with
    | un sel v =>
      have hw := Sizes.union_wf_opts_ne hasNone opts hwf
      simp only [Ty.wf, Bool.and_eq_true, decide_eq_true_eq] at hwf
      simp only [WT] at hwt
      simp only [serialize] at hlen
      by_cases hc : (hasNone && sel == 0) = true
      · simp only [hc, if_true] at hwt
        simp only [Bool.and_eq_true, beq_iff_eq] at hc
        obtain ⟨rfl, rfl⟩ := hc
        cases v with
        | none => simp [serialize, deser, optCount]
        | _ => simp at hwt
      · simp only [hc, Bool.false_eq_true, if_false] at hwt hlen
        have hidx := WTopt_lt _ _ _ hwt
        have hsel : sel < optCount hasNone opts := by
          cases hasNone with
          | false => simpa [optCount, optIndex] using hidx
          | true =>
            have : sel ≠ 0 := by intro h; subst h; simp at hc
            simp only [optIndex, if_true] at hidx
            simp only [optCount, if_true]; omega
        have hnat : (UInt8.ofNat sel).toNat = sel := by
          rw [UInt8.toNat_ofNat']; apply Nat.mod_eq_of_lt; omega
        have hopt := rtOpt opts (optIndex hasNone sel) v rest hw.2 hwt
          (by simp only [List.length_cons] at hlen; omega)
        have h1 : ¬ ((serializeOpt opts (optIndex hasNone sel) v).length + 1 < 1) := by omega
        have h2 : ¬ (sel ≥ optCount hasNone opts) := by omega
        simp only [serialize, deser, hc, Bool.false_eq_true, if_false, List.length_cons, h1,
          List.cons_append, List.take_succ_cons, List.take_zero, fromLE_cons, fromLE_nil, hnat,
          Nat.mul_zero, Nat.add_zero, h2, List.drop_succ_cons, List.drop_zero, Nat.add_sub_cancel,
          hopt, Option.map_some]
    | _ => simp [WT] at hwt

theorem rtFixedFields (fs : List Ty) (vs : List Val) (off : Nat) (tail : Stream)
    (hwf : Ty.wfList fs = true) (hwt : WTs fs vs = true) (hfix : allFixed fs = true)
    (hlen : fixedTotal (serializeFields fs vs) < 2 ^ 32) :
    deserFixedFields fs (fixedSection (serializeFields fs vs) off ++ tail) = some (vs, tail) := by
  cases fs with
  | nil =>
    cases vs with
    | nil => rfl
    | cons v vs => simp [WTs] at hwt
  | cons t ts =>
    cases vs with
    | nil => simp [WTs] at hwt
    | cons v vs =>
      simp only [WTs, Bool.and_eq_true] at hwt
      simp only [Ty.wfList, Bool.and_eq_true] at hwf
      simp only [allFixed, Bool.and_eq_true] at hfix
      simp only [serializeFields, hfix.1, fixedTotal] at hlen
      have h1 := rt t v (fixedSection (serializeFields ts vs) off ++ tail) hwf.1 hwt.1 (by omega)
      rw [serialize_fixed t v hwf.1 hwt.1 hfix.1] at h1
      have h2 := rtFixedFields ts vs off tail hwf.2 hwt.2 hfix.2 (by omega)
      simp only [serializeFields, hfix.1, fixedSection, List.append_assoc, deserFixedFields, h1, h2]

theorem rtScan (fs : List Ty) (vs : List Val) (off : Nat) (tail : Stream)
    (hwf : Ty.wfList fs = true) (hwt : WTs fs vs = true)
    (hlen : fixedTotal (serializeFields fs vs) < 2 ^ 32)
    (hoff : off + (varSection (serializeFields fs vs)).length < 2 ^ 32) :
    deserScan fs (fixedSection (serializeFields fs vs) off ++ tail)
      = some (slotsOf fs vs, offsList (serializeFields fs vs) off, tail) := by
  cases fs with
  | nil =>
    cases vs with
    | nil => rfl
    | cons v vs => simp [WTs] at hwt
  | cons t ts =>
    cases vs with
    | nil => simp [WTs] at hwt
    | cons v vs =>
      simp only [WTs, Bool.and_eq_true] at hwt
      simp only [Ty.wfList, Bool.and_eq_true] at hwf
      cases hf : isFixed t with
      | true =>
        simp only [serializeFields, hf, fixedTotal, varSection] at hlen hoff
        have h1 := rt t v (fixedSection (serializeFields ts vs) off ++ tail) hwf.1 hwt.1 (by omega)
        rw [serialize_fixed t v hwf.1 hwt.1 hf] at h1
        have h2 := rtScan ts vs off tail hwf.2 hwt.2 (by omega) hoff
        simp only [serializeFields, hf, fixedSection, List.append_assoc, deserScan, if_true, h1, h2,
          slotsOf, offsList]
      | false =>
        simp only [serializeFields, hf, fixedTotal, varSection, List.length_append] at hlen hoff
        have h2 := rtScan ts vs (off + (serialize t v).length) tail hwf.2 hwt.2 (by omega)
          (by omega)
        simp only [serializeFields, hf, fixedSection, List.append_assoc, deserScan,
          Bool.false_eq_true, if_false, readOffset_toLE off _ (by omega : off < 2 ^ 32), h2,
          slotsOf, offsList]

theorem rtDyn (fs : List Ty) (vs : List Val) (scope off : Nat) (rest : Stream)
    (hwf : Ty.wfList fs = true) (hwt : WTs fs vs = true)
    (hlen : (varSection (serializeFields fs vs)).length < 2 ^ 32)
    (hsc : off + (varSection (serializeFields fs vs)).length ≤ scope) :
    deserDyn fs scope (bounds (serializeFields fs vs) off)
        (varSection (serializeFields fs vs) ++ rest)
      = some (dynOf fs vs, rest) := by
  cases fs with
  | nil =>
    cases vs with
    | nil => rfl
    | cons v vs => simp [WTs] at hwt
  | cons t ts =>
    cases vs with
    | nil => simp [WTs] at hwt
    | cons v vs =>
      simp only [WTs, Bool.and_eq_true] at hwt
      simp only [Ty.wfList, Bool.and_eq_true] at hwf
      cases hf : isFixed t with
      | true =>
        simp only [serializeFields, hf, varSection] at hlen hsc
        have h2 := rtDyn ts vs scope off rest hwf.2 hwt.2 hlen hsc
        simp only [serializeFields, hf, bounds, varSection, deserDyn, if_true, h2, dynOf]
      | false =>
        simp only [serializeFields, hf, varSection, List.length_append] at hlen hsc
        have h1 := rt t v (varSection (serializeFields ts vs) ++ rest) hwf.1 hwt.1 (by omega)
        have hb := serialize_bounds t v hwf.1 hwt.1
        have h2 := rtDyn ts vs scope (off + (serialize t v).length) rest hwf.2 hwt.2 (by omega)
          (by omega)
        obtain ⟨tl, htl⟩ := bounds_head (serializeFields ts vs) (off + (serialize t v).length)
        rw [htl] at h2
        have h3 : ¬ (off > off + (serialize t v).length) := by omega
        have h3' : ¬ (off + (serialize t v).length > scope) := by omega
        have h4 : off + (serialize t v).length - off = (serialize t v).length := by omega
        simp only [serializeFields, hf, bounds, varSection, htl, deserDyn, Bool.false_eq_true,
          if_false, h3, h3', h4, hb.1, hb.2, decide_true, Bool.and_self, Bool.not_true,
          List.append_assoc, h1, h2, dynOf]

theorem rtOpt (opts : List Ty) (k : Nat) (v : Val) (rest : Stream) (hwf : Ty.wfList opts = true)
    (hwt : WTopt opts k v = true) (hlen : (serializeOpt opts k v).length < 2 ^ 32) :
    deserOpt opts k (serializeOpt opts k v ++ rest) (serializeOpt opts k v).length
      = some (v, rest) := by
  cases opts with
  | nil => simp [WTopt] at hwt
  | cons t ts =>
    simp only [Ty.wfList, Bool.and_eq_true] at hwf
    cases k with
    | zero =>
      simp only [WTopt] at hwt
      simp only [serializeOpt] at hlen ⊢
      simp only [deserOpt]
      exact rt t v rest hwf.1 hwt hlen
    | succ k =>
      simp only [WTopt] at hwt
      simp only [serializeOpt] at hlen ⊢
      simp only [deserOpt]
      exact rtOpt ts k v rest hwf.2 hwt hlen
end

/-! ## C03: decoding inverts encoding -/

/-- every valid encoding is accepted anywhere in a stream, yields the same content, and consumes
    exactly `scope` bytes -/
theorem roundtrip (t : Ty) (v : Val) (rest : Stream) (hwf : t.wf = true) (hwt : WT t v = true)
    (hlen : (Spec.serialize t v).length < 2 ^ 32) :
    Impl.deser t (Spec.serialize t v ++ rest) (Spec.serialize t v).length = some (v, rest) :=
  rt t v rest hwf hwt hlen

theorem decode_bytes (t : Ty) (v : Val) (hwf : t.wf = true) (hwt : WT t v = true)
    (hlen : (Spec.serialize t v).length < 2 ^ 32) :
    Impl.deser t (Spec.serialize t v) (Spec.serialize t v).length = some (v, []) := by
  have := roundtrip t v [] hwf hwt hlen
  rwa [List.append_nil] at this

end Rmk.DecodeRoundtrip
