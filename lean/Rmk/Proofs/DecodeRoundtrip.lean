/-
Decoding inverts encoding (property C03): `Impl.deser t (Spec.serialize t v ++ rest) |serialize t v|
= some (v, rest)` for well-formed `t`, well-typed `v`, and an encoding shorter than `2^32`.
-/
import Rmk.Impl.Codec
import Rmk.Proofs.BytesLemmas
import Rmk.Proofs.Sizes
import Rmk.Proofs.Gindex
import Rmk.Proofs.PathGindex
namespace Rmk.DecodeRoundtrip
open Rmk Rmk.Impl Rmk.Spec

/-! ## byte / bit level -/

theorem take_app {α} (a b : List α) (n : Nat) (h : a.length = n) : (a ++ b).take n = a := by
  subst h; exact List.take_left

theorem drop_app {α} (a b : List α) (n : Nat) (h : a.length = n) : (a ++ b).drop n = b := by
  subst h; exact List.drop_left

theorem readOffset_toLE (off : Nat) (s : Stream) (h : off < 2 ^ 32) :
    readOffset (toLE 4 off ++ s) = (off, s) := by
  simp only [readOffset, take_app _ _ 4 (toLE_length 4 off), drop_app _ _ 4 (toLE_length 4 off)]
  rw [fromLE_toLE' 4 off (by simpa using h)]

/-- last byte of a packed bit string -/
theorem bitsToBytes_getLastD (bs : List Bool) (h : bs ≠ []) :
    (bitsToBytes bs).getLastD 0
      = UInt8.ofNat (bitsToNat (bs.drop (8 * ((bs.length + 7) / 8 - 1)))) := by
  have hpos : 0 < bs.length := List.length_pos_iff.mpr h
  have hlen : (groups 8 bs).length = (bs.length + 7) / 8 := by
    rw [groups_length (by decide : 0 < 8)]; omega
  have hi : (bs.length + 7) / 8 - 1 < (groups 8 bs).length := by omega
  have hg := groups_getElem (by decide : 0 < 8) bs _ hi
  rw [List.getLastD_eq_getLast?, List.getLast?_eq_getElem?]
  simp only [bitsToBytes, List.length_map, List.getElem?_map, hlen]
  rw [List.getElem?_eq_getElem hi, hg]
  simp only [Option.map_some, Option.getD_some]
  rw [List.take_of_length_le]
  simp only [List.length_drop]; omega

theorem bitLength_ofNat_bitsToNat_le (g : List Bool) (h : g.length ≤ 8) :
    bitLength (UInt8.ofNat (bitsToNat g)).toNat ≤ g.length := by
  rw [toNat_ofNat_bitsToNat h, bitLength_le_iff]
  exact bitsToNat_lt g

theorem bitsToNat_append_true (g : List Bool) :
    bitsToNat (g ++ [true]) = 2 ^ g.length + bitsToNat g := by
  rw [bitsToNat_append]; simp; omega

end Rmk.DecodeRoundtrip
