/-
Decoding accepts only canonical encodings and yields well-typed values (properties C09/C10).

Main results (namespace `Rmk.DecodeSound`):
* `sound`              : `deser t s scope = some (v, rest)` with `scope ≤ s.length` implies
                         `WT t v`, `serialize t v = s.take scope`, `rest = s.drop scope`
* `decode_bytes_sound` : whole-buffer corollary
* `injective`          : two byte strings decoding to the same value are equal
-/
import Rmk.Impl.Codec
import Rmk.Proofs.BytesLemmas
import Rmk.Proofs.Sizes
namespace Rmk.DecodeSound
open Rmk Rmk.Impl Rmk.Spec

/-! ## bit-level facts -/

theorem natToBits_snoc (k n : Nat) :
    natToBits (k + 1) n = natToBits k n ++ [(n / 2 ^ k) % 2 == 1] := by
  induction k generalizing n with
  | zero => simp [natToBits]
  | succ k ih =>
    rw [natToBits_succ, ih (n / 2), natToBits_succ, Nat.div_div_eq_div_mul, Nat.pow_succ,
      Nat.mul_comm 2 (2 ^ k)]
    rfl

theorem natToBits_of_lt (j k n : Nat) (h : n < 2 ^ j) (hjk : j ≤ k) :
    natToBits k n = natToBits j n ++ List.replicate (k - j) false := by
  have h1 := natToBits_bitsToNat_of_le k (natToBits j n) (by simp [hjk])
  rw [bitsToNat_natToBits_of_lt j n h, natToBits_length] at h1
  exact h1

theorem lt_two_pow_bitLength (n : Nat) : n < 2 ^ bitLength n := by
  unfold bitLength
  split
  · next h => subst h; simp
  · exact Nat.lt_log2_self

theorem bitLength_le_eight (b : UInt8) : bitLength b.toNat ≤ 8 := by
  unfold bitLength
  split
  · omega
  · next h =>
    have := (Nat.log2_lt h (k := 8)).2 (UInt8.toNat_lt b)
    omega

/-- the top bit: for `n ≠ 0`, bit `bitLength n - 1` is set -/
theorem top_bit (n : Nat) (h : n ≠ 0) : (n / 2 ^ (bitLength n - 1)) % 2 = 1 := by
  have hb : bitLength n = Nat.log2 n + 1 := by simp [bitLength, h]
  rw [hb, Nat.add_sub_cancel]
  have h1 := Nat.log2_self_le h
  have h2 := @Nat.lt_log2_self n
  have h3 : n / 2 ^ n.log2 = 1 := by
    apply Nat.div_eq_of_lt_le
    · simpa using h1
    · rw [Nat.pow_succ] at h2; omega
  rw [h3]

/-- a byte string whose bits are `pre` followed by fewer than 8 zero bits is the packing of `pre` -/
theorem canon_of_pad (bs : List UInt8) (pre : List Bool) (k : Nat)
    (h : bytesToBits bs = pre ++ List.replicate k false) (hk : k < 8) : bitsToBytes pre = bs := by
  have hl : 8 * bs.length = pre.length + k := by
    have := congrArg List.length h
    simpa using this
  have h1 := bytesToBits_bitsToBytes_eq pre
  have h2 : 8 * ((pre.length + 7) / 8) - pre.length = k := by omega
  rw [h2, ← h] at h1
  have h3 := congrArg bitsToBytes h1
  rwa [bitsToBytes_bytesToBits, bitsToBytes_bytesToBits] at h3

/-- cutting inside a zero tail leaves a zero tail -/
theorem take_append_replicate (X : List Bool) (m len : Nat) (h1 : X.length ≤ len)
    (h2 : len ≤ X.length + m) :
    X ++ List.replicate m false
      = (X ++ List.replicate m false).take len ++ List.replicate (X.length + m - len) false := by
  obtain ⟨d, rfl⟩ : ∃ d, len = X.length + d := ⟨len - X.length, by omega⟩
  rw [List.take_length_add_append, List.take_replicate, List.append_assoc,
    List.replicate_append_replicate]
  congr 2
  omega

theorem bytes_split_last (bs : List UInt8) (hne : bs ≠ []) :
    bs = bs.dropLast ++ [bs.getLastD 0] := by
  cases bs with
  | nil => exact absurd rfl hne
  | cons a l =>
    have h := (List.dropLast_concat_getLast hne).symm
    rw [List.getLast_eq_getLastD] at h
    rw [List.getLastD_cons]
    exact h

/-- bitvector: padding bits zero ⇒ canonical -/
theorem bitvec_canon (bs : List UInt8) (len : Nat) (hne : bs ≠ [])
    (hlen : (len + 7) / 8 = bs.length)
    (hpad : (bs.length - 1) * 8 + bitLength (bs.getLastD 0).toNat ≤ len) :
    bitsToBytes ((bytesToBits bs).take len) = bs := by
  have hs := bytes_split_last bs hne
  generalize hlast : bs.getLastD 0 = last at hs hpad
  generalize hinit : bs.dropLast = init at hs
  have hbl : bs.length = init.length + 1 := by rw [hs]; simp
  have hj := bitLength_le_eight last
  have hlt := lt_two_pow_bitLength last.toNat
  generalize hjdef : bitLength last.toNat = j at hj hlt hpad
  have hbits : bytesToBits bs
      = (bytesToBits init ++ natToBits j last.toNat) ++ List.replicate (8 - j) false := by
    rw [hs, bytesToBits_append, bytesToBits_cons, bytesToBits_nil, List.append_nil,
      natToBits_of_lt j 8 _ hlt hj, List.append_assoc]
  have hX : (bytesToBits init ++ natToBits j last.toNat).length = 8 * init.length + j := by simp
  apply canon_of_pad bs _ (8 * bs.length - len)
  · rw [hbits]
    have := take_append_replicate (bytesToBits init ++ natToBits j last.toNat) (8 - j) len
      (by rw [hX]; omega) (by rw [hX]; omega)
    rw [hX] at this
    have e : 8 * init.length + j + (8 - j) - len = 8 * bs.length - len := by omega
    rw [e] at this
    exact this
  · omega

/-- bitlist: the highest set bit of the last byte is the delimiter -/
theorem bitlist_canon (bs : List UInt8) (hne : bs ≠ [])
    (hlast : (bs.getLastD 0).toNat ≠ 0) :
    bitsToBytes ((bytesToBits bs).take
      ((bs.length - 1) * 8 + (bitLength (bs.getLastD 0).toNat - 1)) ++ [true]) = bs := by
  have hs := bytes_split_last bs hne
  generalize hl : bs.getLastD 0 = last at hs hlast
  generalize hinit : bs.dropLast = init at hs
  have hbl : bs.length = init.length + 1 := by rw [hs]; simp
  have hj := bitLength_le_eight last
  have hlt := lt_two_pow_bitLength last.toNat
  have htop := top_bit last.toNat hlast
  have hjpos : 0 < bitLength last.toNat := by
    unfold bitLength; simp [hlast]
  generalize hjdef : bitLength last.toNat = j at hj hlt htop hjpos
  obtain ⟨i, rfl⟩ : ∃ i, j = i + 1 := ⟨j - 1, by omega⟩
  simp only [Nat.add_sub_cancel] at htop ⊢
  have hbits : bytesToBits bs
      = ((bytesToBits init ++ natToBits i last.toNat) ++ [true]) ++ List.replicate (8 - (i + 1)) false := by
    rw [hs, bytesToBits_append, bytesToBits_cons, bytesToBits_nil, List.append_nil,
      natToBits_of_lt (i + 1) 8 _ hlt hj, natToBits_snoc, htop]
    simp
  have hX : (bytesToBits init ++ natToBits i last.toNat).length = (bs.length - 1) * 8 + i := by
    simp; omega
  apply canon_of_pad bs _ (8 - (i + 1))
  · rw [hbits]
    congr 2
    have ht : ∀ (X R : List Bool), (X ++ [true] ++ R).take X.length = X := by
      intro X R; rw [List.append_assoc, List.take_left]
    rw [← hX, ht]
  · omega

/-! ## the soundness statement -/

/-- a decoder `dec` is sound for type `t` -/
def DecSound (t : Ty) (dec : Dec) : Prop :=
  ∀ (s : Stream) (scope : Nat) (v : Val) (rest : Stream), scope ≤ s.length →
    dec s scope = some (v, rest) →
    WT t v = true ∧ serialize t v = s.take scope ∧ rest = s.drop scope

/-! ## non-composite kinds -/

theorem sound_uint (nb : Nat) : DecSound (.uint nb) (deser (.uint nb)) := by
  intro s scope v rest hs h
  simp only [deser] at h
  split at h
  · cases h
  · next hc =>
    have : nb = scope := by simpa using hc
    subst this
    cases h
    have hl : (s.take nb).length = nb := List.length_take_of_le hs
    refine ⟨?_, ?_, rfl⟩
    · simp only [WT]
      have := fromLE_lt' (s.take nb)
      rw [hl] at this
      simpa using this
    · simp only [serialize]
      have := toLE_fromLE (s.take nb)
      rwa [hl] at this

theorem sound_bool : DecSound .bool (deser .bool) := by
  intro s scope v rest hs h
  simp only [deser] at h
  split at h
  · cases h
  · next hc =>
    have : 1 = scope := by simpa using hc
    subst this
    split at h
    · next h1 =>
      cases h
      have h1' : s.take 1 = [1] := by simpa using h1
      refine ⟨by simp [WT], ?_, rfl⟩
      rw [h1']; rfl
    · split at h
      · next h0 =>
        cases h
        have h0' : s.take 1 = [0] := by simpa using h0
        refine ⟨by simp [WT], ?_, rfl⟩
        rw [h0']; rfl
      · cases h

theorem sound_bytevector (len : Nat) : DecSound (.bytevector len) (deser (.bytevector len)) := by
  intro s scope v rest hs h
  simp only [deser] at h
  split at h
  · cases h
  · next hc =>
    have : len = scope := by simpa using hc
    subst this
    split at h
    · cases h
    · cases h
      have hl : (s.take len).length = len := List.length_take_of_le hs
      exact ⟨by simp [WT, hl], by simp [serialize], rfl⟩

theorem sound_bytelist (lim : Nat) : DecSound (.bytelist lim) (deser (.bytelist lim)) := by
  intro s scope v rest hs h
  simp only [deser] at h
  split at h
  · cases h
  · next hc =>
    cases h
    refine ⟨?_, by simp [serialize], rfl⟩
    simp only [WT, decide_eq_true_eq]
    omega

theorem sound_bitvector (len : Nat) : DecSound (.bitvector len) (deser (.bitvector len)) := by
  intro s scope v rest hs h
  simp only [deser] at h
  split at h
  · cases h
  · next hc =>
    have hsc : scope = (len + 7) / 8 := by simpa using hc
    split at h
    · cases h
    · next hc2 =>
      split at h
      · cases h
      · next hc3 =>
        cases h
        have hl : (s.take scope).length = scope := List.length_take_of_le hs
        have h0 : scope ≠ 0 := by
          intro h0; simp [h0] at hc2
        have hne : s.take scope ≠ [] := by
          intro hn; rw [hn] at hl; simp at hl; omega
        refine ⟨?_, ?_, rfl⟩
        · simp only [WT, List.length_take, bytesToBits_length, hl, beq_iff_eq]
          omega
        · simp only [serialize]
          apply bitvec_canon _ _ hne
          · rw [hl, hsc]
          · rw [hl]; omega

theorem sound_bitlist (lim : Nat) : DecSound (.bitlist lim) (deser (.bitlist lim)) := by
  intro s scope v rest hs h
  simp only [deser] at h
  split at h
  · cases h
  · next hc1 =>
    split at h
    · cases h
    · split at h
      · cases h
      · split at h
        · cases h
        · next hlast =>
          split at h
          · cases h
          · next hlim =>
            cases h
            have hl : (s.take scope).length = scope := List.length_take_of_le hs
            have hne : s.take scope ≠ [] := by
              intro hn; rw [hn] at hl; simp at hl; omega
            refine ⟨?_, ?_, rfl⟩
            · simp only [WT, List.length_take, decide_eq_true_eq]
              omega
            · simp only [serialize]
              have := bitlist_canon (s.take scope) hne hlast
              rw [hl] at this
              exact this

/-! ## helper loops -/

theorem fixedSection_map_true (f : Val → List UInt8) (vs : List Val) (off : Nat) :
    fixedSection (vs.map fun v => (true, f v)) off = (vs.map f).flatten := by
  induction vs with
  | nil => rfl
  | cons v vs ih => simp [fixedSection, ih]

theorem varSection_map_true (f : Val → List UInt8) (vs : List Val) :
    varSection (vs.map fun v => (true, f v)) = [] := by
  induction vs with
  | nil => rfl
  | cons v vs ih => simp [varSection, ih]

theorem fixedTotal_map_false (f : Val → List UInt8) (vs : List Val) :
    fixedTotal (vs.map fun v => (false, f v)) = 4 * vs.length := by
  induction vs with
  | nil => rfl
  | cons v vs ih => simp only [List.map_cons, fixedTotal, ih, List.length_cons]; omega

theorem deserFixedN_sound (t : Ty) (dec : Dec) (hd : DecSound t dec) (l : Nat) :
    ∀ (k : Nat) (s : Stream) (vs : List Val) (rest : Stream), k * l ≤ s.length →
      deserFixedN dec l k s = some (vs, rest) →
      vs.length = k ∧ vs.all (WT t) = true ∧
      (vs.map (serialize t)).flatten = s.take (k * l) ∧ rest = s.drop (k * l) := by
  intro k
  induction k with
  | zero =>
    intro s vs rest _ h
    simp only [deserFixedN] at h
    cases h
    simp
  | succ k ih =>
    intro s vs rest hs h
    simp only [deserFixedN] at h
    split at h
    · cases h
    · next v s1 hv =>
      split at h
      · cases h
      · next vs' s2 hvs =>
        cases h
        have hkl : (k + 1) * l = l + k * l := by rw [Nat.succ_mul]; omega
        obtain ⟨hw, hser, hs1⟩ := hd s l v s1 (by omega) hv
        subst hs1
        obtain ⟨hlen, hall, hflat, hrest⟩ :=
          ih (s.drop l) vs' _ (by rw [List.length_drop]; omega) hvs
        refine ⟨by simp [hlen], by simp [hw, hall], ?_, ?_⟩
        · rw [hkl, List.take_add, List.map_cons, List.flatten_cons, hser, hflat]
        · rw [hkl, hrest, List.drop_drop]

theorem readOffsets_succ (k : Nat) (s : Stream) :
    readOffsets (k + 1) s
      = (fromLE (s.take 4) :: (readOffsets k (s.drop 4)).1, (readOffsets k (s.drop 4)).2) := by
  rfl

theorem readOffsets_spec : ∀ (k : Nat) (s : Stream), 4 * k ≤ s.length →
    (readOffsets k s).2 = s.drop (4 * k) ∧ (readOffsets k s).1.length = k ∧
    ((readOffsets k s).1.map (toLE 4)).flatten = s.take (4 * k) := by
  intro k
  induction k with
  | zero => intro s _; simp [readOffsets]
  | succ k ih =>
    intro s hs
    obtain ⟨h1, h2, h3⟩ := ih (s.drop 4) (by rw [List.length_drop]; omega)
    have h4 : (s.take 4).length = 4 := List.length_take_of_le (by omega)
    have e : 4 * (k + 1) = 4 + 4 * k := by omega
    rw [readOffsets_succ]
    refine ⟨?_, by simp [h2], ?_⟩
    · simp only []
      rw [h1, e, List.drop_drop]
    · simp only [List.map_cons, List.flatten_cons]
      rw [h3, e, List.take_add]
      congr 1
      have := toLE_fromLE (s.take 4)
      rwa [h4] at this

/-- last element of the non-empty list `b :: l` -/
def lastB : Nat → List Nat → Nat
  | b, [] => b
  | _, c :: r => lastB c r

/-- `b :: l` without its last element -/
def initB : Nat → List Nat → List Nat
  | _, [] => []
  | b, c :: r => b :: initB c r

theorem lastB_append (b : Nat) (l : List Nat) (x : Nat) : lastB b (l ++ [x]) = x := by
  induction l generalizing b with
  | nil => rfl
  | cons c r ih => simp [lastB, ih]

theorem initB_append (b : Nat) (l : List Nat) (x : Nat) : initB b (l ++ [x]) = b :: l := by
  induction l generalizing b with
  | nil => rfl
  | cons c r ih => simp [initB, ih]

theorem deserVarN_mono (dec : Dec) (emin emax sc : Nat) :
    ∀ (bnds : List Nat) (b0 : Nat) (s : Stream) (vs : List Val) (rest : Stream),
      deserVarN dec emin emax sc (b0 :: bnds) s = some (vs, rest) → b0 ≤ lastB b0 bnds := by
  intro bnds
  induction bnds with
  | nil => intro b0 s vs rest _; simp [lastB]
  | cons stop r ih =>
    intro b0 s vs rest h
    simp only [deserVarN] at h
    split at h
    · cases h
    · split at h
      · cases h
      · split at h
        · cases h
        · split at h
          · cases h
          · next v s1 hv =>
            split at h
            · cases h
            · next vs' s2 hrec =>
              have := ih stop s1 vs' s2 hrec
              simp only [lastB]
              omega

theorem deserVarN_sound (t : Ty) (dec : Dec) (hd : DecSound t dec) (emin emax sc : Nat) :
    ∀ (bnds : List Nat) (b0 : Nat) (s : Stream) (vs : List Val) (rest : Stream),
      deserVarN dec emin emax sc (b0 :: bnds) s = some (vs, rest) →
      lastB b0 bnds - b0 ≤ s.length →
      vs.length = bnds.length ∧ vs.all (WT t) = true ∧
      fixedSection (vs.map fun v => (false, serialize t v)) b0
        = ((initB b0 bnds).map (toLE 4)).flatten ∧
      varSection (vs.map fun v => (false, serialize t v)) = s.take (lastB b0 bnds - b0) ∧
      rest = s.drop (lastB b0 bnds - b0) := by
  intro bnds
  induction bnds with
  | nil =>
    intro b0 s vs rest h _
    simp only [deserVarN] at h
    cases h
    simp [lastB, initB, fixedSection, varSection]
  | cons stop r ih =>
    intro b0 s vs rest h hs
    simp only [deserVarN] at h
    split at h
    · cases h
    · next hle =>
      split at h
      · cases h
      · split at h
        · cases h
        · split at h
          · cases h
          · next v s1 hv =>
            split at h
            · cases h
            · next vs' s2 hrec =>
              cases h
              have hm := deserVarN_mono dec emin emax sc r stop s1 vs' _ hrec
              simp only [lastB] at hs ⊢
              generalize hL : lastB stop r = L at hs hm ⊢
              obtain ⟨hw, hser, hs1⟩ := hd s (stop - b0) v s1 (by omega) hv
              subst hs1
              obtain ⟨hlen, hall, hfix, hvar, hrest⟩ :=
                ih stop (s.drop (stop - b0)) vs' _ hrec (by rw [hL, List.length_drop]; omega)
              rw [hL] at hvar hrest
              have hsl : (serialize t v).length = stop - b0 := by
                rw [hser]; exact List.length_take_of_le (by omega)
              have e : L - b0 = (stop - b0) + (L - stop) := by omega
              refine ⟨by simp [hlen], by simp [hw, hall], ?_, ?_, ?_⟩
              · simp only [List.map_cons, fixedSection, initB, List.flatten_cons, hsl]
                have : b0 + (stop - b0) = stop := by omega
                rw [this, hfix]
              · simp only [List.map_cons, varSection]
                rw [hser, hvar, e, List.take_add]
              · rw [hrest, e, List.drop_drop]

theorem deserSeqWith_var_eq (dec : Dec) (l emin emax : Nat) (vc : Nat → Bool) (s : Stream)
    (scope : Nat) (h0 : ¬ scope = 0) (first : Nat) (hfirst : fromLE (s.take 4) = first)
    (ro : List Nat × Stream) (hro : readOffsets (first / 4 - 1) (s.drop 4) = ro) :
    deserSeqWith dec false l emin emax vc s scope =
      if first > scope then none
      else if first % 4 != 0 then none
      else if !vc (first / 4) then none
      else if first / 4 = 0 then none
      else (deserVarN dec emin emax scope (first :: ro.1 ++ [scope]) ro.2).map
        fun (p : List Val × Stream) => (Val.seq p.1, p.2) := by
  subst hfirst hro
  simp [deserSeqWith, h0, readOffset]

theorem deserSeqWith_sound (t : Ty) (dec : Dec) (hd : DecSound t dec) (l emin emax : Nat)
    (validCount : Nat → Bool) (s : Stream) (scope : Nat) (v : Val) (rest : Stream)
    (hs : scope ≤ s.length)
    (h : deserSeqWith dec (isFixed t) l emin emax validCount s scope = some (v, rest)) :
    ∃ vs, v = .seq vs ∧ validCount vs.length = true ∧ vs.all (WT t) = true ∧
      interleave (vs.map fun v => (isFixed t, serialize t v)) = s.take scope ∧
      rest = s.drop scope := by
  cases hf : isFixed t with
  | true =>
    rw [hf] at h
    unfold deserSeqWith at h
    simp only [if_true] at h
    split at h
    · cases h
    · next hl0 =>
      split at h
      · cases h
      · next hmod =>
        have hmod' : scope % l = 0 := by simpa using hmod
        have hcl : scope / l * l = scope := by
          have := Nat.div_add_mod scope l
          rw [hmod', Nat.add_zero, Nat.mul_comm] at this
          exact this
        split at h
        · cases h
        · next hvc =>
          cases hdf : deserFixedN dec l (scope / l) s with
          | none => simp [hdf] at h
          | some p =>
            obtain ⟨vs, s'⟩ := p
            simp only [hdf, Option.map_some, Option.some.injEq, Prod.mk.injEq] at h
            obtain ⟨rfl, rfl⟩ := h
            obtain ⟨hlen, hall, hflat, hrest⟩ :=
              deserFixedN_sound t dec hd l (scope / l) s vs s' (by omega) hdf
            refine ⟨vs, rfl, ?_, hall, ?_, ?_⟩
            · rw [hlen]; simpa using hvc
            · simp only [interleave, fixedSection_map_true, varSection_map_true, List.append_nil]
              rw [hflat, hcl]
            · rw [hrest, hcl]
  | false =>
    rw [hf] at h
    by_cases h0 : scope = 0
    · subst h0
      simp only [deserSeqWith, Bool.false_eq_true, if_false, if_true] at h
      split at h
      · next hvc =>
        cases h
        exact ⟨[], rfl, hvc, rfl, by simp [interleave, fixedSection, varSection], by simp⟩
      · cases h
    · generalize hfirst : fromLE (s.take 4) = first
      generalize hro' : readOffsets (first / 4 - 1) (s.drop 4) = ro
      rw [deserSeqWith_var_eq dec l emin emax validCount s scope h0 first hfirst ro hro'] at h
      split at h
      · cases h
      · next hfs =>
        split at h
        · cases h
        · next hm4 =>
          split at h
          · cases h
          · next hvc =>
            split at h
            · cases h
            · next hc0 =>
              have hm4' : first % 4 = 0 := by simpa using hm4
              have hvc' : validCount (first / 4) = true := by simpa using hvc
              have hfs' : first ≤ scope := by omega
              have hro := readOffsets_spec (first / 4 - 1) (s.drop 4)
                (by rw [List.length_drop]; omega)
              rw [hro'] at hro
              obtain ⟨more, s2⟩ := ro
              obtain ⟨hs2, hmlen, hmflat⟩ := hro
              simp only [List.cons_append] at hs2 hmlen hmflat h
              cases hdv : deserVarN dec emin emax scope (first :: (more ++ [scope])) s2 with
              | none => simp [hdv] at h
              | some p =>
                obtain ⟨vs, s'⟩ := p
                simp only [hdv, Option.map_some, Option.some.injEq, Prod.mk.injEq] at h
                obtain ⟨rfl, rfl⟩ := h
                have e1 : 4 + 4 * (first / 4 - 1) = first := by omega
                have hs2' : s2 = s.drop first := by rw [hs2, List.drop_drop, e1]
                subst hs2'
                obtain ⟨hlen, hall, hfix, hvar, hrest⟩ :=
                  deserVarN_sound t dec hd emin emax scope (more ++ [scope]) first (s.drop first) vs s'
                    hdv (by rw [lastB_append, List.length_drop]; omega)
                rw [lastB_append] at hvar hrest
                rw [initB_append] at hfix
                have hvl : vs.length = first / 4 := by
                  rw [hlen, List.length_append, hmlen]; simp; omega
                have h4 : (s.take 4).length = 4 := List.length_take_of_le (by omega)
                have e2 : scope = first + (scope - first) := by omega
                refine ⟨vs, rfl, by rw [hvl]; exact hvc', hall, ?_, ?_⟩
                · simp only [interleave, fixedTotal_map_false]
                  have e3 : 4 * vs.length = first := by rw [hvl]; omega
                  rw [e3, hfix, hvar, List.map_cons, List.flatten_cons, hmflat]
                  have ht := toLE_fromLE (s.take 4)
                  rw [h4, hfirst] at ht
                  rw [ht, ← List.take_add, e1, ← List.take_add, ← e2]
                · rw [hrest, List.drop_drop, ← e2]

/-! ## vectors and lists -/

theorem sound_vector (et : Ty) (len : Nat) (hd : DecSound et (deser et)) :
    DecSound (.vector et len) (deser (.vector et len)) := by
  intro s scope v rest hs h
  simp only [deser] at h
  obtain ⟨vs, rfl, hvc, hall, hint, hrest⟩ :=
    deserSeqWith_sound et _ hd _ _ _ _ s scope v rest hs h
  refine ⟨?_, ?_, hrest⟩
  · simp only [WT, Bool.and_eq_true]
    exact ⟨hvc, hall⟩
  · simp only [serialize]; exact hint

theorem sound_list (et : Ty) (lim : Nat) (hd : DecSound et (deser et)) :
    DecSound (.list et lim) (deser (.list et lim)) := by
  intro s scope v rest hs h
  simp only [deser] at h
  obtain ⟨vs, rfl, hvc, hall, hint, hrest⟩ :=
    deserSeqWith_sound et _ hd _ _ _ _ s scope v rest hs h
  refine ⟨?_, ?_, hrest⟩
  · simp only [WT, Bool.and_eq_true]
    exact ⟨hvc, hall⟩
  · simp only [serialize]; exact hint

/-! ## containers -/

theorem deserFixedFields_sound : ∀ (fs : List Ty), (∀ t ∈ fs, DecSound t (deser t)) →
    allFixed fs = true →
    ∀ (s : Stream) (vs : List Val) (rest : Stream), fixedLenSum fs ≤ s.length →
      deserFixedFields fs s = some (vs, rest) →
      WTs fs vs = true ∧
      (∀ off, fixedSection (serializeFields fs vs) off = s.take (fixedLenSum fs)) ∧
      varSection (serializeFields fs vs) = [] ∧ rest = s.drop (fixedLenSum fs) := by
  intro fs
  induction fs with
  | nil =>
    intro _ _ s vs rest _ h
    simp only [deserFixedFields] at h
    cases h
    simp [WTs, serializeFields, fixedSection, varSection, fixedLenSum]
  | cons t ts ih =>
    intro hfs haf s vs rest hs h
    simp only [allFixed, Bool.and_eq_true] at haf
    simp only [fixedLenSum] at hs ⊢
    simp only [deserFixedFields] at h
    split at h
    · cases h
    · next v s1 hv =>
      split at h
      · cases h
      · next vs' s2 hrec =>
        cases h
        obtain ⟨hw, hser, hs1⟩ := hfs t (by simp) s (fixedLen t) v s1 (by omega) hv
        subst hs1
        obtain ⟨hws, hfix, hvar, hrest⟩ :=
          ih (fun t' ht' => hfs t' (by simp [ht'])) haf.2 (s.drop (fixedLen t)) vs' _
            (by rw [List.length_drop]; omega) hrec
        refine ⟨by simp [WTs, hw, hws], ?_, ?_, ?_⟩
        · intro off
          simp only [serializeFields, haf.1, fixedSection]
          rw [hfix, hser, List.take_add]
        · simp only [serializeFields, haf.1, varSection]
          exact hvar
        · rw [hrest, List.drop_drop]

/-- number of variable-size fields -/
def nvar : List Ty → Nat
  | [] => 0
  | t :: ts => (if isFixed t then 0 else 1) + nvar ts

theorem allFixed_of_nvar : ∀ (fs : List Ty), nvar fs = 0 → allFixed fs = true := by
  intro fs
  induction fs with
  | nil => intro _; rfl
  | cons t ts ih =>
    intro h
    simp only [nvar] at h
    cases hf : isFixed t with
    | true => simp only [hf, if_true, Nat.zero_add] at h; simp [allFixed, hf, ih h]
    | false => simp [hf] at h

theorem initB_length (b : Nat) (l : List Nat) : (initB b l).length = l.length := by
  induction l generalizing b with
  | nil => rfl
  | cons c r ih => simp [initB, ih]

theorem deserScan_offs_length : ∀ (fs : List Ty) (s : Stream) (slots : List (Option Val))
    (offs : List Nat) (s1 : Stream), deserScan fs s = some (slots, offs, s1) →
    offs.length = nvar fs := by
  intro fs
  induction fs with
  | nil =>
    intro s slots offs s1 h
    simp only [deserScan] at h
    cases h; rfl
  | cons t ts ih =>
    intro s slots offs s1 h
    cases hf : isFixed t with
    | true =>
      simp only [deserScan, hf, if_true] at h
      split at h
      · cases h
      · split at h
        · cases h
        · next slots' offs' s2 hrec =>
          cases h
          simp [nvar, hf, ih _ _ _ _ hrec]
    | false =>
      simp only [deserScan, hf, Bool.false_eq_true, if_false, readOffset] at h
      split at h
      · cases h
      · next slots' offs' s2 hrec =>
        cases h
        simp [nvar, hf, ih _ _ _ _ hrec]; omega

theorem deserScan_rest : ∀ (fs : List Ty), (∀ t ∈ fs, DecSound t (deser t)) →
    ∀ (s : Stream) (slots : List (Option Val)) (offs : List Nat) (s1 : Stream),
      fixedPartLen fs ≤ s.length → deserScan fs s = some (slots, offs, s1) →
      s1 = s.drop (fixedPartLen fs) := by
  intro fs
  induction fs with
  | nil =>
    intro _ s slots offs s1 _ h
    simp only [deserScan] at h
    cases h; simp [fixedPartLen]
  | cons t ts ih =>
    intro hfs s slots offs s1 hs h
    have hts : ∀ t' ∈ ts, DecSound t' (deser t') := fun t' ht' => hfs t' (by simp [ht'])
    cases hf : isFixed t with
    | true =>
      simp only [fixedPartLen, hf, if_true] at hs ⊢
      simp only [deserScan, hf, if_true] at h
      split at h
      · cases h
      · next v sA hv =>
        split at h
        · cases h
        · next slots' offs' s2 hrec =>
          cases h
          obtain ⟨_, _, hsA⟩ := hfs t (by simp) s (fixedLen t) v sA (by omega) hv
          subst hsA
          rw [ih hts _ _ _ _ (by rw [List.length_drop]; omega) hrec, List.drop_drop]
    | false =>
      simp only [fixedPartLen, hf, Bool.false_eq_true, if_false] at hs ⊢
      simp only [deserScan, hf, Bool.false_eq_true, if_false, readOffset] at h
      split at h
      · cases h
      · next slots' offs' s2 hrec =>
        cases h
        rw [ih hts _ _ _ _ (by rw [List.length_drop]; omega) hrec, List.drop_drop]

theorem deserDyn_mono (sc : Nat) : ∀ (fs : List Ty) (b0 : Nat) (bnds : List Nat) (d : Stream)
    (dyn : List Val) (d2 : Stream), bnds.length = nvar fs →
    deserDyn fs sc (b0 :: bnds) d = some (dyn, d2) → b0 ≤ lastB b0 bnds := by
  intro fs
  induction fs with
  | nil =>
    intro b0 bnds d dyn d2 hl _
    cases bnds with
    | nil => simp [lastB]
    | cons c r => simp [nvar] at hl
  | cons t ts ih =>
    intro b0 bnds d dyn d2 hl h
    cases hf : isFixed t with
    | true =>
      simp only [deserDyn, hf, if_true] at h
      simp only [nvar, hf, if_true, Nat.zero_add] at hl
      exact ih b0 bnds d dyn d2 hl h
    | false =>
      simp only [nvar, hf, Bool.false_eq_true, if_false] at hl
      cases bnds with
      | nil => simp at hl; omega
      | cons stop r =>
        simp only [deserDyn, hf, Bool.false_eq_true, if_false] at h
        split at h
        · cases h
        · split at h
          · cases h
          · split at h
            · cases h
            · split at h
              · cases h
              · split at h
                · cases h
                · next vs' s2 hrec =>
                  have := ih stop r _ vs' s2 (by simp at hl; omega) hrec
                  simp only [lastB]
                  omega

/-- both passes of `Container.deserialize` together -/
theorem container_var_sound (sc : Nat) : ∀ (fs : List Ty), (∀ t ∈ fs, DecSound t (deser t)) →
    ∀ (s : Stream) (slots : List (Option Val)) (offs : List Nat) (s1 : Stream) (b0 : Nat)
      (bnds : List Nat) (d : Stream) (dyn : List Val) (d2 : Stream),
      deserScan fs s = some (slots, offs, s1) →
      deserDyn fs sc (b0 :: bnds) d = some (dyn, d2) →
      offs = initB b0 bnds →
      fixedPartLen fs ≤ s.length →
      lastB b0 bnds - b0 ≤ d.length →
      WTs fs (mergeSlots slots dyn) = true ∧
      fixedSection (serializeFields fs (mergeSlots slots dyn)) b0 = s.take (fixedPartLen fs) ∧
      fixedTotal (serializeFields fs (mergeSlots slots dyn)) = fixedPartLen fs ∧
      varSection (serializeFields fs (mergeSlots slots dyn)) = d.take (lastB b0 bnds - b0) ∧
      d2 = d.drop (lastB b0 bnds - b0) := by
  intro fs
  induction fs with
  | nil =>
    intro _ s slots offs s1 b0 bnds d dyn d2 hscan hdyn hoffs _ _
    simp only [deserScan] at hscan
    simp only [deserDyn] at hdyn
    cases hscan; cases hdyn
    cases bnds with
    | cons c r => simp [initB] at hoffs
    | nil =>
      simp [mergeSlots, WTs, serializeFields, fixedSection, varSection, fixedTotal, fixedPartLen,
        lastB]
  | cons t ts ih =>
    intro hfs s slots offs s1 b0 bnds d dyn d2 hscan hdyn hoffs hs hd
    have hts : ∀ t' ∈ ts, DecSound t' (deser t') := fun t' ht' => hfs t' (by simp [ht'])
    cases hf : isFixed t with
    | true =>
      simp only [fixedPartLen, hf, if_true] at hs ⊢
      simp only [deserScan, hf, if_true] at hscan
      simp only [deserDyn, hf, if_true] at hdyn
      split at hscan
      · cases hscan
      · next v sA hv =>
        split at hscan
        · cases hscan
        · next slots' offs' s2 hrec =>
          cases hscan
          obtain ⟨hw, hser, hsA⟩ := hfs t (by simp) s (fixedLen t) v sA (by omega) hv
          subst hsA
          obtain ⟨hws, hfix, htot, hvar, hrest⟩ :=
            ih hts _ _ _ _ b0 bnds d dyn d2 hrec hdyn hoffs
              (by rw [List.length_drop]; omega) hd
          have hsl : (serialize t v).length = fixedLen t := by
            rw [hser]; exact List.length_take_of_le (by omega)
          refine ⟨by simp [mergeSlots, WTs, hw, hws], ?_, ?_, ?_, hrest⟩
          · simp only [mergeSlots, serializeFields, hf, fixedSection]
            rw [hfix, hser, List.take_add]
          · simp only [mergeSlots, serializeFields, hf, fixedTotal, hsl, htot]
          · simp only [mergeSlots, serializeFields, hf, varSection]
            exact hvar
    | false =>
      simp only [fixedPartLen, hf, Bool.false_eq_true, if_false] at hs ⊢
      simp only [deserScan, hf, Bool.false_eq_true, if_false, readOffset] at hscan
      split at hscan
      · cases hscan
      · next slots' offs' s2 hrec =>
        cases hscan
        cases bnds with
        | nil => simp [initB] at hoffs
        | cons stop r =>
          simp only [initB, List.cons.injEq] at hoffs
          obtain ⟨hb0, hoffs'⟩ := hoffs
          simp only [deserDyn, hf, Bool.false_eq_true, if_false] at hdyn
          split at hdyn
          · cases hdyn
          · next hle =>
            split at hdyn
            · cases hdyn
            · split at hdyn
              · cases hdyn
              · split at hdyn
                · cases hdyn
                · next v dA hv =>
                  split at hdyn
                  · cases hdyn
                  · next dyn' d2' hdrec =>
                    cases hdyn
                    have hrl : r.length = nvar ts := by
                      rw [← deserScan_offs_length _ _ _ _ _ hrec, hoffs', initB_length]
                    have hm := deserDyn_mono sc ts stop r dA dyn' _ hrl hdrec
                    simp only [lastB] at hd ⊢
                    obtain ⟨hw, hser, hdA⟩ := hfs t (by simp) d (stop - b0) v dA (by omega) hv
                    subst hdA
                    obtain ⟨hws, hfix, htot, hvar, hrest⟩ :=
                      ih hts _ _ _ _ stop r _ dyn' _ hrec hdrec hoffs'
                        (by rw [List.length_drop]; omega) (by rw [List.length_drop]; omega)
                    have hsl : (serialize t v).length = stop - b0 := by
                      rw [hser]; exact List.length_take_of_le (by omega)
                    have e : lastB stop r - b0 = (stop - b0) + (lastB stop r - stop) := by omega
                    have h4 : (s.take 4).length = 4 := List.length_take_of_le (by omega)
                    refine ⟨by simp [mergeSlots, WTs, hw, hws], ?_, ?_, ?_, ?_⟩
                    · simp only [mergeSlots, serializeFields, hf, fixedSection, hsl]
                      have e2 : b0 + (stop - b0) = stop := by omega
                      have ht := toLE_fromLE (s.take 4)
                      rw [h4, hb0] at ht
                      rw [e2, hfix, ht, List.take_add]
                    · simp only [mergeSlots, serializeFields, hf, fixedTotal, htot]
                    · simp only [mergeSlots, serializeFields, hf, varSection]
                      rw [hser, hvar, e, List.take_add]
                    · rw [hrest, e, List.drop_drop]

theorem sound_container (fs : List Ty) (hfs : ∀ t ∈ fs, DecSound t (deser t)) :
    DecSound (.container fs) (deser (.container fs)) := by
  intro s scope v rest hs h
  cases haf : allFixed fs with
  | true =>
    simp only [deser, haf, if_true] at h
    split at h
    · cases h
    · next hsc =>
      have hsc' : scope = fixedLenSum fs := by simpa using hsc
      subst hsc'
      cases hdf : deserFixedFields fs s with
      | none => simp [hdf] at h
      | some p =>
        obtain ⟨vs, s'⟩ := p
        simp only [hdf, Option.map_some, Option.some.injEq, Prod.mk.injEq] at h
        obtain ⟨rfl, rfl⟩ := h
        obtain ⟨hws, hfix, hvar, hrest⟩ := deserFixedFields_sound fs hfs haf s vs s' hs hdf
        refine ⟨by simpa [WT] using hws, ?_, hrest⟩
        simp only [serialize, interleave, hfix, hvar, List.append_nil]
  | false =>
    simp only [deser, haf, Bool.false_eq_true, if_false] at h
    split at h
    · cases h
    · next slots offs s1 hscan =>
      have hol := deserScan_offs_length _ _ _ _ _ hscan
      cases offs with
      | nil =>
        have := allFixed_of_nvar fs (by rw [← hol]; rfl)
        rw [haf] at this
        cases this
      | cons first offs' =>
        simp only [List.head?_cons] at h
        split at h
        · cases h
        · next hfirst =>
          have hfirst' : first = fixedPartLen fs := by simpa using hfirst
          rw [List.cons_append] at h
          split at h
          · cases h
          · next dyn s2 hdyn =>
            cases h
            have hm := deserDyn_mono scope fs first (offs' ++ [scope]) s1 dyn _
              (by rw [← hol]; simp) hdyn
            rw [lastB_append] at hm
            have hs1 := deserScan_rest fs hfs s slots _ s1 (by omega) hscan
            subst hs1
            obtain ⟨hws, hfix, htot, hvar, hrest⟩ :=
              container_var_sound scope fs hfs s slots _ _ first (offs' ++ [scope]) _ dyn _ hscan hdyn
                (by rw [initB_append]) (by omega)
                (by rw [lastB_append, List.length_drop]; omega)
            rw [lastB_append] at hvar hrest
            have e : scope = first + (scope - first) := by omega
            refine ⟨by simpa [WT] using hws, ?_, ?_⟩
            · simp only [serialize, interleave, htot]
              rw [← hfirst', hfix, hvar, ← hfirst', ← List.take_add, ← e]
            · rw [hrest, ← hfirst', List.drop_drop, ← e]

/-! ## unions -/

theorem deserOpt_sound : ∀ (opts : List Ty), (∀ t ∈ opts, DecSound t (deser t)) →
    ∀ (k : Nat) (s : Stream) (scope : Nat) (v : Val) (rest : Stream), scope ≤ s.length →
      deserOpt opts k s scope = some (v, rest) →
      WTopt opts k v = true ∧ serializeOpt opts k v = s.take scope ∧ rest = s.drop scope := by
  intro opts
  induction opts with
  | nil =>
    intro _ k s scope v rest _ h
    simp [deserOpt] at h
  | cons t ts ih =>
    intro hfs k s scope v rest hs h
    cases k with
    | zero =>
      simp only [deserOpt] at h
      simpa only [WTopt, serializeOpt] using hfs t (by simp) s scope v rest hs h
    | succ k =>
      simp only [deserOpt] at h
      simpa only [WTopt, serializeOpt] using
        ih (fun t' ht' => hfs t' (by simp [ht'])) k s scope v rest hs h

theorem deser_union_eq (hasNone : Bool) (opts : List Ty) (b : UInt8) (s' : Stream) (scope : Nat)
    (h1 : ¬ scope < 1) (sel : Nat) (hsel : b.toNat = sel) :
    deser (.union hasNone opts) (b :: s') scope =
      if sel ≥ optCount hasNone opts then none
      else if (hasNone && sel == 0) = true then
        (if scope != 1 then none else some (.un 0 .none, s'))
      else (deserOpt opts (optIndex hasNone sel) s' (scope - 1)).map
        fun (p : Val × Stream) => (Val.un sel p.1, p.2) := by
  subst hsel
  simp [deser, h1]

theorem sound_union (hasNone : Bool) (opts : List Ty) (hfs : ∀ t ∈ opts, DecSound t (deser t)) :
    DecSound (.union hasNone opts) (deser (.union hasNone opts)) := by
  intro s scope v rest hs h
  by_cases h1 : scope < 1
  · simp [deser, h1] at h
  · cases s with
    | nil => simp at hs; omega
    | cons b s' =>
      generalize hsel : b.toNat = sel
      have hb : b = UInt8.ofNat sel := by rw [← hsel, UInt8.ofNat_toNat]
      rw [deser_union_eq hasNone opts b s' scope h1 sel hsel] at h
      obtain ⟨k, rfl⟩ : ∃ k, scope = k + 1 := ⟨scope - 1, by omega⟩
      simp only [List.length_cons, Nat.add_le_add_iff_right] at hs
      simp only [List.take_succ_cons, List.drop_succ_cons, Nat.add_sub_cancel] at h ⊢
      split at h
      · cases h
      · split at h
        · next hc =>
          split at h
          · cases h
          · next hk =>
            cases h
            have hk' : k = 0 := by simpa using hk
            subst hk'
            simp only [Bool.and_eq_true, beq_iff_eq] at hc
            obtain ⟨hN, h0⟩ := hc
            subst hN h0
            refine ⟨by simp [WT], ?_, by simp⟩
            simp [serialize, hb]
        · next hc =>
          cases hdo : deserOpt opts (optIndex hasNone sel) s' k with
          | none => simp [hdo] at h
          | some p =>
            obtain ⟨v', s2⟩ := p
            simp only [hdo, Option.map_some, Option.some.injEq, Prod.mk.injEq] at h
            obtain ⟨rfl, rfl⟩ := h
            obtain ⟨hw, hser, hrest⟩ := deserOpt_sound opts hfs _ s' k v' s2 hs hdo
            refine ⟨?_, ?_, hrest⟩
            · simp only [WT, hc, Bool.false_eq_true, if_false]
              exact hw
            · simp only [serialize, hc, Bool.false_eq_true, if_false, hser, hb]

/-! ## the main theorem -/

mutual
theorem sound_all : (t : Ty) → DecSound t (deser t)
  | .uint nb => sound_uint nb
  | .bool => sound_bool
  | .bitvector n => sound_bitvector n
  | .bitlist lim => sound_bitlist lim
  | .bytevector n => sound_bytevector n
  | .bytelist lim => sound_bytelist lim
  | .vector et n => sound_vector et n (sound_all et)
  | .list et lim => sound_list et lim (sound_all et)
  | .container fs => sound_container fs (sound_all_list fs)
  | .union hasNone opts => sound_union hasNone opts (sound_all_list opts)
theorem sound_all_list : (fs : List Ty) → ∀ t ∈ fs, DecSound t (deser t)
  | [] => fun _ h => nomatch h
  | t :: ts => fun t' h =>
    match List.mem_cons.1 h with
    | .inl e => e ▸ sound_all t
    | .inr h' => sound_all_list ts t' h'
end

/-- **C09/C10.**  Whenever decoding succeeds the result is a valid value of the type, re-encoding
    reproduces exactly the consumed input bytes, and exactly `scope` bytes are consumed.
    (The well-formedness hypothesis is not needed by the proof: see `sound_all`.) -/
theorem sound (t : Ty) (_hwf : t.wf = true) (s : Stream) (scope : Nat) (v : Val) (rest : Stream)
    (hs : scope ≤ s.length) (h : Impl.deser t s scope = some (v, rest)) :
    WT t v = true ∧ Spec.serialize t v = s.take scope ∧ rest = s.drop scope :=
  sound_all t s scope v rest hs h

theorem decode_bytes_sound (t : Ty) (hwf : t.wf = true) (b : List UInt8) (v : Val) (rest : Stream)
    (h : Impl.deser t b b.length = some (v, rest)) :
    WT t v = true ∧ Spec.serialize t v = b ∧ rest = [] := by
  obtain ⟨h1, h2, h3⟩ := sound t hwf b b.length v rest (Nat.le_refl _) h
  refine ⟨h1, ?_, ?_⟩
  · rw [h2, List.take_length]
  · rw [h3, List.drop_length]

/-- no two distinct byte strings decode to the same value -/
theorem injective (t : Ty) (hwf : t.wf = true) (b1 b2 : List UInt8) (v : Val) (r1 r2 : Stream)
    (h1 : Impl.deser t b1 b1.length = some (v, r1))
    (h2 : Impl.deser t b2 b2.length = some (v, r2)) : b1 = b2 := by
  rw [← (decode_bytes_sound t hwf b1 v r1 h1).2.1, ← (decode_bytes_sound t hwf b2 v r2 h2).2.1]

end Rmk.DecodeSound
