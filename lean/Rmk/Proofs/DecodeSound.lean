/-
Decoding accepts only canonical encodings and yields well-typed values (properties C09/C10).

Main results (namespace `Rmk.DecodeSound`):
* `sound`              : `deser t s scope = some (v, rest)` with `scope ≤ s.length` implies
                         `WT t v`, `serialize t v = s.take scope`, `rest = s.drop scope`
* `decode_bytes_sound` : whole-buffer corollary
* `injective`          : two byte strings decoding to the same value are equal
-/
import Rmk.Impl.Codec
import Rmk.Proofs.BytesLemmas
import Rmk.Proofs.Sizes
namespace Rmk.DecodeSound
open Rmk Rmk.Impl Rmk.Spec

/-! ## bit-level facts -/

theorem natToBits_snoc (k n : Nat) :
    natToBits (k + 1) n = natToBits k n ++ [(n / 2 ^ k) % 2 == 1] := by
  induction k generalizing n with
  | zero => simp [natToBits]
  | succ k ih =>
    rw [natToBits_succ, ih (n / 2), natToBits_succ, Nat.div_div_eq_div_mul, Nat.pow_succ,
      Nat.mul_comm 2 (2 ^ k)]
    rfl

theorem natToBits_of_lt (j k n : Nat) (h : n < 2 ^ j) (hjk : j ≤ k) :
    natToBits k n = natToBits j n ++ List.replicate (k - j) false := by
  have h1 := natToBits_bitsToNat_of_le k (natToBits j n) (by simp [hjk])
  rw [bitsToNat_natToBits_of_lt j n h, natToBits_length] at h1
  exact h1

theorem lt_two_pow_bitLength (n : Nat) : n < 2 ^ bitLength n := by
  unfold bitLength
  split
  · next h => subst h; simp
  · exact Nat.lt_log2_self

theorem bitLength_le_eight (b : UInt8) : bitLength b.toNat ≤ 8 := by
  unfold bitLength
  split
  · omega
  · next h =>
    have := (Nat.log2_lt h (k := 8)).2 (UInt8.toNat_lt b)
    omega

/-- the top bit: for `n ≠ 0`, bit `bitLength n - 1` is set -/
theorem top_bit (n : Nat) (h : n ≠ 0) : (n / 2 ^ (bitLength n - 1)) % 2 = 1 := by
  have hb : bitLength n = Nat.log2 n + 1 := by simp [bitLength, h]
  rw [hb, Nat.add_sub_cancel]
  have h1 := Nat.log2_self_le h
  have h2 := @Nat.lt_log2_self n
  have h3 : n / 2 ^ n.log2 = 1 := by
    apply Nat.div_eq_of_lt_le
    · simpa using h1
    · rw [Nat.pow_succ] at h2; omega
  rw [h3]

/-- a byte string whose bits are `pre` followed by fewer than 8 zero bits is the packing of `pre` -/
theorem canon_of_pad (bs : List UInt8) (pre : List Bool) (k : Nat)
    (h : bytesToBits bs = pre ++ List.replicate k false) (hk : k < 8) : bitsToBytes pre = bs := by
  have hl : 8 * bs.length = pre.length + k := by
    have := congrArg List.length h
    simpa using this
  have h1 := bytesToBits_bitsToBytes_eq pre
  have h2 : 8 * ((pre.length + 7) / 8) - pre.length = k := by omega
  rw [h2, ← h] at h1
  have h3 := congrArg bitsToBytes h1
  rwa [bitsToBytes_bytesToBits, bitsToBytes_bytesToBits] at h3

/-- cutting inside a zero tail leaves a zero tail -/
theorem take_append_replicate (X : List Bool) (m len : Nat) (h1 : X.length ≤ len)
    (h2 : len ≤ X.length + m) :
    X ++ List.replicate m false
      = (X ++ List.replicate m false).take len ++ List.replicate (X.length + m - len) false := by
  obtain ⟨d, rfl⟩ : ∃ d, len = X.length + d := ⟨len - X.length, by omega⟩
  rw [List.take_length_add_append, List.take_replicate, List.append_assoc,
    List.replicate_append_replicate]
  congr 2
  omega

theorem bytes_split_last (bs : List UInt8) (hne : bs ≠ []) :
    bs = bs.dropLast ++ [bs.getLastD 0] := by
  have h := (List.dropLast_concat_getLast hne).symm
  rw [List.getLast_eq_getLastD 0] at h
  exact h

/-- bitvector: padding bits zero ⇒ canonical -/
theorem bitvec_canon (bs : List UInt8) (len : Nat) (hne : bs ≠ [])
    (hlen : (len + 7) / 8 = bs.length)
    (hpad : (bs.length - 1) * 8 + bitLength (bs.getLastD 0).toNat ≤ len) :
    bitsToBytes ((bytesToBits bs).take len) = bs := by
  have hs := bytes_split_last bs hne
  generalize hlast : bs.getLastD 0 = last at hs hpad
  generalize hinit : bs.dropLast = init at hs
  have hbl : bs.length = init.length + 1 := by rw [hs]; simp
  have hj := bitLength_le_eight last
  have hlt := lt_two_pow_bitLength last.toNat
  generalize hjdef : bitLength last.toNat = j at hj hlt hpad
  have hbits : bytesToBits bs
      = (bytesToBits init ++ natToBits j last.toNat) ++ List.replicate (8 - j) false := by
    rw [hs, bytesToBits_append, bytesToBits_cons, bytesToBits_nil, List.append_nil,
      natToBits_of_lt j 8 _ hlt hj, List.append_assoc]
  have hX : (bytesToBits init ++ natToBits j last.toNat).length = 8 * init.length + j := by simp
  apply canon_of_pad bs _ (8 * bs.length - len)
  · rw [hbits]
    have := take_append_replicate (bytesToBits init ++ natToBits j last.toNat) (8 - j) len
      (by rw [hX]; omega) (by rw [hX]; omega)
    rw [hX] at this
    have e : 8 * init.length + j + (8 - j) - len = 8 * bs.length - len := by omega
    rw [e] at this
    exact this
  · omega

/-- bitlist: the highest set bit of the last byte is the delimiter -/
theorem bitlist_canon (bs : List UInt8) (hne : bs ≠ [])
    (hlast : (bs.getLastD 0).toNat ≠ 0) :
    bitsToBytes ((bytesToBits bs).take
      ((bs.length - 1) * 8 + (bitLength (bs.getLastD 0).toNat - 1)) ++ [true]) = bs := by
  have hs := bytes_split_last bs hne
  generalize hl : bs.getLastD 0 = last at hs hlast
  generalize hinit : bs.dropLast = init at hs
  have hbl : bs.length = init.length + 1 := by rw [hs]; simp
  have hj := bitLength_le_eight last
  have hlt := lt_two_pow_bitLength last.toNat
  have htop := top_bit last.toNat hlast
  have hjpos : 0 < bitLength last.toNat := by
    unfold bitLength; simp [hlast]
  generalize hjdef : bitLength last.toNat = j at hj hlt htop hjpos
  obtain ⟨i, rfl⟩ : ∃ i, j = i + 1 := ⟨j - 1, by omega⟩
  simp only [Nat.add_sub_cancel] at htop ⊢
  have hbits : bytesToBits bs
      = ((bytesToBits init ++ natToBits i last.toNat) ++ [true]) ++ List.replicate (8 - (i + 1)) false := by
    rw [hs, bytesToBits_append, bytesToBits_cons, bytesToBits_nil, List.append_nil,
      natToBits_of_lt (i + 1) 8 _ hlt hj, natToBits_snoc, htop]
    simp
  have hX : (bytesToBits init ++ natToBits i last.toNat).length = (bs.length - 1) * 8 + i := by
    simp; omega
  apply canon_of_pad bs _ (8 - (i + 1))
  · rw [hbits]
    congr 2
    rw [← hX, List.append_assoc, List.append_assoc, List.take_left]
  · omega

end Rmk.DecodeSound
