/-
C12: default trees are the SSZ zero values.
`Impl.defaultNode H t` exists for every well-formed type, its root is `htr` of `Spec.zeroVal t`,
the zero value is well typed, and reading the default tree back through the view API gives the zero
value (the fixed structure is navigable).
-/
import Rmk.Impl.Layout
import Rmk.Impl.View
import Rmk.Proofs.BytesLemmas
import Rmk.Proofs.Merkle
import Rmk.Proofs.Gindex
import Rmk.Proofs.PathGindex
import Rmk.Proofs.ConstructRoot
namespace Rmk.DefaultNode
open Rmk Rmk.Impl Rmk.Spec

/-! ## all-zero data packs to zero chunks -/

theorem toLE_zero (k : Nat) : toLE k 0 = zeros k := by
  induction k with
  | zero => rfl
  | succ k ih => rw [toLE_succ, zeros_succ]; simp [ih]

theorem fromLE_zeros (k : Nat) : fromLE (zeros k) = 0 := by
  induction k with
  | zero => rfl
  | succ k ih => rw [zeros_succ, fromLE_cons, ih]; rfl

theorem take_zeros (m n : Nat) : (zeros n).take m = zeros (min m n) := by
  simp [zeros, List.take_replicate]

theorem drop_zeros (m n : Nat) : (zeros n).drop m = zeros (n - m) := by
  simp [zeros, List.drop_replicate]

theorem zeros_ne_nil {n : Nat} (h : 0 < n) : zeros n ≠ [] := by
  intro he
  have := congrArg List.length he
  simp at this; omega

theorem padRight_zeros (m n : Nat) (h : m ≤ n) : padRight (zeros m) n = zeros n := by
  simp only [padRight, zeros_length, ← zeros_add]
  congr 1; omega

/-- `bytesToChunks (zeros n)` is a list of zero chunks -/
theorem bytesToChunks_zeros (n : Nat) :
    bytesToChunks (zeros n) = List.replicate ((n + 31) / 32) zeroChunk := by
  induction n using Nat.strongRecOn with
  | _ n ih =>
    by_cases hn : n = 0
    · subst hn; rfl
    · rw [bytesToChunks_of_ne_nil (zeros_ne_nil (by omega)), take_zeros, drop_zeros,
        padRight_zeros _ _ (by omega), ih (n - 32) (by omega)]
      have : (n + 31) / 32 = (n - 32 + 31) / 32 + 1 := by omega
      rw [this, List.replicate_succ]
      rfl

theorem replicate_false_ne_nil {n : Nat} (h : 0 < n) : List.replicate n false ≠ [] := by
  intro he
  have := congrArg List.length he
  simp at this; omega

theorem bitsToNat_replicate_false (n : Nat) : bitsToNat (List.replicate n false) = 0 := by
  induction n with
  | zero => rfl
  | succ n ih => simp [List.replicate_succ, ih]

/-- `bitsToBytes` of all-false bits is all-zero bytes -/
theorem bitsToBytes_replicate_false (n : Nat) :
    bitsToBytes (List.replicate n false) = zeros ((n + 7) / 8) := by
  induction n using Nat.strongRecOn with
  | _ n ih =>
    by_cases hn : n = 0
    · subst hn; rfl
    · rw [bitsToBytes_of_ne_nil (replicate_false_ne_nil (by omega)), List.take_replicate,
        List.drop_replicate, bitsToNat_replicate_false, ih (n - 8) (by omega)]
      have : (n + 7) / 8 = (n - 8 + 7) / 8 + 1 := by omega
      rw [this, zeros_succ]
      rfl

/-- the packed chunks of an all-false bitfield are zero chunks -/
theorem pack_bits_zero (n : Nat) :
    pack (bitsToBytes (List.replicate n false)) = List.replicate ((n + 255) / 256) zeroChunk := by
  rw [pack, bitsToBytes_replicate_false, bytesToChunks_zeros]
  congr 1; omega

theorem pack_zeros (n : Nat) : pack (zeros n) = List.replicate ((n + 31) / 32) zeroChunk :=
  bytesToChunks_zeros n

/-- `merkleize` of `k` zero chunks is the zero hash -/
theorem merkleize_replicate_zero (H : Hash) (k d : Nat) (h : k ≤ 2 ^ d) :
    merkleize H (List.replicate k zeroChunk) d = zeroHash H d := by
  have := merkleize_append_zero H [] k d (by simpa using h)
  rw [List.nil_append] at this
  rw [this, merkleize_nil]

theorem toLE32_zero : toLE 32 0 = zeroChunk := toLE_zero 32

theorem mixIn_zero (H : Hash) (c : Chunk) : mixIn H c 0 = H c zeroChunk := by
  rw [mixIn, toLE32_zero]


/-! ## 3. the zero value is well typed -/

theorem union_wf_opts (hasNone : Bool) (opts : List Ty)
    (h : (Ty.union hasNone opts).wf = true) : opts ≠ [] ∧ Ty.wfList opts = true := by
  simp [Ty.wf, optCount] at h
  refine ⟨?_, h.2⟩
  intro he
  subst he
  cases hasNone <;> simp at h

mutual
theorem zeroVal_wt (t : Ty) (hwf : t.wf = true) : WT t (zeroVal t) = true := by
  cases t with
  | uint nb => simp [zeroVal, WT, Nat.pow_pos]
  | bool => simp [zeroVal, WT]
  | bitvector n => simp [zeroVal, WT]
  | bitlist lim => simp [zeroVal, WT]
  | bytevector n => simp [zeroVal, WT]
  | bytelist lim => simp [zeroVal, WT]
  | vector t n =>
    simp [Ty.wf] at hwf
    have ih := zeroVal_wt t hwf.2
    simp [zeroVal, WT, ih]
  | list t lim => simp [zeroVal, WT]
  | container fs =>
    simp [Ty.wf] at hwf
    simpa [zeroVal, WT] using zeroVals_wt fs hwf.2
  | union hasNone opts =>
    have hw := union_wf_opts hasNone opts hwf
    cases hasNone with
    | true => simp [zeroVal, WT]
    | false =>
      have ih := zeroValHead_wt opts hw.2 hw.1
      simpa [zeroVal, WT, optIndex] using ih

theorem zeroVals_wt (fs : List Ty) (hwf : Ty.wfList fs = true) : WTs fs (zeroVals fs) = true := by
  cases fs with
  | nil => simp [zeroVals, WTs]
  | cons t ts =>
    simp [Ty.wfList] at hwf
    simp [zeroVals, WTs, zeroVal_wt t hwf.1, zeroVals_wt ts hwf.2]

theorem zeroValHead_wt (opts : List Ty) (hwf : Ty.wfList opts = true) (hne : opts ≠ []) :
    WTopt opts 0 (zeroValHead opts) = true := by
  cases opts with
  | nil => exact absurd rfl hne
  | cons t ts =>
    simp [Ty.wfList] at hwf
    simp [zeroValHead, WTopt, zeroVal_wt t hwf.1]
end

/-! ## 1. the default node exists -/

theorem defaultNodes_length (H : Hash) (fs : List Ty) (ns : List Node)
    (h : defaultNodes H fs = some ns) : ns.length = fs.length := by
  induction fs generalizing ns with
  | nil => simp [defaultNodes] at h; subst h; rfl
  | cons t ts ih =>
    rw [defaultNodes] at h
    split at h
    · next n ns' h1 h2 => cases h; simp [ih ns' h2]
    · cases h

theorem fillToLength_getDepth_isSome (H : Hash) (bottom : Node) (len : Nat) :
    (fillToLength H bottom (getDepth len) len).isSome = true :=
  (fillToLength_isSome_iff H bottom _ len).2 (two_pow_getDepth len)

mutual
theorem default_isSome (H : Hash) (t : Ty) (hwf : t.wf = true) :
    (defaultNode H t).isSome = true := by
  cases t with
  | uint nb => simp [defaultNode]
  | bool => simp [defaultNode]
  | bitvector n => simp only [defaultNode]; exact fillToLength_getDepth_isSome H _ _
  | bitlist lim => simp [defaultNode]
  | bytevector n => simp only [defaultNode]; exact fillToLength_getDepth_isSome H _ _
  | bytelist lim => simp [defaultNode]
  | vector t n =>
    simp [Ty.wf] at hwf
    have ih := default_isSome H t hwf.2
    simp only [defaultNode]
    split
    · exact fillToLength_getDepth_isSome H _ _
    · obtain ⟨e, he⟩ := Option.isSome_iff_exists.1 ih
      simp only [he]
      exact fillToLength_getDepth_isSome H _ _
  | list t lim => simp [defaultNode]
  | container fs =>
    simp [Ty.wf] at hwf
    obtain ⟨ns, hns⟩ := Option.isSome_iff_exists.1 (defaultNodes_isSome H fs hwf.2)
    simp only [defaultNode, hns]
    rw [fillToContents_isSome_iff, defaultNodes_length H fs ns hns]
    exact two_pow_getDepth _
  | union hasNone opts =>
    have hw := union_wf_opts hasNone opts hwf
    cases hasNone with
    | true => simp [defaultNode]
    | false =>
      obtain ⟨c, hc⟩ := Option.isSome_iff_exists.1 (defaultNodeHead_isSome H opts hw.2 hw.1)
      simp [defaultNode, hc]

theorem defaultNodes_isSome (H : Hash) (fs : List Ty) (hwf : Ty.wfList fs = true) :
    (defaultNodes H fs).isSome = true := by
  cases fs with
  | nil => simp [defaultNodes]
  | cons t ts =>
    simp [Ty.wfList] at hwf
    obtain ⟨n, hn⟩ := Option.isSome_iff_exists.1 (default_isSome H t hwf.1)
    obtain ⟨ns, hns⟩ := Option.isSome_iff_exists.1 (defaultNodes_isSome H ts hwf.2)
    simp [defaultNodes, hn, hns]

theorem defaultNodeHead_isSome (H : Hash) (opts : List Ty) (hwf : Ty.wfList opts = true)
    (hne : opts ≠ []) : (defaultNodeHead H opts).isSome = true := by
  cases opts with
  | nil => exact absurd rfl hne
  | cons t ts =>
    simp [Ty.wfList] at hwf
    simpa [defaultNodeHead] using default_isSome H t hwf.1
end


/-! ## 2. the root of the default node is the hash tree root of the zero value -/

theorem flatMap_replicate_zeros {α} (f : α → List UInt8) (x : α) (k n : Nat) (h : f x = zeros k) :
    (List.replicate n x).flatMap f = zeros (n * k) := by
  induction n with
  | zero => simp
  | succ n ih =>
    rw [List.replicate_succ, List.flatMap_cons, ih, h, Nat.succ_mul, Nat.add_comm, zeros_add]

/-- the serialization of the zero value of a basic type is all zero bytes -/
theorem serialize_zero_basic (et : Ty) (hb : et.isBasic = true) :
    serialize et (zeroVal et) = zeros et.basicSize := by
  cases et <;> simp [Ty.isBasic] at hb
  · simp [zeroVal, serialize, Ty.basicSize]
  · rfl

theorem zeroNode_root (H : Hash) (d : Nat) : (zeroNode H d).root H = zeroHash H d := rfl

theorem defaultNodes_root_aux (H : Hash) (t : Ty) (n : Node) (ns : List Node) (ts : List Ty)
    (h1 : n.root H = htr H t (zeroVal t))
    (h2 : ns.map (·.root H) = htrFields H ts (zeroVals ts)) :
    (n :: ns).map (·.root H) = htrFields H (t :: ts) (zeroVals (t :: ts)) := by
  simp only [zeroVals, htrFields, List.map_cons, h1, h2]

mutual
theorem default_root (H : Hash) (t : Ty) (hwf : t.wf = true) (n : Node)
    (h : defaultNode H t = some n) : n.root H = htr H t (zeroVal t) := by
  cases t with
  | uint nb =>
    simp [Ty.wf] at hwf
    simp only [defaultNode, Option.some.injEq] at h
    subst h
    simp only [zeroVal, htr, toLE_zero]
    rw [padRight_zeros _ _ (by omega)]
    rfl
  | bool =>
    simp only [defaultNode, Option.some.injEq] at h
    subst h
    rfl
  | bitvector len =>
    simp only [defaultNode] at h
    rw [fillToLength_some_root H _ _ _ _ h]
    simp only [zeroVal, htr, pack_bits_zero, depthFor, zeroNode_root, zeroHash]
  | bitlist lim =>
    simp only [defaultNode, Option.some.injEq] at h
    subst h
    simp only [zeroVal, htr, List.length_nil, mixIn_zero, depthFor]
    show H (zeroHash H _) zeroChunk = H (merkleize H [] _) zeroChunk
    rw [merkleize_nil]
  | bytevector len =>
    simp only [defaultNode] at h
    rw [fillToLength_some_root H _ _ _ _ h]
    simp only [zeroVal, htr, pack_zeros, depthFor, zeroNode_root, zeroHash]
  | bytelist lim =>
    simp only [defaultNode, Option.some.injEq] at h
    subst h
    simp only [zeroVal, htr, List.length_nil, mixIn_zero, depthFor]
    show H (zeroHash H _) zeroChunk = H (merkleize H [] _) zeroChunk
    rw [merkleize_nil]
  | vector et len =>
    simp [Ty.wf] at hwf
    simp only [defaultNode] at h
    by_cases hb : et.isBasic = true
    · simp only [hb, if_true] at h
      rw [fillToLength_some_root H _ _ _ _ h]
      simp only [zeroVal, htr, hb, if_true, depthFor, zeroNode_root, zeroHash]
      rw [flatMap_replicate_zeros _ _ _ _ (serialize_zero_basic et hb), pack_zeros,
        chunkLen_eq_chunkCount et len hwf.2]
      simp only [hb, if_true]
    · rw [if_neg hb] at h
      split at h
      · next e he =>
        have ih := default_root H et hwf.2 e he
        rw [fillToLength_some_root H _ _ _ _ h]
        simp only [zeroVal, htr, hb, depthFor, List.map_replicate, ih]
        simp
      · cases h
  | list et lim =>
    simp only [defaultNode, Option.some.injEq] at h
    subst h
    rw [chunkLen_eq_chunkCount et lim hwf]
    by_cases hb : et.isBasic = true
    · simp only [zeroVal, htr, hb, if_true, List.length_nil, mixIn_zero, depthFor,
        List.flatMap_nil]
      show H (zeroHash H _) zeroChunk = H (merkleize H [] _) zeroChunk
      rw [merkleize_nil]
    · simp only [zeroVal, htr, hb, List.length_nil, mixIn_zero, depthFor, List.map_nil]
      show H (zeroHash H _) zeroChunk = H (merkleize H [] _) zeroChunk
      rw [merkleize_nil]
      simp
  | container fs =>
    simp [Ty.wf] at hwf
    simp only [defaultNode] at h
    split at h
    · next ns hns =>
      rw [fillToContents_some_root H _ _ _ h, defaultNodes_root H fs hwf.2 ns hns]
      simp only [zeroVal, htr, depthFor]
    · cases h
  | union hasNone opts =>
    have hw := union_wf_opts hasNone opts hwf
    cases hasNone with
    | true =>
      simp only [defaultNode, Option.some.injEq] at h
      subst h
      simp [zeroVal, htr, mixIn_zero, Node.root, zeroHash]
    | false =>
      simp only [defaultNode] at h
      split at h
      · next c hc =>
        simp only [Option.some.injEq] at h
        subst h
        have ih := defaultNodeHead_root H opts hw.2 c hc
        simp [zeroVal, htr, mixIn_zero, Node.root, zeroHash, optIndex, ih]
      · cases h

theorem defaultNodes_root (H : Hash) (fs : List Ty) (hwf : Ty.wfList fs = true) (ns : List Node)
    (h : defaultNodes H fs = some ns) :
    ns.map (·.root H) = htrFields H fs (zeroVals fs) := by
  cases fs with
  | nil =>
    simp only [defaultNodes, Option.some.injEq] at h
    subst h
    rfl
  | cons t ts =>
    simp [Ty.wfList] at hwf
    rw [defaultNodes] at h
    split at h
    · next n ns' h1 h2 =>
      cases h
      exact defaultNodes_root_aux H t n ns' ts (default_root H t hwf.1 n h1)
        (defaultNodes_root H ts hwf.2 ns' h2)
    · cases h

theorem defaultNodeHead_root (H : Hash) (opts : List Ty) (hwf : Ty.wfList opts = true) (c : Node)
    (h : defaultNodeHead H opts = some c) :
    c.root H = htrOpt H opts 0 (zeroValHead opts) := by
  cases opts with
  | nil => simp [defaultNodeHead] at h
  | cons t ts =>
    simp [Ty.wfList] at hwf
    simp only [defaultNodeHead] at h
    simp only [zeroValHead, htrOpt]
    exact default_root H t hwf.1 c h
end


/-! ## 5. navigation in the fixed structure -/

theorem pbits_succ_lt (d i : Nat) (h : i < 2 ^ d) : pbits (d + 1) i = false :: pbits d i := by
  rw [pbits, Nat.div_eq_of_lt h]; rfl

theorem pbits_succ_ge (d i : Nat) (h1 : 2 ^ d ≤ i) (h2 : i < 2 ^ (d + 1)) :
    pbits (d + 1) i = true :: pbits d (i - 2 ^ d) := by
  have e : 2 ^ (d + 1) = 2 ^ d + 2 ^ d := by rw [Nat.pow_succ]; omega
  have hd : i / 2 ^ d = 1 := Nat.div_eq_of_lt_le (by omega) (by omega)
  have hp : pbits d i = pbits d (i - 2 ^ d) := by
    have := pbits_add_mul d (i - 2 ^ d) 1
    rw [Nat.mul_one, Nat.sub_add_cancel h1] at this
    exact this
  rw [pbits, hd, hp]; rfl

theorem getPath_fillToDepth (bottom : Node) (p : List Bool) :
    getPath (fillToDepth bottom p.length) p = some bottom := by
  induction p with
  | nil => simp [fillToDepth]
  | cons b p ih => cases b <;> simp [fillToDepth, ih]

theorem getPath_fillToDepth_pbits (bottom : Node) (d i : Nat) :
    getPath (fillToDepth bottom d) (pbits d i) = some bottom := by
  have := getPath_fillToDepth bottom (pbits d i)
  rwa [pbits_length] at this

/-- `fillToLength` expands (at least) the first `len` bottom positions, each holding `bottom` -/
theorem getPath_fillToLength (H : Hash) (bottom : Node) (d len : Nat) (n : Node)
    (h : fillToLength H bottom d len = some n) (i : Nat) (hi : i < len) :
    getPath n (pbits d i) = some bottom := by
  induction d generalizing len n i with
  | zero =>
    have hle : len ≤ 2 ^ 0 := (fillToLength_isSome_iff H bottom 0 len).1 (by simp [h])
    have h1 : len = 1 := by simp at hle; omega
    subst h1
    have := fillToLength_full H bottom 0
    rw [show (2 : Nat) ^ 0 = 1 from rfl, h] at this
    cases this
    simp [fillToDepth, pbits]
  | succ d ih =>
    have hle : len ≤ 2 ^ (d + 1) := (fillToLength_isSome_iff H bottom _ len).1 (by simp [h])
    have hz : len ≠ 0 := by omega
    by_cases hfull : len = 2 ^ (d + 1)
    · subst hfull
      rw [fillToLength_full] at h
      cases h
      exact getPath_fillToDepth_pbits bottom _ i
    have hlt : len < 2 ^ (d + 1) := by omega
    cases d with
    | zero =>
      have h1 : len = 1 := by simp at hlt; omega
      subst h1
      have hi0 : i = 0 := by omega
      subst hi0
      simp [fillToLength] at h
      subst h
      simp [pbits]
    | succ d =>
      have e : 2 ^ (d + 1 + 1) = 2 ^ (d + 1) + 2 ^ (d + 1) := by rw [Nat.pow_succ]; omega
      by_cases hle' : len ≤ 2 ^ (d + 1)
      · rw [fillToLength, if_neg hz, if_neg (by omega), if_neg hfull] at h
        · simp only [if_pos hle'] at h
          cases hl : fillToLength H bottom (d + 1) len with
          | none => rw [hl] at h; cases h
          | some l =>
            rw [hl] at h
            cases h
            rw [pbits_succ_lt _ _ (by omega)]
            exact ih len l hl i hi
        · simp
      · rw [fillToLength, if_neg hz, if_neg (by omega), if_neg hfull] at h
        · simp only [if_neg hle'] at h
          cases hr : fillToLength H bottom (d + 1) (len - 2 ^ (d + 1)) with
          | none => rw [hr] at h; cases h
          | some r =>
            rw [hr] at h
            cases h
            by_cases hil : i < 2 ^ (d + 1)
            · rw [pbits_succ_lt _ _ hil]
              exact getPath_fillToDepth_pbits bottom _ i
            · rw [pbits_succ_ge _ _ (by omega) (by omega)]
              exact ih _ r hr _ (by omega)
        · simp

theorem getAt_fillToLength (H : Hash) (bottom : Node) (d len : Nat) (n : Node)
    (h : fillToLength H bottom d len = some n) (i : Nat) (hi : i < len) :
    getAt n i d = some bottom := by
  have hle : len ≤ 2 ^ d := (fillToLength_isSome_iff H bottom d len).1 (by simp [h])
  rw [getAt, if_neg (by omega)]
  exact getPath_fillToLength H bottom d len n h i hi

/-- `fillToContents` puts node `i` at bottom position `i` -/
theorem getPath_fillToContents (H : Hash) (d : Nat) (ns : List Node) (n : Node)
    (h : fillToContents H ns d = some n) (i : Nat) (hi : i < ns.length) :
    getPath n (pbits d i) = ns[i]? := by
  induction d generalizing ns n i with
  | zero =>
    have hle : ns.length ≤ 2 ^ 0 := (fillToContents_isSome_iff H ns 0).1 (by simp [h])
    cases ns with
    | nil => simp at hi
    | cons a rest =>
      cases rest with
      | nil =>
        have hi0 : i = 0 := by simpa using hi
        subst hi0
        simp [fillToContents] at h
        subst h
        simp [pbits]
      | cons b rest => simp at hle
  | succ d ih =>
    have hle : ns.length ≤ 2 ^ (d + 1) := (fillToContents_isSome_iff H ns _).1 (by simp [h])
    have hz : ns.length ≠ 0 := by omega
    cases d with
    | zero =>
      cases ns with
      | nil => simp at hi
      | cons a rest =>
        cases rest with
        | nil =>
          have hi0 : i = 0 := by simpa using hi
          subst hi0
          simp [fillToContents] at h
          subst h
          simp [pbits]
        | cons b rest =>
          cases rest with
          | nil =>
            simp [fillToContents] at h
            subst h
            have : i = 0 ∨ i = 1 := by simp at hi; omega
            rcases this with rfl | rfl <;> simp [pbits]
          | cons c rest => simp at hle
    | succ d =>
      have e : 2 ^ (d + 1 + 1) = 2 ^ (d + 1) + 2 ^ (d + 1) := by rw [Nat.pow_succ]; omega
      by_cases hle' : ns.length ≤ 2 ^ (d + 1)
      · rw [fillToContents, if_neg hz, if_neg (by omega)] at h
        · simp only [if_pos hle'] at h
          cases hl : fillToContents H ns (d + 1) with
          | none => rw [hl] at h; cases h
          | some l =>
            rw [hl] at h
            cases h
            rw [pbits_succ_lt _ _ (by omega)]
            exact ih ns l hl i hi
        · simp
      · rw [fillToContents, if_neg hz, if_neg (by omega)] at h
        · simp only [if_neg hle'] at h
          cases hl : fillToContents H (ns.take (2 ^ (d + 1))) (d + 1) with
          | none => rw [hl] at h; cases h
          | some l =>
            cases hr : fillToContents H (ns.drop (2 ^ (d + 1))) (d + 1) with
            | none => rw [hl, hr] at h; cases h
            | some r =>
              rw [hl, hr] at h
              cases h
              by_cases hil : i < 2 ^ (d + 1)
              · rw [pbits_succ_lt _ _ hil]
                show getPath l _ = _
                rw [ih _ l hl i (by simp; omega), List.getElem?_take_of_lt hil]
              · rw [pbits_succ_ge _ _ (by omega) (by omega)]
                show getPath r _ = _
                rw [ih _ r hr _ (by simp; omega), List.getElem?_drop]
                congr 1; omega
        · simp

theorem getAt_fillToContents (H : Hash) (d : Nat) (ns : List Node) (n : Node)
    (h : fillToContents H ns d = some n) (i : Nat) (hi : i < ns.length) :
    getAt n i d = ns[i]? := by
  have hle : ns.length ≤ 2 ^ d := (fillToContents_isSome_iff H ns d).1 (by simp [h])
  rw [getAt, if_neg (by omega)]
  exact getPath_fillToContents H d ns n h i hi


/-! ## 5. reading the default tree through the view API gives the zero value -/

theorem allSome_map_some {α β} (l : List α) (f : α → Option β) (g : α → β)
    (h : ∀ x ∈ l, f x = some (g x)) : allSome (l.map f) = some (l.map g) := by
  induction l with
  | nil => rfl
  | cons a l ih =>
    have h1 := h a (by simp)
    have h2 := ih (fun x hx => h x (by simp [hx]))
    simp only [List.map_cons, h1, allSome, h2, Option.map_some]

theorem allSome_range_const {β} (len : Nat) (f : Nat → Option β) (b : β)
    (h : ∀ i, i < len → f i = some b) :
    allSome ((List.range len).map f) = some (List.replicate len b) := by
  rw [allSome_map_some (List.range len) f (fun _ => b) (fun x hx => h x (by simpa using hx))]
  simp [List.map_const']

theorem zeroNode0_root (H : Hash) : (zeroNode H 0).root H = zeroChunk := rfl

theorem bitOfChunk_zero (i : Nat) : bitOfChunk zeroChunk i = false := by
  have : zeroChunk[(i % 256) / 8]?.getD 0 = 0 := by
    simp only [zeroChunk, zeros, List.getElem?_replicate]
    split <;> rfl
  simp [bitOfChunk, this]

theorem readLen_zero (H : Hash) : readLen H (zeroNode H 0) = 0 := by
  rw [readLen, zeroNode0_root]; exact fromLE_zeros 32

theorem readBasicAt_zero (H : Hash) (et : Ty) (hwf : et.wf = true) (hb : et.isBasic = true)
    (j : Nat) (hj : j < 32 / et.basicSize) :
    readBasicAt H et (zeroNode H 0) j = some (zeroVal et) := by
  cases et <;> simp [Ty.isBasic] at hb
  · simp only [readBasicAt, zeroNode0_root, zeroChunk, drop_zeros, take_zeros, fromLE_zeros,
      zeroVal]
  · simp only [Ty.basicSize] at hj
    simp only [readBasicAt, zeroNode0_root, zeroChunk, drop_zeros, take_zeros, zeroVal,
      Ty.basicSize]
    have : min 1 (32 - j * 1) = 1 := by omega
    rw [this]
    rfl

theorem flatMap_root_zero (H : Hash) (c : Nat) :
    (List.replicate c (zeroNode H 0)).flatMap (fun n => n.root H) = zeros (c * 32) :=
  flatMap_replicate_zeros _ _ 32 c rfl

/-- index of the chunk of packed element `i` lies inside the contents -/
theorem packed_chunk_lt (et : Ty) (hwf : et.wf = true) (hb : et.isBasic = true) (len i : Nat)
    (hi : i < len) :
    i / (32 / et.basicSize) < chunkLen et len ∧ i % (32 / et.basicSize) < 32 / et.basicSize := by
  have hs := basicSize_cases et hwf hb
  simp only [chunkLen, hb, if_true]
  rcases hs with h | h | h | h | h | h <;> rw [h] <;> omega

mutual
theorem default_read (H : Hash) (t : Ty) (hwf : t.wf = true) (n : Node)
    (h : defaultNode H t = some n) : readVal H t n = some (zeroVal t) := by
  cases t with
  | uint nb =>
    simp only [defaultNode, Option.some.injEq] at h
    subst h
    simp only [readVal]
    exact readBasicAt_zero H (.uint nb) hwf rfl 0 (by
      have := basicSize_cases (.uint nb) hwf rfl
      simp only [Ty.basicSize] at this ⊢
      rcases this with h | h | h | h | h | h <;> rw [h] <;> omega)
  | bool =>
    simp only [defaultNode, Option.some.injEq] at h
    subst h
    simp only [readVal]
    exact readBasicAt_zero H .bool hwf rfl 0 (by simp [Ty.basicSize])
  | bitvector len =>
    simp only [defaultNode] at h
    simp only [readVal, zeroVal]
    rw [allSome_range_const len _ false]
    · rfl
    · intro i hi
      rw [getAt_fillToLength H _ _ _ n h (i / 256) (by omega)]
      simp [bitOfChunk_zero]
  | bitlist lim =>
    simp only [defaultNode, Option.some.injEq] at h
    subst h
    simp [readVal, zeroVal, listLength, getRight, readLen_zero, allSome]
  | bytevector len =>
    simp [Ty.wf] at hwf
    simp only [defaultNode] at h
    simp only [readVal, zeroVal]
    split
    · next hd =>
      have hroot := fillToLength_some_root H _ _ _ _ h
      rw [zeroNode0_root, merkleize_replicate_zero H _ _ (two_pow_getDepth _), hd] at hroot
      have hle : (len + 31) / 32 ≤ 2 ^ 0 := (getDepth_le_iff _ 0).1 (by omega)
      rw [hroot]
      simp only [zeroHash, zeroChunk, take_zeros]
      congr 3
      simp at hle
      omega
    · simp only [readChunks]
      rw [allSome_range_const _ _ (zeroNode H 0)
        (fun i hi => getAt_fillToLength H _ _ _ n h i hi)]
      simp only [Option.map_some, flatMap_root_zero, take_zeros]
      congr 3
      omega
  | bytelist lim =>
    simp only [defaultNode, Option.some.injEq] at h
    subst h
    simp [readVal, zeroVal, getLeft, getRight, readLen_zero, readChunks, allSome]
  | vector et len =>
    simp [Ty.wf] at hwf
    simp only [defaultNode] at h
    by_cases hb : et.isBasic = true
    · simp only [hb, if_true] at h
      simp only [readVal, zeroVal, hb, if_true]
      rw [allSome_range_const len _ (zeroVal et)]
      · rfl
      · intro i hi
        have hp := packed_chunk_lt et hwf.2 hb len i hi
        rw [getAt_fillToLength H _ _ _ n h _ hp.1]
        exact readBasicAt_zero H et hwf.2 hb _ hp.2
    · rw [if_neg hb] at h
      split at h
      · next e he =>
        have ih := default_read H et hwf.2 e he
        simp only [readVal, zeroVal, hb]
        have hcl : chunkLen et len = len := by simp [chunkLen, hb]
        rw [hcl]
        simp only [Bool.false_eq_true, if_false]
        rw [allSome_range_const len _ (zeroVal et)]
        · rfl
        · intro i hi
          rw [getAt_fillToLength H _ _ _ n h i hi]
          exact ih
      · cases h
  | list et lim =>
    simp only [defaultNode, Option.some.injEq] at h
    subst h
    simp [readVal, zeroVal, listLength, getRight, readLen_zero, allSome]
  | container fs =>
    simp [Ty.wf] at hwf
    simp only [defaultNode] at h
    split at h
    · next ns hns =>
      simp only [readVal, zeroVal]
      rw [readFields_default H fs hwf.2 ns hns n (getDepth fs.length) 0
        (fun i hi => by rw [Nat.zero_add]; exact getAt_fillToContents H _ ns n h i hi)]
      rfl
    · cases h
  | union hasNone opts =>
    have hw := union_wf_opts hasNone opts hwf
    have hlen : 0 < opts.length := List.length_pos_iff.mpr hw.1
    cases hasNone with
    | true =>
      simp only [defaultNode, Option.some.injEq] at h
      subst h
      simp [readVal, zeroVal, getLeft, getRight, readLen_zero, optCount]
    | false =>
      simp only [defaultNode] at h
      split at h
      · next c hc =>
        simp only [Option.some.injEq] at h
        subst h
        have ih := readOpt_default H opts hw.2 c hc
        simp only [readVal, getLeft, getRight, readLen_zero, optCount, optIndex, zeroVal]
        simp [ih]
        exact hw.1
      · cases h

theorem readFields_default (H : Hash) (ts : List Ty) (hwf : Ty.wfList ts = true) (ns : List Node)
    (h : defaultNodes H ts = some ns) (n : Node) (depth k : Nat)
    (hget : ∀ i, i < ns.length → getAt n (k + i) depth = ns[i]?) :
    readFields H ts n depth k = some (zeroVals ts) := by
  cases ts with
  | nil => simp [readFields, zeroVals]
  | cons t ts =>
    simp [Ty.wfList] at hwf
    rw [defaultNodes] at h
    split at h
    · next m ms h1 h2 =>
      cases h
      have ih1 := default_read H t hwf.1 m h1
      have ih2 := readFields_default H ts hwf.2 ms h2 n depth (k + 1) (fun i hi => by
        have := hget (i + 1) (by simp; omega)
        rw [List.getElem?_cons_succ] at this
        rw [← this]; congr 1; omega)
      have h0 := hget 0 (by simp)
      simp only [Nat.add_zero, List.getElem?_cons_zero] at h0
      simp only [readFields, h0, Option.bind_some, ih1, ih2, zeroVals]
    · cases h

theorem readOpt_default (H : Hash) (opts : List Ty) (hwf : Ty.wfList opts = true) (c : Node)
    (h : defaultNodeHead H opts = some c) :
    readOpt H opts 0 c = some (zeroValHead opts) := by
  cases opts with
  | nil => simp [defaultNodeHead] at h
  | cons t ts =>
    simp [Ty.wfList] at hwf
    simp only [defaultNodeHead] at h
    simp only [zeroValHead, readOpt]
    exact default_read H t hwf.1 c h
end


/-! ## 4. the default tree and the explicitly constructed zero value have the same root -/

/-- version not depending on `ConstructRoot`: the constructor's root law as a hypothesis -/
theorem default_eq_construct_root_of (H : Hash) (t : Ty) (hwf : t.wf = true) (n m : Node)
    (hd : defaultNode H t = some n) (hc : m.root H = htr H t (zeroVal t)) :
    n.root H = m.root H := by
  rw [default_root H t hwf n hd, hc]

theorem default_eq_construct_root (H : Hash) (t : Ty) (hwf : t.wf = true) (n m : Node)
    (hc : construct H t (zeroVal t) = some m) (hd : defaultNode H t = some n) :
    n.root H = m.root H :=
  default_eq_construct_root_of H t hwf n m hd
    (Rmk.ConstructRoot.construct_root H t (zeroVal t) m hwf hc)

/-- both trees exist for every well-formed type, and their roots agree -/
theorem default_and_construct_exist (H : Hash) (t : Ty) (hwf : t.wf = true) :
    ∃ n m, defaultNode H t = some n ∧ construct H t (zeroVal t) = some m ∧
      n.root H = m.root H ∧ n.root H = htr H t (zeroVal t) := by
  obtain ⟨n, hn⟩ := Option.isSome_iff_exists.1 (default_isSome H t hwf)
  obtain ⟨m, hm⟩ := Option.isSome_iff_exists.1
    (Rmk.ConstructRoot.construct_isSome H t (zeroVal t) hwf (zeroVal_wt t hwf))
  exact ⟨n, m, hn, hm, default_eq_construct_root H t hwf n m hm hn, default_root H t hwf n hn⟩

end Rmk.DefaultNode
