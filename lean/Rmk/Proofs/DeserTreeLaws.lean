/-
The trees that `Bitlist.deserialize` / `Bitvector.deserialize` build directly from the raw input chunks
(`Impl.deserBitlistTree`, `Impl.deserBitvectorTree`) ARE the constructor trees of the decoded value.

Main results (namespace `Rmk.DeserTreeLaws`):
* `bitlist_tree`, `bitlist_tree_some`, `bitlist_tree_none`
* `bitvector_tree`, `bitvector_tree_some`, `bitvector_tree_none`
* `decoded_bitlist_root`, `decoded_bitvector_root`, `decoded_bitfield_root`
-/
import Rmk.Impl.DeserTree
import Rmk.Proofs.BytesLemmas
import Rmk.Proofs.Merkle
import Rmk.Proofs.DecodeSound
import Rmk.Proofs.ConstructRoot
import Rmk.Proofs.ReprBasics
namespace Rmk.DeserTreeLaws
open Rmk Rmk.Impl Rmk.Spec Rmk.DecodeSound

/-! ## 1. `splitChunks` -/

/-- what the `while scope > 32` loop yields: full 32-byte chunks, and a last part of 1..32 bytes -/
theorem splitChunks_spec : ∀ (fuel : Nat) (bs : List UInt8), bs.length ≤ fuel →
    (∀ g ∈ (splitChunks fuel bs).1, g.length = 32) ∧
    (splitChunks fuel bs).1.flatten ++ (splitChunks fuel bs).2 = bs ∧
    (splitChunks fuel bs).2.length ≤ 32 ∧ (bs ≠ [] → (splitChunks fuel bs).2 ≠ []) := by
  intro fuel
  induction fuel with
  | zero =>
    intro bs h
    have : bs = [] := List.eq_nil_of_length_eq_zero (by omega)
    subst this
    simp [splitChunks]
  | succ fuel ih =>
    intro bs h
    by_cases hc : bs.length > 32
    · have hd : (bs.drop 32).length ≤ fuel := by rw [List.length_drop]; omega
      obtain ⟨h1, h2, h3, h4⟩ := ih (bs.drop 32) hd
      have e : splitChunks (fuel + 1) bs
          = (bs.take 32 :: (splitChunks fuel (bs.drop 32)).1, (splitChunks fuel (bs.drop 32)).2) := by
        rw [splitChunks, if_pos hc]
      rw [e]
      refine ⟨?_, ?_, h3, ?_⟩
      · intro g hg
        rcases List.mem_cons.mp hg with rfl | hg
        · rw [List.length_take]; omega
        · exact h1 g hg
      · simp only [List.flatten_cons, List.append_assoc]
        rw [h2, List.take_append_drop]
      · intro _
        apply h4
        intro hn
        have := congrArg List.length hn
        rw [List.length_drop] at this
        simp at this; omega
    · have e : splitChunks (fuel + 1) bs = ([], bs) := by
        rw [splitChunks, if_neg hc]
      rw [e]
      refine ⟨by simp, by simp, by simpa using hc, fun h => h⟩

theorem getLastD_append_of_ne_nil (a b : List UInt8) (h : b ≠ []) :
    (a ++ b).getLastD 0 = b.getLastD 0 := by
  have hne : a ++ b ≠ [] := by simp [h]
  rw [List.getLastD_eq_getLast?, List.getLastD_eq_getLast?, List.getLast?_eq_some_getLast hne,
    List.getLast?_eq_some_getLast h, List.getLast_append_of_ne_nil hne h]

/-! ## 2. `groups 32` of full chunks followed by a last part -/

theorem groups_full_append (full : List (List UInt8)) (last : List UInt8)
    (hf : ∀ g ∈ full, g.length = 32) :
    groups 32 (full.flatten ++ last) = full ++ groups 32 last := by
  induction full with
  | nil => simp
  | cons g full ih =>
    rw [List.flatten_cons, List.append_assoc,
      groups_append_of_length_eq (by decide) g _ (hf g (by simp)), ih (fun g' hg' => hf g' (by simp [hg']))]
    rfl

theorem map_pad_full (full : List (List UInt8)) (hf : ∀ g ∈ full, g.length = 32) :
    full.map (fun g => g ++ zeros (32 - g.length)) = full := by
  induction full with
  | nil => rfl
  | cons g full ih =>
    rw [List.map_cons, ih (fun g' hg' => hf g' (by simp [hg'])), hf g (by simp)]
    simp [zeros]

/-- the chunks of `full.flatten ++ last` -/
theorem pack_full_append (full : List (List UInt8)) (last : List UInt8)
    (hf : ∀ g ∈ full, g.length = 32) (h32 : last.length ≤ 32) :
    (groups 32 (full.flatten ++ last)).map (fun g => g ++ zeros (32 - g.length))
      = full ++ (if last = [] then [] else [last ++ zeros (32 - last.length)]) := by
  rw [groups_full_append full last hf, List.map_append, map_pad_full full hf]
  congr 1
  by_cases hl : last = []
  · subst hl; simp
  · rw [if_neg hl, groups_single (List.length_pos_iff.mpr hl) h32]
    rfl

/-! ## 3. bit-level facts -/

theorem natToBits_take : ∀ (i k n : Nat), i ≤ k → (natToBits k n).take i = natToBits i n := by
  intro i
  induction i with
  | zero => intro k n _; simp
  | succ i ih =>
    intro k n h
    obtain ⟨k, rfl⟩ : ∃ k', k = k' + 1 := ⟨k - 1, by omega⟩
    rw [natToBits_succ, natToBits_succ, List.take_succ_cons, ih k _ (by omega)]

set_option maxRecDepth 100000 in
/-- clearing the delimiting (= highest set) bit of a byte -/
theorem xor_top_bit : ∀ n, n < 256 → n ≠ 0 →
    n ^^^ (1 <<< (bitLength n - 1)) = n % 2 ^ (bitLength n - 1) := by
  decide

theorem toNat_ofNat_of_lt (m : Nat) (h : m < 256) : (UInt8.ofNat m).toNat = m := by
  simp; omega

/-- the bytes of the bits of a bit list input without the delimiter: the delimiting bit is cleared in
    the last byte, and the last byte is dropped when the delimiter was its lowest bit -/
theorem bitlist_bytes (init : List UInt8) (lastB : UInt8) (i : Nat) (hi : i < 8) :
    bitsToBytes ((bytesToBits (init ++ [lastB])).take (init.length * 8 + i))
      = if i = 0 then init else init ++ [UInt8.ofNat (lastB.toNat % 2 ^ i)] := by
  have e1 : (bytesToBits (init ++ [lastB])).take (init.length * 8 + i)
      = bytesToBits init ++ natToBits i lastB.toNat := by
    rw [bytesToBits_append, bytesToBits_cons, bytesToBits_nil, List.append_nil]
    have hl : init.length * 8 = (bytesToBits init).length := by simp; omega
    rw [hl, List.take_length_add_append, natToBits_take i 8 _ (by omega)]
  rw [e1]
  by_cases h0 : i = 0
  · subst h0
    simp
  · rw [if_neg h0]
    have hm : lastB.toNat % 2 ^ i < 2 ^ i := Nat.mod_lt _ (Nat.two_pow_pos i)
    have hm' : lastB.toNat % 2 ^ i < 256 := by
      have : 2 ^ i ≤ 2 ^ 8 := Nat.pow_le_pow_right (by decide) (by omega)
      omega
    apply canon_of_pad _ _ (8 - i)
    · rw [bytesToBits_append, bytesToBits_cons, bytesToBits_nil, List.append_nil,
        toNat_ofNat_of_lt _ hm', natToBits_of_lt i 8 _ hm (by omega), natToBits_mod, List.append_assoc]
    · omega

/-! ## 4. the chunk lists -/

theorem flatten_full_length (full : List (List UInt8)) (hf : ∀ g ∈ full, g.length = 32) :
    full.flatten.length = 32 * full.length := by
  induction full with
  | nil => rfl
  | cons g full ih =>
    rw [List.flatten_cons, List.length_append, ih (fun g' hg' => hf g' (by simp [hg'])),
      hf g (by simp), List.length_cons]
    omega

theorem bitLength_pos {n : Nat} (h : n ≠ 0) : 0 < bitLength n := by
  unfold bitLength; simp [h]

/-- the heart: the chunk list `Bitlist.deserialize` builds (full chunks of the input; the last part with
    the delimiting bit cleared, zero padded; no last chunk when the bit length is a multiple of 256) is
    the packing of the decoded bits -/
theorem bitlist_chunks (full : List (List UInt8)) (lp : List UInt8) (lastB : UInt8)
    (hf : ∀ g ∈ full, g.length = 32) (h32 : (lp ++ [lastB]).length ≤ 32) (hlast : lastB.toNat ≠ 0) :
    packBits ((bytesToBits (full.flatten ++ (lp ++ [lastB]))).take
        (((full.flatten ++ (lp ++ [lastB])).length - 1) * 8 + (bitLength lastB.toNat - 1)))
      = full ++ (if (((full.flatten ++ (lp ++ [lastB])).length - 1) * 8 + (bitLength lastB.toNat - 1)) % 256 != 0
          then [(lp ++ [UInt8.ofNat (lastB.toNat ^^^ (1 <<< (bitLength lastB.toNat - 1)))]) ++
                zeros (32 - (lp ++ [UInt8.ofNat (lastB.toNat ^^^ (1 <<< (bitLength lastB.toNat - 1)))]).length)]
          else []) := by
  have hj := bitLength_le_eight lastB
  have hpos := bitLength_pos hlast
  rw [xor_top_bit _ (UInt8.toNat_lt lastB) hlast]
  generalize hi : bitLength lastB.toNat - 1 = i
  have hi8 : i < 8 := by omega
  have hlp : lp.length < 32 := by simp at h32; omega
  have hlen : (full.flatten ++ (lp ++ [lastB])).length - 1 = (full.flatten ++ lp).length := by
    simp
  have hF := flatten_full_length full hf
  have hN : (full.flatten ++ lp).length = 32 * full.length + lp.length := by
    rw [List.length_append, hF]
  rw [hlen, ← List.append_assoc, packBits, bitlist_bytes (full.flatten ++ lp) lastB i hi8, hN]
  by_cases h0 : i = 0
  · subst h0
    rw [if_pos rfl, pack_full_append full lp hf (by omega)]
    congr 1
    by_cases hl : lp = []
    · subst hl
      have : ((32 * full.length + ([] : List UInt8).length) * 8 + 0) % 256 = 0 := by
        simp only [List.length_nil]; omega
      rw [this]; rfl
    · have hl0 : 0 < lp.length := List.length_pos_iff.mpr hl
      have : (((32 * full.length + lp.length) * 8 + 0) % 256 != 0) = true := by
        simp only [bne_iff_ne, ne_eq]; omega
      rw [if_neg hl, this, if_pos rfl]
      have e : 32 - lp.length = (32 - (lp.length + 1)) + 1 := by omega
      have hz : UInt8.ofNat (lastB.toNat % 2 ^ 0) = 0 := by simp [Nat.mod_one]
      rw [hz, List.length_append, List.length_singleton, e, zeros_succ]
      simp
  · have h32' : (lp ++ [UInt8.ofNat (lastB.toNat % 2 ^ i)]).length ≤ 32 := by
      rw [List.length_append, List.length_singleton]; omega
    rw [if_neg h0, List.append_assoc, pack_full_append full _ hf h32']
    have : (((32 * full.length + lp.length) * 8 + i) % 256 != 0) = true := by
      simp only [bne_iff_ne, ne_eq]; omega
    rw [this, if_pos rfl, if_neg (by simp)]

/-! ## 5. normal forms of the two tree builders -/

/-- `deserBitlistTree` with the chunk list replaced by the packing of the decoded bits -/
theorem deserBitlistTree_nf (H : Hash) (lim : Nat) (bs : List UInt8) :
    deserBitlistTree H lim bs =
      if bs.length < 1 then none
      else if bs.length > lim / 8 + 1 then none
      else if (bs.getLastD 0).toNat = 0 then none
      else if (bs.length - 1) * 8 + (bitLength (bs.getLastD 0).toNat - 1) > lim then none
      else (fillToContents H ((packBits ((bytesToBits bs).take
              ((bs.length - 1) * 8 + (bitLength (bs.getLastD 0).toNat - 1)))).map .leaf)
            (getDepth ((lim + 255) / 256))).map
          fun c => mixInNode c ((bs.length - 1) * 8 + (bitLength (bs.getLastD 0).toNat - 1)) := by
  unfold deserBitlistTree
  by_cases h1 : bs.length < 1
  · simp only [h1, if_true]
  by_cases h2 : bs.length > lim / 8 + 1
  · simp only [h1, h2, if_true, if_false]
  simp only [h1, h2, if_false]
  have hne : bs ≠ [] := by
    intro h; subst h; simp at h1
  obtain ⟨hf, hflat, h32, hlne⟩ := splitChunks_spec bs.length bs (Nat.le_refl _)
  generalize splitChunks bs.length bs = p at hf hflat h32 hlne
  obtain ⟨full, lastPart⟩ := p
  simp only at hf hflat h32 hlne ⊢
  have hlne' := hlne hne
  have hs := bytes_split_last lastPart hlne'
  generalize hlp : lastPart.dropLast = lp at hs
  generalize hlb : lastPart.getLastD 0 = lastB at hs
  have hgl : bs.getLastD 0 = lastB := by
    rw [← hflat, getLastD_append_of_ne_nil _ _ hlne', hlb]
  rw [hgl]
  by_cases hlast : lastB.toNat = 0
  · simp only [hlast, if_true]
  simp only [hlast, if_false]
  subst hs
  subst hflat
  have hc := bitlist_chunks full lp lastB hf h32 hlast
  by_cases hlim : ((full.flatten ++ (lp ++ [lastB])).length - 1) * 8 + (bitLength lastB.toNat - 1) > lim
  · simp only [hlim, if_true]
  simp only [hlim, if_false]
  rw [hc]

/-- `deserBitvectorTree` with the chunk list replaced by the packing of the decoded bits -/
theorem deserBitvectorTree_nf (H : Hash) (len : Nat) (bs : List UInt8) :
    deserBitvectorTree H len bs =
      if bs.length != (len + 7) / 8 then none
      else if bs.length = 0 then none
      else if (bs.length - 1) * 8 + bitLength (bs.getLastD 0).toNat > len then none
      else fillToContents H ((packBits ((bytesToBits bs).take len)).map .leaf)
            (getDepth ((len + 255) / 256)) := by
  unfold deserBitvectorTree
  by_cases h1 : (bs.length != (len + 7) / 8) = true
  · simp only [h1, if_true]
  by_cases h2 : bs.length = 0
  · simp only [h2, if_true]
  simp only [h1, h2, if_false]
  have hne : bs ≠ [] := by
    intro h; subst h; simp at h2
  obtain ⟨hf, hflat, h32, hlne⟩ := splitChunks_spec bs.length bs (Nat.le_refl _)
  generalize splitChunks bs.length bs = p at hf hflat h32 hlne
  obtain ⟨full, lastPart⟩ := p
  simp only at hf hflat h32 hlne ⊢
  have hlne' := hlne hne
  have hgl : bs.getLastD 0 = lastPart.getLastD 0 := by
    rw [← hflat, getLastD_append_of_ne_nil _ _ hlne']
  rw [← hgl]
  by_cases hpad : (bs.length - 1) * 8 + bitLength (bs.getLastD 0).toNat > len
  · simp only [hpad, if_true]
  simp only [hpad, if_false]
  have hlen : (len + 7) / 8 = bs.length := by
    have : bs.length = (len + 7) / 8 := by simpa using h1
    omega
  rw [packBits, bitvec_canon bs len hne hlen (by omega)]
  have := pack_full_append full lastPart hf h32
  rw [hflat, if_neg hlne'] at this
  rw [this]

/-! ## 6. what a successful / failing value decode says -/

/-- the facts a successful bit list decode gives -/
theorem deser_bitlist_some (lim : Nat) (s : List UInt8) (scope : Nat) (bits : List Bool)
    (rest : List UInt8) (h : Impl.deser (.bitlist lim) s scope = some (.bits bits, rest)) :
    (s.take scope).length = scope ∧ ¬ scope < 1 ∧ ¬ scope > lim / 8 + 1 ∧
    ((s.take scope).getLastD 0).toNat ≠ 0 ∧
    ¬ (scope - 1) * 8 + (bitLength ((s.take scope).getLastD 0).toNat - 1) > lim ∧
    bits = (bytesToBits (s.take scope)).take
      ((scope - 1) * 8 + (bitLength ((s.take scope).getLastD 0).toNat - 1)) := by
  simp only [deser] at h
  split at h
  · cases h
  · next h1 =>
    split at h
    · cases h
    · next h2 =>
      split at h
      · cases h
      · next h3 =>
        split at h
        · cases h
        · next h4 =>
          split at h
          · cases h
          · next h5 =>
            simp only [Option.some.injEq, Prod.mk.injEq, Val.bits.injEq] at h
            exact ⟨by simpa using h3, h1, h2, h4, h5, h.1.symm⟩

/-- the facts a successful bit vector decode gives -/
theorem deser_bitvector_some (len : Nat) (s : List UInt8) (scope : Nat) (bits : List Bool)
    (rest : List UInt8) (h : Impl.deser (.bitvector len) s scope = some (.bits bits, rest)) :
    (s.take scope).length = scope ∧ scope = (len + 7) / 8 ∧ scope ≠ 0 ∧
    ¬ (scope - 1) * 8 + bitLength ((s.take scope).getLastD 0).toNat > len ∧
    bits = (bytesToBits (s.take scope)).take len := by
  simp only [deser] at h
  split at h
  · cases h
  · next h1 =>
    split at h
    · cases h
    · next h2 =>
      split at h
      · cases h
      · next h3 =>
        simp only [Option.some.injEq, Prod.mk.injEq, Val.bits.injEq] at h
        simp only [bne_iff_ne, ne_eq, Bool.or_eq_true, decide_eq_true_eq, not_or, Decidable.not_not] at h1 h2
        exact ⟨h2.1, h1, h2.2, h3, h.1.symm⟩

/-! ## 7. the constructors on bit fields -/

theorem chunkOfLE_32_zero : chunkOfLE 32 0 = zeroChunk := by decide

/-- `Bitlist.__new__` without the special case of the empty list -/
theorem construct_bitlist_eq (H : Hash) (lim : Nat) (bits : List Bool) (h : ¬ bits.length > lim) :
    Impl.construct H (.bitlist lim) (.bits bits) =
      (fillToContents H ((packBits bits).map .leaf) (getDepth ((lim + 255) / 256))).map
        fun c => mixInNode c bits.length := by
  simp only [construct, h, if_false]
  by_cases h0 : bits.length = 0
  · have : bits = [] := List.eq_nil_of_length_eq_zero h0
    subst this
    have hp : packBits [] = [] := rfl
    simp only [List.length_nil, if_true, defaultNode, hp, List.map_nil, fillToContents_nil, Option.map_some,
      mixInNode, lenNode, chunkOfLE_32_zero, zeroNode, zeroHash]
  · simp only [h0, if_false]

theorem packBits_fits (bits : List Bool) (lim : Nat) (h : bits.length ≤ lim) :
    ((packBits bits).map Node.leaf).length ≤ 2 ^ getDepth ((lim + 255) / 256) := by
  rw [List.length_map, ReprBasics.packBits_length]
  have := two_pow_getDepth ((lim + 255) / 256)
  omega

/-! ## 8. bit lists -/

/-- **the tree `Bitlist.deserialize` builds from the raw chunks is the constructor tree of the decoded
    value** -/
theorem bitlist_tree (H : Hash) (lim : Nat) (s : List UInt8) (scope : Nat) (bits : List Bool)
    (rest : List UInt8) :
    Impl.deser (.bitlist lim) s scope = some (.bits bits, rest) →
    Impl.deserBitlistTree H lim (s.take scope) = Impl.construct H (.bitlist lim) (.bits bits) := by
  intro h
  obtain ⟨hl, h1, h2, h3, h4, hb⟩ := deser_bitlist_some lim s scope bits rest h
  generalize s.take scope = bs at hl h1 h2 h3 h4 hb
  subst hl
  have hlen : bits.length = (bs.length - 1) * 8 + (bitLength (bs.getLastD 0).toNat - 1) := by
    have := bitLength_le_eight (bs.getLastD 0)
    rw [hb, List.length_take, bytesToBits_length]
    omega
  rw [deserBitlistTree_nf, if_neg h1, if_neg h2, if_neg h3, if_neg h4,
    construct_bitlist_eq H lim bits (by omega), ← hb, ← hlen]

/-- ... and both sides exist -/
theorem bitlist_tree_some (H : Hash) (lim : Nat) (s : List UInt8) (scope : Nat) (bits : List Bool)
    (rest : List UInt8) (h : Impl.deser (.bitlist lim) s scope = some (.bits bits, rest)) :
    ∃ n, Impl.deserBitlistTree H lim (s.take scope) = some n ∧
      Impl.construct H (.bitlist lim) (.bits bits) = some n := by
  rw [bitlist_tree H lim s scope bits rest h]
  obtain ⟨hl, h1, h2, h3, h4, hb⟩ := deser_bitlist_some lim s scope bits rest h
  have hlen : bits.length ≤ lim := by
    have := bitLength_le_eight ((s.take scope).getLastD 0)
    rw [hb, List.length_take, bytesToBits_length]
    omega
  rw [construct_bitlist_eq H lim bits (by omega)]
  have hs := (fillToContents_isSome_iff H _ _).2 (packBits_fits bits lim hlen)
  obtain ⟨c, hc⟩ := Option.isSome_iff_exists.1 hs
  exact ⟨_, by rw [hc]; rfl, by rw [hc]; rfl⟩

/-- the tree builder rejects exactly what the value decoder rejects -/
theorem bitlist_tree_none (H : Hash) (lim : Nat) (s : List UInt8) (scope : Nat) :
    (s.take scope).length = scope → Impl.deser (.bitlist lim) s scope = none →
    Impl.deserBitlistTree H lim (s.take scope) = none := by
  intro hl h
  simp only [deser] at h
  rw [deserBitlistTree_nf, hl]
  split at h
  · next h1 => rw [if_pos h1]
  · next h1 =>
    rw [if_neg h1]
    split at h
    · next h2 => rw [if_pos h2]
    · next h2 =>
      rw [if_neg h2]
      split at h
      · next h3 => simp [hl] at h3
      · split at h
        · next h4 => rw [if_pos h4]
        · next h4 =>
          rw [if_neg h4]
          split at h
          · next h5 => rw [if_pos h5]
          · cases h

/-- the converse: whenever the value decoder accepts, the tree builder does -/
theorem bitlist_tree_isSome_iff (H : Hash) (lim : Nat) (s : List UInt8) (scope : Nat)
    (hl : (s.take scope).length = scope) :
    (Impl.deserBitlistTree H lim (s.take scope)).isSome = (Impl.deser (.bitlist lim) s scope).isSome := by
  cases h : Impl.deser (.bitlist lim) s scope with
  | none => rw [bitlist_tree_none H lim s scope hl h]; rfl
  | some p =>
    obtain ⟨v, rest⟩ := p
    have hwt := (sound_all (.bitlist lim) s scope v rest (by rw [← hl, List.length_take]; omega) h).1
    cases v with
    | bits bits =>
      obtain ⟨n, hn, _⟩ := bitlist_tree_some H lim s scope bits rest h
      rw [hn]; rfl
    | _ => simp [WT] at hwt

/-! ## 9. bit vectors -/

/-- **the tree `Bitvector.deserialize` builds from the raw chunks is the constructor tree of the decoded
    value** -/
theorem bitvector_tree (H : Hash) (len : Nat) (s : List UInt8) (scope : Nat) (bits : List Bool)
    (rest : List UInt8) :
    Impl.deser (.bitvector len) s scope = some (.bits bits, rest) →
    Impl.deserBitvectorTree H len (s.take scope) = Impl.construct H (.bitvector len) (.bits bits) := by
  intro h
  obtain ⟨hl, h1, h2, h3, hb⟩ := deser_bitvector_some len s scope bits rest h
  generalize s.take scope = bs at hl h1 h2 h3 hb
  subst hl
  have hlen : bits.length = len := by
    rw [hb, List.length_take, bytesToBits_length]
    omega
  have hc1 : ¬ ((bs.length != (len + 7) / 8) = true) := by simp [← h1]
  have hc2 : ¬ ((bits.length != len) = true) := by simp [hlen]
  rw [deserBitvectorTree_nf, if_neg hc1, if_neg h2, if_neg h3]
  simp only [construct]
  rw [if_neg hc2, hb]

/-- ... and both sides exist -/
theorem bitvector_tree_some (H : Hash) (len : Nat) (s : List UInt8) (scope : Nat) (bits : List Bool)
    (rest : List UInt8) (h : Impl.deser (.bitvector len) s scope = some (.bits bits, rest)) :
    ∃ n, Impl.deserBitvectorTree H len (s.take scope) = some n ∧
      Impl.construct H (.bitvector len) (.bits bits) = some n := by
  rw [bitvector_tree H len s scope bits rest h]
  obtain ⟨hl, h1, h2, h3, hb⟩ := deser_bitvector_some len s scope bits rest h
  have hlen : bits.length = len := by
    rw [hb, List.length_take, bytesToBits_length]
    omega
  have hc2 : ¬ ((bits.length != len) = true) := by simp [hlen]
  simp only [construct]
  rw [if_neg hc2]
  have hs := (fillToContents_isSome_iff H _ _).2 (packBits_fits bits len (by omega))
  obtain ⟨c, hc⟩ := Option.isSome_iff_exists.1 hs
  exact ⟨c, hc, hc⟩

/-- the tree builder rejects exactly what the value decoder rejects -/
theorem bitvector_tree_none (H : Hash) (len : Nat) (s : List UInt8) (scope : Nat) :
    (s.take scope).length = scope → Impl.deser (.bitvector len) s scope = none →
    Impl.deserBitvectorTree H len (s.take scope) = none := by
  intro hl h
  simp only [deser] at h
  rw [deserBitvectorTree_nf, hl]
  split at h
  · next h1 => rw [if_pos h1]
  · next h1 =>
    rw [if_neg h1]
    split at h
    · next h2 =>
      have : scope = 0 := by simpa [hl] using h2
      rw [if_pos this]
    · next h2 =>
      have : ¬ scope = 0 := by
        intro h0; simp [h0] at h2
      rw [if_neg this]
      split at h
      · next h3 => rw [if_pos h3]
      · cases h

/-! ## 10. the root of the decoder-built tree -/

/-- the decoder-built bit list tree exists and has the SSZ hash tree root of the decoded value -/
theorem decoded_bitlist_root (H : Hash) (lim : Nat) (s : List UInt8) (scope : Nat) (bits : List Bool)
    (rest : List UInt8) (hwf : (Ty.bitlist lim).wf = true)
    (h : Impl.deser (.bitlist lim) s scope = some (.bits bits, rest)) :
    WT (.bitlist lim) (.bits bits) = true ∧
    ∃ n, Impl.deserBitlistTree H lim (s.take scope) = some n ∧
      n.root H = Spec.htr H (.bitlist lim) (.bits bits) := by
  have hl := (deser_bitlist_some lim s scope bits rest h).1
  have hs : scope ≤ s.length := by rw [← hl, List.length_take]; omega
  have hwt := (sound (.bitlist lim) hwf s scope _ rest hs h).1
  obtain ⟨n, hn, hr⟩ := ConstructRoot.construct_spec H (.bitlist lim) (.bits bits) hwf hwt
  exact ⟨hwt, n, by rw [bitlist_tree H lim s scope bits rest h, hn], hr⟩

/-- the decoder-built bit vector tree exists and has the SSZ hash tree root of the decoded value -/
theorem decoded_bitvector_root (H : Hash) (len : Nat) (s : List UInt8) (scope : Nat) (bits : List Bool)
    (rest : List UInt8) (hwf : (Ty.bitvector len).wf = true)
    (h : Impl.deser (.bitvector len) s scope = some (.bits bits, rest)) :
    WT (.bitvector len) (.bits bits) = true ∧
    ∃ n, Impl.deserBitvectorTree H len (s.take scope) = some n ∧
      n.root H = Spec.htr H (.bitvector len) (.bits bits) := by
  have hl := (deser_bitvector_some len s scope bits rest h).1
  have hs : scope ≤ s.length := by rw [← hl, List.length_take]; omega
  have hwt := (sound (.bitvector len) hwf s scope _ rest hs h).1
  obtain ⟨n, hn, hr⟩ := ConstructRoot.construct_spec H (.bitvector len) (.bits bits) hwf hwt
  exact ⟨hwt, n, by rw [bitvector_tree H len s scope bits rest h, hn], hr⟩

/-- the tree the decoder of a bit field type builds directly from the input (`none` for the other kinds,
    whose decoders go through the constructors) -/
def bitfieldTree (H : Hash) : Ty → List UInt8 → Option Node
  | .bitlist lim, bs => Impl.deserBitlistTree H lim bs
  | .bitvector len, bs => Impl.deserBitvectorTree H len bs
  | _, _ => none

/-- both bit field kinds in one statement -/
theorem decoded_bitfield_root (H : Hash) (t : Ty) (s : List UInt8) (scope : Nat) (bits : List Bool)
    (rest : List UInt8) (hkind : (∃ lim, t = .bitlist lim) ∨ (∃ len, t = .bitvector len))
    (hwf : t.wf = true) (h : Impl.deser t s scope = some (.bits bits, rest)) :
    ∃ n, bitfieldTree H t (s.take scope) = some n ∧ Impl.construct H t (.bits bits) = some n ∧
      n.root H = Spec.htr H t (.bits bits) := by
  rcases hkind with ⟨lim, rfl⟩ | ⟨len, rfl⟩
  · obtain ⟨n, h1, h2⟩ := bitlist_tree_some H lim s scope bits rest h
    exact ⟨n, h1, h2, ConstructRoot.construct_root H _ _ n hwf h2⟩
  · obtain ⟨n, h1, h2⟩ := bitvector_tree_some H len s scope bits rest h
    exact ⟨n, h1, h2, ConstructRoot.construct_root H _ _ n hwf h2⟩

/-! ## 11. non-vacuity (toy hash `a ++ b`) -/

def toyH : Hash := fun a b => a ++ b

/-- the constructor tree of the decoded value (for the examples) -/
def viaConstruct (H : Hash) (t : Ty) (s : List UInt8) (scope : Nat) : Option Node :=
  match Impl.deser t s scope with
  | some (v, _) => Impl.construct H t v
  | none => none

def inA : List UInt8 := List.replicate 34 0xab ++ [0x05]     -- 35 bytes, bit length 274
def inB : List UInt8 := List.replicate 32 0xff ++ [0x01]     -- 33 bytes, bit length 256: no last chunk
def inC : List UInt8 := List.replicate 37 0x5a ++ [0x0b]     -- 38 bytes, Bitvector[300]

set_option maxRecDepth 100000 in
example : (Impl.deser (.bitlist 600) inA 35).isSome = true ∧
    (Impl.deserBitlistTree toyH 600 (inA.take 35)).isSome = true ∧
    Impl.deserBitlistTree toyH 600 (inA.take 35) = viaConstruct toyH (.bitlist 600) inA 35 := by
  decide

set_option maxRecDepth 100000 in
example : (Impl.deser (.bitlist 600) inB 33).isSome = true ∧
    (Impl.deserBitlistTree toyH 600 (inB.take 33)).isSome = true ∧
    Impl.deserBitlistTree toyH 600 (inB.take 33) = viaConstruct toyH (.bitlist 600) inB 33 := by
  decide

set_option maxRecDepth 100000 in
example : (Impl.deser (.bitvector 300) inC 38).isSome = true ∧
    (Impl.deserBitvectorTree toyH 300 (inC.take 38)).isSome = true ∧
    Impl.deserBitvectorTree toyH 300 (inC.take 38) = viaConstruct toyH (.bitvector 300) inC 38 := by
  decide

/-- the empty bit list (`[1]`): the constructor takes the default-node branch -/
example : (Impl.deserBitlistTree toyH 600 [1]).isSome = true ∧
    Impl.deserBitlistTree toyH 600 [1] = viaConstruct toyH (.bitlist 600) [1] 1 ∧
    Impl.deserBitlistTree toyH 600 [1] = Impl.defaultNode toyH (.bitlist 600) := by
  decide

/-- rejected inputs: last byte zero; bit length over the limit; set padding bits in a bit vector -/
example : Impl.deser (.bitlist 600) [3, 0] 2 = none ∧ Impl.deserBitlistTree toyH 600 [3, 0] = none ∧
    Impl.deser (.bitlist 9) [3, 0x08] 2 = none ∧ Impl.deserBitlistTree toyH 9 [3, 0x08] = none ∧
    Impl.deser (.bitvector 10) [3, 0x04] 2 = none ∧ Impl.deserBitvectorTree toyH 10 [3, 0x04] = none := by
  decide

end Rmk.DeserTreeLaws
