/-
C09 — the WORK of decoding is bounded linearly in the scope, for every input whatsoever.

`Impl.deserWork t s scope` counts the `deserialize` calls made by `T.deserialize(stream, scope)` (nested ones
included).  We define type-level constants `W t`, `A t` and prove

    deserWork t s scope ≤ W t * (scope + 1) + A t

for EVERY stream `s` and every `scope` (the well-formedness hypothesis is not even needed: `deserWork_le'`).
-/
import Rmk.Impl.DeserWork
namespace Rmk.DeserWorkBound
open Rmk Rmk.Impl Rmk.Spec

/-! ## the constants -/

/-- rounded-up quotient (0 if `b = 0`) -/
def cdiv (a b : Nat) : Nat := (a + b - 1) / b

/-- slope of a sequence whose elements have slope `We` and constant `Ae`.
    Fixed-size elements of length `l`: `scope / l` elements, each costs `≤ We * (l + 1) + Ae`.
    Variable-size elements: at most `first / 4` of them and their scopes add up to `≤ scope - first`. -/
def seqW (fixed : Bool) (l We Ae : Nat) : Nat :=
  if fixed then We + cdiv (We + Ae) l else max We (cdiv (We + Ae) 4)

mutual
/-- slope of the bound -/
def W : Ty → Nat
  | .uint _ => 0
  | .bool => 0
  | .bitvector _ => 0
  | .bitlist _ => 0
  | .bytevector _ => 0
  | .bytelist _ => 0
  | .vector t _ => seqW (isFixed t) (fixedLen t) (W t) (A t)
  | .list t _ => seqW (isFixed t) (fixedLen t) (W t) (A t)
  | .container fs => Wv fs
  | .union _ opts => Wm opts
/-- additive constant of the bound -/
def A : Ty → Nat
  | .uint _ => 1
  | .bool => 1
  | .bitvector _ => 1
  | .bitlist _ => 1
  | .bytevector _ => 1
  | .bytelist _ => 1
  | .vector _ _ => 1
  | .list _ _ => 1
  | .container fs => 1 + Cf fs + Av fs
  | .union _ opts => 1 + Am opts
/-- largest slope (union options: only one of them is decoded) -/
def Wm : List Ty → Nat
  | [] => 0
  | t :: ts => max (W t) (Wm ts)
/-- largest additive constant (union options) -/
def Am : List Ty → Nat
  | [] => 0
  | t :: ts => max (A t) (Am ts)
/-- sum of the slopes of the variable-size fields of a container -/
def Wv : List Ty → Nat
  | [] => 0
  | t :: ts => (if isFixed t then 0 else W t) + Wv ts
/-- sum of the additive constants of the variable-size fields of a container -/
def Av : List Ty → Nat
  | [] => 0
  | t :: ts => (if isFixed t then 0 else A t) + Av ts
/-- total cost of the fixed-size fields of a container (each is decoded with scope `fixedLen`,
    whatever the scope of the container is) -/
def Cf : List Ty → Nat
  | [] => 0
  | t :: ts => (if isFixed t then W t * (fixedLen t + 1) + A t else 0) + Cf ts
end

/-! ## generic lemmas on the higher-order companions -/

theorem workFixedN_le (dec : Dec) (wk : Wk) (l c : Nat) (h : ∀ s, wk s l ≤ c) :
    ∀ (k : Nat) (s : Stream), workFixedN dec wk l k s ≤ k * c := by
  intro k
  induction k with
  | zero => intro s; simp [workFixedN]
  | succ k ih =>
    intro s
    simp only [workFixedN]
    have h1 := h s
    rw [Nat.succ_mul]
    cases hd : dec s l with
    | none => simp only []; omega
    | some p =>
      obtain ⟨v, s1⟩ := p
      simp only []
      have := ih s1
      omega

theorem workVarN_le (dec : Dec) (wk : Wk) (emin emax scope We Ae : Nat)
    (h : ∀ s k, wk s k ≤ We * (k + 1) + Ae) :
    ∀ (rest : List Nat) (o : Nat) (s : Stream),
      workVarN dec wk emin emax scope (o :: rest) s ≤ We * (scope - o) + (We + Ae) * rest.length := by
  intro rest
  induction rest with
  | nil => intro o s; simp [workVarN]
  | cons stop rest ih =>
    intro start s
    simp only [workVarN]
    split
    · exact Nat.zero_le _
    · split
      · exact Nat.zero_le _
      · split
        · exact Nat.zero_le _
        · rename_i h1 h2 _
          have h3 := h s (stop - start)
          have e : scope - start = (stop - start) + (scope - stop) := by omega
          rw [e, Nat.mul_add, List.length_cons, Nat.mul_succ]
          rw [Nat.mul_succ] at h3
          cases hd : dec s (stop - start) with
          | none => simp only []; omega
          | some p =>
            obtain ⟨v, s1⟩ := p
            simp only []
            have := ih stop s1
            omega

theorem readOffsets_length : ∀ (k : Nat) (s : Stream), (readOffsets k s).1.length = k := by
  intro k
  induction k with
  | zero => intro s; simp [readOffsets]
  | succ k ih => intro s; simp [readOffsets, ih]

theorem le_cdiv_mul (a b : Nat) (hb : 0 < b) : a ≤ cdiv a b * b := by
  unfold cdiv
  have h := Nat.lt_mul_div_succ (a + b - 1) hb
  rw [Nat.mul_succ, Nat.mul_comm] at h
  omega

theorem fixed_arith (We Ae l scope : Nat) (hl : l ≠ 0) (hm : scope % l = 0) :
    scope / l * (We * (l + 1) + Ae) ≤ (We + cdiv (We + Ae) l) * scope := by
  have h1 : scope / l * l = scope := Nat.div_mul_cancel (Nat.dvd_of_mod_eq_zero hm)
  generalize scope / l = c at h1
  have hd := le_cdiv_mul (We + Ae) l (Nat.pos_of_ne_zero hl)
  generalize cdiv (We + Ae) l = D at hd
  have a1 : (We + Ae) * c ≤ D * scope := by
    have := Nat.mul_le_mul_right c hd
    rwa [Nat.mul_assoc, Nat.mul_comm l c, h1] at this
  have e : c * (We * (l + 1) + Ae) = We * (c * l) + (We + Ae) * c := by
    simp only [Nat.mul_add, Nat.add_mul, Nat.mul_one]; ac_rfl
  have e2 : (We + D) * scope = We * scope + D * scope := Nat.add_mul ..
  rw [e, h1, e2]
  omega

theorem var_arith (We Ae scope first : Nat) (hf : first ≤ scope) (hc : ¬ first / 4 = 0) :
    We * (scope - first) + (We + Ae) * (first / 4 - 1 + (0 + 1)) ≤ max We (cdiv (We + Ae) 4) * scope := by
  have hd : We + Ae ≤ 4 * cdiv (We + Ae) 4 := by unfold cdiv; omega
  generalize cdiv (We + Ae) 4 = D at hd
  have c1 : first / 4 - 1 + (0 + 1) = first / 4 := by omega
  have c2 : 4 * (first / 4) ≤ first := by omega
  rw [c1]
  generalize first / 4 = c at c2
  -- (We + Ae) * c ≤ 4 * D * c = D * (4 * c) ≤ D * first ≤ M * first
  have a1 : (We + Ae) * c ≤ D * first := by
    have h1 := Nat.mul_le_mul_right c hd
    have h2 := Nat.mul_le_mul_left D c2
    rw [Nat.mul_comm 4 D, Nat.mul_assoc] at h1
    omega
  have a2 : D * first ≤ max We D * first := Nat.mul_le_mul_right _ (Nat.le_max_right ..)
  have a3 : We * (scope - first) ≤ max We D * (scope - first) :=
    Nat.mul_le_mul_right _ (Nat.le_max_left ..)
  have e : max We D * scope = max We D * (scope - first) + max We D * first := by
    rw [← Nat.mul_add]; congr 1; omega
  omega

theorem workSeqWith_le (dec : Dec) (wk : Wk) (fixed : Bool) (l emin emax : Nat) (vc : Nat → Bool)
    (We Ae : Nat) (h : ∀ s k, wk s k ≤ We * (k + 1) + Ae) (s : Stream) (scope : Nat) :
    workSeqWith dec wk fixed l emin emax vc s scope ≤ seqW fixed l We Ae * scope := by
  unfold workSeqWith seqW
  cases fixed with
  | true =>
    simp only [if_true]
    split
    · exact Nat.zero_le _
    · rename_i hl
      split
      · exact Nat.zero_le _
      · rename_i hm
        split
        · exact Nat.zero_le _
        · have hm' : scope % l = 0 := by simpa using hm
          exact Nat.le_trans (workFixedN_le dec wk l _ (fun s => h s l) _ s)
            (fixed_arith We Ae l scope hl hm')
  | false =>
    simp only [Bool.false_eq_true, if_false]
    split
    · exact Nat.zero_le _
    · split
      · exact Nat.zero_le _
      · rename_i hf
        split
        · exact Nat.zero_le _
        · split
          · exact Nat.zero_le _
          · split
            · exact Nat.zero_le _
            · rename_i hc
              have hb := workVarN_le dec wk emin emax scope We Ae h
                ((readOffsets ((readOffset s).1 / 4 - 1) (readOffset s).2).1 ++ [scope])
                (readOffset s).1 (readOffsets ((readOffset s).1 / 4 - 1) (readOffset s).2).2
              rw [List.length_append, readOffsets_length] at hb
              simp only [List.length_cons, List.length_nil] at hb
              refine Nat.le_trans hb ?_
              exact var_arith We Ae scope _ (by simpa using hf) hc

/-! ## the bound, by mutual structural recursion like `deserWork` -/

/-- the bound, as a predicate on a type -/
def Bd (t : Ty) : Prop := ∀ (s : Stream) (k : Nat), deserWork t s k ≤ W t * (k + 1) + A t

theorem bd_seq (et : Ty) (vc : Nat → Bool) (ih : Bd et) (s : Stream) (scope : Nat) :
    1 + workSeqWith (deser et) (deserWork et) (isFixed et) (fixedLen et) (minLen et) (maxLen et) vc s scope
      ≤ seqW (isFixed et) (fixedLen et) (W et) (A et) * (scope + 1) + 1 := by
  have := workSeqWith_le (deser et) (deserWork et) (isFixed et) (fixedLen et) (minLen et) (maxLen et) vc
    (W et) (A et) ih s scope
  rw [Nat.mul_succ]
  omega

theorem bd_fixedFields : (fs : List Ty) → (∀ t ∈ fs, Bd t) → allFixed fs = true →
    ∀ s, workFixedFields fs s ≤ Cf fs
  | [], _, _ => fun s => by simp [workFixedFields]
  | t :: ts, ih, hf => fun s => by
    simp only [allFixed, Bool.and_eq_true] at hf
    simp only [workFixedFields, Cf, hf.1, if_true]
    have h1 := ih t (List.mem_cons_self ..) s (fixedLen t)
    have h2 := bd_fixedFields ts (fun t' h' => ih t' (List.mem_cons_of_mem _ h')) hf.2
    cases hd : deser t s (fixedLen t) with
    | none => simp only []; omega
    | some p =>
      obtain ⟨v, s1⟩ := p
      simp only []
      have := h2 s1
      omega

theorem bd_scan : (fs : List Ty) → (∀ t ∈ fs, Bd t) → ∀ s, workScan fs s ≤ Cf fs
  | [], _ => fun s => by simp [workScan]
  | t :: ts, ih => fun s => by
    have h2 := bd_scan ts (fun t' h' => ih t' (List.mem_cons_of_mem _ h'))
    simp only [workScan, Cf]
    cases hfx : isFixed t with
    | false =>
      simp only [Bool.false_eq_true, if_false]
      have := h2 (readOffset s).2
      omega
    | true =>
      simp only [if_true]
      have h1 := ih t (List.mem_cons_self ..) s (fixedLen t)
      cases hd : deser t s (fixedLen t) with
      | none => simp only []; omega
      | some p =>
        obtain ⟨v, s1⟩ := p
        simp only []
        have := h2 s1
        omega

theorem bd_dyn : (fs : List Ty) → (∀ t ∈ fs, Bd t) → ∀ scope offs s,
    workDyn fs scope offs s ≤ Wv fs * (scope + 1) + Av fs
  | [], _ => fun scope offs s => by simp [workDyn]
  | t :: ts, ih => fun scope offs s => by
    have h2 := bd_dyn ts (fun t' h' => ih t' (List.mem_cons_of_mem _ h')) scope
    simp only [workDyn, Wv, Av]
    cases hfx : isFixed t with
    | true =>
      simp only [if_true, Nat.zero_add]
      exact h2 offs s
    | false =>
      simp only [Bool.false_eq_true, if_false]
      split
      · rename_i start stop rest
        split
        · exact Nat.zero_le _
        · split
          · exact Nat.zero_le _
          · split
            · exact Nat.zero_le _
            · rename_i g1 g2 _
              have h1 := ih t (List.mem_cons_self ..) s (stop - start)
              have hk : stop - start + 1 ≤ scope + 1 := by omega
              have a1 := Nat.mul_le_mul_left (W t) hk
              rw [Nat.add_mul]
              cases hd : deser t s (stop - start) with
              | none => simp only []; omega
              | some p =>
                obtain ⟨v, s1⟩ := p
                simp only []
                have := h2 (stop :: rest) s1
                omega
      · exact Nat.zero_le _

theorem bd_opt : (fs : List Ty) → (∀ t ∈ fs, Bd t) → ∀ k s scope,
    workOpt fs k s scope ≤ Wm fs * (scope + 1) + Am fs
  | [], _ => fun k s scope => by simp [workOpt]
  | t :: ts, ih => fun k s scope => by
    have m1 : W t * (scope + 1) ≤ max (W t) (Wm ts) * (scope + 1) :=
      Nat.mul_le_mul_right _ (Nat.le_max_left ..)
    have m2 : Wm ts * (scope + 1) ≤ max (W t) (Wm ts) * (scope + 1) :=
      Nat.mul_le_mul_right _ (Nat.le_max_right ..)
    cases k with
    | zero =>
      simp only [workOpt, Wm, Am]
      have h1 := ih t (List.mem_cons_self ..) s scope
      omega
    | succ k =>
      simp only [workOpt, Wm, Am]
      have := bd_opt ts (fun t' h' => ih t' (List.mem_cons_of_mem _ h')) k s scope
      omega

theorem bd_container (fs : List Ty) (ih : ∀ t ∈ fs, Bd t) : Bd (.container fs) := by
  intro s scope
  simp only [deserWork, W, A]
  split
  · rename_i hf
    split
    · omega
    · have := bd_fixedFields fs ih hf s
      omega
  · have h1 := bd_scan fs ih s
    cases hd : deserScan fs s with
    | none => simp only []; omega
    | some p =>
      obtain ⟨slots, offs, s1⟩ := p
      simp only []
      cases hh : offs.head? with
      | none => simp only []; omega
      | some first =>
        simp only []
        split
        · omega
        · have := bd_dyn fs ih scope (offs ++ [scope]) s1
          omega

theorem bd_union (hasNone : Bool) (opts : List Ty) (ih : ∀ t ∈ opts, Bd t) :
    Bd (.union hasNone opts) := by
  intro s scope
  simp only [deserWork, W, A]
  split
  · omega
  · split
    · omega
    · split
      · omega
      · rename_i hs _ _
        have := bd_opt opts ih (optIndex hasNone (fromLE (s.take 1))) (s.drop 1) (scope - 1)
        have e : scope - 1 + 1 = scope := by omega
        rw [e] at this
        rw [Nat.mul_succ]
        omega

mutual
theorem bd_all : (t : Ty) → Bd t
  | .uint _ => fun _ _ => by simp [deserWork, W, A]
  | .bool => fun _ _ => by simp [deserWork, W, A]
  | .bitvector _ => fun _ _ => by simp [deserWork, W, A]
  | .bitlist _ => fun _ _ => by simp [deserWork, W, A]
  | .bytevector _ => fun _ _ => by simp [deserWork, W, A]
  | .bytelist _ => fun _ _ => by simp [deserWork, W, A]
  | .vector et n => fun s k => by
    simp only [deserWork, W, A]
    exact bd_seq et _ (bd_all et) s k
  | .list et lim => fun s k => by
    simp only [deserWork, W, A]
    exact bd_seq et _ (bd_all et) s k
  | .container fs => bd_container fs (bd_all_list fs)
  | .union hasNone opts => bd_union hasNone opts (bd_all_list opts)
theorem bd_all_list : (fs : List Ty) → ∀ t ∈ fs, Bd t
  | [] => fun _ h => nomatch h
  | t :: ts => fun t' h =>
    match List.mem_cons.1 h with
    | .inl e => e ▸ bd_all t
    | .inr h' => bd_all_list ts t' h'
end

/-! ## the theorems -/

/-- the bound holds for every type expression, well-formed or not -/
theorem deserWork_le' (t : Ty) (s : Stream) (scope : Nat) :
    Impl.deserWork t s scope ≤ W t * (scope + 1) + A t := bd_all t s scope

set_option linter.unusedVariables false in
/-- **C09.** The number of `deserialize` calls made by `T.deserialize(stream, scope)` is bounded by a linear
    function of the scope, for every input stream whatsoever (too short, garbage, anything): decoding
    terminates, and in time linear in the scope.  (`hwf` is not needed by the proof: `deserWork_le'`.) -/
theorem deserWork_le (t : Ty) (hwf : t.wf = true) (s : Stream) (scope : Nat) :
    Impl.deserWork t s scope ≤ W t * (scope + 1) + A t := deserWork_le' t s scope

/-- the call itself is counted -/
theorem deserWork_pos (t : Ty) (s : Stream) (scope : Nat) : 1 ≤ Impl.deserWork t s scope := by
  cases t with
  | uint _ => simp [deserWork]
  | bool => simp [deserWork]
  | bitvector _ => simp [deserWork]
  | bitlist _ => simp [deserWork]
  | bytevector _ => simp [deserWork]
  | bytelist _ => simp [deserWork]
  | vector et n => simp only [deserWork]; omega
  | list et lim => simp only [deserWork]; omega
  | container fs =>
    simp only [deserWork]
    split
    · split <;> omega
    · omega
  | union hasNone opts =>
    simp only [deserWork]
    split
    · omega
    · split
      · omega
      · split <;> omega

/-- the six leaf kinds make exactly one call -/
theorem deserWork_basic (s : Stream) (scope : Nat) :
    (∀ nb, Impl.deserWork (.uint nb) s scope = 1) ∧
    Impl.deserWork .bool s scope = 1 ∧
    (∀ n, Impl.deserWork (.bitvector n) s scope = 1) ∧
    (∀ lim, Impl.deserWork (.bitlist lim) s scope = 1) ∧
    (∀ n, Impl.deserWork (.bytevector n) s scope = 1) ∧
    (∀ lim, Impl.deserWork (.bytelist lim) s scope = 1) := by
  simp [deserWork]

end Rmk.DeserWorkBound

/-! ## non-vacuity: concrete work counts against the bound -/
namespace Rmk.DeserWorkBound
open Rmk Rmk.Impl

/-- `List[Container{uint8, List[uint8, 4]}, 3]` -/
def exT : Ty := .list (.container [.uint 1, .list (.uint 1) 4]) 3
/-- the same shape with large limits -/
def exT2 : Ty := .list (.container [.uint 1, .list (.uint 1) 100]) 100

/-- valid encoding of `[{1, [2,3]}, {4, []}]` (20 bytes) -/
def exGood : Stream := [8,0,0,0, 15,0,0,0,  1, 5,0,0,0, 2,3,   4, 5,0,0,0]
/-- second offset beyond the scope: rejected before any element is decoded -/
def exGarbage1 : Stream := [8,0,0,0, 255,255,255,255, 1,2,3,4,5,6,7,8,9,10,11,12]
/-- first element decodes, the second one has a bad inner offset -/
def exGarbage2 : Stream := [8,0,0,0, 13,0,0,0,  7, 5,0,0,0,  9, 200,0,0,0, 1, 2]
/-- valid encoding (for `exT2`) of one element `{1, [2,…,12]}`: the most calls 20 bytes can cause -/
def exLong : Stream := [4,0,0,0,  1, 5,0,0,0, 2,3,4,5,6,7,8,9,10,11,12]

-- the constants of the example types: the bound is `1 * (scope + 1) + 1`, i.e. 22 for scope 20
example : (W exT, A exT, W exT * (20 + 1) + A exT) = (1, 1, 22) := by decide
example : (W exT2, A exT2, W exT2 * (20 + 1) + A exT2) = (1, 1, 22) := by decide
-- valid input: 1 (list) + 5 (container, uint8, inner list, 2 × uint8) + 3 (container, uint8, inner list)
example : (deser exT exGood 20).isSome = true ∧ deserWork exT exGood 20 = 9 := by decide
-- garbage
example : deser exT exGarbage1 20 = none ∧ deserWork exT exGarbage1 20 = 1 := by decide
example : deser exT exGarbage2 20 = none ∧ deserWork exT exGarbage2 20 = 6 := by decide
-- too short / empty input, scope 20
example : deserWork exT [] 20 = 1 ∧ deserWork exT [4] 20 = 1 := by decide
-- 15 calls out of the 22 allowed
example : (deser exT2 exLong 20).isSome = true ∧ deserWork exT2 exLong 20 = 15 := by decide
-- a list of bytes: `scope + 1` calls, the bound is `scope + 2`
example : deserWork (.list (.uint 1) 100) exLong 20 = 21 ∧
    W (.list (.uint 1) 100) * (20 + 1) + A (.list (.uint 1) 100) = 22 := by decide

end Rmk.DeserWorkBound
