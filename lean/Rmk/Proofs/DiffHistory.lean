/-
Helper lemmas for get_diff / leaf_iter / get_target_history.
-/
import Rmk.Proofs.TreeLaws
namespace Rmk

/-! ### diff and graft -/

abbrev DiffEntry := List Bool × Node × Node

/-- graft the second members of the diff entries into a tree, in order -/
def graftAll (H : Hash) (a : Node) (ds : List DiffEntry) : Option Node :=
  ds.foldl (fun acc d => acc.bind fun t => setPath H false t d.1 d.2.2) (some a)

theorem graftAll_nil (H : Hash) (a : Node) : graftAll H a [] = some a := rfl

theorem foldl_bind_none (H : Hash) (ds : List DiffEntry) :
    ds.foldl (fun acc d => acc.bind fun t => setPath H false t d.1 d.2.2) none = none := by
  induction ds with
  | nil => rfl
  | cons d ds ih => simpa using ih

theorem graftAll_cons (H : Hash) (a : Node) (d : DiffEntry) (ds : List DiffEntry) :
    graftAll H a (d :: ds) = (setPath H false a d.1 d.2.2).bind fun t => graftAll H t ds := by
  unfold graftAll
  simp only [List.foldl_cons, Option.bind_some]
  cases setPath H false a d.1 d.2.2 with
  | none => simpa using foldl_bind_none H ds
  | some t => rfl

theorem graftAll_append (H : Hash) (a : Node) (d1 d2 : List DiffEntry) :
    graftAll H a (d1 ++ d2) = (graftAll H a d1).bind fun t => graftAll H t d2 := by
  induction d1 generalizing a with
  | nil => simp [graftAll_nil]
  | cons d ds ih =>
    simp only [List.cons_append, graftAll_cons]
    cases setPath H false a d.1 d.2.2 with
    | none => rfl
    | some t => simpa using ih t

theorem graftAll_map_left (H : Hash) (l r : Node) (ds : List DiffEntry) :
    graftAll H (.pair l r) (ds.map fun d => (false :: d.1, d.2.1, d.2.2)) =
      (graftAll H l ds).map fun l' => .pair l' r := by
  induction ds generalizing l with
  | nil => simp [graftAll_nil]
  | cons d ds ih =>
    simp only [List.map_cons, graftAll_cons, setPath_pair_cons, Bool.false_eq_true, if_false]
    cases setPath H false l d.1 d.2.2 with
    | none => rfl
    | some t => simpa using ih t

theorem graftAll_map_right (H : Hash) (l r : Node) (ds : List DiffEntry) :
    graftAll H (.pair l r) (ds.map fun d => (true :: d.1, d.2.1, d.2.2)) =
      (graftAll H r ds).map fun r' => .pair l r' := by
  induction ds generalizing r with
  | nil => simp [graftAll_nil]
  | cons d ds ih =>
    simp only [List.map_cons, graftAll_cons, setPath_pair_cons, if_true]
    cases setPath H false r d.1 d.2.2 with
    | none => rfl
    | some t => simpa using ih t

theorem bne_false_root {x y : Chunk} (h : (x != y) = false) : x = y := by
  simpa using h

/-- grafting the second members of the diff into the first tree reproduces the second tree's root -/
theorem graft_getDiffPos (H : Hash) (a b : Node) :
    ∃ r, graftAll H a (getDiffPos H a b) = some r ∧ r.root H = b.root H := by
  induction a generalizing b with
  | leaf c =>
    unfold getDiffPos
    split
    · exact ⟨b, by simp [graftAll_cons, graftAll_nil], rfl⟩
    · rename_i h
      exact ⟨.leaf c, graftAll_nil _ _, by simpa using h⟩
  | pair al ar ihl ihr =>
    cases b with
    | leaf c =>
      unfold getDiffPos
      split
      · exact ⟨.leaf c, by simp [graftAll_cons, graftAll_nil], rfl⟩
      · rename_i h
        exact ⟨.pair al ar, graftAll_nil _ _, by simpa using h⟩
    | pair bl br =>
      unfold getDiffPos
      split
      · obtain ⟨l', hl, hlr⟩ := ihl bl
        obtain ⟨r', hr, hrr⟩ := ihr br
        refine ⟨.pair l' r', ?_, by simp [Node.root, hlr, hrr]⟩
        rw [graftAll_append]
        have h1 := graftAll_map_left H al ar (getDiffPos H al bl)
        have h2 := graftAll_map_right H l' ar (getDiffPos H ar br)
        rw [show (List.map (fun x => match x with | (p, x, y) => (false :: p, x, y)) (getDiffPos H al bl))
              = (getDiffPos H al bl).map fun d => (false :: d.1, d.2.1, d.2.2) from rfl,
            show (List.map (fun x => match x with | (p, x, y) => (true :: p, x, y)) (getDiffPos H ar br))
              = (getDiffPos H ar br).map fun d => (true :: d.1, d.2.1, d.2.2) from rfl]
        rw [h1, hl]
        simp only [Option.map_some, Option.bind_some]
        rw [h2, hr]
        rfl
      · rename_i h
        exact ⟨.pair al ar, graftAll_nil _ _, by simpa using h⟩

/-- `get_diff` is `getDiffPos` without the positions -/
theorem getDiff_eq_map (H : Hash) (a b : Node) :
    getDiff H a b = (getDiffPos H a b).map fun d => (d.2.1, d.2.2) := by
  induction a generalizing b with
  | leaf c => unfold getDiff getDiffPos; split <;> simp
  | pair al ar ihl ihr =>
    cases b with
    | leaf c => unfold getDiff getDiffPos; split <;> simp
    | pair bl br =>
      unfold getDiff getDiffPos
      split
      · simp [ihl, ihr, List.map_map, Function.comp_def]
      · simp

/-- the diff of trees with equal roots is empty -/
theorem getDiff_root_eq (H : Hash) (a b : Node) (h : a.root H = b.root H) : getDiff H a b = [] := by
  cases a <;> cases b <;> unfold getDiff <;> simp [h]

/-- every reported pair sits at its position in both trees, has different roots, and one of its
    members is a leaf (it cannot be diffed deeper) -/
theorem getDiffPos_sound (H : Hash) (a b : Node) (p : List Bool) (x y : Node)
    (hm : (p, x, y) ∈ getDiffPos H a b) :
    getPath a p = some x ∧ getPath b p = some y ∧ x.root H ≠ y.root H ∧ (x.isLeaf ∨ y.isLeaf) := by
  induction a generalizing b p with
  | leaf c =>
    unfold getDiffPos at hm
    split at hm
    · rename_i h
      simp at hm
      obtain ⟨rfl, rfl, rfl⟩ := hm
      exact ⟨by simp, by simp, by simpa using h, .inl rfl⟩
    · simp at hm
  | pair al ar ihl ihr =>
    cases b with
    | leaf c =>
      unfold getDiffPos at hm
      split at hm
      · rename_i h
        simp at hm
        obtain ⟨rfl, rfl, rfl⟩ := hm
        exact ⟨by simp, by simp, by simpa using h, .inr rfl⟩
      · simp at hm
    | pair bl br =>
      unfold getDiffPos at hm
      split at hm
      · simp only [List.mem_append, List.mem_map] at hm
        rcases hm with ⟨⟨q, x', y'⟩, hq, heq⟩ | ⟨⟨q, x', y'⟩, hq, heq⟩
        · simp at heq
          obtain ⟨rfl, rfl, rfl⟩ := heq
          simpa using ihl bl q hq
        · simp at heq
          obtain ⟨rfl, rfl, rfl⟩ := heq
          simpa using ihr br q hq
      · simp at hm

/-- all proper ancestors of a reported pair differ as well (the pairs are minimal) -/
theorem getDiffPos_nonempty_of_ne (H : Hash) (a b : Node) (h : a.root H ≠ b.root H) :
    getDiffPos H a b ≠ [] := by
  induction a generalizing b with
  | leaf c => unfold getDiffPos; split <;> simp_all
  | pair al ar ihl ihr =>
    cases b with
    | leaf c => unfold getDiffPos; split <;> simp_all
    | pair bl br =>
      unfold getDiffPos
      have hne : ((Node.pair al ar).root H != (Node.pair bl br).root H) = true := by simpa using h
      simp only [hne, if_true]
      intro hnil
      simp only [List.append_eq_nil_iff, List.map_eq_nil_iff] at hnil
      by_cases hl : al.root H = bl.root H
      · by_cases hr : ar.root H = br.root H
        · exact h (by simp [Node.root, hl, hr])
        · exact ihr br hr hnil.2
      · exact ihl bl hl hnil.1

/-! ### leaf iteration -/

/-- the paths of all leaves, left to right -/
def leafPaths : Node → List (List Bool)
  | .leaf _ => [[]]
  | .pair l r => (leafPaths l).map (false :: ·) ++ (leafPaths r).map (true :: ·)

/-- `leaf_iter` yields exactly the nodes at the leaf paths, in that (left-to-right) order -/
theorem leafIter_eq (n : Node) : (leafIter n).map some = (leafPaths n).map (getPath n) := by
  induction n with
  | leaf c => simp [leafIter, leafPaths]
  | pair l r ihl ihr =>
    simp [leafIter, leafPaths, List.map_append, ihl, ihr, List.map_map, Function.comp_def]

/-- a path is a leaf path exactly when a leaf sits there: every leaf is listed, nothing else is -/
theorem mem_leafPaths (n : Node) (p : List Bool) : p ∈ leafPaths n ↔ ∃ c, getPath n p = some (.leaf c) := by
  induction n generalizing p with
  | leaf c =>
    cases p with
    | nil => simp [leafPaths]
    | cons b bs => simp [leafPaths]
  | pair l r ihl ihr =>
    cases p with
    | nil => simp [leafPaths]
    | cons b bs => cases b <;> simp [leafPaths, ihl, ihr]

/-- lexicographic "strictly left of" on paths that diverge -/
def leftOf : List Bool → List Bool → Prop
  | a :: p, b :: q => (a = false ∧ b = true) ∨ (a = b ∧ leftOf p q)
  | _, _ => False

/-- the leaf paths are listed strictly left to right (so every leaf occurs once) -/
theorem leafPaths_sorted (n : Node) : (leafPaths n).Pairwise leftOf := by
  induction n with
  | leaf c => simp [leafPaths]
  | pair l r ihl ihr =>
    simp only [leafPaths, List.pairwise_append, List.pairwise_map]
    refine ⟨?_, ?_, ?_⟩
    · exact ihl.imp (fun h => .inr ⟨rfl, h⟩)
    · exact ihr.imp (fun h => .inr ⟨rfl, h⟩)
    · intro a ha b hb
      simp only [List.mem_map] at ha hb
      obtain ⟨a', _, rfl⟩ := ha
      obtain ⟨b', _, rfl⟩ := hb
      exact .inl ⟨rfl, rfl⟩

end Rmk

namespace Rmk

/-! ### history changelog -/

/-- drop consecutive repeats by key (`last` = key of the last kept element) -/
def ddBy {α K} [DecidableEq K] (key : α → K) : List α → Option K → List α
  | [], _ => []
  | x :: xs, last =>
    if last = some (key x) then ddBy key xs last else x :: ddBy key xs (some (key x))

theorem ddBy_map {α β K} [DecidableEq K] (key : β → K) (f : α → β) (l : List α) (last : Option K) :
    ddBy key (l.map f) last = (ddBy (fun a => key (f a)) l last).map f := by
  induction l generalizing last with
  | nil => rfl
  | cons x xs ih =>
    simp only [List.map_cons, ddBy]
    split <;> simp [ih]

theorem ddBy_subset {α K} [DecidableEq K] (key : α → K) (l : List α) (last : Option K) :
    ∀ x ∈ ddBy key l last, x ∈ l := by
  induction l generalizing last with
  | nil => simp [ddBy]
  | cons y ys ih =>
    intro x hx
    simp only [ddBy] at hx
    split at hx
    · exact List.mem_cons_of_mem _ (ih _ x hx)
    · rcases List.mem_cons.1 hx with rfl | h
      · exact List.mem_cons_self
      · exact List.mem_cons_of_mem _ (ih _ x h)

/-- de-duplicating by a coarser key first does not change the result of de-duplicating by a finer
    key that the coarser one determines (generalised over the two "last kept" states) -/
theorem ddBy_ddBy_aux {α K1 K2} [DecidableEq K1] [DecidableEq K2] (k1 : α → K1) (k2 : α → K2)
    (l : List α) (z1 z2 : α)
    (h : ∀ x, (x = z1 ∨ x ∈ l) → ∀ y, (y = z1 ∨ y ∈ l) → k1 x = k1 y → k2 x = k2 y)
    (hz : k2 z1 = k2 z2) :
    ddBy k2 (ddBy k1 l (some (k1 z1))) (some (k2 z2)) = ddBy k2 l (some (k2 z2)) := by
  induction l generalizing z1 z2 with
  | nil => rfl
  | cons x xs ih =>
    simp only [ddBy]
    by_cases h1 : k1 z1 = k1 x
    · -- dropped at level 1, hence equal at level 2
      have h2 : k2 z1 = k2 x := h z1 (.inl rfl) x (.inr List.mem_cons_self) h1
      have h2' : k2 z2 = k2 x := by rw [← hz]; exact h2
      simp only [h1, h2', if_true]
      have := ih z1 z2 (fun a ha b hb => h a (ha.imp id (List.mem_cons_of_mem _)) b (hb.imp id (List.mem_cons_of_mem _))) hz
      simpa [h1, h2'] using this
    · have hne : ¬ (some (k1 z1) = some (k1 x)) := by simpa using h1
      simp only [hne, if_false, ddBy]
      have hx : ∀ a, (a = x ∨ a ∈ xs) → ∀ b, (b = x ∨ b ∈ xs) → k1 a = k1 b → k2 a = k2 b := by
        intro a ha b hb
        exact h a (.inr (by rcases ha with rfl | ha; exact List.mem_cons_self; exact List.mem_cons_of_mem _ ha))
          b (.inr (by rcases hb with rfl | hb; exact List.mem_cons_self; exact List.mem_cons_of_mem _ hb))
      by_cases h2 : k2 z2 = k2 x
      · simp only [h2, if_true]
        have := ih x x hx rfl
        simpa [h2] using this
      · have hne2 : ¬ (some (k2 z2) = some (k2 x)) := by simpa using h2
        simp only [hne2, if_false]
        congr 1
        exact ih x x hx rfl

theorem ddBy_ddBy {α K1 K2} [DecidableEq K1] [DecidableEq K2] (k1 : α → K1) (k2 : α → K2)
    (l : List α) (h : ∀ x ∈ l, ∀ y ∈ l, k1 x = k1 y → k2 x = k2 y) :
    ddBy k2 (ddBy k1 l none) none = ddBy k2 l none := by
  cases l with
  | nil => rfl
  | cons x xs =>
    simp only [ddBy, reduceCtorEq, if_false]
    congr 1
    exact ddBy_ddBy_aux k1 k2 xs x x
      (fun a ha b hb => h a (by rcases ha with rfl | ha; exact List.mem_cons_self; exact List.mem_cons_of_mem _ ha)
        b (by rcases hb with rfl | hb; exact List.mem_cons_self; exact List.mem_cons_of_mem _ hb)) rfl

/-- collision-freeness of the pair hash (an explicit hypothesis wherever it is needed) -/
def Injective2 (H : Hash) : Prop := ∀ a b c d, H a b = H c d → a = c ∧ b = d

/-- with a collision-free hash, equal roots of two trees in which the path `p` exists imply equal
    roots at `p` -/
theorem root_getPath_of_root_eq (H : Hash) (hH : Injective2 H) (p : List Bool) (a b x y : Node)
    (hr : a.root H = b.root H) (ha : getPath a p = some x) (hb : getPath b p = some y) :
    x.root H = y.root H := by
  induction p generalizing a b with
  | nil => simp at ha hb; subst ha; subst hb; exact hr
  | cons c cs ih =>
    cases a with
    | leaf _ => simp at ha
    | pair al ar =>
      cases b with
      | leaf _ => simp at hb
      | pair bl br =>
        obtain ⟨h1, h2⟩ := hH _ _ _ _ hr
        cases c <;> simp at ha hb
        · exact ih al bl h1 ha hb
        · exact ih ar br h2 ha hb

/-- the entry list keyed by root -/
abbrev rootKey (H : Hash) (e : Nat × Node) : Chunk := e.2.root H

/-- one level of `get_target_history` when every entry has the child: map, then drop repeats -/
theorem historyLevel_some (H : Hash) (b : Bool) (hist : List (Nat × Node)) (last : Option Chunk)
    (hist' : List (Nat × Node))
    (hc : hist.mapM (fun e => ((if b then getRight e.2 else getLeft e.2).map fun c => (e.1, c))) = some hist') :
    historyLevel H (some b) hist last = some (ddBy (rootKey H) hist' last) := by
  induction hist generalizing last hist' with
  | nil => simp at hc; subst hc; rfl
  | cons e es ih =>
    obtain ⟨k, n⟩ := e
    simp only [List.mapM_cons, Option.bind_eq_bind, Option.pure_def] at hc
    cases hch : (if b then getRight n else getLeft n) with
    | none => simp [hch] at hc
    | some c =>
      simp only [hch, Option.map_some, Option.bind_some] at hc
      cases hrest : es.mapM (fun e => ((if b then getRight e.2 else getLeft e.2).map fun c => (e.1, c))) with
      | none => simp [hrest] at hc
      | some r =>
        simp only [hrest, Option.bind_some, Option.some.injEq] at hc
        subst hc
        cases b
        · simp only [Bool.false_eq_true, if_false] at hch
          simp only [historyLevel, hch, ddBy]
          by_cases hl : last = some (c.root H)
          · simp [hl, rootKey, ih _ r hrest]
          · simp [hl, rootKey, ih _ r hrest]
        · simp only [if_true] at hch
          simp only [historyLevel, hch, ddBy]
          by_cases hl : last = some (c.root H)
          · simp [hl, rootKey, ih _ r hrest]
          · simp [hl, rootKey, ih _ r hrest]

theorem historyLevel_none (H : Hash) (hist : List (Nat × Node)) (last : Option Chunk) :
    historyLevel H none hist last = some (ddBy (rootKey H) hist last) := by
  induction hist generalizing last with
  | nil => rfl
  | cons e es ih =>
    obtain ⟨k, n⟩ := e
    simp only [historyLevel, ddBy]
    by_cases hl : last = some (n.root H)
    · simp [hl, ih]
    · have : (last == some (n.root H)) = false := by simpa using hl
      simp [this, hl, ih]

end Rmk

namespace Rmk

theorem mapM_option_of_forall {α β} (f : α → Option β) (g : α → β) (l : List α)
    (h : ∀ a ∈ l, f a = some (g a)) : l.mapM f = some (l.map g) := by
  induction l with
  | nil => rfl
  | cons a as ih =>
    simp only [List.mapM_cons, Option.bind_eq_bind, Option.pure_def, List.map_cons]
    rw [h a List.mem_cons_self, ih (fun x hx => h x (List.mem_cons_of_mem _ hx))]
    rfl

/-- the child of a node in direction `b`, total version (the node itself when there is none) -/
def childD (b : Bool) (n : Node) : Node :=
  match n with
  | .pair l r => if b then r else l
  | .leaf c => .leaf c

/-- node at a path, total version -/
def atD (p : List Bool) (n : Node) : Node := (getPath n p).getD n

theorem historyLevel_some' (H : Hash) (b : Bool) (hist : List (Nat × Node)) (last : Option Chunk)
    (hc : ∀ e ∈ hist, (getPath e.2 [b]).isSome) :
    historyLevel H (some b) hist last =
      some (ddBy (rootKey H) (hist.map fun e => (e.1, childD b e.2)) last) := by
  apply historyLevel_some
  apply mapM_option_of_forall
  intro e he
  have := hc e he
  obtain ⟨k, n⟩ := e
  cases n with
  | leaf c => simp at this
  | pair l r => cases b <;> simp [getLeft, getRight, childD]

/-- `get_target_history`: with a collision-free hash and when every lookup succeeds, the changelog
    is the per-entry lookup with consecutive repeats (by root) dropped, keyed by first occurrence -/
theorem targetHistoryPath_spec (H : Hash) (hH : Injective2 H) (p : List Bool) (hist : List (Nat × Node))
    (hl : ∀ e ∈ hist, (getPath e.2 p).isSome) :
    targetHistoryPath H hist p =
      some (ddBy (rootKey H) (hist.map fun e => (e.1, atD p e.2)) none) := by
  induction p generalizing hist with
  | nil =>
    simp only [targetHistoryPath, historyLevel_none]
    congr 2
    rw [show (fun e : Nat × Node => (e.1, atD [] e.2)) = id from by funext e; simp [atD]]
    simp
  | cons b bs ih =>
    have hc : ∀ e ∈ hist, (getPath e.2 [b]).isSome := by
      intro e he
      have := hl e he
      obtain ⟨k, n⟩ := e
      cases n with
      | leaf c => simp at this
      | pair l r => cases b <;> simp
    simp only [targetHistoryPath, historyLevel_some' H b hist none hc]
    -- the entries one level down
    obtain ⟨hist1, hdef⟩ : ∃ h1 : List (Nat × Node), h1 = hist.map fun e => (e.1, childD b e.2) := ⟨_, rfl⟩
    have h1 : ∀ e ∈ hist1, (getPath e.2 bs).isSome := by
      intro e he
      rw [hdef, List.mem_map] at he
      obtain ⟨e0, he0, rfl⟩ := he
      have := hl e0 he0
      obtain ⟨k, n⟩ := e0
      cases n with
      | leaf c => simp at this
      | pair l r => cases b <;> simpa [childD] using this
    have hout : ∀ e ∈ ddBy (rootKey H) hist1 none, (getPath e.2 bs).isSome :=
      fun e he => h1 e (ddBy_subset _ _ _ e he)
    have hcomp : (hist.map fun e => (e.1, atD (b :: bs) e.2)) = hist1.map fun e => (e.1, atD bs e.2) := by
      rw [hdef, List.map_map]
      apply List.map_congr_left
      intro e he
      have := hl e he
      obtain ⟨k, n⟩ := e
      cases n with
      | leaf c => simp at this
      | pair l r =>
        obtain ⟨v, hv⟩ := Option.isSome_iff_exists.1 this
        cases b <;> simp at hv <;> simp [childD, atD, hv]
    rw [← hdef, ih _ hout, hcomp, ddBy_map, ddBy_map]
    congr 2
    apply ddBy_ddBy
    intro x hx y hy hxy
    obtain ⟨xv, hxv⟩ := Option.isSome_iff_exists.1 (h1 x hx)
    obtain ⟨yv, hyv⟩ := Option.isSome_iff_exists.1 (h1 y hy)
    have := root_getPath_of_root_eq H hH bs x.2 y.2 xv yv hxy hxv hyv
    simpa [rootKey, atD, hxv, hyv] using this

/-- a non-empty history has a non-empty changelog (its first entry is always kept) -/
theorem ddBy_none_ne_nil {α K} [DecidableEq K] (key : α → K) (l : List α) (h : l ≠ []) :
    ddBy key l none ≠ [] := by
  cases l with
  | nil => exact absurd rfl h
  | cons x xs => simp [ddBy]

end Rmk
