/-
The diff of a tree with its written version is exactly the diff at the written position.

`m` is `n` with `v` written at the path `p` (where `old` was).  When the root of every node on the
path changes (hypothesis `PathDiffers`, implied by `old.root ≠ v.root` for a collision-free hash)
  * `getDiffPos H n m` is `getDiffPos H old v` with `p` prepended to every position
    (`diffPos_of_write`, `diffPos_of_write_inj`),
  * `getDiff H n m = getDiff H old v` (`diff_of_write`), which is `[(old, v)]` when `old`, `v`
    are not both pairs (`diff_of_leaf_write`),
  * a write of a node with the same root reports nothing (`diff_of_noop_write`),
  * an EXPANDING write through a (zero) summary leaf at `q` reports exactly
    `(q, the leaf, expandSet H r v)` (`diffPos_of_expanding_write`).
-/
import Rmk.Proofs.DiffHistory
import Rmk.Proofs.Leftovers
namespace Rmk.DiffOfWrite
open Rmk Rmk.Leftovers

/-- the root of every node on the path `p` (all prefixes, `p` itself included) differs between
    the trees `n` and `m` -/
def PathDiffers (H : Hash) (n m : Node) (p : List Bool) : Prop :=
  ∀ k ≤ p.length,
    ((getPath n (p.take k)).map (·.root H)) ≠ ((getPath m (p.take k)).map (·.root H))

/-! ### helpers -/

/-- the positioned diff of trees with equal roots is empty -/
theorem getDiffPos_root_eq (H : Hash) (a b : Node) (h : a.root H = b.root H) :
    getDiffPos H a b = [] := by
  cases a with
  | leaf c => rw [getDiffPos_of_leaf H _ _ (.inl rfl)]; simp [h]
  | pair al ar =>
    cases b with
    | leaf c => rw [getDiffPos_of_leaf H _ _ (.inr rfl)]; simp [h]
    | pair bl br => exact getDiffPos_pair_eq H _ _ _ _ h

/-- the positioned diff of two nodes that are not both pairs and whose roots differ -/
theorem getDiffPos_leaf_ne (H : Hash) (a b : Node) (hl : a.isLeaf = true ∨ b.isLeaf = true)
    (h : a.root H ≠ b.root H) : getDiffPos H a b = [([], a, b)] := by
  have hne : (a.root H != b.root H) = true := by simpa using h
  rw [getDiffPos_of_leaf H a b hl, if_pos hne]

theorem PathDiffers.head {H : Hash} {n m : Node} {p : List Bool} (h : PathDiffers H n m p) :
    n.root H ≠ m.root H := by
  have := h 0 (Nat.zero_le _)
  simpa using this

theorem PathDiffers.tail_false {H : Hash} {l r l' r' : Node} {bs : List Bool}
    (h : PathDiffers H (.pair l r) (.pair l' r') (false :: bs)) : PathDiffers H l l' bs := by
  intro k hk
  have := h (k + 1) (by simpa using hk)
  simpa using this

theorem PathDiffers.tail_true {H : Hash} {l r l' r' : Node} {bs : List Bool}
    (h : PathDiffers H (.pair l r) (.pair l' r') (true :: bs)) : PathDiffers H r r' bs := by
  intro k hk
  have := h (k + 1) (by simpa using hk)
  simpa using this

/-- the roots at the written position differ -/
theorem PathDiffers.last {H : Hash} {n m : Node} {p : List Bool} {old v : Node}
    (h : PathDiffers H n m p) (hg : getPath n p = some old) (hm : getPath m p = some v) :
    old.root H ≠ v.root H := by
  have := h p.length (Nat.le_refl _)
  simpa [hg, hm] using this

/-- for a collision-free hash, a change of the root at `p` shows at every node on the path -/
theorem pathDiffers_of_inj (H : Hash) (hH : Injective2 H) (n m : Node) (p : List Bool) (old v : Node)
    (hg : getPath n p = some old) (hm : getPath m p = some v) (hne : old.root H ≠ v.root H) :
    PathDiffers H n m p := by
  intro k _ heq
  have hp : p = p.take k ++ p.drop k := (List.take_append_drop k p).symm
  rw [hp, getPath_append] at hg hm
  cases hu : getPath n (p.take k) with
  | none => rw [hu] at hg; simp at hg
  | some u =>
    cases hw : getPath m (p.take k) with
    | none => rw [hw] at hm; simp at hm
    | some w =>
      rw [hu] at hg; rw [hw] at hm
      simp only [Option.bind_some] at hg hm
      rw [hu, hw] at heq
      simp only [Option.map_some, Option.some.injEq] at heq
      exact hne (root_getPath_of_root_eq H hH (p.drop k) u w old v heq hg hm)

theorem map_prepend_nil (l : List DiffEntry) :
    l.map (fun (x : DiffEntry) => match x with | (q, x, y) => (([] : List Bool) ++ q, x, y)) = l := by
  induction l with
  | nil => rfl
  | cons a as ih => simp

/-! ### 1. the positioned diff of a write -/

/-- POSITIONED DIFF OF A WRITE (no assumption on the hash): when the root of every node on the path
    changes, the diff of `n` with `m = n[p := v]` is the diff of the old and the new node at `p`,
    moved to `p`. -/
theorem diffPos_of_write (H : Hash) (n m : Node) (p : List Bool) (old v : Node)
    (hg : getPath n p = some old) (hs : setPath H false n p v = some m)
    (hd : ∀ k ≤ p.length,
      ((getPath n (p.take k)).map (·.root H)) ≠ ((getPath m (p.take k)).map (·.root H))) :
    getDiffPos H n m = (getDiffPos H old v).map (fun (q, x, y) => (p ++ q, x, y)) := by
  induction p generalizing n m with
  | nil =>
    simp only [getPath_nil, Option.some.injEq, setPath_nil] at hg hs
    subst hg; subst hs
    exact (map_prepend_nil _).symm
  | cons b bs ih =>
    cases n with
    | leaf c => simp at hg
    | pair l r =>
      have hd' : PathDiffers H (.pair l r) m (b :: bs) := hd
      cases b with
      | false =>
        simp only [getPath_pair_cons, setPath_pair_cons, Bool.false_eq_true, if_false] at hg hs
        cases hl : setPath H false l bs v with
        | none => rw [hl] at hs; simp at hs
        | some l' =>
          rw [hl] at hs
          simp only [Option.map_some, Option.some.injEq] at hs
          subst hs
          rw [getDiffPos_pair_ne H _ _ _ _ hd'.head, getDiffPos_root_eq H r r rfl,
            ih l l' hg hl hd'.tail_false]
          simp [List.map_map, Function.comp_def]
      | true =>
        simp only [getPath_pair_cons, setPath_pair_cons, if_true] at hg hs
        cases hr : setPath H false r bs v with
        | none => rw [hr] at hs; simp at hs
        | some r' =>
          rw [hr] at hs
          simp only [Option.map_some, Option.some.injEq] at hs
          subst hs
          rw [getDiffPos_pair_ne H _ _ _ _ hd'.head, getDiffPos_root_eq H l l rfl,
            ih r r' hg hr hd'.tail_true]
          simp [List.map_map, Function.comp_def]

/-- the hypothesis of `diffPos_of_write` for a collision-free hash -/
theorem pathDiffers_of_write_inj (H : Hash) (hH : Injective2 H) (e : Bool) (n m : Node) (p : List Bool)
    (old v : Node) (hg : getPath n p = some old) (hs : setPath H e n p v = some m)
    (hne : old.root H ≠ v.root H) :
    ∀ k ≤ p.length,
      ((getPath n (p.take k)).map (·.root H)) ≠ ((getPath m (p.take k)).map (·.root H)) :=
  pathDiffers_of_inj H hH n m p old v hg (getPath_setPath_same H e n p v m hs) hne

/-- POSITIONED DIFF OF A WRITE for a collision-free hash: it is enough that the written node's root
    differs from the old one. -/
theorem diffPos_of_write_inj (H : Hash) (hH : Injective2 H) (n m : Node) (p : List Bool) (old v : Node)
    (hg : getPath n p = some old) (hs : setPath H false n p v = some m)
    (hne : old.root H ≠ v.root H) :
    getDiffPos H n m = (getDiffPos H old v).map (fun (q, x, y) => (p ++ q, x, y)) :=
  diffPos_of_write H n m p old v hg hs (pathDiffers_of_write_inj H hH false n m p old v hg hs hne)

/-! ### 2. the diff of a write -/

/-- DIFF OF A WRITE: `get_diff(n, n[p := v]) = get_diff(old, v)`. -/
theorem diff_of_write (H : Hash) (n m : Node) (p : List Bool) (old v : Node)
    (hg : getPath n p = some old) (hs : setPath H false n p v = some m)
    (hd : ∀ k ≤ p.length,
      ((getPath n (p.take k)).map (·.root H)) ≠ ((getPath m (p.take k)).map (·.root H))) :
    getDiff H n m = getDiff H old v := by
  rw [getDiff_eq_map, getDiff_eq_map, diffPos_of_write H n m p old v hg hs hd, List.map_map]
  rfl

theorem diff_of_write_inj (H : Hash) (hH : Injective2 H) (n m : Node) (p : List Bool) (old v : Node)
    (hg : getPath n p = some old) (hs : setPath H false n p v = some m)
    (hne : old.root H ≠ v.root H) :
    getDiff H n m = getDiff H old v :=
  diff_of_write H n m p old v hg hs (pathDiffers_of_write_inj H hH false n m p old v hg hs hne)

/-! ### 3. a write of / over a leaf -/

/-- when the old and the new node are not both pairs, exactly the written position is reported -/
theorem diffPos_of_leaf_write (H : Hash) (n m : Node) (p : List Bool) (old v : Node)
    (hg : getPath n p = some old) (hs : setPath H false n p v = some m)
    (hd : ∀ k ≤ p.length,
      ((getPath n (p.take k)).map (·.root H)) ≠ ((getPath m (p.take k)).map (·.root H)))
    (hl : old.isLeaf = true ∨ v.isLeaf = true) :
    getDiffPos H n m = [(p, old, v)] := by
  have hne : old.root H ≠ v.root H :=
    PathDiffers.last (H := H) hd hg (getPath_setPath_same H false n p v m hs)
  rw [diffPos_of_write H n m p old v hg hs hd, getDiffPos_leaf_ne H old v hl hne]
  simp

/-- DIFF OF A LEAF WRITE: when the old and the new node are not both pairs (e.g. both leaves) the
    diff is the single pair `(old, v)`. -/
theorem diff_of_leaf_write (H : Hash) (n m : Node) (p : List Bool) (old v : Node)
    (hg : getPath n p = some old) (hs : setPath H false n p v = some m)
    (hd : ∀ k ≤ p.length,
      ((getPath n (p.take k)).map (·.root H)) ≠ ((getPath m (p.take k)).map (·.root H)))
    (hl : old.isLeaf = true ∨ v.isLeaf = true) :
    getDiff H n m = [(old, v)] := by
  rw [getDiff_eq_map, diffPos_of_leaf_write H n m p old v hg hs hd hl]
  rfl

theorem diff_of_leaf_write_inj (H : Hash) (hH : Injective2 H) (n m : Node) (p : List Bool) (old v : Node)
    (hg : getPath n p = some old) (hs : setPath H false n p v = some m)
    (hne : old.root H ≠ v.root H) (hl : old.isLeaf = true ∨ v.isLeaf = true) :
    getDiff H n m = [(old, v)] :=
  diff_of_leaf_write H n m p old v hg hs
    (pathDiffers_of_write_inj H hH false n m p old v hg hs hne) hl

/-! ### 4. a write that does not change the root -/

/-- a write of a node with the root that is already there does not change the root of the tree -/
theorem root_of_noop_write (H : Hash) (n m : Node) (p : List Bool) (old v : Node)
    (hg : getPath n p = some old) (hs : setPath H false n p v = some m)
    (he : old.root H = v.root H) : m.root H = n.root H := by
  rw [setPath_root H n p v m hs, ← he, rootWith_self H n p old hg]

/-- DIFF OF A NO-OP WRITE: writing a node with the same root reports nothing. -/
theorem diff_of_noop_write (H : Hash) (n m : Node) (p : List Bool) (old v : Node)
    (hg : getPath n p = some old) (hs : setPath H false n p v = some m)
    (he : old.root H = v.root H) : getDiff H n m = [] :=
  getDiff_root_eq H n m (root_of_noop_write H n m p old v hg hs he).symm

theorem diffPos_of_noop_write (H : Hash) (n m : Node) (p : List Bool) (old v : Node)
    (hg : getPath n p = some old) (hs : setPath H false n p v = some m)
    (he : old.root H = v.root H) : getDiffPos H n m = [] :=
  getDiffPos_root_eq H n m (root_of_noop_write H n m p old v hg hs he).symm

/-! ### 5. expanding writes -/

/-- an expanding write whose path leaves the tree at the leaf at `q` is the plain write of the
    expanded subtree at `q` -/
theorem setPath_expand_through_leaf (H : Hash) (n m : Node) (q r : List Bool) (c : Chunk) (v : Node)
    (hg : getPath n q = some (.leaf c)) (hs : setPath H true n (q ++ r) v = some m) :
    setPath H false n q (expandSet H r v) = some m := by
  induction q generalizing n m with
  | nil =>
    simp only [getPath_nil, Option.some.injEq] at hg
    subst hg
    cases r with
    | nil => simpa [expandSet] using hs
    | cons b bs =>
      simp only [List.nil_append, setPath_leaf_cons] at hs
      split at hs
      · simpa using hs
      · simp at hs
  | cons a as ih =>
    cases n with
    | leaf x => simp at hg
    | pair l rr =>
      cases a with
      | false =>
        simp only [getPath_pair_cons, Bool.false_eq_true, if_false] at hg
        simp only [List.cons_append, setPath_pair_cons, Bool.false_eq_true, if_false] at hs ⊢
        cases hl : setPath H true l (as ++ r) v with
        | none => rw [hl] at hs; simp at hs
        | some l' =>
          rw [hl] at hs
          rw [ih l l' hg hl]
          exact hs
      | true =>
        simp only [getPath_pair_cons, if_true] at hg
        simp only [List.cons_append, setPath_pair_cons, if_true] at hs ⊢
        cases hr : setPath H true rr (as ++ r) v with
        | none => rw [hr] at hs; simp at hs
        | some r' =>
          rw [hr] at hs
          rw [ih rr r' hg hr]
          exact hs

/-- DIFF OF AN EXPANDING WRITE, general leaf: if the path `q ++ r` of an expanding write leaves the
    tree at a leaf at `q` (necessarily the zero summary of height `r.length` when `r ≠ []`), and
    the roots of all nodes on `q` change, then exactly the position `q` is reported, with the
    leaf and the expanded subtree holding `v`. -/
theorem diffPos_of_expanding_write_leaf (H : Hash) (n m : Node) (q r : List Bool) (c : Chunk) (v : Node)
    (hg : getPath n q = some (.leaf c)) (hs : setPath H true n (q ++ r) v = some m)
    (hd : ∀ k ≤ q.length,
      ((getPath n (q.take k)).map (·.root H)) ≠ ((getPath m (q.take k)).map (·.root H))) :
    getDiffPos H n m = [(q, .leaf c, expandSet H r v)] :=
  diffPos_of_leaf_write H n m q (.leaf c) (expandSet H r v) hg
    (setPath_expand_through_leaf H n m q r c v hg hs) hd (.inl rfl)

/-- DIFF OF AN EXPANDING WRITE through a zero summary (the statement of the task). -/
theorem diffPos_of_expanding_write (H : Hash) (n m : Node) (p q r : List Bool) (d : Nat) (v : Node)
    (hp : p = q ++ r)
    (hg : getPath n q = some (.leaf (zeroHash H d))) (hs : setPath H true n p v = some m)
    (hd : ∀ k ≤ q.length,
      ((getPath n (q.take k)).map (·.root H)) ≠ ((getPath m (q.take k)).map (·.root H))) :
    getDiffPos H n m = [(q, .leaf (zeroHash H d), expandSet H r v)] := by
  subst hp
  exact diffPos_of_expanding_write_leaf H n m q r _ v hg hs hd

theorem diff_of_expanding_write (H : Hash) (n m : Node) (p q r : List Bool) (d : Nat) (v : Node)
    (hp : p = q ++ r)
    (hg : getPath n q = some (.leaf (zeroHash H d))) (hs : setPath H true n p v = some m)
    (hd : ∀ k ≤ q.length,
      ((getPath n (q.take k)).map (·.root H)) ≠ ((getPath m (q.take k)).map (·.root H))) :
    getDiff H n m = [(.leaf (zeroHash H d), expandSet H r v)] := by
  rw [getDiff_eq_map, diffPos_of_expanding_write H n m p q r d v hp hg hs hd]
  rfl

/-- expanding write, collision-free hash: it is enough that the expanded subtree's root differs
    from the summary -/
theorem diffPos_of_expanding_write_inj (H : Hash) (hH : Injective2 H) (n m : Node) (p q r : List Bool)
    (d : Nat) (v : Node) (hp : p = q ++ r)
    (hg : getPath n q = some (.leaf (zeroHash H d))) (hs : setPath H true n p v = some m)
    (hne : zeroHash H d ≠ (expandSet H r v).root H) :
    getDiffPos H n m = [(q, .leaf (zeroHash H d), expandSet H r v)] := by
  subst hp
  have hs' := setPath_expand_through_leaf H n m q r _ v hg hs
  exact diffPos_of_expanding_write H n m (q ++ r) q r d v rfl hg hs
    (pathDiffers_of_write_inj H hH false n m q _ _ hg hs' hne)

/-! ### 6. non-vacuity -/

private def H0 : Hash := fun a b => a ++ b
private def ta : Node := .pair (.leaf [1]) (.pair (.leaf [2]) (.leaf [3]))
private def tb : Node := .pair (.leaf [1]) (.pair (.leaf [9]) (.leaf [3]))
private def tc : Node := .pair (.leaf [1]) (.pair (.pair (.leaf [4]) (.leaf [5])) (.leaf [3]))

/-- a leaf write in a depth-2 tree: hypotheses hold, conclusion is the concrete singleton -/
example : getDiffPos H0 ta tb = [([true, false], .leaf [2], .leaf [9])] :=
  diffPos_of_leaf_write H0 ta tb [true, false] (.leaf [2]) (.leaf [9])
    (by decide) (by decide) (by decide) (.inl rfl)

example : getDiff H0 ta tb = [(.leaf [2], .leaf [9])] :=
  diff_of_leaf_write H0 ta tb [true, false] (.leaf [2]) (.leaf [9])
    (by decide) (by decide) (by decide) (.inl rfl)

/-- the general law, instantiated; both sides evaluate to the same concrete list -/
example : getDiffPos H0 ta tc =
    (getDiffPos H0 (.leaf [2]) (.pair (.leaf [4]) (.leaf [5]))).map
      (fun (q, x, y) => ([true, false] ++ q, x, y)) :=
  diffPos_of_write H0 ta tc [true, false] (.leaf [2]) (.pair (.leaf [4]) (.leaf [5]))
    (by decide) (by decide) (by decide)
example : getDiffPos H0 ta tc = [([true, false], .leaf [2], .pair (.leaf [4]) (.leaf [5]))] := by decide

/-- a no-op write (same root under `H0`: `[4] ++ [5] = [4, 5]`) -/
example : getDiff H0 tc (.pair (.leaf [1]) (.pair (.leaf [4, 5]) (.leaf [3]))) = [] :=
  diff_of_noop_write H0 tc _ [true, false] (.pair (.leaf [4]) (.leaf [5])) (.leaf [4, 5])
    (by decide) (by decide) (by decide)

/-- an expanding write through the zero summary of height 1 at position `[true]` -/
example :
    getDiffPos H0 (.pair (.leaf [1]) (.leaf (zeroHash H0 1)))
        (.pair (.leaf [1]) (.pair (.leaf [7]) (.leaf (zeroHash H0 0)))) =
      [([true], .leaf (zeroHash H0 1), expandSet H0 [false] (.leaf [7]))] :=
  diffPos_of_expanding_write H0 _ _ [true, false] [true] [false] 1 (.leaf [7]) rfl
    (by decide) (by decide) (by decide)

end Rmk.DiffOfWrite
