/-
Element-wise reads through the view API (`view[i]`, `len(view)`, `view[a:b]`) agree with the value,
on complete trees (`Repr`) and on partial trees (`Summ`).

Main statements
* `readElem_of_readVal` : whenever the complete read `readVal H t n` returns `v`, the element read
  `readElem H t n i` is `elemAt v i` (no hypothesis on the type or the tree; holds on partial trees too).
* `readElem_repr` (+ the per-kind versions) : on a tree that represents `v`, `view[i]` is element `i` of `v`
  and fails exactly when `i` is out of range.
* `viewLen_repr`, `sliceRead_repr`.
* `readElem_summ`, `viewLen_summ`, `sliceRead_summ` : reads on a partial tree that succeed return what
  the complete tree returns.
-/
import Rmk.Impl.Elem
import Rmk.Proofs.ReprBasics
import Rmk.Proofs.PartialViews
namespace Rmk.ElemLaws
open Rmk Rmk.Impl Rmk.Spec Rmk.ReprBasics Rmk.PartialViews Rmk.ChunkTreeLemmas

/-! ## 0. helpers -/

theorem allSome_eq_some {α} : ∀ (xs : List (Option α)) (l : List α), allSome xs = some l →
    xs = l.map some := by
  intro xs
  induction xs with
  | nil => intro l h; simp only [allSome, Option.some.injEq] at h; subst h; rfl
  | cons x xs ih =>
    intro l h
    cases x with
    | none => simp [allSome] at h
    | some a =>
      simp only [allSome] at h
      cases hr : allSome xs with
      | none => rw [hr] at h; cases h
      | some l' =>
        rw [hr] at h
        simp only [Option.map_some, Option.some.injEq] at h
        subst h
        rw [ih l' hr]; rfl

/-- inversion of a successful `allSome` over a range -/
theorem allSome_range_inv {β} (k : Nat) (f : Nat → Option β) (l : List β)
    (h : allSome ((List.range k).map f) = some l) :
    l.length = k ∧ ∀ i, i < k → f i = l[i]? := by
  have e := allSome_eq_some _ _ h
  have hlen : l.length = k := by
    have := congrArg List.length e
    simpa using this.symm
  refine ⟨hlen, fun i hi => ?_⟩
  have := congrArg (fun xs => xs[i]?) e
  simp only [List.getElem?_map, List.getElem?_range hi, Option.map_some] at this
  cases hl : l[i]? with
  | none =>
    have : l.length ≤ i := List.getElem?_eq_none_iff.1 hl
    omega
  | some x => rw [hl] at this; simpa using this

theorem treeDepth_vector (et : Ty) (len : Nat) :
    treeDepth (.vector et len) = getDepth (chunkLen et len) := by
  simp [treeDepth, contentsDepth, hasMixIn]

theorem treeDepth_list (et : Ty) (lim : Nat) :
    treeDepth (.list et lim) = getDepth (chunkLen et lim) + 1 := by
  simp [treeDepth, contentsDepth, hasMixIn]

theorem treeDepth_container (fs : List Ty) :
    treeDepth (.container fs) = getDepth fs.length := by
  simp [treeDepth, contentsDepth, hasMixIn]

theorem treeDepth_bitvector (len : Nat) :
    treeDepth (.bitvector len) = getDepth ((len + 255) / 256) := by
  simp [treeDepth, contentsDepth, hasMixIn]

theorem treeDepth_bitlist (lim : Nat) :
    treeDepth (.bitlist lim) = getDepth ((lim + 255) / 256) + 1 := by
  simp [treeDepth, contentsDepth, hasMixIn]

/-- the fields read by `readFields` are the individual field reads -/
theorem readFields_inv (H : Hash) : ∀ (fs : List Ty) (n : Node) (d k : Nat) (vs : List Val),
    readFields H fs n d k = some vs →
    vs.length = fs.length ∧
      ∀ i ft, fs[i]? = some ft → (getAt n (k + i) d).bind (readVal H ft) = vs[i]? := by
  intro fs
  induction fs with
  | nil =>
    intro n d k vs h
    simp only [readFields, Option.some.injEq] at h
    subst h
    exact ⟨rfl, fun i ft hf => by simp at hf⟩
  | cons t ts ih =>
    intro n d k vs h
    simp only [readFields] at h
    cases hx : (getAt n k d).bind (fun c => readVal H t c) with
    | none => rw [hx] at h; cases h
    | some v =>
      cases hy : readFields H ts n d (k + 1) with
      | none => rw [hx, hy] at h; cases h
      | some vs' =>
        rw [hx, hy] at h
        simp only [Option.some.injEq] at h
        subst h
        obtain ⟨hl, hg⟩ := ih n d (k + 1) vs' hy
        refine ⟨by simp [hl], fun i ft hf => ?_⟩
        cases i with
        | zero =>
          simp only [List.getElem?_cons_zero, Option.some.injEq] at hf
          subst hf
          simpa using hx
        | succ i =>
          simp only [List.getElem?_cons_succ] at hf ⊢
          have := hg i ft hf
          rw [← this]
          congr 2; omega

/-! ## 1. element reads agree with the complete read -/

/-- THE consistency theorem: if the complete read of the view returns `v`, then `view[i]` returns element
    `i` of `v`, and fails exactly when `i` is out of range (for the kinds without element access both
    sides are `none`).  No hypothesis on `t` or on the tree. -/
theorem readElem_of_readVal (H : Hash) (t : Ty) (n : Node) (v : Val) (i : Nat)
    (hv : readVal H t n = some v) : readElem H t n i = elemAt v i := by
  cases t with
  | uint nb =>
    simp only [readVal, readBasicAt] at hv
    simp only [Option.some.injEq] at hv
    subst hv; rfl
  | bool =>
    simp only [readVal, readBasicAt] at hv
    split at hv
    · simp only [Option.some.injEq] at hv; subst hv; rfl
    · split at hv
      · simp only [Option.some.injEq] at hv; subst hv; rfl
      · cases hv
  | bitvector len =>
    simp only [readVal] at hv
    obtain ⟨bs, hbs, rfl⟩ := Option.map_eq_some_iff.1 hv
    obtain ⟨hlen, hget⟩ := allSome_range_inv _ _ _ hbs
    simp only [readElem, treeDepth_bitvector, elemAt]
    split
    · next hi => rw [List.getElem?_eq_none (by omega)]; rfl
    · next hi =>
      rw [← hget i (by omega), Option.map_map]; rfl
  | bitlist lim =>
    simp only [readVal] at hv
    simp only [readElem, treeDepth_bitlist]
    cases hl : listLength H n with
    | none => rw [hl] at hv; cases hv
    | some len =>
      rw [hl] at hv
      simp only at hv ⊢
      obtain ⟨bs, hbs, rfl⟩ := Option.map_eq_some_iff.1 hv
      obtain ⟨hlen, hget⟩ := allSome_range_inv _ _ _ hbs
      simp only [elemAt]
      split
      · next hi => rw [List.getElem?_eq_none (by omega)]; rfl
      · next hi =>
        rw [← hget i (by omega), Option.map_map]; rfl
  | bytevector len =>
    simp only [readVal] at hv
    split at hv
    · simp only [Option.some.injEq] at hv; subst hv; rfl
    · obtain ⟨bs, _, rfl⟩ := Option.map_eq_some_iff.1 hv; rfl
  | bytelist lim =>
    simp only [readVal] at hv
    split at hv
    · split at hv
      · cases hv
      · split at hv
        · simp only [Option.some.injEq] at hv; subst hv; rfl
        · obtain ⟨bs, _, rfl⟩ := Option.map_eq_some_iff.1 hv; rfl
    · cases hv
  | vector et len =>
    simp only [readVal] at hv
    simp only [readElem, treeDepth_vector]
    split at hv
    · next hb =>
      obtain ⟨vs, hvs, rfl⟩ := Option.map_eq_some_iff.1 hv
      obtain ⟨hlen, hget⟩ := allSome_range_inv _ _ _ hvs
      simp only [elemAt, hb, if_true]
      split
      · next hi => rw [List.getElem?_eq_none (by omega)]
      · next hi => exact hget i (by omega)
    · next hb =>
      obtain ⟨vs, hvs, rfl⟩ := Option.map_eq_some_iff.1 hv
      obtain ⟨hlen, hget⟩ := allSome_range_inv _ _ _ hvs
      simp only [elemAt, hb]
      split
      · next hi => rw [List.getElem?_eq_none (by omega)]
      · next hi => exact hget i (by omega)
  | list et lim =>
    simp only [readVal] at hv
    simp only [readElem, treeDepth_list]
    cases hl : listLength H n with
    | none => rw [hl] at hv; cases hv
    | some len =>
      rw [hl] at hv
      simp only at hv ⊢
      split at hv
      · next hb =>
        obtain ⟨vs, hvs, rfl⟩ := Option.map_eq_some_iff.1 hv
        obtain ⟨hlen, hget⟩ := allSome_range_inv _ _ _ hvs
        simp only [elemAt, hb, if_true]
        split
        · next hi => rw [List.getElem?_eq_none (by omega)]
        · next hi => exact hget i (by omega)
      · next hb =>
        obtain ⟨vs, hvs, rfl⟩ := Option.map_eq_some_iff.1 hv
        obtain ⟨hlen, hget⟩ := allSome_range_inv _ _ _ hvs
        simp only [elemAt, hb]
        split
        · next hi => rw [List.getElem?_eq_none (by omega)]
        · next hi => exact hget i (by omega)
  | container fs =>
    simp only [readVal] at hv
    obtain ⟨vs, hvs, rfl⟩ := Option.map_eq_some_iff.1 hv
    obtain ⟨hlen, hget⟩ := readFields_inv H fs n _ 0 vs hvs
    simp only [readElem, treeDepth_container, elemAt]
    cases hf : fs[i]? with
    | none =>
      have : fs.length ≤ i := List.getElem?_eq_none_iff.1 hf
      rw [List.getElem?_eq_none (by omega)]
    | some ft =>
      have := hget i ft hf
      rw [Nat.zero_add] at this
      exact this
  | union hasNone opts =>
    simp only [readVal] at hv
    split at hv
    · split at hv
      · cases hv
      · split at hv
        · split at hv
          · simp only [Option.some.injEq] at hv; subst hv; rfl
          · cases hv
        · obtain ⟨w, _, rfl⟩ := Option.map_eq_some_iff.1 hv; rfl
    · cases hv

/-! ## 2. element reads on trees that represent a value (`Repr`), kind by kind -/

theorem readElem_repr_bitvector (H : Hash) (len : Nat) (v : Val) (n : Node) (i : Nat)
    (h : Impl.Repr H (.bitvector len) v n) : readElem H (.bitvector len) n i = elemAt v i := by
  cases v <;> simp only [Impl.Repr] at h
  rename_i bs
  obtain ⟨hlen, hct⟩ := h
  subst hlen
  simp only [readElem, treeDepth_bitvector, elemAt]
  split
  · next hi => rw [List.getElem?_eq_none (by omega)]; rfl
  · next hi =>
    have hi' : i < bs.length := by omega
    have := (read_bit_elem H bs _ n hct i hi').1
    obtain ⟨c, hc, hb⟩ := Option.map_eq_some_iff.1 this
    rw [hc, List.getElem?_eq_getElem hi']
    simp only [Option.map_some, hb]

theorem readElem_repr_bitlist (H : Hash) (lim : Nat) (v : Val) (n : Node) (i : Nat)
    (hlim : lim < 2 ^ 256)
    (h : Impl.Repr H (.bitlist lim) v n) : readElem H (.bitlist lim) n i = elemAt v i := by
  cases v <;> simp only [Impl.Repr] at h
  rename_i bs
  obtain ⟨hlen, c, rfl, hct⟩ := h
  simp only [readElem, treeDepth_bitlist, elemAt,
    listLength_mixin H c _ (by omega : bs.length < 2 ^ 256)]
  split
  · next hi => rw [List.getElem?_eq_none (by omega)]; rfl
  · next hi =>
    have hi' : i < bs.length := by omega
    have h2 := read_bit_elem H bs _ c hct i hi'
    obtain ⟨x, hx, hb⟩ := Option.map_eq_some_iff.1 h2.1
    rw [mixInNode, getAt_mixin _ _ h2.2, hx, List.getElem?_eq_getElem hi']
    simp only [Option.map_some, hb]

theorem readElem_repr_vector_basic (H : Hash) (et : Ty) (len : Nat) (v : Val) (n : Node) (i : Nat)
    (hwf : et.wf = true) (hb : et.isBasic = true)
    (h : Impl.Repr H (.vector et len) v n) : readElem H (.vector et len) n i = elemAt v i := by
  cases v <;> simp only [Impl.Repr] at h
  rename_i vs
  obtain ⟨hlen, h⟩ := h
  subst hlen
  simp only [hb, if_true] at h
  simp only [readElem, treeDepth_vector, elemAt, hb, if_true]
  split
  · next hi => rw [List.getElem?_eq_none (by omega)]
  · next hi =>
    have hi' : i < vs.length := by omega
    rw [(read_packed_elem H et vs _ n hwf hb h.1 h.2 i hi').1, List.getElem?_eq_getElem hi']

theorem readElem_repr_vector_composite (H : Hash) (et : Ty) (len : Nat) (v : Val) (n : Node) (i : Nat)
    (hwf : et.wf = true) (hlim : limitsOk et = true) (hb : et.isBasic = false)
    (h : Impl.Repr H (.vector et len) v n) : readElem H (.vector et len) n i = elemAt v i := by
  cases v <;> simp only [Impl.Repr] at h
  rename_i vs
  obtain ⟨hlen, h⟩ := h
  subst hlen
  simp only [hb, Bool.false_eq_true, if_false] at h
  obtain ⟨ns, hall, hct⟩ := h
  have hl := allRel_length hall
  simp only [readElem, treeDepth_vector, elemAt, hb, Bool.false_eq_true, if_false]
  split
  · next hi => rw [List.getElem?_eq_none (by omega)]
  · next hi =>
    have hi' : i < vs.length := by omega
    have hi'' : i < ns.length := by omega
    rw [ct_get hct hi'', List.getElem?_eq_getElem hi']
    exact repr_read H et vs[i] ns[i] hwf hlim (allRel_get hall i hi' hi'')

theorem readElem_repr_list_basic (H : Hash) (et : Ty) (lim : Nat) (v : Val) (n : Node) (i : Nat)
    (hwf : et.wf = true) (hlim : lim < 2 ^ 256) (hb : et.isBasic = true)
    (h : Impl.Repr H (.list et lim) v n) : readElem H (.list et lim) n i = elemAt v i := by
  cases v <;> simp only [Impl.Repr] at h
  rename_i vs
  obtain ⟨hlen, c, rfl, h⟩ := h
  simp only [hb, if_true] at h
  simp only [readElem, treeDepth_list, elemAt, hb, if_true,
    listLength_mixin H c _ (by omega : vs.length < 2 ^ 256)]
  split
  · next hi => rw [List.getElem?_eq_none (by omega)]
  · next hi =>
    have hi' : i < vs.length := by omega
    have h2 := read_packed_elem H et vs _ c hwf hb h.1 h.2 i hi'
    rw [mixInNode, getAt_mixin _ _ h2.2, h2.1, List.getElem?_eq_getElem hi']

theorem readElem_repr_list_composite (H : Hash) (et : Ty) (lim : Nat) (v : Val) (n : Node) (i : Nat)
    (hwf : et.wf = true) (hlim : lim < 2 ^ 256) (hlime : limitsOk et = true)
    (hb : et.isBasic = false)
    (h : Impl.Repr H (.list et lim) v n) : readElem H (.list et lim) n i = elemAt v i := by
  cases v <;> simp only [Impl.Repr] at h
  rename_i vs
  obtain ⟨hlen, c, rfl, h⟩ := h
  simp only [hb, Bool.false_eq_true, if_false] at h
  obtain ⟨ns, hall, hct⟩ := h
  have hl := allRel_length hall
  have hle := ct_length_le hct
  simp only [readElem, treeDepth_list, elemAt, hb, Bool.false_eq_true, if_false,
    listLength_mixin H c _ (by omega : vs.length < 2 ^ 256)]
  split
  · next hi => rw [List.getElem?_eq_none (by omega)]
  · next hi =>
    have hi' : i < vs.length := by omega
    have hi'' : i < ns.length := by omega
    rw [mixInNode, getAt_mixin _ _ (by omega), ct_get hct hi'', List.getElem?_eq_getElem hi']
    exact repr_read H et vs[i] ns[i] hwf hlime (allRel_get hall i hi' hi'')

theorem readElem_repr_container (H : Hash) (fs : List Ty) (v : Val) (n : Node) (i : Nat)
    (hwf : Ty.wfList fs = true) (hlim : limitsOkList fs = true)
    (h : Impl.Repr H (.container fs) v n) : readElem H (.container fs) n i = elemAt v i := by
  cases v <;> simp only [Impl.Repr] at h
  rename_i vs
  obtain ⟨ns, hf, hct⟩ := h
  have hr := reprFields_read H fs vs ns hwf hlim hf n (getDepth fs.length) 0 (fun j hj => by
    rw [Nat.zero_add, ct_get hct hj, List.getElem?_eq_getElem hj])
  obtain ⟨hlen, hget⟩ := readFields_inv H fs n _ 0 vs hr
  simp only [readElem, treeDepth_container, elemAt]
  cases hfi : fs[i]? with
  | none =>
    have : fs.length ≤ i := List.getElem?_eq_none_iff.1 hfi
    rw [List.getElem?_eq_none (by omega)]
  | some ft =>
    have := hget i ft hfi
    rw [Nat.zero_add] at this
    exact this

/-- 1. `view[i]` on a tree that represents `v` is element `i` of `v`; it fails exactly when `i` is out of
    range (and for the kinds without element access both sides are `none`).
    Hypotheses: `t.wf` (element encodings have a legal size) and `limitsOk t` (lengths fit the length leaf). -/
theorem readElem_repr (H : Hash) (t : Ty) (v : Val) (n : Node) (i : Nat)
    (hwf : t.wf = true) (hlim : limitsOk t = true) (h : Impl.Repr H t v n) :
    readElem H t n i = elemAt v i :=
  readElem_of_readVal H t n v i (repr_read H t v n hwf hlim h)

/-- in range, the element read succeeds -/
theorem elemAt_isSome_of_lt {v : Val} {len i : Nat} (hs : (∃ vs, v = .seq vs) ∨ (∃ bs, v = .bits bs))
    (hl : lenOf v = some len) (hi : i < len) : ∃ x, elemAt v i = some x := by
  rcases hs with ⟨vs, rfl⟩ | ⟨bs, rfl⟩
  · simp only [lenOf, Option.some.injEq] at hl
    exact ⟨vs[i], by simp only [elemAt]; exact List.getElem?_eq_getElem (by omega)⟩
  · simp only [lenOf, Option.some.injEq] at hl
    refine ⟨.num (if bs[i]'(by omega) then 1 else 0), ?_⟩
    simp only [elemAt, List.getElem?_eq_getElem (by omega : i < bs.length), Option.map_some]

/-- out of range, the element read fails -/
theorem elemAt_none_of_ge {v : Val} {len i : Nat} (hl : lenOf v = some len) (hi : len ≤ i) :
    elemAt v i = none := by
  cases v <;> simp only [lenOf, Option.some.injEq] at hl <;> simp only [elemAt]
  · rw [List.getElem?_eq_none (by omega)]; rfl
  · rw [List.getElem?_eq_none (by omega)]

/-! ## 3. `len(view)` -/

/-- the kinds that have a `len(view)` in the model: vector / list / bitvector / bitlist / bytevector /
    bytelist -/
def sized : Ty → Bool
  | .vector _ _ => true
  | .list _ _ => true
  | .bitvector _ => true
  | .bitlist _ => true
  | .bytevector _ => true
  | .bytelist _ => true
  | _ => false

/-- the kinds that have element access `view[i]`: vector / list / container / bitvector / bitlist -/
def indexable : Ty → Bool
  | .vector _ _ => true
  | .list _ _ => true
  | .container _ => true
  | .bitvector _ => true
  | .bitlist _ => true
  | _ => false

/-- 2. `len(view)` on a tree that represents `v` is the number of elements of `v`
    (vector / list / bitvector / bitlist / bytevector / bytelist).  `limitsOk t` is only used for the outer
    limit of list / bitlist / bytelist; `t.wf` is not needed. -/
theorem viewLen_repr (H : Hash) (t : Ty) (v : Val) (n : Node) (hlim : limitsOk t = true)
    (hk : sized t = true) (h : Impl.Repr H t v n) : viewLen H t n = lenOf v := by
  cases t with
  | uint nb => simp [sized] at hk
  | bool => simp [sized] at hk
  | container fs => simp [sized] at hk
  | union hn opts => simp [sized] at hk
  | bitvector len =>
    cases v <;> simp only [Impl.Repr] at h
    simp only [viewLen, lenOf, h.1]
  | bytevector len =>
    cases v <;> simp only [Impl.Repr] at h
    simp only [viewLen, lenOf, h.1]
  | vector et len =>
    cases v <;> simp only [Impl.Repr] at h
    simp only [viewLen, lenOf, h.1]
  | bitlist lim =>
    cases v <;> simp only [Impl.Repr] at h
    rename_i bs
    obtain ⟨hlen, c, rfl, hct⟩ := h
    simp [limitsOk] at hlim
    simp only [viewLen, lenOf, listLength_mixin H c _ (by omega : bs.length < 2 ^ 256)]
  | list et lim =>
    cases v <;> simp only [Impl.Repr] at h
    rename_i vs
    obtain ⟨hlen, c, rfl, h⟩ := h
    simp [limitsOk] at hlim
    simp only [viewLen, lenOf, listLength_mixin H c _ (by omega : vs.length < 2 ^ 256)]
  | bytelist lim =>
    have hr := repr_read_aux H (.bytelist lim) v n rfl hlim h
    cases v <;> simp only [Impl.Repr] at h
    simp only [viewLen, hr, Option.map_some, lenOf]

/-- a value represented at an indexable type is a sequence or a bit list -/
theorem repr_indexable_val (H : Hash) (t : Ty) (v : Val) (n : Node) (hk : indexable t = true)
    (h : Impl.Repr H t v n) : (∃ vs, v = .seq vs) ∨ (∃ bs, v = .bits bs) := by
  cases t <;> simp [indexable] at hk <;> cases v <;> simp only [Impl.Repr] at h
  all_goals first | exact .inl ⟨_, rfl⟩ | exact .inr ⟨_, rfl⟩

/-! ## 4. slices -/

/-- `mapM` in `Option` of a function that succeeds on every element keeps every element -/
theorem mapM_all_some {α β} (f : α → Option β) : ∀ l : List α, (∀ j ∈ l, ∃ x, f j = some x) →
    l.mapM f = some (l.filterMap f) ∧ (l.filterMap f).length = l.length := by
  intro l
  induction l with
  | nil => intro _; exact ⟨rfl, rfl⟩
  | cons a l ih =>
    intro h
    obtain ⟨x, hx⟩ := h a List.mem_cons_self
    obtain ⟨h1, h2⟩ := ih (fun j hj => h j (List.mem_cons_of_mem _ hj))
    constructor
    · rw [List.mapM_cons, hx, h1, List.filterMap_cons_some hx]; rfl
    · rw [List.filterMap_cons_some hx, List.length_cons, h2, List.length_cons]

/-- slices from the complete read: if `readVal` returns `v` and the positions `a .. b-1` are elements of
    `v`, the slice read returns exactly these elements, in order, none dropped -/
theorem sliceRead_of_readVal (H : Hash) (t : Ty) (n : Node) (v : Val) (a b : Nat)
    (hv : readVal H t n = some v) (hin : ∀ j, j < b - a → ∃ x, elemAt v (a + j) = some x) :
    sliceRead H t n a b = some ((List.range (b - a)).filterMap fun j => elemAt v (a + j)) ∧
      ((List.range (b - a)).filterMap fun j => elemAt v (a + j)).length = b - a := by
  have e : (fun j => readElem H t n (a + j)) = fun j => elemAt v (a + j) := by
    funext j; exact readElem_of_readVal H t n v (a + j) hv
  unfold sliceRead
  rw [e]
  have := mapM_all_some (fun j => elemAt v (a + j)) (List.range (b - a))
    (fun j hj => hin j (List.mem_range.1 hj))
  refine ⟨this.1, ?_⟩
  rw [this.2, List.length_range]

/-- 3. in-range slicing = indexing: on a tree that represents `v` (of an indexable kind), for
    `a ≤ b ≤ len(v)` the slice read returns the elements `a .. b-1` of `v` in order, and nothing is
    dropped (the result has length `b - a`). -/
theorem sliceRead_repr (H : Hash) (t : Ty) (v : Val) (n : Node) (a b len : Nat)
    (hwf : t.wf = true) (hlim : limitsOk t = true) (hk : indexable t = true)
    (h : Impl.Repr H t v n) (_hab : a ≤ b) (hl : lenOf v = some len) (hb : b ≤ len) :
    sliceRead H t n a b = some ((List.range (b - a)).filterMap fun j => elemAt v (a + j)) ∧
      ((List.range (b - a)).filterMap fun j => elemAt v (a + j)).length = b - a :=
  sliceRead_of_readVal H t n v a b (repr_read H t v n hwf hlim h)
    (fun j hj => elemAt_isSome_of_lt (repr_indexable_val H t v n hk h) hl (by omega))

/-- the element list of a value as the view presents it -/
def elems : Val → List Val
  | .seq vs => vs
  | .bits bs => bs.map fun b => .num (if b then 1 else 0)
  | _ => []

theorem elemAt_eq_elems (v : Val) (i : Nat) : elemAt v i = (elems v)[i]? := by
  cases v <;> simp [elemAt, elems]

theorem lenOf_elems {v : Val} {len : Nat} (hs : (∃ vs, v = .seq vs) ∨ (∃ bs, v = .bits bs))
    (hl : lenOf v = some len) : (elems v).length = len := by
  rcases hs with ⟨vs, rfl⟩ | ⟨bs, rfl⟩ <;> simp only [lenOf, Option.some.injEq] at hl <;>
    simp [elems, hl]

theorem filterMap_range_getElem? {α} (l : List α) (a k : Nat) (h : a + k ≤ l.length) :
    (List.range k).filterMap (fun j => l[a + j]?) = (l.drop a).take k := by
  induction k with
  | zero => simp
  | succ k ih =>
    have hlt : a + k < l.length := by omega
    rw [List.range_succ, List.filterMap_append, ih (by omega)]
    simp only [List.filterMap_cons, List.filterMap_nil, List.getElem?_eq_getElem hlt]
    rw [List.take_add_one, List.getElem?_drop, List.getElem?_eq_getElem hlt]
    rfl

/-- 3'. the same with the result written as a sub-list of the element list -/
theorem sliceRead_repr_elems (H : Hash) (t : Ty) (v : Val) (n : Node) (a b len : Nat)
    (hwf : t.wf = true) (hlim : limitsOk t = true) (hk : indexable t = true)
    (h : Impl.Repr H t v n) (hab : a ≤ b) (hl : lenOf v = some len) (hb : b ≤ len) :
    sliceRead H t n a b = some (((elems v).drop a).take (b - a)) := by
  rw [(sliceRead_repr H t v n a b len hwf hlim hk h hab hl hb).1]
  have hlen := lenOf_elems (repr_indexable_val H t v n hk h) hl
  have e : (fun j => elemAt v (a + j)) = fun j => (elems v)[a + j]? := by
    funext j; exact elemAt_eq_elems v (a + j)
  rw [e, filterMap_range_getElem? _ _ _ (by omega)]

/-! ## 5. partial trees -/

/-- an element read on a partial tree either fails or returns what the complete tree returns -/
theorem readElem_ole (H : Hash) (t : Ty) (p n : Node) (i : Nat) (h : Summ H p n) :
    OLe (readElem H t p i) (readElem H t n i) := by
  cases t with
  | uint nb => exact ole_refl _
  | bool => exact ole_refl _
  | bytevector len => exact ole_refl _
  | bytelist lim => exact ole_refl _
  | union hn opts => exact ole_refl _
  | vector et len =>
    simp only [readElem]
    split
    · exact ole_refl _
    · split
      · exact ole_packed h et _ _ i
      · exact orel_bind_ole (summ_getAt h i _) (fun u w hs => ole_readVal H et u w hs)
  | list et lim =>
    simp only [readElem]
    cases hl : listLength H p with
    | none => exact ole_none _
    | some len =>
      rw [summ_listLength_eq h len hl]
      simp only
      split
      · exact ole_refl _
      · split
        · exact ole_packed h et _ _ i
        · exact orel_bind_ole (summ_getAt h i _) (fun u w hs => ole_readVal H et u w hs)
  | container fs =>
    simp only [readElem]
    cases fs[i]? with
    | none => exact ole_refl _
    | some ft => exact orel_bind_ole (summ_getAt h i _) (fun u w hs => ole_readVal H ft u w hs)
  | bitvector len =>
    simp only [readElem]
    split
    · exact ole_refl _
    · exact orel_map_ole (summ_getAt h _ _) (fun u w hs => by rw [hs.root_eq])
  | bitlist lim =>
    simp only [readElem]
    cases hl : listLength H p with
    | none => exact ole_none _
    | some len =>
      rw [summ_listLength_eq h len hl]
      simp only
      split
      · exact ole_refl _
      · exact orel_map_ole (summ_getAt h _ _) (fun u w hs => by rw [hs.root_eq])

/-- 4a. a successful `view[i]` on a partial tree returns what the complete tree returns: never wrong data -/
theorem readElem_summ (H : Hash) (t : Ty) (p n : Node) (i : Nat) (x : Val) (h : Summ H p n)
    (hx : readElem H t p i = some x) : readElem H t n i = some x :=
  readElem_ole H t p n i h x hx

theorem viewLen_ole (H : Hash) (t : Ty) (p n : Node) (h : Summ H p n) :
    OLe (viewLen H t p) (viewLen H t n) := by
  cases t with
  | uint nb => exact ole_refl _
  | bool => exact ole_refl _
  | container fs => exact ole_refl _
  | union hn opts => exact ole_refl _
  | vector et len => exact ole_refl _
  | bitvector len => exact ole_refl _
  | bytevector len => exact ole_refl _
  | list et lim => exact summ_listLength h
  | bitlist lim => exact summ_listLength h
  | bytelist lim => exact ole_map _ (ole_readVal H _ p n h)

/-- 4b. a successful `len(view)` on a partial tree is the length the complete tree reports -/
theorem viewLen_summ (H : Hash) (t : Ty) (p n : Node) (k : Nat) (h : Summ H p n)
    (hk : viewLen H t p = some k) : viewLen H t n = some k :=
  viewLen_ole H t p n h k hk

theorem mapM_ole {α β} (f g : α → Option β) (h : ∀ j, OLe (f j) (g j)) :
    ∀ l : List α, OLe (l.mapM f) (l.mapM g) := by
  intro l
  induction l with
  | nil => exact ole_refl _
  | cons a l ih =>
    intro w hw
    rw [List.mapM_cons] at hw ⊢
    cases hfa : f a with
    | none => rw [hfa] at hw; cases hw
    | some x =>
      rw [hfa] at hw
      rw [h a x hfa]
      cases hfl : l.mapM f with
      | none => rw [hfl] at hw; cases hw
      | some xs =>
        rw [hfl] at hw
        rw [ih xs hfl]
        exact hw

/-- 4c. a successful slice read on a partial tree returns what the complete tree returns -/
theorem sliceRead_summ (H : Hash) (t : Ty) (p n : Node) (a b : Nat) (xs : List Val) (h : Summ H p n)
    (hx : sliceRead H t p a b = some xs) : sliceRead H t n a b = some xs :=
  mapM_ole _ _ (fun j => readElem_ole H t p n (a + j) h) _ xs hx

/-- the three partial-tree laws in the "fails or agrees" form of `C17.view_read` -/
theorem readElem_summ_or (H : Hash) (t : Ty) (p n : Node) (i : Nat) (h : Summ H p n) :
    readElem H t p i = none ∨ readElem H t p i = readElem H t n i :=
  (ole_iff _ _).1 (readElem_ole H t p n i h)

theorem viewLen_summ_or (H : Hash) (t : Ty) (p n : Node) (h : Summ H p n) :
    viewLen H t p = none ∨ viewLen H t p = viewLen H t n :=
  (ole_iff _ _).1 (viewLen_ole H t p n h)

theorem sliceRead_summ_or (H : Hash) (t : Ty) (p n : Node) (a b : Nat) (h : Summ H p n) :
    sliceRead H t p a b = none ∨ sliceRead H t p a b = sliceRead H t n a b :=
  (ole_iff _ _).1 (fun xs hx => sliceRead_summ H t p n a b xs h hx)

/-- a partial tree of a represented value: successful element reads are elements of the value -/
theorem readElem_summ_repr (H : Hash) (t : Ty) (v : Val) (p n : Node) (i : Nat) (x : Val)
    (hwf : t.wf = true) (hlim : limitsOk t = true) (hr : Impl.Repr H t v n) (h : Summ H p n)
    (hx : readElem H t p i = some x) : elemAt v i = some x := by
  rw [← readElem_repr H t v n i hwf hlim hr]
  exact readElem_summ H t p n i x h hx

/-- `view[i]` on a tree that represents `v` (indexable kind) fails exactly when `i` is out of range -/
theorem readElem_repr_none_iff (H : Hash) (t : Ty) (v : Val) (n : Node) (i len : Nat)
    (hwf : t.wf = true) (hlim : limitsOk t = true) (hk : indexable t = true)
    (h : Impl.Repr H t v n) (hl : lenOf v = some len) :
    readElem H t n i = none ↔ len ≤ i := by
  rw [readElem_repr H t v n i hwf hlim h]
  constructor
  · intro hn
    apply Nat.le_of_not_lt
    intro hi
    obtain ⟨x, hx⟩ := elemAt_isSome_of_lt (repr_indexable_val H t v n hk h) hl hi
    rw [hx] at hn; cases hn
  · exact elemAt_none_of_ge hl

/-! ## 6. non-vacuity -/

private def H0 : Hash := fun a b => a ++ b
private def tE : Ty := .list (.uint 1) 5
private def vE : Val := .seq [.num 1, .num 2, .num 3]
private def nE : Node :=
  .pair (.leaf ([1, 2, 3] ++ zeros 29)) (lenNode 3)
/-- the same tree with the contents replaced by a summary of their root -/
private def pE : Node := .leaf (H0 ([1, 2, 3] ++ zeros 29) (chunkOfLE 32 3))
/-- a composite list: `List[Container[uint8, uint8], 2]` holding two elements -/
private def tC : Ty := .list (.container [.uint 1, .uint 1]) 2
private def vC : Val := .seq [.seq [.num 1, .num 2], .seq [.num 3, .num 4]]

example : tE.wf = true ∧ limitsOk tE = true ∧ indexable tE = true ∧ sized tE = true := by decide

example : Impl.construct H0 tE vE = some nE := by decide

private theorem reprE : Impl.Repr H0 tE vE nE := construct_repr H0 tE vE nE (by decide) (by decide)

/-- the hypotheses of 1 are satisfiable and the conclusion is a genuine element -/
example : readElem H0 tE nE 1 = some (.num 2) :=
  (readElem_repr H0 tE vE nE 1 (by decide) (by decide) reprE).trans rfl

example : readElem H0 tE nE 3 = none :=
  (readElem_repr H0 tE vE nE 3 (by decide) (by decide) reprE).trans rfl

/-- … and so are those of 3 -/
example : sliceRead H0 tE nE 1 3 = some [.num 2, .num 3] :=
  (sliceRead_repr_elems H0 tE vE nE 1 3 3 (by decide) (by decide) (by decide) reprE (by decide) rfl
    (by decide)).trans rfl

example : viewLen H0 tE nE = some 3 :=
  (viewLen_repr H0 tE vE nE (by decide) (by decide) reprE).trans rfl

/-- direct evaluation of the model agrees -/
example : readElem H0 tE nE 1 = some (.num 2) ∧ readElem H0 tE nE 3 = none ∧
    sliceRead H0 tE nE 1 3 = some [.num 2, .num 3] ∧ viewLen H0 tE nE = some 3 :=
  ⟨rfl, rfl, rfl, rfl⟩

/-- composite elements -/
example : ∃ n, Impl.construct H0 tC vC = some n ∧ readElem H0 tC n 1 = some (.seq [.num 3, .num 4]) ∧
    readElem H0 tC n 2 = none ∧ sliceRead H0 tC n 0 2 = some [.seq [.num 1, .num 2], .seq [.num 3, .num 4]] :=
  ⟨_, rfl, rfl, rfl, rfl⟩

/-- partial trees: with the length node kept and the contents summarised, `len` still works and element
    reads fail; with everything summarised both fail — never wrong data -/
private def qE' : Node := .pair (.leaf (H0 ([1, 2] ++ zeros 30) ([3] ++ zeros 31))) (lenNode 3)
private def tW : Ty := .list (.uint 1) 64
private def nW : Node := .pair (.pair (.leaf ([1, 2] ++ zeros 30)) (.leaf ([3] ++ zeros 31))) (lenNode 3)

example : Summ H0 pE nE := .leaf nE
example : Summ H0 qE' nW :=
  .pair _ _ _ _ (.leaf (.pair (.leaf ([1, 2] ++ zeros 30)) (.leaf ([3] ++ zeros 31)))) (.refl _)
example : readElem H0 tE pE 1 = none ∧ viewLen H0 tE pE = none := ⟨rfl, rfl⟩
example : readElem H0 tW nW 1 = some (.num 2) ∧ readElem H0 tW qE' 1 = none ∧
    viewLen H0 tW qE' = some 3 ∧ viewLen H0 tW nW = some 3 := ⟨rfl, rfl, rfl, rfl⟩

end Rmk.ElemLaws
