/-
Laws of the model of `Container.fields()` (Rmk/Impl/Fields.lean): insertion-ordered dicts as association lists.
  * lookup / keys of `dictSet`, `dictUpdate`
  * a dict never has a key twice, private names are never fields
  * LAST declaration wins (type), FIRST declaration fixes the position (order)
  * the two shapes built by the test harness (`extend`, `redeclare head`)
Everything is for an arbitrary value type `α`; keys are `String`; core's `List.eraseDups` is used for item 6.
-/
import Rmk.Impl.Fields

open Rmk.Impl

namespace Rmk.FieldsLaws

/-- the keys of an association list, in order -/
abbrev keys {α} (d : List (String × α)) : List String := d.map (·.1)

/-- the public declarations of a chain of classes, in declaration order (root-most class first) -/
abbrev publicDecls {α} (chain : List (List (String × α))) : List (String × α) :=
  chain.flatten.filter fun kv => isPublic kv.1

/-! ## 1. lookup of `dictSet` -/

theorem lookup_cons_ite {α} (k k' : String) (v : α) (rest : List (String × α)) :
    List.lookup k' ((k, v) :: rest) = if k' = k then some v else List.lookup k' rest := by
  rw [List.lookup_cons]
  by_cases h : k' = k
  · simp [h]
  · have hb : (k' == k) = false := by simpa using h
    simp [h, hb]

theorem lookup_dictSet {α} (d : List (String × α)) (k k' : String) (v : α) :
    (dictSet d k v).lookup k' = if k' = k then some v else d.lookup k' := by
  induction d with
  | nil => simp [dictSet, lookup_cons_ite]
  | cons hd rest ih =>
    obtain ⟨k1, v1⟩ := hd
    unfold dictSet
    by_cases h1 : k1 = k
    · subst h1
      simp only [if_true, lookup_cons_ite]
      by_cases h : k' = k1 <;> simp [h]
    · simp only [h1, if_false, lookup_cons_ite, ih]
      by_cases h : k' = k
      · subst h
        have h2 : ¬ k' = k1 := fun e => h1 e.symm
        simp [h2]
      · simp [h]

/-! ## 2. keys of `dictSet` -/

theorem keys_dictSet_of_mem {α} (d : List (String × α)) (k : String) (v : α) (h : k ∈ keys d) :
    keys (dictSet d k v) = keys d := by
  induction d with
  | nil => simp [keys] at h
  | cons hd rest ih =>
    obtain ⟨k1, v1⟩ := hd
    unfold dictSet
    by_cases h1 : k1 = k
    · simp [keys, h1]
    · have hm : k ∈ keys rest := by
        simp only [keys, List.map_cons, List.mem_cons] at h
        rcases h with h | h
        · exact absurd h.symm h1
        · exact h
      simp only [keys, h1, if_false, List.map_cons] at ih ⊢
      rw [ih hm]

theorem keys_dictSet_of_not_mem {α} (d : List (String × α)) (k : String) (v : α) (h : k ∉ keys d) :
    dictSet d k v = d ++ [(k, v)] := by
  induction d with
  | nil => simp [dictSet]
  | cons hd rest ih =>
    obtain ⟨k1, v1⟩ := hd
    unfold dictSet
    simp only [keys, List.map_cons, List.mem_cons, not_or] at h
    have h1 : ¬ k1 = k := fun e => h.1 e.symm
    simp only [h1, if_false, List.cons_append]
    rw [ih h.2]

theorem keys_dictSet {α} (d : List (String × α)) (k : String) (v : α) :
    keys (dictSet d k v) = if k ∈ keys d then keys d else keys d ++ [k] := by
  by_cases h : k ∈ keys d
  · rw [if_pos h, keys_dictSet_of_mem d k v h]
  · rw [if_neg h, keys_dictSet_of_not_mem d k v h]; simp [keys]

theorem mem_keys_dictSet {α} (d : List (String × α)) (k k' : String) (v : α) :
    k' ∈ keys (dictSet d k v) ↔ k' = k ∨ k' ∈ keys d := by
  rw [keys_dictSet]
  by_cases h : k ∈ keys d
  · rw [if_pos h]
    constructor
    · exact Or.inr
    · rintro (e | e)
      · exact e ▸ h
      · exact e
  · rw [if_neg h, List.mem_append, List.mem_singleton]
    exact Or.comm

/-! ## 3. a dict never has a key twice -/

theorem nodup_dictSet {α} (d : List (String × α)) (k : String) (v : α) (h : (keys d).Nodup) :
    (keys (dictSet d k v)).Nodup := by
  rw [keys_dictSet]
  by_cases hk : k ∈ keys d
  · rw [if_pos hk]; exact h
  · rw [if_neg hk, List.nodup_append]
    refine ⟨h, by simp, ?_⟩
    intro a ha b hb e
    rw [List.mem_singleton] at hb
    subst hb; subst e
    exact hk ha

theorem nodup_dictUpdate {α} (d kvs : List (String × α)) (h : (keys d).Nodup) :
    (keys (dictUpdate d kvs)).Nodup := by
  induction kvs generalizing d with
  | nil => exact h
  | cons kv rest ih =>
    show (keys (dictUpdate (dictSet d kv.1 kv.2) rest)).Nodup
    exact ih _ (nodup_dictSet d kv.1 kv.2 h)

theorem dictUpdate_nil {α} (d : List (String × α)) : dictUpdate d [] = d := rfl

theorem dictUpdate_cons {α} (d : List (String × α)) (kv : String × α) (rest : List (String × α)) :
    dictUpdate d (kv :: rest) = dictUpdate (dictSet d kv.1 kv.2) rest := rfl

theorem dictUpdate_append {α} (d a b : List (String × α)) :
    dictUpdate d (a ++ b) = dictUpdate (dictUpdate d a) b := by
  unfold dictUpdate
  rw [List.foldl_append]

/-- the chain of classes is one big update with all public declarations in order -/
theorem foldl_fieldsStep {α} (chain : List (List (String × α))) (d : List (String × α)) :
    chain.foldl fieldsStep d = dictUpdate d (publicDecls chain) := by
  induction chain generalizing d with
  | nil => rfl
  | cons c rest ih =>
    rw [List.foldl_cons, ih]
    simp only [publicDecls, List.flatten_cons, List.filter_append]
    rw [dictUpdate_append]
    rfl

theorem fieldsChain_eq {α} (chain : List (List (String × α))) :
    fieldsChain chain = dictUpdate [] (publicDecls chain) :=
  foldl_fieldsStep chain []

theorem fieldsChain_nodup {α} (chain : List (List (String × α))) : (keys (fieldsChain chain)).Nodup := by
  rw [fieldsChain_eq]
  exact nodup_dictUpdate [] _ (by simp [keys])

/-! ## 4. names starting with `_` are never fields -/

theorem mem_dictSet {α} (d : List (String × α)) (k : String) (v : α) (kv : String × α)
    (h : kv ∈ dictSet d k v) : kv = (k, v) ∨ kv ∈ d := by
  induction d with
  | nil => simp [dictSet] at h; exact Or.inl h
  | cons hd rest ih =>
    obtain ⟨k1, v1⟩ := hd
    unfold dictSet at h
    by_cases h1 : k1 = k
    · simp only [h1, if_true, List.mem_cons] at h
      rcases h with h | h
      · exact Or.inl h
      · exact Or.inr (List.mem_cons_of_mem _ h)
    · simp only [h1, if_false, List.mem_cons] at h
      rcases h with h | h
      · exact Or.inr (h ▸ List.mem_cons_self)
      · rcases ih h with e | e
        · exact Or.inl e
        · exact Or.inr (List.mem_cons_of_mem _ e)

theorem mem_dictUpdate {α} (d kvs : List (String × α)) (kv : String × α)
    (h : kv ∈ dictUpdate d kvs) : kv ∈ kvs ∨ kv ∈ d := by
  induction kvs generalizing d with
  | nil => exact Or.inr h
  | cons hd rest ih =>
    rw [dictUpdate_cons] at h
    rcases ih _ h with e | e
    · exact Or.inl (List.mem_cons_of_mem _ e)
    · rcases mem_dictSet d hd.1 hd.2 kv e with e | e
      · exact Or.inl (e ▸ List.mem_cons_self)
      · exact Or.inr e

/-- every field of the dict is one of the public declarations of the chain -/
theorem fieldsChain_mem {α} (chain : List (List (String × α))) (kv : String × α)
    (h : kv ∈ fieldsChain chain) : kv ∈ publicDecls chain := by
  rw [fieldsChain_eq] at h
  rcases mem_dictUpdate _ _ _ h with e | e
  · exact e
  · simp at e

theorem fieldsChain_public {α} (chain : List (List (String × α))) :
    ∀ kv ∈ fieldsChain chain, isPublic kv.1 = true := by
  intro kv h
  have := fieldsChain_mem chain kv h
  simp only [publicDecls, List.mem_filter] at this
  exact this.2

/-! ## 5. LAST declaration wins -/

theorem lookup_dictUpdate {α} (d kvs : List (String × α)) (k : String) :
    (dictUpdate d kvs).lookup k = (kvs.reverse.lookup k).or (d.lookup k) := by
  induction kvs generalizing d with
  | nil => simp [dictUpdate_nil]
  | cons kv rest ih =>
    rw [dictUpdate_cons, ih, List.reverse_cons, List.lookup_append, lookup_dictSet]
    obtain ⟨k1, v1⟩ := kv
    rw [lookup_cons_ite]
    by_cases h : k = k1
    · subst h
      cases List.lookup k rest.reverse <;> simp
    · cases List.lookup k rest.reverse <;> simp [h]

theorem fieldsChain_lookup {α} (chain : List (List (String × α))) (k : String) :
    (fieldsChain chain).lookup k
      = ((chain.flatten.filter fun kv => isPublic kv.1).reverse).lookup k := by
  rw [fieldsChain_eq, lookup_dictUpdate]
  simp

/-! ## 6. FIRST declaration fixes the position -/

theorem keys_dictUpdate {α} (d kvs : List (String × α)) :
    keys (dictUpdate d kvs)
      = keys d ++ ((keys kvs).filter fun k => !(keys d).contains k).eraseDups := by
  induction kvs generalizing d with
  | nil => simp [dictUpdate_nil, keys]
  | cons kv rest ih =>
    obtain ⟨k, v⟩ := kv
    rw [dictUpdate_cons, ih]
    show keys (dictSet d k v) ++ _ = keys d ++ (List.filter _ (k :: keys rest)).eraseDups
    by_cases hk : k ∈ keys d
    · have hc : (keys d).contains k = true := by simpa using hk
      rw [keys_dictSet_of_mem d k v hk, List.filter_cons]
      simp only [hc, Bool.not_true, Bool.false_eq_true, if_false]
    · have hc : (keys d).contains k = false := by simpa using hk
      rw [keys_dictSet_of_not_mem d k v hk, List.filter_cons]
      simp only [hc, Bool.not_false, if_true, List.eraseDups_cons, List.filter_filter]
      simp only [keys, List.map_append, List.map_cons, List.map_nil, List.append_assoc,
        List.singleton_append]
      congr 2
      congr 1
      apply List.filter_congr
      intro x _
      by_cases hx : x = k
      · simp [hx]
      · have hb : (x == k) = false := by simpa using hx
        simp [hx, hb]

theorem fieldsChain_keys {α} (chain : List (List (String × α))) :
    keys (fieldsChain chain)
      = ((chain.flatten.filter fun kv => isPublic kv.1).map (·.1)).eraseDups := by
  rw [fieldsChain_eq, keys_dictUpdate]
  show [] ++ (List.filter (fun k => !([] : List String).contains k) _).eraseDups = _
  rw [List.nil_append]
  congr 1
  rw [List.filter_eq_self]
  intro x _
  rfl

/-! ## 7. the two shapes the test harness builds -/

theorem dictUpdate_extend {α} (inh own : List (String × α))
    (hnd : (keys own).Nodup) (hdis : ∀ k ∈ keys own, k ∉ keys inh) :
    dictUpdate inh own = inh ++ own := by
  induction own generalizing inh with
  | nil => simp [dictUpdate_nil]
  | cons kv rest ih =>
    obtain ⟨k, v⟩ := kv
    have hk : k ∉ keys inh := hdis k (by simp [keys])
    simp only [keys, List.map_cons, List.nodup_cons] at hnd
    rw [dictUpdate_cons, keys_dictSet_of_not_mem inh k v hk, ih _ hnd.2]
    · simp
    · intro x hx
      have hx' : x ∉ keys inh := hdis x (by simp only [keys, List.map_cons]; exact List.mem_cons_of_mem _ hx)
      simp only [keys, List.map_append, List.map_cons, List.map_nil, List.mem_append,
        List.mem_singleton, not_or]
      refine ⟨hx', ?_⟩
      intro e
      subst e
      exact hnd.1 hx

theorem filter_public_of_all {α} (own : List (String × α)) (hpub : ∀ kv ∈ own, isPublic kv.1 = true) :
    (own.filter fun kv => isPublic kv.1) = own := by
  rw [List.filter_eq_self]
  exact hpub

theorem fieldsStep_extend {α} (inh own : List (String × α))
    (hpub : ∀ kv ∈ own, isPublic kv.1 = true) (hnd : (keys own).Nodup)
    (hdis : ∀ k ∈ keys own, k ∉ keys inh) :
    fieldsStep inh own = inh ++ own := by
  unfold fieldsStep
  rw [filter_public_of_all own hpub]
  exact dictUpdate_extend inh own hnd hdis

theorem fieldsStep_redeclare_head {α} (k0 : String) (a b : α) (rest more : List (String × α))
    (hk0 : isPublic k0 = true) (_hrest : k0 ∉ keys rest)
    (hpub : ∀ kv ∈ more, isPublic kv.1 = true) (hnd : (keys more).Nodup)
    (hdis : ∀ k ∈ keys more, k ∉ k0 :: keys rest) :
    fieldsStep ((k0, a) :: rest) ((k0, b) :: more) = (k0, b) :: rest ++ more := by
  unfold fieldsStep
  have hp : ∀ kv ∈ (k0, b) :: more, isPublic kv.1 = true := by
    intro kv h
    rcases List.mem_cons.mp h with e | e
    · rw [e]; exact hk0
    · exact hpub kv e
  rw [filter_public_of_all _ hp, dictUpdate_cons]
  have h1 : dictSet ((k0, a) :: rest) k0 b = (k0, b) :: rest := by simp [dictSet]
  show dictUpdate (dictSet ((k0, a) :: rest) k0 b) more = _
  rw [h1, dictUpdate_extend _ more hnd]
  intro k hk
  simpa [keys] using hdis k hk

/-! ## 8. non-vacuity -/

example : fieldsChain [[("a", 1), ("_x", 9), ("b", 2)], [("c", 3), ("a", 7)]]
    = [("a", 7), ("b", 2), ("c", 3)] := by decide

example : (fieldsChain [[("a", 1), ("_x", 9), ("b", 2)], [("c", 3), ("a", 7)]]).lookup "a" = some 7 := by
  decide

example : keys (fieldsChain [[("a", 1), ("_x", 9), ("b", 2)], [("c", 3), ("a", 7)]]) = ["a", "b", "c"] := by
  decide

example : fieldsStep [("a", 1), ("b", 2)] [("c", 3), ("d", 4)] = [("a", 1), ("b", 2), ("c", 3), ("d", 4)] := by
  decide

example : fieldsStep [("a", 1), ("b", 2)] [("a", 5), ("d", 4)] = [("a", 5), ("b", 2), ("d", 4)] := by
  decide

example : isPublic "_x" = false := by decide
example : isPublic "x_" = true := by decide

/-- within one class the later annotation wins, the position is the one of the first -/
example : fieldsChain [[("a", 1), ("b", 2), ("a", 3)]] = [("a", 3), ("b", 2)] := by decide

end Rmk.FieldsLaws
