/-
Generalized-index arithmetic: `bitLength`, `gbits`, `pbits`, `toGindex`, `concatGindices`.
-/
import Rmk.Model.Tree
namespace Rmk

theorem bitLength_zero : bitLength 0 = 0 := by simp [bitLength]

theorem bitLength_pos {n : Nat} (h : n ≠ 0) : bitLength n = Nat.log2 n + 1 := by simp [bitLength, h]

/-- `bit_length(x) ≤ w ↔ x < 2^w` -/
theorem bitLength_le_iff (x w : Nat) : bitLength x ≤ w ↔ x < 2 ^ w := by
  by_cases hx : x = 0
  · subst hx; simp [bitLength, Nat.two_pow_pos]
  · rw [bitLength_pos hx, Nat.add_one_le_iff, Nat.log2_lt hx]

theorem bitLength_lt_two_pow (x : Nat) : x < 2 ^ bitLength x := (bitLength_le_iff x _).1 (Nat.le_refl _)

theorem bitLength_two_mul {g : Nat} (h : g ≠ 0) : bitLength (2 * g) = bitLength g + 1 := by
  rw [bitLength_pos h, bitLength_pos (by omega), Nat.log2_two_mul h]

theorem bitLength_two_mul_add_one (g : Nat) : bitLength (2 * g + 1) = bitLength g + 1 := by
  by_cases h : g = 0
  · subst h; simp [bitLength, Nat.log2_def]
  · rw [bitLength_pos h, bitLength_pos (by omega)]
    congr 1
    rw [Nat.log2_eq_iff (by omega)]
    have h1 := Nat.log2_self_le h
    have h2 := @Nat.lt_log2_self g
    constructor
    · rw [Nat.pow_succ]; omega
    · rw [Nat.pow_succ]; rw [Nat.pow_succ] at h2 ⊢; omega

theorem pbits_length (k i : Nat) : (pbits k i).length = k := by
  induction k with
  | zero => rfl
  | succ k ih => simp [pbits, ih]

/-- appending a low bit: `pbits (k+1) (2i + b) = pbits k i ++ [b]` -/
theorem pbits_succ_double (k i : Nat) (b : Bool) :
    pbits (k + 1) (2 * i + (if b then 1 else 0)) = pbits k i ++ [b] := by
  induction k with
  | zero => cases b <;> simp [pbits] <;> omega
  | succ k ih =>
    rw [pbits, ih]
    have : (2 * i + (if b then 1 else 0)) / 2 ^ (k + 1) = i / 2 ^ k := by
      have h2 : (2 * i + (if b then 1 else 0)) / 2 = i := by cases b <;> simp <;> omega
      rw [Nat.pow_succ, Nat.mul_comm (2 ^ k) 2, ← Nat.div_div_eq_div_mul, h2]
    rw [this]
    simp [pbits]

/-- `pbits` ignores bits at or above position `k` -/
theorem pbits_add_mul (k i j : Nat) : pbits k (i + 2 ^ k * j) = pbits k i := by
  induction k generalizing j with
  | zero => rfl
  | succ k ih =>
    simp only [pbits]
    have h1 : (i + 2 ^ (k + 1) * j) / 2 ^ k % 2 = i / 2 ^ k % 2 := by
      have : i + 2 ^ (k + 1) * j = i + 2 ^ k * (2 * j) := by rw [Nat.pow_succ]; ac_rfl
      rw [this, Nat.add_mul_div_left _ _ (Nat.two_pow_pos k)]
      omega
    have h2 : i + 2 ^ (k + 1) * j = i + 2 ^ k * (2 * j) := by rw [Nat.pow_succ]; ac_rfl
    rw [h1, h2, ih]

@[simp] theorem gbits_one : gbits 1 = [] := by
  simp [gbits, bitLength, Nat.log2_def, pbits]

theorem gbits_two_mul {g : Nat} (h : g ≠ 0) : gbits (2 * g) = gbits g ++ [false] := by
  unfold gbits
  rw [bitLength_two_mul h]
  have hb : bitLength g - 1 + 1 = bitLength g := by rw [bitLength_pos h]; omega
  have := pbits_succ_double (bitLength g - 1) g false
  simp at this
  rw [← this]
  congr 1
  omega

theorem gbits_two_mul_add_one {g : Nat} (h : g ≠ 0) : gbits (2 * g + 1) = gbits g ++ [true] := by
  unfold gbits
  rw [bitLength_two_mul_add_one]
  have hb : bitLength g - 1 + 1 = bitLength g := by rw [bitLength_pos h]; omega
  have := pbits_succ_double (bitLength g - 1) g true
  simp at this
  rw [← this]
  congr 1
  omega

theorem rev_ind {α} {P : List α → Prop} (hnil : P [])
    (hsnoc : ∀ l a, P l → P (l ++ [a])) : ∀ l, P l := by
  intro l
  rw [← List.reverse_reverse l]
  induction l.reverse with
  | nil => simpa using hnil
  | cons a t ih => simpa using hsnoc _ a ih

theorem gindexOfPath_append (p : List Bool) (b : Bool) :
    gindexOfPath (p ++ [b]) = 2 * gindexOfPath p + (if b then 1 else 0) := by
  simp [gindexOfPath, List.foldl_append]

theorem gindexOfPath_pos (p : List Bool) : gindexOfPath p ≠ 0 := by
  induction p using rev_ind with
  | hnil => simp [gindexOfPath]
  | hsnoc p b ih => rw [gindexOfPath_append]; cases b <;> simp <;> omega

/-- `gbits` inverts `gindexOfPath`: every path is the bit string of exactly one gindex -/
theorem gbits_gindexOfPath (p : List Bool) : gbits (gindexOfPath p) = p := by
  induction p using rev_ind with
  | hnil => simp [gindexOfPath]
  | hsnoc p b ih =>
    rw [gindexOfPath_append]
    cases b
    · simp [gbits_two_mul (gindexOfPath_pos p), ih]
    · simp [gbits_two_mul_add_one (gindexOfPath_pos p), ih]

/-- strong induction on a positive gindex via halving -/
theorem gindex_induction {P : Nat → Prop} (h1 : P 1)
    (h2 : ∀ g, g ≠ 0 → P g → P (2 * g)) (h3 : ∀ g, g ≠ 0 → P g → P (2 * g + 1)) :
    ∀ g, g ≠ 0 → P g := by
  intro g
  induction g using Nat.strongRecOn with
  | _ g ih =>
    intro hg
    by_cases hone : g = 1
    · subst hone; exact h1
    · have hlt : g / 2 < g := by omega
      have hne : g / 2 ≠ 0 := by omega
      have := ih (g / 2) hlt hne
      rcases Nat.mod_two_eq_zero_or_one g with hm | hm
      · have : g = 2 * (g / 2) := by omega
        rw [this]; exact h2 _ hne ‹_›
      · have : g = 2 * (g / 2) + 1 := by omega
        rw [this]; exact h3 _ hne ‹_›

theorem gindexOfPath_gbits {g : Nat} (h : g ≠ 0) : gindexOfPath (gbits g) = g := by
  refine gindex_induction (P := fun g => gindexOfPath (gbits g) = g) ?_ ?_ ?_ g h
  · simp [gindexOfPath]
  · intro g hg ih; simp only [gbits_two_mul hg, gindexOfPath_append, ih]; simp
  · intro g hg ih; simp only [gbits_two_mul_add_one hg, gindexOfPath_append, ih]; simp

/-- `to_gindex(i, d)` addresses the path `pbits d i` -/
theorem gbits_toGindex (i d g : Nat) (h : toGindex i d = some g) : gbits g = pbits d i := by
  unfold toGindex at h
  split at h
  · simp at h
  · rename_i hlt
    simp at h; subst h
    have hlt : i < 2 ^ d := by omega
    unfold gbits
    have hbl : bitLength (2 ^ d + i) = d + 1 := by
      have hne : 2 ^ d + i ≠ 0 := by have := Nat.two_pow_pos d; omega
      rw [bitLength_pos hne]
      congr 1
      rw [Nat.log2_eq_iff hne]
      constructor
      · omega
      · rw [Nat.pow_succ]; omega
    rw [hbl]
    simp only [Nat.add_sub_cancel]
    have := pbits_add_mul d i 1
    simp at this
    rw [Nat.add_comm]; exact this

end Rmk
